//go:build verif
// +build verif

package mocks

// C20 binding: the cases TLC generates from spec/Mocks.tla (producer mocks) and
// spec/MocksCons.tla (consumer mock) are replayed, operation by operation, on the REAL
// mocks with a recording ErrorReporter, a recording (pass-through) partitioner and
// recording checker functions. What the mocks did is logged as NDJSON for the total
// observer spec/MocksTrace.tla, which decides every clause.

import (
	"encoding/json"
	"fmt"
	"os"
	"runtime"
	"sort"
	"strconv"
	"strings"
	"sync"
	"testing"
	"time"

	"github.com/Shopify/sarama"
)

// TestVerifNothing exists so that `bin/check --setup` can compile the whole harness.
func TestVerifNothing(t *testing.T) {}

type mOp struct {
	Op    string `json:"op"`
	Kind  string `json:"kind"`
	Topic string `json:"topic"`
	Key   string `json:"key"`
	Mpart int    `json:"mpart"`
	N     int    `json:"n"`
	Bad   int    `json:"bad"` // send: 1 = the partitioner fails for this message; batch: position of that message (0 = none)
	// consumer
	P   int    `json:"p"`
	Off int    `json:"off"`
	W   string `json:"w"`
	Id  int    `json:"id"`
}

type mCase struct {
	Comp string `json:"comp"`
	Mode string `json:"mode"`
	Pk   string `json:"pk"`
	Npa  int    `json:"npa"`
	Npd  int    `json:"npd"`
	Rets bool   `json:"rets"`
	Ops  []mOp  `json:"ops"`
}

// ---------------------------------------------------------------- recording reporter

// recReporter records every ErrorReporter call structurally: WHEN it happened (the calls are taken
// after every step of the scripted run, so a call belongs to the step during which the mock made
// it) and the ARGUMENTS passed to Errorf. The format string is kept as an informational field only
// ("reptxt" in the events); no verdict depends on the wording of a report.
type recReporter struct {
	mu    sync.Mutex
	calls [][]string // arguments of every call since the last take, rendered value by value
	texts []string   // format strings (information only)
	total int        // calls so far
	sig   chan struct{}
	argID func(interface{}) string // optional: identity of harness-owned values (scripted errors)
	delay time.Duration            // slowed reporter: a call is recorded only after this long (see acloseMock)
}

func (r *recReporter) setDelay(d time.Duration) {
	r.mu.Lock()
	r.delay = d
	r.mu.Unlock()
}

func (r *recReporter) Errorf(format string, args ...interface{}) {
	vals := make([]string, 0, len(args))
	for _, a := range args {
		if r.argID != nil {
			if id := r.argID(a); id != "" {
				vals = append(vals, id)
				continue
			}
		}
		vals = append(vals, fmt.Sprint(a))
	}
	r.mu.Lock()
	d := r.delay
	r.mu.Unlock()
	if d > 0 {
		time.Sleep(d) // like a slow testing.T: the report is "made" when Errorf returns
	}
	r.mu.Lock()
	r.calls = append(r.calls, vals)
	r.texts = append(r.texts, format)
	r.total++
	r.mu.Unlock()
	if r.sig != nil {
		select {
		case r.sig <- struct{}{}:
		default:
		}
	}
}

// take returns (arguments, format strings) of the calls made since the previous take.
func (r *recReporter) take() ([][]string, []string) {
	r.mu.Lock()
	defer r.mu.Unlock()
	out, txt := r.calls, r.texts
	r.calls, r.texts = nil, nil
	if out == nil {
		out, txt = [][]string{}, []string{}
	}
	return out, txt
}

// ---------------------------------------------------------------- producer harness

type scriptErr struct{ id int }

func (e *scriptErr) Error() string { return "scripted failure e" + strconv.Itoa(e.id) }

type checkErr struct{ id int }

const checkErrPrefix = "verif checker failure #"

func (e *checkErr) Error() string { return checkErrPrefix + strconv.Itoa(e.id) }

// partErr is what the recording partitioner returns for a message marked "bad".
type partErr struct{ mid int }

const partErrPrefix = "verif partitioner failure #"

func (e *partErr) Error() string { return partErrPrefix + strconv.Itoa(e.mid) }

type partCall struct{ mid, n, p int }

type prodHarness struct {
	mu    sync.Mutex
	rep   *recReporter
	sig   chan struct{}
	order []partCall    // partitioner invocations in call order (since the last takeOrder)
	asked int           // partitioner invocations so far
	chk   map[int][]int // message id -> ids of the expectations whose checker saw it
	cfail int           // failing-checker invocations so far
	bad   map[int]bool  // messages for which the partitioner must fail
	pfail int           // partitioner failures so far
	nexp  int
	async *AsyncProducer
	sync  *SyncProducer
}

type recPartitioner struct {
	inner sarama.Partitioner
	h     *prodHarness
}

func midOf(msg *sarama.ProducerMessage) int {
	if id, ok := msg.Metadata.(int); ok {
		return id
	}
	return -1
}

func (p *recPartitioner) Partition(msg *sarama.ProducerMessage, n int32) (int32, error) {
	p.h.mu.Lock()
	bad := p.h.bad[midOf(msg)]
	p.h.mu.Unlock()
	var r int32
	var err error
	if bad { // a partitioner that cannot place this message (the inner partitioner is not consulted)
		r, err = -1, &partErr{midOf(msg)}
	} else {
		r, err = p.inner.Partition(msg, n)
	}
	p.h.mu.Lock()
	p.h.order = append(p.h.order, partCall{midOf(msg), int(n), int(r)})
	p.h.asked++
	if bad {
		p.h.pfail++
	}
	p.h.mu.Unlock()
	select {
	case p.h.sig <- struct{}{}:
	default:
	}
	return r, err
}

func (p *recPartitioner) RequiresConsistency() bool { return p.inner.RequiresConsistency() }

func newProdHarness(c *mCase) *prodHarness {
	h := &prodHarness{sig: make(chan struct{}, 1024), chk: map[int][]int{}, bad: map[int]bool{}}
	h.rep = &recReporter{sig: h.sig, argID: func(a interface{}) string {
		// the mocks report a failing checker with err.Error(): recognise OUR checker errors by value
		if str, ok := a.(string); ok {
			for pre, tag := range map[string]string{checkErrPrefix: "c", partErrPrefix: "p"} {
				if strings.HasPrefix(str, pre) {
					if _, err := strconv.Atoi(str[len(pre):]); err == nil {
						return tag + str[len(pre):]
					}
				}
			}
		}
		if e, ok := a.(error); ok {
			if id := errID(e); id != "other" {
				return id
			}
		}
		return ""
	}}
	cfg := sarama.NewConfig()
	cfg.Producer.Return.Successes = c.Rets
	cfg.Producer.Return.Errors = true
	var inner sarama.PartitionerConstructor
	switch c.Pk {
	case "manual":
		inner = sarama.NewManualPartitioner
	case "hash":
		inner = sarama.NewHashPartitioner
	default:
		inner = sarama.NewRoundRobinPartitioner
	}
	cfg.Producer.Partitioner = func(topic string) sarama.Partitioner {
		return &recPartitioner{inner: inner(topic), h: h}
	}
	if c.Mode == "async" {
		h.async = NewAsyncProducer(h.rep, cfg)
		if c.Npa > 0 {
			h.async.SetPartitions(map[string]int32{"ta": int32(c.Npa)})
		}
		if c.Npd != 32 { // 32 = the default of NewTopicConfig is left alone
			h.async.SetDefaultPartitions(int32(c.Npd))
		}
	} else {
		h.sync = NewSyncProducer(h.rep, cfg)
		if c.Npa > 0 {
			h.sync.SetPartitions(map[string]int32{"ta": int32(c.Npa)})
		}
		if c.Npd != 32 { // 32 = the default of NewTopicConfig is left alone
			h.sync.SetDefaultPartitions(int32(c.Npd))
		}
	}
	return h
}

func (h *prodHarness) noteChk(expID, mid int, fails bool) {
	h.mu.Lock()
	h.chk[mid] = append(h.chk[mid], expID)
	if fails {
		h.cfail++
	}
	h.mu.Unlock()
}

// expect registers expectation number id of the given kind; odd ids use the MessageChecker
// flavour of the API, even ids the ValueChecker flavour (the value is "v<mid>").
func (h *prodHarness) expect(kind string, id int) {
	fails := kind == "XS" || kind == "XF"
	var cerr error
	if fails {
		cerr = &checkErr{id}
	}
	mc := func(msg *sarama.ProducerMessage) error {
		h.noteChk(id, midOf(msg), fails)
		return cerr
	}
	vc := func(val []byte) error {
		mid, err := strconv.Atoi(strings.TrimPrefix(string(val), "v"))
		if err != nil {
			mid = -1
		}
		h.noteChk(id, mid, fails)
		return cerr
	}
	serr := &scriptErr{id}
	useMsg := id%2 == 1
	if h.async != nil {
		switch kind {
		case "S":
			h.async.ExpectInputAndSucceed()
		case "F":
			h.async.ExpectInputAndFail(serr)
		case "CS", "XS":
			if useMsg {
				h.async.ExpectInputWithMessageCheckerFunctionAndSucceed(mc)
			} else {
				h.async.ExpectInputWithCheckerFunctionAndSucceed(vc)
			}
		case "CF", "XF":
			if useMsg {
				h.async.ExpectInputWithMessageCheckerFunctionAndFail(mc, serr)
			} else {
				h.async.ExpectInputWithCheckerFunctionAndFail(vc, serr)
			}
		}
		return
	}
	switch kind {
	case "S":
		h.sync.ExpectSendMessageAndSucceed()
	case "F":
		h.sync.ExpectSendMessageAndFail(serr)
	case "CS", "XS":
		if useMsg {
			h.sync.ExpectSendMessageWithMessageCheckerFunctionAndSucceed(mc)
		} else {
			h.sync.ExpectSendMessageWithCheckerFunctionAndSucceed(vc)
		}
	case "CF", "XF":
		if useMsg {
			h.sync.ExpectSendMessageWithMessageCheckerFunctionAndFail(mc, serr)
		} else {
			h.sync.ExpectSendMessageWithCheckerFunctionAndFail(vc, serr)
		}
	}
}

func errID(err error) string {
	switch e := err.(type) {
	case nil:
		return "-"
	case *scriptErr:
		return "e" + strconv.Itoa(e.id)
	case *checkErr:
		return "c" + strconv.Itoa(e.id)
	case *partErr:
		return "p" + strconv.Itoa(e.mid)
	}
	if err == errOutOfExpectations {
		return "noexp"
	}
	return "other" // any error that is neither scripted by the harness nor the mocks' sentinel (its text is irrelevant)
}

func newMsg(mid int, topic, key string, mpart int) *sarama.ProducerMessage {
	m := &sarama.ProducerMessage{Topic: topic, Partition: int32(mpart), Metadata: mid,
		Value: sarama.StringEncoder("v" + strconv.Itoa(mid))}
	if key != "-" {
		m.Key = sarama.StringEncoder(key)
	}
	return m
}

// guard runs fn with a watchdog and converts a panic / hang of the code under test into a string.
func guard(d time.Duration, fn func()) string {
	done := make(chan string, 1)
	go func() {
		defer func() {
			if r := recover(); r != nil {
				done <- fmt.Sprintf("panic: %v", r)
			}
		}()
		fn()
		done <- ""
	}()
	select {
	case s := <-done:
		return s
	case <-time.After(d):
		return "hang: no return within " + d.String()
	}
}

// handled = messages the mock has visibly started to handle: it asked the partitioner (the
// message found an expectation) or it reported to the ErrorReporter without asking (the message
// found none). The only other reports the producer mocks make while handling a message follow a
// failing checker or a failing partitioner of OURS, so those are subtracted (whatever their wording).
func (h *prodHarness) handled() int {
	h.mu.Lock()
	a, cf := h.asked, h.cfail+h.pfail
	h.mu.Unlock()
	h.rep.mu.Lock()
	defer h.rep.mu.Unlock()
	if extra := h.rep.total - cf; extra > 0 {
		return a + extra
	}
	return a
}

// signal time-outs seen so far in this run: a mock that neither asks the partitioner nor reports
// must not eat the budget, so after a few of them the wait shrinks to a millisecond (the outcomes
// are then picked up by a later event of the case; Close waits for the mock's goroutine anyway).
var slowSignals int

// pending returns the number of expectations the async mock still holds.
func (h *prodHarness) pending() int {
	h.async.l.Lock()
	defer h.async.l.Unlock()
	return len(h.async.expectations)
}

// waitHandled waits until the mock has started to handle `target` messages in total (k of them
// were just submitted while the mock held n0 expectations). Returns false on time-out, i.e. when
// the mock neither asked its partitioner nor reported for some message; then it falls back on the
// mock's own state: the input channel must be empty and min(n0, k) expectations must be gone
// (popping the expectation is the first thing the mock does for a message, under its mutex).
func (h *prodHarness) waitHandled(target, n0, k int) bool {
	d := 5 * time.Second // never reached by a mock that asks its partitioner / reports, however loaded the machine is
	if slowSignals >= 2 {
		d = time.Millisecond
	}
	deadline := time.After(d)
	for h.handled() < target {
		select {
		case <-h.sig:
		case <-deadline:
			slowSignals++
			if h.async != nil {
				if k > n0 {
					k = n0
				}
				for i := 0; i < 40000 && (len(h.async.input) > 0 || h.pending() > n0-k); i++ {
					time.Sleep(50 * time.Microsecond)
				}
				time.Sleep(500 * time.Microsecond)
			}
			return false
		}
	}
	return true
}

// barrier: everything the async mock does for one message happens while it holds mp.l.
func (h *prodHarness) barrier() {
	if h.async != nil {
		h.async.l.Lock()
		//lint:ignore SA2001 empty critical section is the point
		h.async.l.Unlock()
	}
}

// drain collects whatever is on the async mock's output channels right now.
func (h *prodHarness) drain() [][]interface{} {
	outs := [][]interface{}{}
	if h.async == nil {
		return outs
	}
	sc, ec := h.async.Successes(), h.async.Errors()
	for sc != nil || ec != nil {
		select {
		case m, ok := <-sc:
			if !ok {
				sc = nil
				continue
			}
			outs = append(outs, []interface{}{midOf(m), "succ", "-", int(m.Offset), int(m.Partition)})
		case e, ok := <-ec:
			if !ok {
				ec = nil
				continue
			}
			outs = append(outs, []interface{}{midOf(e.Msg), "err", errID(e.Err), -1, int(e.Msg.Partition)})
		default:
			return outs
		}
	}
	return outs
}

func (h *prodHarness) takeOrder() []partCall {
	h.mu.Lock()
	defer h.mu.Unlock()
	o := h.order
	h.order = nil
	return o
}

func (h *prodHarness) chkOf(mid int) []int {
	h.mu.Lock()
	defer h.mu.Unlock()
	if c := h.chk[mid]; c != nil {
		return c
	}
	return []int{}
}

func syncOut(mid int, part int32, off int64, err error) []interface{} {
	if err == nil {
		return []interface{}{mid, "succ", "-", int(off), int(part)}
	}
	return []interface{}{mid, "err", errID(err), int(off), int(part)}
}

func (h *prodHarness) send(rec *vRec, mid int, op mOp) {
	msg := newMsg(mid, op.Topic, op.Key, op.Mpart)
	if op.Bad == 1 {
		h.mu.Lock()
		h.bad[mid] = true
		h.mu.Unlock()
	}
	outs := [][]interface{}{}
	var bad string
	if h.async != nil {
		target, n0 := h.handled()+1, h.pending()
		bad = guard(5*time.Second, func() { h.async.Input() <- msg })
		if bad == "" {
			h.waitHandled(target, n0, 1)
			h.barrier()
		}
		outs = h.drain()
	} else {
		var part int32
		var off int64
		var err error
		bad = guard(5*time.Second, func() { part, off, err = h.sync.SendMessage(msg) })
		if bad == "" {
			outs = append(outs, syncOut(mid, part, off, err))
		}
	}
	pc := []int{-1, -1}
	for _, c := range h.takeOrder() {
		if c.mid == mid {
			pc = []int{c.n, c.p}
		}
	}
	rep, txt := h.rep.take()
	rec.Ev("send", kv{"mid": mid, "topic": op.Topic, "key": op.Key, "mpart": op.Mpart, "bad": op.Bad, "outs": outs,
		"mp": int(msg.Partition), "pcall": pc, "chk": h.chkOf(mid), "rep": rep, "reptxt": txt, "err": bad})
}

func (h *prodHarness) batch(rec *vRec, first int, c *mCase, n, badPos int) {
	msgs := make([]*sarama.ProducerMessage, n)
	desc := [][]interface{}{}
	for i := range msgs {
		key, mpart := "-", 0
		if c.Pk == "hash" {
			key = "key2"
		}
		if c.Pk == "manual" {
			mpart = 1
		}
		msgs[i] = newMsg(first+i, "ta", key, mpart)
		isBad := 0
		if i+1 == badPos {
			isBad = 1
			h.mu.Lock()
			h.bad[first+i] = true
			h.mu.Unlock()
		}
		desc = append(desc, []interface{}{first + i, "ta", key, mpart, isBad})
	}
	var err error
	bad := guard(5*time.Second, func() { err = h.sync.SendMessages(msgs) })
	after := [][]int{}
	for i, m := range msgs {
		after = append(after, []int{first + i, int(m.Partition), int(m.Offset)})
	}
	h.takeOrder()
	rep, txt := h.rep.take()
	rec.Ev("batch", kv{"n": n, "msgs": desc, "ret": errID(err), "after": after, "rep": rep, "reptxt": txt, "err": bad})
}

func (h *prodHarness) closeMock(rec *vRec) {
	var bad string
	if h.async != nil {
		bad = guard(5*time.Second, func() { _ = h.async.Close() })
	} else {
		bad = guard(5*time.Second, func() { _ = h.sync.Close() })
	}
	rep, txt := h.rep.take()
	rec.Ev("close", kv{"how": "close", "outs": h.drain(), "rep": rep, "reptxt": txt, "late": [][]string{}, "err": bad})
}

// acloseMock is the other shutdown path of the async mock: AsyncClose(), then drain Successes() and
// Errors() until both are closed - that is the completion signal a user of AsyncClose has. The reports
// made until then ("rep") and the ones made only afterwards ("late", collected until the mock's
// goroutine has ended) are recorded separately. The reporter is slowed during this step so that a
// report which the mock starts only after closing the channels cannot slip into "rep" by luck.
func (h *prodHarness) acloseMock(rec *vRec) {
	h.rep.setDelay(10 * time.Millisecond)
	outs := [][]interface{}{}
	bad := guard(5*time.Second, func() {
		h.async.AsyncClose()
		sc, ec := h.async.Successes(), h.async.Errors()
		for sc != nil || ec != nil {
			select {
			case m, ok := <-sc:
				if !ok {
					sc = nil
					continue
				}
				outs = append(outs, []interface{}{midOf(m), "succ", "-", int(m.Offset), int(m.Partition)})
			case e, ok := <-ec:
				if !ok {
					ec = nil
					continue
				}
				outs = append(outs, []interface{}{midOf(e.Msg), "err", errID(e.Err), -1, int(e.Msg.Partition)})
			}
		}
	})
	rep, txt := h.rep.take() // the completion signal has just been observed
	if bad == "" {
		select {
		case <-h.async.closed:
		case <-time.After(5 * time.Second):
			bad = "hang: the mock's goroutine did not end within 5s after AsyncClose"
		}
	}
	late, ltxt := h.rep.take()
	h.rep.setDelay(0)
	rec.Ev("close", kv{"how": "aclose", "outs": outs, "rep": rep, "reptxt": append(txt, ltxt...), "late": late, "err": bad})
}

// csend submits all messages from concurrent goroutines (after the expectations were set).
func (h *prodHarness) csend(rec *vRec, ops []mOp) {
	n := len(ops)
	msgs := make([]*sarama.ProducerMessage, n)
	desc := [][]interface{}{}
	for i, op := range ops {
		msgs[i] = newMsg(i+1, op.Topic, op.Key, op.Mpart)
		if op.Bad == 1 {
			h.mu.Lock()
			h.bad[i+1] = true
			h.mu.Unlock()
		}
		desc = append(desc, []interface{}{i + 1, op.Topic, op.Key, op.Mpart, op.Bad})
	}
	target, n0 := h.handled()+n, 0
	if h.async != nil {
		n0 = h.pending()
	}
	outs := make([][]interface{}, 0, n)
	var omu sync.Mutex
	start := make(chan struct{})
	var wg sync.WaitGroup
	for i := range msgs {
		wg.Add(1)
		go func(i int) {
			defer wg.Done()
			<-start
			if h.async != nil {
				h.async.Input() <- msgs[i]
				return
			}
			part, off, err := h.sync.SendMessage(msgs[i])
			omu.Lock()
			outs = append(outs, syncOut(i+1, part, off, err))
			omu.Unlock()
		}(i)
	}
	bad := guard(10*time.Second, func() { close(start); wg.Wait() })
	if h.async != nil && bad == "" {
		h.waitHandled(target, n0, n)
		h.barrier()
		outs = h.drain()
	}
	order := [][]int{}
	for _, c := range h.takeOrder() {
		order = append(order, []int{c.mid, c.p})
	}
	mps := [][]interface{}{}
	for i, m := range msgs {
		mps = append(mps, []interface{}{i + 1, int(m.Partition), h.chkOf(i + 1)})
	}
	rep, txt := h.rep.take()
	omu.Lock()
	rec.Ev("csend", kv{"msgs": desc, "order": order, "outs": outs, "mps": mps, "rep": rep, "reptxt": txt, "err": bad})
	omu.Unlock()
}

func runProducerCase(rec *vRec, c *mCase, conc bool) {
	// expectations set before the first message are part of the reset event ("script"), later ones
	// are events of their own
	script := []string{}
	for _, op := range c.Ops {
		if op.Op != "expect" {
			break
		}
		script = append(script, op.Kind)
	}
	rec.Reset(kv{"what": "prod", "mode": c.Mode, "pk": c.Pk, "npa": c.Npa, "npd": c.Npd, "rets": c.Rets, "conc": conc, "script": script})
	h := newProdHarness(c)
	mid := 0
	if conc {
		var sends []mOp
		for _, op := range c.Ops {
			switch op.Op {
			case "expect":
				h.nexp++
				h.expect(op.Kind, h.nexp)
				if h.nexp > len(script) {
					rec.Ev("expect", kv{"kind": op.Kind})
				}
			case "send":
				sends = append(sends, op)
			}
		}
		h.csend(rec, sends)
		h.closeMock(rec)
		return
	}
	closed := false
	for _, op := range c.Ops {
		switch op.Op {
		case "expect":
			h.nexp++
			h.expect(op.Kind, h.nexp)
			if h.nexp > len(script) {
				rec.Ev("expect", kv{"kind": op.Kind})
			}
		case "send":
			mid++
			h.send(rec, mid, op)
		case "setparts":
			// one more TopicConfig.SetPartitions call on the same mock (the async mock is idle: every
			// earlier message was waited for)
			if h.async != nil {
				h.async.SetPartitions(map[string]int32{op.Topic: int32(op.N)})
			} else {
				h.sync.SetPartitions(map[string]int32{op.Topic: int32(op.N)})
			}
			rec.Ev("setparts", kv{"topic": op.Topic, "n": op.N})
		case "batch":
			h.batch(rec, mid+1, c, op.N, op.Bad)
			mid += op.N
		case "close":
			h.closeMock(rec)
			closed = true
		case "aclose":
			h.acloseMock(rec)
			closed = true
		}
	}
	if !closed && h.async != nil {
		go h.async.Close()
	}
}

// ---------------------------------------------------------------- consumer harness

type consErr struct{ id int }

func (e *consErr) Error() string { return "scripted consumer error " + strconv.Itoa(e.id) }

// consumer slots (spec/MocksOracle.tla): topic "tc" partitions 0, 1 = slots 0, 1; topic "td"
// partitions 0, 1 = slots 2, 3; slot 9 = ("tc", 9) is never registered.
func slotTopic(s int) string {
	if s == 2 || s == 3 {
		return "td"
	}
	return "tc"
}

func slotPart(s int) int32 {
	if s == 9 {
		return 9
	}
	return int32(s % 2)
}

// topic metadata configurations (MetaTopics / MetaParts of the oracle)
func metaConfig(v int) map[string][]int32 {
	if v == 1 {
		return map[string][]int32{"tc": {0, 1}}
	}
	return map[string][]int32{"tc": {0}, "td": {0, 1, 2}}
}

func consErrIDs(errs sarama.ConsumerErrors, p int) []int {
	out := []int{}
	for _, e := range errs {
		out = append(out, consErrID(e, p))
	}
	return out
}

func consErrID(e *sarama.ConsumerError, p int) int {
	ce, ok := e.Err.(*consErr)
	if !ok || e.Topic != slotTopic(p) || e.Partition != slotPart(p) {
		return -2
	}
	return ce.id
}

// feeder: a goroutine that calls YieldMessage for a script of messages, as a test feeding a
// consumer under test from the side would.
type feeder struct {
	slot int
	done chan struct{}
}

// feederLoop is a named function so that the feeder goroutine can be found in a goroutine dump.
func feederLoop(pc *PartitionConsumer, slot, n int, done chan struct{}) {
	defer close(done)
	defer func() { _ = recover() }() // a feeder cut off by a closed channel must not kill the run
	for k := 1; k <= n; k++ {
		pc.YieldMessage(&sarama.ConsumerMessage{Value: []byte("m" + strconv.Itoa(10*slot+k))})
	}
}

// atRest waits until the feeder goroutine has finished or is provably blocked (its goroutine is
// parked in a channel operation / lock inside YieldMessage according to the runtime's goroutine dump).
func (f *feeder) atRest() string {
	buf := make([]byte, 1<<16)
	deadline := time.Now().Add(5 * time.Second)
	for {
		select {
		case <-f.done:
			return ""
		default:
		}
		n := runtime.Stack(buf, true)
		for _, g := range strings.Split(string(buf[:n]), "\n\n") {
			if !strings.Contains(g, "mocks.feederLoop") {
				continue
			}
			hdr := g
			if i := strings.Index(g, "\n"); i >= 0 {
				hdr = g[:i]
			}
			for _, st := range []string{"[chan send", "[select", "[semacquire", "[sync."} {
				if strings.Contains(hdr, st) {
					return ""
				}
			}
		}
		if time.Now().After(deadline) {
			return "hang: the feeder neither finished nor blocked within 5s"
		}
		time.Sleep(20 * time.Microsecond)
	}
}

func runConsumerCase(rec *vRec, c *mCase) {
	rec.Reset(kv{"what": "cons", "mode": "-", "pk": "rr", "npa": 1, "npd": 1, "rets": true, "conc": false, "script": []string{}})
	rep := &recReporter{}
	var cfg *sarama.Config
	for _, op := range c.Ops {
		if op.Op == "feed" { // a fed case runs on a mock with the scripted channel buffer size
			cfg = sarama.NewConfig()
			cfg.ChannelBufferSize = op.Off
		}
	}
	cons := NewConsumer(rep, cfg)
	mocks := map[int]*PartitionConsumer{}
	handles := map[int]sarama.PartitionConsumer{}
	var fd *feeder
	defer func() {
		// let a feeder that is still blocked run to its end (nobody closes the channels under it)
		if fd != nil {
			for {
				select {
				case <-fd.done:
					return
				case <-handles[fd.slot].Messages():
				case <-time.After(5 * time.Second):
					return
				}
			}
		}
	}()
	for _, op := range c.Ops {
		ret := "ok"
		val := []interface{}{0, 0, 0, "-"}
		errs := []int{}
		strs := []string{}
		p := op.P
		topic, part := slotTopic(p), slotPart(p)
		bad := guard(5*time.Second, func() {
			switch op.Op {
			case "expect":
				mocks[p] = cons.ExpectConsumePartition(topic, part, int64(op.Off))
			case "yieldmsg":
				m := &sarama.ConsumerMessage{Value: []byte("m" + strconv.Itoa(op.Id))}
				mocks[p].YieldMessage(m)
				val = []interface{}{op.Id, int(m.Offset), int(m.Partition), m.Topic}
			case "yielderr":
				mocks[p].YieldError(&consErr{op.Id})
			case "drain":
				if op.W == "m" {
					mocks[p].ExpectMessagesDrainedOnClose()
				} else {
					mocks[p].ExpectErrorsDrainedOnClose()
				}
			case "consume":
				pc, err := cons.ConsumePartition(topic, part, int64(op.Off))
				switch {
				case err == nil:
					handles[p] = pc
				case err == errOutOfExpectations:
					ret = "noexp"
				default:
					if _, ok := err.(sarama.ConfigurationError); ok {
						ret = "already"
					} else {
						ret = "other"
					}
				}
			case "feed":
				fd = &feeder{slot: p, done: make(chan struct{})}
				go feederLoop(mocks[p], p, op.Id, fd.done)
			case "readmsg":
				var wait <-chan time.Time // nil: do not wait (the message must be there already)
				if fd != nil && fd.slot == p {
					wait = time.After(5 * time.Second) // fed slot: the message is handed over by the feeder
				}
				if wait != nil {
					select {
					case m, ok := <-handles[p].Messages():
						if !ok {
							val = []interface{}{-1, -1, -1, "closed"}
						} else {
							mid, err := strconv.Atoi(strings.TrimPrefix(string(m.Value), "m"))
							if err != nil {
								mid = -1
							}
							val = []interface{}{mid, int(m.Offset), int(m.Partition), m.Topic}
						}
					case <-wait:
						val = []interface{}{-1, -1, -1, "empty"}
					}
					break
				}
				select {
				case m, ok := <-handles[p].Messages():
					if !ok {
						val = []interface{}{-1, -1, -1, "closed"}
					} else {
						mid, err := strconv.Atoi(strings.TrimPrefix(string(m.Value), "m"))
						if err != nil {
							mid = -1
						}
						val = []interface{}{mid, int(m.Offset), int(m.Partition), m.Topic}
					}
				default:
					val = []interface{}{-1, -1, -1, "empty"}
				}
			case "readerr":
				select {
				case e, ok := <-handles[p].Errors():
					if ok {
						errs = append(errs, consErrID(e, p))
					}
				default:
				}
			case "asyncclose":
				handles[p].AsyncClose()
			case "closepc":
				err := mocks[p].Close()
				switch e := err.(type) {
				case nil:
				case sarama.ConsumerErrors:
					errs = consErrIDs(e, p)
				default:
					if err == errPartitionConsumerNotStarted {
						ret = "notstarted"
					} else {
						ret = "other"
					}
				}
			case "closeall":
				if err := cons.Close(); err != nil {
					ret = "other"
				}
			case "setmeta":
				cons.SetTopicMetadata(metaConfig(op.Id))
			case "topics":
				ts, err := cons.Topics()
				switch {
				case err == nil:
					strs = append(strs, ts...)
					sort.Strings(strs)
				case err == sarama.ErrOutOfBrokers:
					ret = "outofbrokers"
				default:
					ret = "other"
				}
			case "partitions":
				ps, err := cons.Partitions(op.W)
				switch {
				case err == nil:
					for _, q := range ps {
						errs = append(errs, int(q))
					}
				case err == sarama.ErrOutOfBrokers:
					ret = "outofbrokers"
				case err == sarama.ErrUnknownTopicOrPartition:
					ret = "unknowntopic"
				default:
					ret = "other"
				}
			}
		})
		if fd != nil && bad == "" {
			bad = fd.atRest() // observe the read APIs with the feeder blocked in its send or finished
		}
		// read APIs after every step: PartitionConsumer.HighWaterMarkOffset() of every registered slot and
		// the complete Consumer.HighWaterMarks() map (entry per slot, -1 = the map has no such entry)
		hwm := []int{-1, -1, -1, -1}
		hwms := []int{-1, -1, -1, -1}
		if bad == "" {
			all := cons.HighWaterMarks()
			for q := 0; q < 4; q++ {
				if m := mocks[q]; m != nil {
					hwm[q] = int(m.HighWaterMarkOffset())
				}
				if v, ok := all[slotTopic(q)][slotPart(q)]; ok {
					hwms[q] = int(v)
				}
			}
		}
		reps, txt := rep.take()
		rec.Ev("cop", kv{"op": op.Op, "p": op.P, "off": op.Off, "w": op.W, "id": op.Id, "ret": ret, "val": val,
			"errs": errs, "strs": strs, "hwm": hwm, "hwms": hwms, "rep": reps, "reptxt": txt, "err": bad})
	}
	rec.Ev("cend", kv{"n": len(c.Ops)})
}

// ---------------------------------------------------------------- driver

func TestVerifMocks(t *testing.T) {
	rec := vOpenRec(t, "trace.ndjson")
	defer rec.Close()
	counts := map[string]int{}
	var samples []interface{}
	run := func(env string, conc bool) {
		if os.Getenv(env) == "" {
			return
		}
		for _, line := range vReadLines(t, env) {
			var c mCase
			if err := json.Unmarshal([]byte(line), &c); err != nil {
				t.Fatalf("bad case %q: %v", line, err)
			}
			switch {
			case c.Comp == "cons":
				runConsumerCase(rec, &c)
				counts["consumer"]++
			case conc:
				runProducerCase(rec, &c, true)
				counts["concurrent_"+c.Mode]++
			default:
				runProducerCase(rec, &c, false)
				counts[c.Mode]++
			}
			if len(samples) < 2 && len(c.Ops) >= 5 {
				samples = append(samples, json.RawMessage(line))
			}
		}
	}
	run("VERIF_CASES", false)
	run("VERIF_CASES_CONC", true)
	rec.mu.Lock()
	events := rec.events
	rec.mu.Unlock()
	vWriteJSON(t, "summary.json", kv{"cases": counts, "events": events, "samples": samples})
}
