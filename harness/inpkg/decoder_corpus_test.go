//go:build verif
// +build verif

package sarama

// C10 harness, part 1: the corpus of VALID encodings ("subjects") that are mutated
// structurally. Every subject names a real decode entry point of sarama (the function a
// client runs on bytes it does not control), one valid encoding for it and, for record
// carrying types, how to read the records that surfaced.
//
// Deterministic on purpose (no seed, maps get one entry): worker processes rebuild the
// corpus independently and must arrive at exactly the same bytes.

import (
	"crypto/sha1"
	"encoding/binary"
	"encoding/hex"
	"fmt"
	"hash/crc32"
	"io"
	"net"
	"reflect"
	"sort"
	"strings"
	"time"
)

type vdSubject struct {
	name  string // type (and flavour)
	ver   int16
	valid []byte // the valid encoding the tape is recorded on ("inner" bytes when wrap != nil)
	// tape decodes buf through the recording wrapper (same decode method as run, fed with a
	// vdTapeDec instead of a bare realDecoder)
	tape func(buf []byte, tp *vdTape) error
	// wrap turns (mutated) inner bytes into the bytes handed to run: a VALID outer layer
	// (compressed wrapper message / record batch with correct length and CRC). nil = identity.
	wrap func(inner []byte) []byte
	// run is the REAL entry point; it returns the digests of the records that surfaced
	run func(buf []byte) ([]string, error)
	// runAt decodes with another protocol version than the bytes were written in (what a
	// client does when the broker answers in a version the client did not ask for)
	runAt    func(buf []byte, ver int16) ([]string, error)
	vers     []int16                   // the versions with a distinct layout for this type
	extra    func(tp *vdTape) []vdCase // subject-specific additional cases
	allowKiB int                       // allocation the subject legitimately makes besides the proportional bound
	altLens  []int                     // further plausible-but-wrong values for length fields (e.g. the length of the inner set)
	hasRecs  bool
	comp     bool // a compressed payload is involved (allocation clause allows for inflation)
}

func (s *vdSubject) final(inner []byte) []byte {
	if s.wrap == nil {
		return inner
	}
	return s.wrap(inner)
}

// ---------------------------------------------------------------- response registry

var vdResponseCtors = []func() protocolBody{
	func() protocolBody { return &CreateAclsResponse{} },
	func() protocolBody { return &DeleteAclsResponse{} },
	func() protocolBody { return &DescribeAclsResponse{} },
	func() protocolBody { return &AddOffsetsToTxnResponse{} },
	func() protocolBody { return &AddPartitionsToTxnResponse{} },
	func() protocolBody { return &AlterConfigsResponse{} },
	func() protocolBody { return &AlterPartitionReassignmentsResponse{} },
	func() protocolBody { return &AlterUserScramCredentialsResponse{} },
	func() protocolBody { return &ApiVersionsResponse{} },
	func() protocolBody { return &ConsumerMetadataResponse{} },
	func() protocolBody { return &CreatePartitionsResponse{} },
	func() protocolBody { return &CreateTopicsResponse{} },
	func() protocolBody { return &DeleteGroupsResponse{} },
	func() protocolBody { return &DeleteRecordsResponse{} },
	func() protocolBody { return &DeleteTopicsResponse{} },
	func() protocolBody { return &DescribeConfigsResponse{} },
	func() protocolBody { return &DescribeGroupsResponse{} },
	func() protocolBody { return &DescribeLogDirsResponse{} },
	func() protocolBody { return &DescribeUserScramCredentialsResponse{} },
	func() protocolBody { return &EndTxnResponse{} },
	func() protocolBody { return &FindCoordinatorResponse{} },
	func() protocolBody { return &HeartbeatResponse{} },
	func() protocolBody { return &IncrementalAlterConfigsResponse{} },
	func() protocolBody { return &InitProducerIDResponse{} },
	func() protocolBody { return &JoinGroupResponse{} },
	func() protocolBody { return &LeaveGroupResponse{} },
	func() protocolBody { return &ListGroupsResponse{} },
	func() protocolBody { return &ListPartitionReassignmentsResponse{} },
	func() protocolBody { return &MetadataResponse{} },
	func() protocolBody { return &OffsetCommitResponse{} },
	func() protocolBody { return &OffsetFetchResponse{} },
	func() protocolBody { return &OffsetResponse{} },
	func() protocolBody { return &ProduceResponse{} },
	func() protocolBody { return &SaslAuthenticateResponse{} },
	func() protocolBody { return &SaslHandshakeResponse{} },
	func() protocolBody { return &SyncGroupResponse{} },
	func() protocolBody { return &TxnOffsetCommitResponse{} },
	// FetchResponse is built by hand (vdFetchSubjects): Records is a union type
}

const vdMaxProbeVersion = 14

// ---------------------------------------------------------------- reflective filler

var (
	vdTimeType     = reflect.TypeOf(time.Time{})
	vdDurationType = reflect.TypeOf(time.Duration(0))
	vdBrokerPtr    = reflect.TypeOf(&Broker{})
	vdKErrorType   = reflect.TypeOf(KError(0))
)

type vdFiller struct {
	n   int
	ver int16
}

func (f *vdFiller) next() int { f.n++; return f.n }

func (f *vdFiller) fill(v reflect.Value, depth int) {
	t := v.Type()
	switch {
	case t == vdTimeType:
		v.Set(reflect.ValueOf(time.Unix(1600000000+int64(f.next()), 0).UTC()))
		return
	case t == vdDurationType:
		v.SetInt(int64(time.Duration(f.next()%50+1) * time.Millisecond))
		return
	case t == vdBrokerPtr:
		k := f.next()
		rack := fmt.Sprintf("r%d", k)
		v.Set(reflect.ValueOf(&Broker{id: int32(k%7 + 1), addr: fmt.Sprintf("h%d:%d", k, 9000+k%90), rack: &rack}))
		return
	case t == vdKErrorType:
		v.SetInt(int64(f.next() % 2 * 3))
		return
	}
	switch t.Kind() {
	case reflect.Bool:
		v.SetBool(f.next()%2 == 0)
	case reflect.Int8:
		v.SetInt(int64(f.next()%3 + 1))
	case reflect.Int16, reflect.Int32, reflect.Int64, reflect.Int:
		v.SetInt(int64(f.next()%90 + 1))
	case reflect.Uint8, reflect.Uint16, reflect.Uint32, reflect.Uint64:
		v.SetUint(uint64(f.next()%90 + 1))
	case reflect.String:
		v.SetString(fmt.Sprintf("s%d", f.next()))
	case reflect.Ptr:
		if depth > 12 {
			return
		}
		e := t.Elem()
		if e.Kind() == reflect.Struct && e.PkgPath() != "" && !strings.HasSuffix(e.PkgPath(), "sarama") {
			return
		}
		nv := reflect.New(e)
		f.fill(nv.Elem(), depth+1)
		v.Set(nv)
	case reflect.Slice:
		if depth > 12 {
			return
		}
		if t.Elem().Kind() == reflect.Uint8 {
			k := f.next()
			v.SetBytes([]byte{byte(k), byte(k + 1), byte(k + 2)})
			return
		}
		s := reflect.MakeSlice(t, 2, 2)
		for i := 0; i < 2; i++ {
			f.fill(s.Index(i), depth+1)
		}
		v.Set(s)
	case reflect.Map:
		if depth > 12 {
			return
		}
		m := reflect.MakeMap(t)
		k := reflect.New(t.Key()).Elem()
		f.fill(k, depth+1)
		e := reflect.New(t.Elem()).Elem()
		f.fill(e, depth+1)
		m.SetMapIndex(k, e)
		v.Set(m)
	case reflect.Struct:
		if t.PkgPath() != "" && !strings.HasSuffix(t.PkgPath(), "sarama") {
			return
		}
		for i := 0; i < t.NumField(); i++ {
			sf := t.Field(i)
			if sf.PkgPath != "" { // unexported
				continue
			}
			fv := v.Field(i)
			if sf.Name == "Version" && (fv.Kind() == reflect.Int16) {
				fv.SetInt(int64(f.ver))
				continue
			}
			f.fill(fv, depth+1)
		}
	}
}

func vdTypeName(x interface{}) string {
	return strings.TrimPrefix(reflect.TypeOf(x).String(), "*sarama.")
}

// vdTryEncode runs fn with panics turned into errors (a response value the filler made that
// the encoder does not like is simply not part of the corpus).
func vdTry(fn func() error) (err error) {
	defer func() {
		if r := recover(); r != nil {
			err = fmt.Errorf("panic: %v", r)
		}
	}()
	return fn()
}

type vdSkip struct {
	Name string `json:"name"`
	Ver  int    `json:"ver"`
	Why  string `json:"why"`
}

// vdResponseSubjects: for every response type and every version whose layout (bytes or
// primitive tape) differs from all lower versions of that type, one filled valid encoding.
func vdResponseSubjects(skips *[]vdSkip) []*vdSubject {
	var out []*vdSubject
	for _, ctor := range vdResponseCtors {
		ctor := ctor
		name := vdTypeName(ctor())
		seen := map[string]bool{}
		first := len(out)
		for ver := int16(0); ver <= vdMaxProbeVersion; ver++ {
			ver := ver
			val := ctor()
			(&vdFiller{ver: ver}).fill(reflect.ValueOf(val).Elem(), 0)
			var buf []byte
			err := vdTry(func() error {
				var e error
				buf, e = encode(val, nil)
				return e
			})
			if err != nil {
				*skips = append(*skips, vdSkip{name, int(ver), "encode: " + err.Error()})
				continue
			}
			tapeFn := func(b []byte, tp *vdTape) error {
				x := ctor().(versionedDecoder)
				td := vdNewTapeDec(b, tp)
				if err := x.decode(td, ver); err != nil {
					return err
				}
				if td.rd.off != len(b) {
					return PacketDecodingError{"invalid length"}
				}
				return nil
			}
			tp := &vdTape{}
			sig := ""
			if err := vdTry(func() error { return tapeFn(buf, tp) }); err != nil {
				if !strings.HasPrefix(err.Error(), "panic:") {
					*skips = append(*skips, vdSkip{name, int(ver), "valid encoding does not decode: " + err.Error()})
					continue
				}
				// a panic while decoding a valid encoding is not a reason to drop the subject: the worker decodes it
				// again under its guard and records the panic as a result
				sig = "panicked|"
			} else {
				sig = tp.signature() + "|"
			}
			sig += hex.EncodeToString(buf)
			if seen[sig] {
				continue
			}
			seen[sig] = true
			out = append(out, &vdSubject{
				name: name, ver: ver, valid: buf, tape: tapeFn,
				run: func(b []byte) ([]string, error) {
					return nil, versionedDecode(b, ctor().(versionedDecoder), ver)
				},
				runAt: func(b []byte, v int16) ([]string, error) {
					return nil, versionedDecode(b, ctor().(versionedDecoder), v)
				},
			})
		}
		var vers []int16
		for _, s := range out[first:] {
			vers = append(vers, s.ver)
		}
		for _, s := range out[first:] {
			s.vers = vers
		}
	}
	return out
}

// ---------------------------------------------------------------- records digests

func vdDigest(parts ...interface{}) string {
	h := sha1.New()
	for _, p := range parts {
		fmt.Fprintf(h, "%T:%v|", p, p)
	}
	return hex.EncodeToString(h.Sum(nil))[:10]
}

// the checksummed content of a v2 record (offset delta / timestamp delta are inside the CRC too)
func vdRecordDigest(r *Record) string {
	if r == nil {
		return "nil"
	}
	var hs []interface{}
	for _, h := range r.Headers {
		if h == nil {
			hs = append(hs, "nilhdr")
			continue
		}
		hs = append(hs, h.Key == nil, string(h.Key), h.Value == nil, string(h.Value))
	}
	return vdDigest("rec", r.Attributes, int64(r.TimestampDelta), r.OffsetDelta, r.Key == nil, string(r.Key), r.Value == nil, string(r.Value), fmt.Sprint(hs...))
}

func vdBatchDigests(b *RecordBatch) []string {
	var out []string
	if b == nil {
		return out
	}
	for _, r := range b.Records {
		out = append(out, vdRecordDigest(r))
	}
	if b.PartialTrailingRecord {
		out = append(out, vdPartialMark)
	}
	return out
}

// vdPartialMark: the decoder itself flagged what it returned as incomplete (partial trailing message / batch,
// overflow message, partial fetch block) - the documented way of dropping a cut-off tail
const vdPartialMark = "~partial"

// vdCutMark separates the batches of a fetch block in the digest list: FetchResponseBlock.decode drops whole
// trailing batches it cannot complete once it has decoded at least one ("not an error" by design)
const vdCutMark = "~cut"

// the checksummed content of a legacy message (the offset is outside the CRC)
func vdMsgSetDigests(ms *MessageSet, out []string, depth int) []string {
	if ms == nil || depth > 4 {
		return out
	}
	if ms.PartialTrailingMessage || ms.OverflowMessage {
		out = append(out, vdPartialMark)
	}
	for _, blk := range ms.Messages {
		if blk == nil || blk.Msg == nil {
			out = append(out, "nil")
			continue
		}
		m := blk.Msg
		if m.Set != nil {
			out = vdMsgSetDigests(m.Set, out, depth+1)
			continue
		}
		ts := int64(0)
		if m.Version >= 1 && !m.Timestamp.IsZero() {
			ts = m.Timestamp.UnixNano() / 1e6
		}
		out = append(out, vdDigest("msg", m.Version, int8(m.Codec), m.LogAppendTime, ts, m.Key == nil, string(m.Key), m.Value == nil, string(m.Value)))
	}
	return out
}

// vdTouchRecords makes the calls a consumer makes on a decoded Records value (consumer.go parseResponse): they
// run on data the client does not control, inside the same guard as the decode.
func vdTouchRecords(r *Records) {
	if r == nil {
		return
	}
	_, _ = r.numRecords()
	_, _ = r.isPartial()
	_, _ = r.isOverflow()
	if ctl, err := r.isControl(); err == nil && ctl {
		_, _ = r.getControlRecord()
	}
	if r.RecordBatch != nil {
		_ = r.RecordBatch.LastOffset()
	}
}

func vdRecordsDigests(r *Records, out []string) []string {
	if r == nil {
		return out
	}
	vdTouchRecords(r)
	if r.MsgSet != nil {
		out = vdMsgSetDigests(r.MsgSet, out, 0)
	}
	if r.RecordBatch != nil {
		out = append(out, vdBatchDigests(r.RecordBatch)...)
	}
	return out
}

func vdFetchDigests(fr *FetchResponse) []string {
	out := []string{}
	var topics []string
	for t := range fr.Blocks {
		topics = append(topics, t)
	}
	sort.Strings(topics)
	for _, t := range topics {
		var parts []int
		for p := range fr.Blocks[t] {
			parts = append(parts, int(p))
		}
		sort.Ints(parts)
		for _, p := range parts {
			b := fr.Blocks[t][int32(p)]
			if b == nil {
				continue
			}
			_, _ = b.numRecords()
			_, _ = b.isPartial()
			_ = b.getAbortedTransactions()
			vdTouchRecords(b.Records)
			if b.Partial {
				out = append(out, vdPartialMark)
			}
			for _, rs := range b.RecordsSet {
				out = vdRecordsDigests(rs, out)
				out = append(out, vdCutMark) // end of one batch / message set of the block
			}
		}
	}
	return out
}

// ---------------------------------------------------------------- hand-built subjects

func vdMustEncode(e encoder) []byte {
	b, err := encode(e, nil)
	if err != nil {
		panic("vd corpus: " + err.Error())
	}
	return b
}

func vdPlainDecodeSubject(name string, ver int16, valid []byte, mk func() decoder, dig func(decoder) []string) *vdSubject {
	return &vdSubject{
		name: name, ver: ver, valid: valid,
		tape: func(b []byte, tp *vdTape) error {
			td := vdNewTapeDec(b, tp)
			if err := mk().decode(td); err != nil {
				return err
			}
			if td.rd.off != len(b) {
				return PacketDecodingError{"invalid length"}
			}
			return nil
		},
		run: func(b []byte) ([]string, error) {
			x := mk()
			err := decode(b, x)
			if err != nil || dig == nil {
				return nil, err
			}
			return dig(x), nil
		},
		hasRecs: dig != nil,
	}
}

var vdCodecs = []CompressionCodec{CompressionNone, CompressionGZIP, CompressionSnappy, CompressionLZ4, CompressionZSTD}

func vdTestRecords() []*Record {
	return []*Record{
		{Key: []byte("k1"), Value: []byte("value-one"), Headers: []*RecordHeader{{Key: []byte("hk"), Value: []byte("hv")}}},
		{Key: nil, Value: []byte("value-two"), OffsetDelta: 1, TimestampDelta: 3 * time.Millisecond},
		{Key: []byte("k3"), Value: nil, OffsetDelta: 2, TimestampDelta: 4 * time.Millisecond,
			Headers: []*RecordHeader{{Key: []byte("a"), Value: nil}, {Key: []byte("b"), Value: []byte("c")}}},
	}
}

func vdTestBatch(codec CompressionCodec, control bool) *RecordBatch {
	b := &RecordBatch{
		FirstOffset: 40, PartitionLeaderEpoch: 2, Version: 2, Codec: codec, CompressionLevel: CompressionLevelDefault,
		LastOffsetDelta: 2, FirstTimestamp: time.Unix(1600000000, 0).UTC(), MaxTimestamp: time.Unix(1600000001, 0).UTC(),
		ProducerID: 9, ProducerEpoch: 1, FirstSequence: 5, Records: vdTestRecords(),
	}
	if control {
		b.Control = true
		b.IsTransactional = true
		b.Records = []*Record{{Key: []byte{0, 0, 0, 1}, Value: []byte{0, 0, 0, 0, 0, 7}}}
		b.LastOffsetDelta = 0
	}
	return b
}

func vdTestMsgSet(version int8, codec CompressionCodec) *MessageSet {
	mk := func(k, v string, i int) *MessageBlock {
		m := &Message{Version: version, Value: []byte(v), CompressionLevel: CompressionLevelDefault}
		if k != "" {
			m.Key = []byte(k)
		}
		if version >= 1 {
			m.Timestamp = time.Unix(1600000000+int64(i), 0).UTC()
		}
		return &MessageBlock{Offset: int64(i), Msg: m}
	}
	inner := &MessageSet{Messages: []*MessageBlock{mk("k1", "legacy-one", 0), mk("", "legacy-two", 1), mk("k3", "legacy-three", 2)}}
	if codec == CompressionNone {
		return inner
	}
	raw := vdMustEncode(inner)
	w := &Message{Version: version, Codec: codec, CompressionLevel: CompressionLevelDefault, Value: raw}
	if version >= 1 {
		w.Timestamp = time.Unix(1600000002, 0).UTC()
	}
	return &MessageSet{Messages: []*MessageBlock{{Offset: 2, Msg: w}}}
}

// vdTestMsgSetMulti: three blocks, each a COMPRESSED wrapper around its own small inner set (first / middle / last
// block of a set each have their own length and CRC field). Returns the set and the inner-set lengths.
func vdTestMsgSetMulti(version int8, codec CompressionCodec) (*MessageSet, []int) {
	var blocks []*MessageBlock
	var inner []int
	off := int64(0)
	for w := 0; w < 3; w++ {
		in := &MessageSet{}
		for k := 0; k <= w%2; k++ {
			m := &Message{Version: version, Key: []byte(fmt.Sprintf("k%d%d", w, k)), Value: []byte(fmt.Sprintf("wrapped-%d-%d", w, k)),
				CompressionLevel: CompressionLevelDefault}
			if version >= 1 {
				m.Timestamp = time.Unix(1600000000+off, 0).UTC()
			}
			in.Messages = append(in.Messages, &MessageBlock{Offset: off, Msg: m})
			off++
		}
		raw := vdMustEncode(in)
		inner = append(inner, len(raw))
		wm := &Message{Version: version, Codec: codec, CompressionLevel: CompressionLevelDefault, Value: raw}
		if version >= 1 {
			wm.Timestamp = time.Unix(1600000000+off, 0).UTC()
		}
		blocks = append(blocks, &MessageBlock{Offset: off - 1, Msg: wm})
	}
	return &MessageSet{Messages: blocks}, inner
}

// vdWrapLegacy: inner message-set bytes -> compressed wrapper message inside a valid outer set
func vdWrapLegacy(version int8, codec CompressionCodec) func([]byte) []byte {
	return func(inner []byte) []byte {
		if inner == nil {
			inner = []byte{}
		}
		// Message.encode compresses Value itself (and caches the result between its two passes)
		w := &Message{Version: version, Codec: codec, CompressionLevel: CompressionLevelDefault, Value: inner}
		if version >= 1 {
			w.Timestamp = time.Unix(1600000002, 0).UTC()
		}
		return vdMustEncode(&MessageSet{Messages: []*MessageBlock{{Offset: 2, Msg: w}}})
	}
}

// vdWrapBatch: (mutated) uncompressed records bytes -> valid v2 batch around them
func vdWrapBatch(codec CompressionCodec, nrec int) func([]byte) []byte {
	return func(inner []byte) []byte {
		payload, err := compress(codec, CompressionLevelDefault, inner)
		if err != nil {
			panic(err)
		}
		if payload == nil {
			payload = []byte{}
		}
		b := vdTestBatch(codec, false)
		b.Records = make([]*Record, nrec)
		b.compressedRecords = payload
		return vdMustEncode(b)
	}
}

func vdRecordSubjects() []*vdSubject {
	var out []*vdSubject
	batchDig := func(d decoder) []string {
		r := newDefaultRecords(d.(*RecordBatch))
		vdTouchRecords(&r)
		return vdBatchDigests(d.(*RecordBatch))
	}
	setDig := func(d decoder) []string {
		r := newLegacyRecords(d.(*MessageSet))
		vdTouchRecords(&r)
		return vdMsgSetDigests(d.(*MessageSet), []string{}, 0)
	}
	for _, c := range vdCodecs {
		c := c
		s := vdPlainDecodeSubject("RecordBatch/"+c.String(), 2, vdMustEncode(vdTestBatch(c, false)),
			func() decoder { return &RecordBatch{} }, batchDig)
		s.comp = c != CompressionNone
		out = append(out, s)
		// the records inside the batch (decoded by a fresh decoder after the CRC check): mutate
		// them under a valid batch header
		recs := vdTestRecords()
		inner := vdMustEncode(recordsArray(recs))
		out = append(out, &vdSubject{
			name: "RecordBatch.records/" + c.String(), ver: 2, valid: inner,
			tape: func(b []byte, tp *vdTape) error {
				td := vdNewTapeDec(b, tp)
				if err := recordsArray(make([]*Record, len(recs))).decode(td); err != nil {
					return err
				}
				if td.rd.off != len(b) {
					return PacketDecodingError{"invalid length"}
				}
				return nil
			},
			wrap: vdWrapBatch(c, len(recs)),
			run: func(b []byte) ([]string, error) {
				x := &RecordBatch{}
				if err := decode(b, x); err != nil {
					return nil, err
				}
				return batchDig(x), nil
			},
			hasRecs: true, comp: c != CompressionNone,
		})
	}
	// State carried from one decode to the next (pooled decompressor readers, caches) is part of what is decoded:
	// every call of these subjects first decodes a batch / message whose compressed payload has a corrupt
	// header (an error is expected), then the given bytes with the same codec.
	for _, c := range vdCodecs {
		c := c
		if c == CompressionNone {
			continue
		}
		garbage := []byte{0x00, 0x01, 0x02, 0x03, 0x04, 0x05, 0x06, 0x07, 0x08, 0x09}
		cb := vdTestBatch(c, false)
		cb.Records = make([]*Record, 3)
		cb.compressedRecords = garbage
		corruptBatch := vdMustEncode(cb)
		sb := vdPlainDecodeSubject("RecordBatch.afterCorrupt/"+c.String(), 2, vdMustEncode(vdTestBatch(c, false)),
			func() decoder { return &RecordBatch{} }, batchDig)
		plainRun := sb.run
		sb.run = func(b []byte) ([]string, error) {
			_ = decode(vdExact(corruptBatch), &RecordBatch{})
			return plainRun(b)
		}
		sb.comp = true
		out = append(out, sb)
		// legacy wrapper message: encoded uncompressed, then the codec bits are set and the CRC recomputed
		cm := vdMustEncode(&MessageSet{Messages: []*MessageBlock{{Offset: 1, Msg: &Message{Version: 1, Value: garbage,
			Timestamp: time.Unix(1600000002, 0).UTC()}}}})
		cm[17] = byte(c) // offset(8) size(4) crc(4) magic(1) attributes(1)
		binary.BigEndian.PutUint32(cm[12:], crc32.ChecksumIEEE(cm[16:]))
		sm := vdPlainDecodeSubject("MessageSet.v1.afterCorrupt/"+c.String(), 1, vdMustEncode(vdTestMsgSet(1, c)),
			func() decoder { return &MessageSet{} }, setDig)
		plainRunM := sm.run
		sm.run = func(b []byte) ([]string, error) {
			_ = decode(vdExact(cm), &MessageSet{})
			return plainRunM(b)
		}
		sm.comp = true
		out = append(out, sm)
	}
	out = append(out, vdPlainDecodeSubject("RecordBatch/control", 2, vdMustEncode(vdTestBatch(CompressionNone, true)),
		func() decoder { return &RecordBatch{} }, batchDig))
	out = append(out, vdPlainDecodeSubject("Record", 2, vdMustEncode(vdTestRecords()[2]),
		func() decoder { return &Record{} }, func(d decoder) []string { return []string{vdRecordDigest(d.(*Record))} }))
	for _, mv := range []int8{0, 1} {
		mv := mv
		for _, c := range vdCodecs {
			c := c
			if c == CompressionZSTD && mv == 0 {
				continue
			}
			s := vdPlainDecodeSubject(fmt.Sprintf("MessageSet.v%d/%s", mv, c), int16(mv), vdMustEncode(vdTestMsgSet(mv, c)),
				func() decoder { return &MessageSet{} }, setDig)
			s.comp = c != CompressionNone
			out = append(out, s)
			if c != CompressionNone {
				inner := vdMustEncode(vdTestMsgSet(mv, CompressionNone))
				in := vdPlainDecodeSubject(fmt.Sprintf("MessageSet.v%d.inner/%s", mv, c), int16(mv), inner,
					func() decoder { return &MessageSet{} }, setDig)
				in.wrap = vdWrapLegacy(mv, c)
				in.comp = true
				out = append(out, in)
			}
		}
		for _, c := range vdCodecs {
			if c == CompressionNone || (c == CompressionZSTD && mv == 0) {
				continue
			}
			ms, inner := vdTestMsgSetMulti(mv, c)
			s := vdPlainDecodeSubject(fmt.Sprintf("MessageSet.v%d.multi/%s", mv, c), int16(mv), vdMustEncode(ms),
				func() decoder { return &MessageSet{} }, setDig)
			s.comp = true
			s.altLens = inner
			out = append(out, s)
		}
		// Records.decode on a sub-decoder, as FetchResponseBlock.decode calls it: no "whole buffer consumed" check
		// behind it, what Records.decode returns is what the consumer gets
		for _, c := range vdCodecs {
			c := c
			if c == CompressionZSTD && mv == 0 {
				continue
			}
			var valid []byte
			var alt []int
			if c == CompressionNone {
				valid = vdMustEncode(vdTestMsgSet(mv, c))
			} else {
				ms, inner := vdTestMsgSetMulti(mv, c)
				valid, alt = vdMustEncode(ms), inner
			}
			out = append(out, &vdSubject{
				name: fmt.Sprintf("Records.legacy.v%d/%s", mv, c), ver: int16(mv), valid: valid, altLens: alt,
				tape: func(b []byte, tp *vdTape) error { return (&Records{}).decode(vdNewTapeDec(b, tp)) },
				run: func(b []byte) ([]string, error) {
					r := &Records{}
					if err := r.decode(&realDecoder{raw: b}); err != nil {
						return nil, err
					}
					return vdRecordsDigests(r, []string{}), nil
				},
				hasRecs: true, comp: c != CompressionNone,
			})
		}
		m := vdTestMsgSet(mv, CompressionNone).Messages[0].Msg
		out = append(out, vdPlainDecodeSubject(fmt.Sprintf("Message.v%d", mv), int16(mv), vdMustEncode(m),
			func() decoder { return &Message{} },
			func(d decoder) []string {
				return vdMsgSetDigests(&MessageSet{Messages: []*MessageBlock{{Msg: d.(*Message)}}}, []string{}, 0)
			}))
	}
	// Records.decode on a bare decoder for v2 batches (control and data), and for every batch subject the
	// structural cases "record count := 0 / 1, everything else consistent": the batch re-encoded with that many
	// records (records section, batch length and CRC all right)
	countCases := func(codec CompressionCodec, control bool) func(tp *vdTape) []vdCase {
		return func(tp *vdTape) []vdCase {
			var cs []vdCase
			for _, n := range []int{0, 1} {
				for _, ctl := range []bool{control, !control} {
					b := vdTestBatch(codec, ctl)
					if n < len(b.Records) {
						b.Records = b.Records[:n]
					}
					if n == 0 {
						b.Records = []*Record{}
					}
					b.LastOffsetDelta = 0
					cs = append(cs, vdCase{Kind: "count", Trig: fmt.Sprintf("records=%d,control=%v", n, ctl), Prim: "getArrayLength",
						Caller: "(*RecordBatch).decode", Fix: true, inner: vdMustEncode(b)})
				}
			}
			return cs
		}
	}
	for _, ctl := range []bool{false, true} {
		ctl := ctl
		name := "Records.batch/data"
		if ctl {
			name = "Records.batch/control"
		}
		out = append(out, &vdSubject{
			name: name, ver: 2, valid: vdMustEncode(vdTestBatch(CompressionNone, ctl)),
			tape: func(b []byte, tp *vdTape) error { return (&Records{}).decode(vdNewTapeDec(b, tp)) },
			run: func(b []byte) ([]string, error) {
				r := &Records{}
				if err := r.decode(&realDecoder{raw: b}); err != nil {
					return nil, err
				}
				return vdRecordsDigests(r, []string{}), nil
			},
			hasRecs: true, extra: countCases(CompressionNone, ctl),
		})
	}
	for _, s := range out {
		switch s.name {
		case "RecordBatch/none":
			s.extra = countCases(CompressionNone, false)
		case "RecordBatch/control":
			s.extra = countCases(CompressionNone, true)
		case "RecordBatch/gzip":
			s.extra = countCases(CompressionGZIP, false)
		}
	}
	// "decompression bombs by header": a few bytes whose compression header merely DECLARES a large decoded size
	// (the statement exempts what decompressing legitimately yields - here nothing is yielded, the decode fails)
	bombs := map[CompressionCodec][]byte{
		// snappy block: uvarint decoded length 256 MiB, then one 4-byte literal
		CompressionSnappy: append(vdUvar(256<<20), 0x0c, 0x41, 0x42, 0x43, 0x44),
		// zstd frame: magic, descriptor (single segment, 4-byte content size) = 256 MiB, one raw last block of 1 byte
		CompressionZSTD: {0x28, 0xb5, 0x2f, 0xfd, 0xa0, 0x00, 0x00, 0x00, 0x10, 0x09, 0x00, 0x00, 0x41},
	}
	for _, c := range []CompressionCodec{CompressionSnappy, CompressionZSTD} {
		c := c
		payload := bombs[c]
		for _, s := range out {
			if s.name != "RecordBatch/"+c.String() && s.name != "MessageSet.v1/"+c.String() {
				continue
			}
			legacy := strings.HasPrefix(s.name, "MessageSet")
			s.extra = func(tp *vdTape) []vdCase {
				var b []byte
				if legacy {
					b = vdMustEncode(&MessageSet{Messages: []*MessageBlock{{Offset: 1, Msg: &Message{Version: 1, Value: payload,
						Timestamp: time.Unix(1600000002, 0).UTC()}}}})
					b[17] = byte(c)
					binary.BigEndian.PutUint32(b[12:], crc32.ChecksumIEEE(b[16:]))
				} else {
					cb := vdTestBatch(c, false)
					cb.Records = make([]*Record, 3)
					cb.compressedRecords = payload
					b = vdMustEncode(cb)
				}
				return []vdCase{{Kind: "bomb", Trig: "declared-size=256MiB", Prim: "-", Caller: "-", Fix: true, inner: b}}
			}
		}
	}
	return out
}

func vdFetchSubjects() []*vdSubject {
	var out []*vdSubject
	mk := func(name string, ver int16, fr *FetchResponse, comp bool) {
		fr.Version = ver
		buf := vdMustEncode(fr)
		out = append(out, &vdSubject{
			name: "FetchResponse/" + name, ver: ver, valid: buf,
			tape: func(b []byte, tp *vdTape) error {
				td := vdNewTapeDec(b, tp)
				if err := (&FetchResponse{}).decode(td, ver); err != nil {
					return err
				}
				if td.rd.off != len(b) {
					return PacketDecodingError{"invalid length"}
				}
				return nil
			},
			run: func(b []byte) ([]string, error) {
				x := &FetchResponse{}
				if err := versionedDecode(b, x, ver); err != nil {
					return nil, err
				}
				return vdFetchDigests(x), nil
			},
			runAt: func(b []byte, v int16) ([]string, error) {
				x := &FetchResponse{}
				if err := versionedDecode(b, x, v); err != nil {
					return nil, err
				}
				return vdFetchDigests(x), nil
			},
			vers:    []int16{0, 1, 3, 4, 5, 7, 11},
			hasRecs: true, comp: comp,
		})
	}
	block := func(ver int16, rs ...*Records) *FetchResponseBlock {
		b := &FetchResponseBlock{HighWaterMarkOffset: 50, LastStableOffset: 45, LogStartOffset: 1, PreferredReadReplica: -1}
		if ver >= 4 {
			b.AbortedTransactions = []*AbortedTransaction{{ProducerID: 9, FirstOffset: 40}}
		}
		b.RecordsSet = rs
		return b
	}
	legacy := func(mv int8, c CompressionCodec) *Records {
		r := newLegacyRecords(vdTestMsgSet(mv, c))
		return &r
	}
	batch := func(c CompressionCodec, control bool) *Records {
		r := newDefaultRecords(vdTestBatch(c, control))
		return &r
	}
	for ver := int16(0); ver <= 11; ver++ {
		one := func(b *FetchResponseBlock) *FetchResponse {
			return &FetchResponse{ThrottleTime: 7 * time.Millisecond, SessionID: 3,
				Blocks: map[string]map[int32]*FetchResponseBlock{"topic": {5: b}}}
		}
		mv := int8(0)
		if ver >= 2 {
			mv = 1
		}
		mk(fmt.Sprintf("legacy.v%d", mv), ver, one(block(ver, legacy(mv, CompressionNone))), false)
		if ver == 0 || ver == 3 {
			mk(fmt.Sprintf("legacy.v%d.gzip", mv), ver, one(block(ver, legacy(mv, CompressionGZIP))), true)
			mk(fmt.Sprintf("legacy.v%d.snappy", mv), ver, one(block(ver, legacy(mv, CompressionSnappy))), true)
		}
		if ver <= 3 {
			// Fetch v0-v3 framing around a set of three compressed wrapper blocks
			for _, c := range [][]CompressionCodec{{CompressionGZIP, CompressionSnappy}, {CompressionLZ4, CompressionGZIP},
				{CompressionSnappy, CompressionZSTD}, {CompressionGZIP, CompressionSnappy, CompressionLZ4, CompressionZSTD}}[ver] {
				ms, inner := vdTestMsgSetMulti(mv, c)
				r := newLegacyRecords(ms)
				mk(fmt.Sprintf("legacy.v%d.multi.%s", mv, c), ver, one(block(ver, &r)), true)
				out[len(out)-1].altLens = inner
			}
		}
		if ver >= 4 {
			mk("batch", ver, one(block(ver, batch(CompressionNone, false))), false)
		}
		if ver == 4 || ver == 11 {
			mk("batch+control", ver, one(block(ver, batch(CompressionNone, false), batch(CompressionNone, true))), false)
			mk("batch.lz4", ver, one(block(ver, batch(CompressionLZ4, false))), true)
			mk("batch.zstd", ver, one(block(ver, batch(CompressionZSTD, false))), true)
			mk("empty", ver, one(block(ver)), false)
		}
	}
	return out
}

func vdGroupSubjects() []*vdSubject {
	var out []*vdSubject
	out = append(out, vdPlainDecodeSubject("ConsumerGroupMemberMetadata", 0,
		vdMustEncode(&ConsumerGroupMemberMetadata{Version: 1, Topics: []string{"t1", "topic2"}, UserData: []byte{1, 2, 3}}),
		func() decoder { return &ConsumerGroupMemberMetadata{} }, nil))
	out = append(out, vdPlainDecodeSubject("ConsumerGroupMemberAssignment", 0,
		vdMustEncode(&ConsumerGroupMemberAssignment{Version: 1, Topics: map[string][]int32{"t1": {0, 1, 2}}, UserData: []byte{4, 5}}),
		func() decoder { return &ConsumerGroupMemberAssignment{} }, nil))
	sticky := func(name string, valid []byte, mk func() decoder) *vdSubject {
		s := vdPlainDecodeSubject(name, 0, valid, mk, nil)
		s.run = func(b []byte) ([]string, error) {
			ud, err := deserializeTopicPartitionAssignment(b)
			if err == nil && ud != nil {
				_ = ud.partitions()
				_ = ud.generation()
			}
			return nil, err
		}
		return s
	}
	out = append(out, sticky("StickyAssignorUserDataV0", vdMustEncode(&StickyAssignorUserDataV0{Topics: map[string][]int32{"t1": {0, 2}}}),
		func() decoder { return &StickyAssignorUserDataV0{} }))
	out = append(out, sticky("StickyAssignorUserDataV1", vdMustEncode(&StickyAssignorUserDataV1{Topics: map[string][]int32{"t1": {1, 3}}, Generation: 4}),
		func() decoder { return &StickyAssignorUserDataV1{} }))
	for hv := int16(0); hv <= 1; hv++ {
		hv := hv
		valid := []byte{0, 0, 0, 20, 0, 0, 0, 7}
		if hv == 1 {
			valid = append(valid, 0)
		}
		out = append(out, &vdSubject{
			name: "responseHeader", ver: hv, valid: valid,
			tape: func(b []byte, tp *vdTape) error {
				td := vdNewTapeDec(b, tp)
				if err := (&responseHeader{}).decode(td, hv); err != nil {
					return err
				}
				if td.rd.off != len(b) {
					return PacketDecodingError{"invalid length"}
				}
				return nil
			},
			run: func(b []byte) ([]string, error) { return nil, versionedDecode(b, &responseHeader{}, hv) },
		})
	}
	// the helpers consumers call on bytes written by other group members
	jg := &JoinGroupResponse{GroupProtocol: "p", LeaderId: "m1", MemberId: "m1", GenerationId: 1}
	meta := vdMustEncode(&ConsumerGroupMemberMetadata{Version: 1, Topics: []string{"t1"}, UserData: []byte{9}})
	_ = jg
	out = append(out, &vdSubject{
		name: "JoinGroupResponse.GetMembers", ver: 0, valid: meta,
		tape: func(b []byte, tp *vdTape) error {
			td := vdNewTapeDec(b, tp)
			if err := (&ConsumerGroupMemberMetadata{}).decode(td); err != nil {
				return err
			}
			if td.rd.off != len(b) {
				return PacketDecodingError{"invalid length"}
			}
			return nil
		},
		run: func(b []byte) ([]string, error) {
			r := &JoinGroupResponse{Members: map[string][]byte{"m1": b}}
			_, err := r.GetMembers()
			return nil, err
		},
	})
	asg := vdMustEncode(&ConsumerGroupMemberAssignment{Version: 1, Topics: map[string][]int32{"t1": {0, 1}}, UserData: []byte{4}})
	out = append(out, &vdSubject{
		name: "SyncGroupResponse.GetMemberAssignment", ver: 0, valid: asg,
		tape: func(b []byte, tp *vdTape) error {
			td := vdNewTapeDec(b, tp)
			if err := (&ConsumerGroupMemberAssignment{}).decode(td); err != nil {
				return err
			}
			if td.rd.off != len(b) {
				return PacketDecodingError{"invalid length"}
			}
			return nil
		},
		run: func(b []byte) ([]string, error) {
			r := &SyncGroupResponse{MemberAssignment: b}
			_, err := r.GetMemberAssignment()
			return nil, err
		},
	})
	return out
}

// ---------------------------------------------------------------- whole frames through a real Broker

// vdFrameRun: a raw loopback server reads one request and answers with exactly the given bytes, then closes;
// a REAL Broker (broker.go: sendAndReceive, responseReceiver, response_header.go) makes the call. The call
// must return a value or an error; a panic in the receiver goroutine kills the worker process (observed by
// the parent), a call that never returns is a hang.
func vdFrameRun(hv int16) func([]byte) ([]string, error) {
	return func(frame []byte) ([]string, error) {
		ln, err := net.Listen("tcp", "127.0.0.1:0")
		if err != nil {
			return nil, nil // no verdict possible about sarama: treated like a valid run (never happens on loopback)
		}
		defer ln.Close()
		go func() {
			c, err := ln.Accept()
			if err != nil {
				return
			}
			defer c.Close()
			c.SetDeadline(time.Now().Add(5 * time.Second))
			hdr := make([]byte, 4)
			if _, err := io.ReadFull(c, hdr); err != nil {
				return
			}
			if _, err := io.CopyN(io.Discard, c, int64(binary.BigEndian.Uint32(hdr))); err != nil {
				return
			}
			c.Write(frame)
		}()
		conf := NewConfig()
		conf.Version = V2_4_0_0
		conf.Net.DialTimeout = 2 * time.Second
		conf.Net.ReadTimeout = 2 * time.Second
		conf.Net.WriteTimeout = 2 * time.Second
		b := NewBroker(ln.Addr().String())
		if err := b.Open(conf); err != nil {
			return nil, err
		}
		defer b.Close()
		if hv == 0 {
			_, err = b.GetMetadata(&MetadataRequest{Version: 1, Topics: []string{"t"}})
		} else {
			_, err = b.ListPartitionReassignments(&ListPartitionReassignmentsRequest{TimeoutMs: 1000})
		}
		return nil, err
	}
}

func vdFrameSubjects() []*vdSubject {
	var out []*vdSubject
	for hv := int16(0); hv <= 1; hv++ {
		hv := hv
		var body []byte
		name := "Broker.frame/MetadataRequest.v1"
		if hv == 0 {
			rack := "r"
			body = vdMustEncode(&MetadataResponse{Version: 1, ControllerID: 1,
				Brokers: []*Broker{{id: 1, addr: "h1:9092", rack: &rack}},
				Topics:  []*TopicMetadata{{Name: "t", Partitions: []*PartitionMetadata{{ID: 0, Leader: 1, Replicas: []int32{1}, Isr: []int32{1}}}}}})
		} else {
			name = "Broker.frame/ListPartitionReassignmentsRequest.v0"
			r := &ListPartitionReassignmentsResponse{}
			r.AddBlock("t", 0, []int32{1, 2}, []int32{2}, []int32{1})
			body = vdMustEncode(r)
		}
		hl := 4
		if hv == 1 {
			hl = 5
		}
		frame := make([]byte, 4, 8+hl+len(body))
		binary.BigEndian.PutUint32(frame, uint32(hl+len(body)))
		frame = append(frame, 0, 0, 0, 0) // correlation id of the first request of a fresh Broker
		if hv == 1 {
			frame = append(frame, 0)
		}
		hdrLen := len(frame)
		frame = append(frame, body...)
		out = append(out, &vdSubject{
			name: name, ver: hv, valid: frame,
			tape: func(b []byte, tp *vdTape) error {
				if len(b) < hdrLen {
					return ErrInsufficientData
				}
				return (&responseHeader{}).decode(vdNewTapeDec(b[:hdrLen], tp), hv)
			},
			run: vdFrameRun(hv),
			extra: func(tp *vdTape) []vdCase {
				// frame lengths around the header size, and around the response size cap
				var cs []vdCase
				for _, l := range []int{1, 3, 4, 5, 7, 8, 9, int(MaxResponseSize), int(MaxResponseSize) + 1} {
					for _, cut := range []bool{false, true} {
						b := append([]byte(nil), frame...)
						binary.BigEndian.PutUint32(b, uint32(l))
						if cut { // nothing behind the header
							b = b[:hdrLen]
						}
						cs = append(cs, vdCase{Kind: "frame", Trig: fmt.Sprintf("framelen=%d", l), Prim: "getInt32", Caller: "(*responseHeader).decode", Pos: 0, inner: b})
					}
				}
				return cs
			},
			// the receiver allocates what the frame announces, up to MaxResponseSize (the documented cap), plus
			// connection / metrics set-up
			allowKiB: int(MaxResponseSize)/1024 + 4096,
		})
	}
	return out
}

// vdCorpus builds the whole corpus, in a fixed order.
func vdCorpus() ([]*vdSubject, []vdSkip) {
	var skips []vdSkip
	var out []*vdSubject
	out = append(out, vdGroupSubjects()...)
	out = append(out, vdFrameSubjects()...)
	out = append(out, vdRecordSubjects()...)
	out = append(out, vdFetchSubjects()...)
	out = append(out, vdResponseSubjects(&skips)...)
	return out, skips
}
