//go:build verif
// +build verif

package sarama

// Trace recording for the REPOSITORY'S OWN test suite: when VERIF_REPOSUITE names a directory,
// the verifPoint hook writes the partition-worker events (pp.recv / pp.flush) and the feeder
// events (pc.*) of every producer / consumer the pinned tests create. The instance an event
// belongs to is the goroutine that emitted it (a partitionProducer's dispatch goroutine, a
// partitionConsumer's responseFeeder goroutine): the runner regroups the events by instance and
// validates every instance against spec/PpConfTrace.tla and spec/FeederConfTrace.tla.
// Nothing here runs unless the variable is set; the tests themselves are not touched.

import (
	"os"
	"path/filepath"
	"runtime"
	"strconv"
	"sync"
)

func vGoID() int {
	var buf [64]byte
	b := buf[:runtime.Stack(buf[:], false)]
	// "goroutine 123 ["
	n := 0
	for _, c := range b[len("goroutine "):] {
		if c < '0' || c > '9' {
			break
		}
		n = n*10 + int(c-'0')
	}
	return n
}

func init() {
	dir := os.Getenv("VERIF_REPOSUITE")
	if dir == "" {
		return
	}
	pf, err1 := os.Create(filepath.Join(dir, "pp.raw.ndjson"))
	cf, err2 := os.Create(filepath.Join(dir, "pc.raw.ndjson"))
	if err1 != nil || err2 != nil {
		panic("VERIF_REPOSUITE: cannot create trace files")
	}
	var mu sync.Mutex
	seq := 0
	emit := func(f *os.File, s string) {
		mu.Lock()
		seq++
		f.WriteString(`{"seq":` + strconv.Itoa(seq) + `,"g":` + strconv.Itoa(vGoID()) + "," + s + "}\n")
		mu.Unlock()
	}
	b := func(v bool) string {
		if v {
			return "true"
		}
		return "false"
	}
	verifHook = func(point string, args ...interface{}) {
		switch point {
		case "pp.recv":
			if m, ok := args[0].(*ProducerMessage); ok {
				h, _ := args[1].(int)
				emit(pf, `"ev":"pp_recv","id":0,"retries":`+strconv.Itoa(m.retries)+`,"fin":`+b(m.flags&fin != 0)+`,"hwm":`+strconv.Itoa(h))
			}
		case "pp.flush":
			lv, _ := args[2].(int)
			emit(pf, `"ev":"pp_flush","level":`+strconv.Itoa(lv))
		case "pc.parsed":
			n, _ := args[1].(int)
			emit(cf, `"ev":"pc_parsed","n":`+strconv.Itoa(n)+`,"err":`+strconv.Quote(errClassAny(args[2])))
		case "pc.sent":
			off, _ := args[1].(int64)
			emit(cf, `"ev":"pc_sent","off":`+strconv.FormatInt(off, 10))
		case "pc.tick":
			f, _ := args[1].(bool)
			emit(cf, `"ev":"pc_tick","first":`+b(f))
		case "pc.resub":
			emit(cf, `"ev":"pc_resub"`)
		case "pc.done":
			emit(cf, `"ev":"pc_done"`)
		}
	}
}
