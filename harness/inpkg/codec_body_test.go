//go:build verif
// +build verif

package sarama

// C09 part 2 binding: every protocol body x version (requests from allocateBody, the matching
// responses), record batches and legacy message sets under every codec, alone and nested in
// produce / fetch bodies. Values come from a seeded structural filler (reflection). Tape
// wrappers around packetEncoder / packetDecoder record every primitive cell (kind, width, wire
// bytes) of the sizing pass, the writing pass, the decode, the re-encode and the second decode;
// spec/CodecTrace.tla judges the recorded run. The wrappers only delegate and log.

import (
	"crypto/sha1"
	"encoding/binary"
	"encoding/hex"
	"fmt"
	"hash/crc32"
	"math"
	"math/rand"
	"reflect"
	"runtime"
	"runtime/debug"
	"sort"
	"strconv"
	"strings"
	"testing"
	"time"
	"unsafe"

	"github.com/rcrowley/go-metrics"
)

// ---------------------------------------------------------------- tapes

type cbTape struct {
	cells []string // "kind:hexbytes" (writing pass, decode) or "kind:width" (sizing pass)
	kw    []string // "kind:width" projection
}

func (t *cbTape) add(kind string, b []byte, width int) {
	if width == 0 && kind == "raw" {
		return // an empty payload has no presence on the wire
	}
	t.kw = append(t.kw, kind+":"+strconv.Itoa(width))
	if b == nil {
		t.cells = append(t.cells, kind+":"+strconv.Itoa(width))
		return
	}
	if len(b) > 24 {
		h := sha1.Sum(b)
		t.cells = append(t.cells, kind+":"+strconv.Itoa(len(b))+"#"+hex.EncodeToString(h[:8]))
		return
	}
	t.cells = append(t.cells, kind+":"+hex.EncodeToString(b))
}

// multiset difference of two tapes, "-cell" only in a, "+cell" only in b (a cause signature for findings)
func cbDiff(a, b []string) string {
	cnt := map[string]int{}
	for _, c := range a {
		cnt[c]++
	}
	for _, c := range b {
		cnt[c]--
	}
	var out []string
	for c, n := range cnt {
		for ; n > 0; n-- {
			out = append(out, "-"+c)
		}
		for ; n < 0; n++ {
			out = append(out, "+"+c)
		}
	}
	sort.Strings(out)
	if len(out) > 8 {
		out = append(out[:8], "...")
	}
	return strings.Join(out, " ")
}

func cbCanon(cells []string) string {
	c := append([]string(nil), cells...)
	sort.Strings(c)
	return strings.Join(c, " ")
}

type cbLay struct {
	kind  string
	width int
}

// ---------------------------------------------------------------- encoder wrapper

type cbPush struct {
	Kind  int   // 1 lengthField, 2 varintLengthField, 3 crc IEEE, 4 crc Castagnoli, 0 other
	Start int   // offset of the field
	End   int   // offset at the pop (writing pass) / after the pop (sizing pass)
	W     int   // width of the field after the pop
	B     []int // field bytes (writing pass)
	C     []int // independent CRC over raw[Start+4:End] (writing pass, CRC fields)
}

type cbOpenPush struct {
	in    pushEncoder
	start int
}

type cbEnc struct {
	inner  packetEncoder
	re     *realEncoder // nil in the sizing pass
	tape   *cbTape
	pushes []cbPush
	open   []cbOpenPush
}

func (e *cbEnc) rec(before int, lay ...cbLay) {
	off := before
	for _, l := range lay {
		if e.re != nil {
			e.tape.add(l.kind, e.re.raw[off:off+l.width], l.width)
		} else {
			e.tape.add(l.kind, nil, l.width)
		}
		off += l.width
	}
}

func (e *cbEnc) putInt8(in int8) {
	b := e.inner.offset()
	e.inner.putInt8(in)
	e.rec(b, cbLay{"f1", 1})
}
func (e *cbEnc) putInt16(in int16) {
	b := e.inner.offset()
	e.inner.putInt16(in)
	e.rec(b, cbLay{"f2", 2})
}
func (e *cbEnc) putInt32(in int32) {
	b := e.inner.offset()
	e.inner.putInt32(in)
	e.rec(b, cbLay{"f4", 4})
}
func (e *cbEnc) putInt64(in int64) {
	b := e.inner.offset()
	e.inner.putInt64(in)
	e.rec(b, cbLay{"f8", 8})
}
func (e *cbEnc) putVarint(in int64) {
	b := e.inner.offset()
	e.inner.putVarint(in)
	e.rec(b, cbLay{"vi", e.inner.offset() - b})
}
func (e *cbEnc) putUVarint(in uint64) {
	b := e.inner.offset()
	e.inner.putUVarint(in)
	e.rec(b, cbLay{"vi", e.inner.offset() - b})
}
func (e *cbEnc) putCompactArrayLength(in int) {
	b := e.inner.offset()
	e.inner.putCompactArrayLength(in)
	e.rec(b, cbLay{"vi", e.inner.offset() - b})
}
func (e *cbEnc) putArrayLength(in int) error {
	b := e.inner.offset()
	if err := e.inner.putArrayLength(in); err != nil {
		return err
	}
	e.rec(b, cbLay{"f4", 4})
	return nil
}
func (e *cbEnc) putBool(in bool) {
	b := e.inner.offset()
	e.inner.putBool(in)
	e.rec(b, cbLay{"f1", 1})
}

// prefix + payload: the payload is the last n bytes of what the call produced
func (e *cbEnc) prefixed(b int, pk string, n int, err error) error {
	if err != nil {
		return err
	}
	w := e.inner.offset() - b
	e.rec(b, cbLay{pk, w - n}, cbLay{"raw", n})
	return nil
}
func (e *cbEnc) putBytes(in []byte) error {
	b := e.inner.offset()
	return e.prefixed(b, "f4", len(in), e.inner.putBytes(in))
}
func (e *cbEnc) putVarintBytes(in []byte) error {
	b := e.inner.offset()
	return e.prefixed(b, "vi", len(in), e.inner.putVarintBytes(in))
}
func (e *cbEnc) putCompactBytes(in []byte) error {
	b := e.inner.offset()
	return e.prefixed(b, "vi", len(in), e.inner.putCompactBytes(in))
}
func (e *cbEnc) putRawBytes(in []byte) error {
	b := e.inner.offset()
	if err := e.inner.putRawBytes(in); err != nil {
		return err
	}
	e.rec(b, cbLay{"raw", e.inner.offset() - b})
	return nil
}
func (e *cbEnc) putCompactString(in string) error {
	b := e.inner.offset()
	return e.prefixed(b, "vi", len(in), e.inner.putCompactString(in))
}
func (e *cbEnc) putNullableCompactString(in *string) error {
	b := e.inner.offset()
	n := 0
	if in != nil {
		n = len(*in)
	}
	return e.prefixed(b, "vi", n, e.inner.putNullableCompactString(in))
}
func (e *cbEnc) putString(in string) error {
	b := e.inner.offset()
	return e.prefixed(b, "f2", len(in), e.inner.putString(in))
}
func (e *cbEnc) putNullableString(in *string) error {
	b := e.inner.offset()
	n := 0
	if in != nil {
		n = len(*in)
	}
	return e.prefixed(b, "f2", n, e.inner.putNullableString(in))
}
func (e *cbEnc) putStringArray(in []string) error {
	b := e.inner.offset()
	if err := e.inner.putStringArray(in); err != nil {
		return err
	}
	lay := []cbLay{{"f4", 4}}
	for _, s := range in {
		lay = append(lay, cbLay{"f2", 2}, cbLay{"raw", len(s)})
	}
	e.rec(b, lay...)
	return nil
}
func (e *cbEnc) fixedArray(b int, pk string, n, w int, err error) error {
	if err != nil {
		return err
	}
	lay := []cbLay{{pk, e.inner.offset() - b - n*w}}
	for i := 0; i < n; i++ {
		lay = append(lay, cbLay{"f" + strconv.Itoa(w), w})
	}
	e.rec(b, lay...)
	return nil
}
func (e *cbEnc) putCompactInt32Array(in []int32) error {
	b := e.inner.offset()
	return e.fixedArray(b, "vi", len(in), 4, e.inner.putCompactInt32Array(in))
}
func (e *cbEnc) putNullableCompactInt32Array(in []int32) error {
	b := e.inner.offset()
	return e.fixedArray(b, "vi", len(in), 4, e.inner.putNullableCompactInt32Array(in))
}
func (e *cbEnc) putInt32Array(in []int32) error {
	b := e.inner.offset()
	return e.fixedArray(b, "f4", len(in), 4, e.inner.putInt32Array(in))
}
func (e *cbEnc) putInt64Array(in []int64) error {
	b := e.inner.offset()
	return e.fixedArray(b, "f4", len(in), 8, e.inner.putInt64Array(in))
}
func (e *cbEnc) putEmptyTaggedFieldArray() {
	b := e.inner.offset()
	e.inner.putEmptyTaggedFieldArray()
	e.rec(b, cbLay{"vi", e.inner.offset() - b})
}
func (e *cbEnc) offset() int                      { return e.inner.offset() }
func (e *cbEnc) metricRegistry() metrics.Registry { return e.inner.metricRegistry() }

func (e *cbEnc) push(in pushEncoder) {
	e.open = append(e.open, cbOpenPush{in: in, start: e.inner.offset()})
	e.inner.push(in)
}

func cbFieldKind(in interface{}) (int, string) {
	switch f := in.(type) {
	case *lengthField:
		return 1, "f4"
	case *varintLengthField:
		return 2, "vi"
	case *crc32Field:
		if f.polynomial == crcCastagnoli {
			return 4, "f4"
		}
		return 3, "f4"
	}
	return 0, "raw"
}

func (e *cbEnc) pop() error {
	top := e.open[len(e.open)-1]
	e.open = e.open[:len(e.open)-1]
	before := e.inner.offset()
	if err := e.inner.pop(); err != nil {
		return err
	}
	kind, ak := cbFieldKind(top.in)
	w := top.in.reserveLength()
	p := cbPush{Kind: kind, Start: top.start, W: w, B: []int{}, C: []int{}}
	if e.re != nil {
		p.End = before
		fb := e.re.raw[top.start : top.start+w]
		p.B = cdInts(fb)
		e.tape.add(ak, fb, w)
		if kind >= 3 {
			tab := crc32.IEEETable
			if kind == 4 {
				tab = crc32.MakeTable(crc32.Castagnoli)
			}
			var sum [4]byte
			binary.BigEndian.PutUint32(sum[:], crc32.Checksum(e.re.raw[top.start+4:before], tab))
			p.C = cdInts(sum[:])
		}
	} else {
		p.End = e.inner.offset()
		e.tape.add(ak, nil, w)
	}
	e.pushes = append(e.pushes, p)
	return nil
}

// ---------------------------------------------------------------- decoder wrapper

type cbDec struct {
	inner *realDecoder
	tape  *cbTape
}

func (d *cbDec) rec(before int, lay ...cbLay) {
	off := before
	for _, l := range lay {
		if off+l.width > len(d.inner.raw) || l.width < 0 {
			d.tape.add(l.kind+"!", nil, l.width)
			return
		}
		d.tape.add(l.kind, d.inner.raw[off:off+l.width], l.width)
		off += l.width
	}
}

func (d *cbDec) getInt8() (int8, error) {
	b := d.inner.off
	v, err := d.inner.getInt8()
	if err == nil {
		d.rec(b, cbLay{"f1", 1})
	}
	return v, err
}
func (d *cbDec) getInt16() (int16, error) {
	b := d.inner.off
	v, err := d.inner.getInt16()
	if err == nil {
		d.rec(b, cbLay{"f2", 2})
	}
	return v, err
}
func (d *cbDec) getInt32() (int32, error) {
	b := d.inner.off
	v, err := d.inner.getInt32()
	if err == nil {
		d.rec(b, cbLay{"f4", 4})
	}
	return v, err
}
func (d *cbDec) getInt64() (int64, error) {
	b := d.inner.off
	v, err := d.inner.getInt64()
	if err == nil {
		d.rec(b, cbLay{"f8", 8})
	}
	return v, err
}
func (d *cbDec) getVarint() (int64, error) {
	b := d.inner.off
	v, err := d.inner.getVarint()
	if err == nil {
		d.rec(b, cbLay{"vi", d.inner.off - b})
	}
	return v, err
}
func (d *cbDec) getUVarint() (uint64, error) {
	b := d.inner.off
	v, err := d.inner.getUVarint()
	if err == nil {
		d.rec(b, cbLay{"vi", d.inner.off - b})
	}
	return v, err
}
func (d *cbDec) getArrayLength() (int, error) {
	b := d.inner.off
	v, err := d.inner.getArrayLength()
	if err == nil {
		d.rec(b, cbLay{"f4", 4})
	}
	return v, err
}

// see cdGuardCount: counts the pinned decoder does not bound are refused when they exceed the remaining bytes
var errCbGuard = fmt.Errorf("harness guard: element count exceeds the remaining bytes")

func (d *cbDec) getCompactArrayLength() (int, error) {
	b := d.inner.off
	v, err := d.inner.getCompactArrayLength()
	if err == nil {
		if v > d.inner.remaining() {
			return 0, errCbGuard
		}
		d.rec(b, cbLay{"vi", d.inner.off - b})
	}
	return v, err
}
func (d *cbDec) getBool() (bool, error) {
	b := d.inner.off
	v, err := d.inner.getBool()
	if err == nil {
		d.rec(b, cbLay{"f1", 1})
	}
	return v, err
}
func (d *cbDec) getEmptyTaggedFieldArray() (int, error) {
	b := d.inner.off
	v, err := d.inner.getEmptyTaggedFieldArray()
	if err == nil {
		d.rec(b, cbLay{"vi", d.inner.off - b})
	}
	return v, err
}
func (d *cbDec) prefixed(b int, pk string, n int, err error) {
	if err == nil {
		w := d.inner.off - b
		d.rec(b, cbLay{pk, w - n}, cbLay{"raw", n})
	}
}
func (d *cbDec) getBytes() ([]byte, error) {
	b := d.inner.off
	v, err := d.inner.getBytes()
	d.prefixed(b, "f4", len(v), err)
	return v, err
}
func (d *cbDec) getVarintBytes() ([]byte, error) {
	b := d.inner.off
	v, err := d.inner.getVarintBytes()
	d.prefixed(b, "vi", len(v), err)
	return v, err
}
func (d *cbDec) getCompactBytes() ([]byte, error) {
	b := d.inner.off
	v, err := d.inner.getCompactBytes()
	d.prefixed(b, "vi", len(v), err)
	return v, err
}
func (d *cbDec) getRawBytes(length int) ([]byte, error) {
	b := d.inner.off
	v, err := d.inner.getRawBytes(length)
	if err == nil {
		d.rec(b, cbLay{"raw", d.inner.off - b})
	}
	return v, err
}
func (d *cbDec) getString() (string, error) {
	b := d.inner.off
	v, err := d.inner.getString()
	d.prefixed(b, "f2", len(v), err)
	return v, err
}
func (d *cbDec) getNullableString() (*string, error) {
	b := d.inner.off
	v, err := d.inner.getNullableString()
	n := 0
	if v != nil {
		n = len(*v)
	}
	d.prefixed(b, "f2", n, err)
	return v, err
}
func (d *cbDec) getCompactString() (string, error) {
	b := d.inner.off
	v, err := d.inner.getCompactString()
	d.prefixed(b, "vi", len(v), err)
	return v, err
}
func (d *cbDec) getCompactNullableString() (*string, error) {
	b := d.inner.off
	v, err := d.inner.getCompactNullableString()
	n := 0
	if v != nil {
		n = len(*v)
	}
	d.prefixed(b, "vi", n, err)
	return v, err
}
func (d *cbDec) fixedArray(b int, pk string, n, w int, err error) {
	if err != nil {
		return
	}
	lay := []cbLay{{pk, d.inner.off - b - n*w}}
	for i := 0; i < n; i++ {
		lay = append(lay, cbLay{"f" + strconv.Itoa(w), w})
	}
	d.rec(b, lay...)
}
func (d *cbDec) getCompactInt32Array() ([]int32, error) {
	b := d.inner.off
	if err := cdGuardCount(d.inner, true); err != nil {
		return nil, err
	}
	v, err := d.inner.getCompactInt32Array()
	d.fixedArray(b, "vi", len(v), 4, err)
	return v, err
}
func (d *cbDec) getInt32Array() ([]int32, error) {
	b := d.inner.off
	v, err := d.inner.getInt32Array()
	d.fixedArray(b, "f4", len(v), 4, err)
	return v, err
}
func (d *cbDec) getInt64Array() ([]int64, error) {
	b := d.inner.off
	v, err := d.inner.getInt64Array()
	d.fixedArray(b, "f4", len(v), 8, err)
	return v, err
}
func (d *cbDec) getStringArray() ([]string, error) {
	b := d.inner.off
	if err := cdGuardCount(d.inner, false); err != nil {
		return nil, err
	}
	v, err := d.inner.getStringArray()
	if err == nil {
		lay := []cbLay{{"f4", 4}}
		for _, s := range v {
			lay = append(lay, cbLay{"f2", 2}, cbLay{"raw", len(s)})
		}
		d.rec(b, lay...)
	}
	return v, err
}
func (d *cbDec) remaining() int { return d.inner.remaining() }
func (d *cbDec) getSubset(length int) (packetDecoder, error) {
	sub, err := d.inner.getSubset(length)
	if err != nil {
		return nil, err
	}
	return &cbDec{inner: sub.(*realDecoder), tape: d.tape}, nil
}
func (d *cbDec) peek(offset, length int) (packetDecoder, error) { return d.inner.peek(offset, length) }
func (d *cbDec) peekInt8(offset int) (int8, error)              { return d.inner.peekInt8(offset) }
func (d *cbDec) push(in pushDecoder) error {
	b := d.inner.off
	if err := d.inner.push(in); err != nil {
		return err
	}
	_, ak := cbFieldKind(in)
	d.rec(b, cbLay{ak, d.inner.off - b})
	return nil
}
func (d *cbDec) pop() error { return d.inner.pop() }

// ---------------------------------------------------------------- one recorded run

type cbPass struct {
	tape   cbTape
	pushes []cbPush
	total  int
}

type cbEncoderOf struct {
	body     encoder
	prep     *cbPass
	real     *cbPass
	prepDone bool // the sizing pass returned without error
}

func (w *cbEncoderOf) encode(pe packetEncoder) error {
	switch x := pe.(type) {
	case *prepEncoder:
		*w.prep = cbPass{}
		e := &cbEnc{inner: x, tape: &w.prep.tape}
		err := w.body.encode(e)
		w.prep.pushes, w.prep.total = e.pushes, x.length
		w.prepDone = err == nil
		return err
	case *realEncoder:
		*w.real = cbPass{}
		e := &cbEnc{inner: x, re: x, tape: &w.real.tape}
		err := w.body.encode(e)
		w.real.pushes, w.real.total = e.pushes, x.off
		return err
	}
	return fmt.Errorf("harness: unexpected encoder %T", pe)
}

type cbDecoderOf struct {
	plain     decoder
	versioned versionedDecoder
	version   int16
	tape      *cbTape
	end       *int
}

func (w *cbDecoderOf) decode(pd packetDecoder) error {
	rd := pd.(*realDecoder)
	d := &cbDec{inner: rd, tape: w.tape}
	var err error
	if w.plain != nil {
		err = w.plain.decode(d)
	} else {
		err = w.versioned.decode(d, w.version)
	}
	*w.end = rd.off
	return err
}

// cbErrKind classifies an error by identity / type, never by its wording (the text is logged for the reader only):
// "" | insufficient | decoding (PacketDecodingError) | encoding (PacketEncodingError) | panic | other
func cbErrKind(e error, panicked bool) string {
	switch {
	case e == nil:
		return ""
	case panicked:
		return "panic"
	case e == ErrInsufficientData:
		return "insufficient"
	}
	switch e.(type) {
	case PacketDecodingError, *PacketDecodingError:
		return "decoding"
	case PacketEncodingError, *PacketEncodingError:
		return "encoding"
	}
	return "other"
}

func cbEncode(body encoder) (buf []byte, prep, real cbPass, err string, panicked, prepDone bool, kind string) {
	w := &cbEncoderOf{body: body, prep: &prep, real: &real}
	if e := cdSafe(func() (e error) { buf, e = encode(w, nil); return }, &panicked); e != nil {
		err, kind = cdErrText(e), cbErrKind(e, panicked)
	}
	prepDone = w.prepDone
	return
}

func cbDecode(buf []byte, plain decoder, versioned versionedDecoder, version int16) (tape cbTape, end int, err string, panicked bool, kind string) {
	w := &cbDecoderOf{plain: plain, versioned: versioned, version: version, tape: &tape, end: &end}
	if e := cdSafe(func() error { return decode(buf, w) }, &panicked); e != nil {
		err, kind = cdErrText(e), cbErrKind(e, panicked)
	}
	return
}

func cbDigest(b []byte) string {
	h := sha1.Sum(b)
	return strconv.Itoa(len(b)) + "#" + hex.EncodeToString(h[:10])
}

func cbPushRows(ps []cbPush, real bool) [][]int {
	rows := make([][]int, 0, len(ps))
	for _, p := range ps {
		if real {
			row := []int{p.Kind, p.Start, p.End, p.W}
			row = append(row, p.B...)
			row = append(row, p.C...)
			rows = append(rows, row)
		} else {
			rows = append(rows, []int{p.Kind, p.End - p.Start})
		}
	}
	return rows
}

// per-push extents (kind, field + covered bytes) as a canonical string, comparable between the passes
func cbExtents(ps []cbPush, real bool) string {
	var s []string
	for _, p := range ps {
		n := p.End - p.Start
		if real {
			n = p.End - p.Start // field start .. pop
		}
		s = append(s, fmt.Sprintf("%d:%d", p.Kind, n))
	}
	return cbCanon(s)
}

type cbSubject struct {
	name     string
	kind     string // "request" | "response" | "framed-request" | "batch" | "msgset" | "records"
	version  int16
	hasMap   bool
	value    encoder
	fresh    func() (decoder, versionedDecoder, encoder) // a new empty value to decode into
	prepare  func(decoded encoder, original encoder)     // carries encoder-only parameters over (compression level)
	fill     string
	features string
	analyse  bool   // measure which fields the encoder carries and compare them with the decoded value
	before   func() // runs right before the first encode (e.g. puts the decompressor pools into a given state)
}

// cbRun records encode (both passes), decode, re-encode, second decode of one value.
func cbRun(rec *vRec, s *cbSubject, sum *cbSummary) (encoded bool) {
	if s.before != nil {
		s.before()
	}
	buf, prep, real, eerr, epanic, prepDone, eerrk := cbEncode(s.value)
	key := fmt.Sprintf("%s/v%d", s.name, s.version)
	if eerr != "" && !prepDone {
		sum.Skipped[key]++
		if epanic {
			sum.Panicked[key] = eerr
		}
		return false // values the sizing pass refuses are outside the domain (first encode fails)
	}
	shape := cbShape(s.value)
	if r, ok := s.value.(*request); ok {
		shape = cbShape(r.body)
	}
	ev := kv{"name": s.name, "kind": s.kind, "ver": int(s.version), "hasmap": s.hasMap, "fill": s.fill, "shape": shape,
		"eerr": eerr, "epanic": epanic, "eerrk": eerrk, "derrk": "", "rerrk": "", "d2errk": "", "reshape": "",
		"fcar": "", "fdec": "", "fdiff": "", "nleaf": 0, "ncar": 0,
		"preplen": prep.total, "reallen": real.total, "buflen": len(buf),
		"prepext": cbExtents(prep.pushes, false), "realext": cbExtents(real.pushes, true),
		"fields":  cbPushRows(real.pushes, true),
		"tprepkw": cbCanon(prep.tape.kw), "trealkw": cbCanon(real.tape.kw), "treal": cbCanon(real.tape.cells),
		"ncells": len(real.tape.cells), "digest": cbDigest(buf),
		"derr": "", "dpanic": false, "dend": 0, "tdec": "", "decver": int(s.version),
		"rerr": "", "rpanic": false, "relen": 0, "redigest": "", "treenc": "",
		"d2err": "", "d2panic": false, "tdec2": "", "d2end": 0, "decdiff": "", "rediff": ""}
	if eerr == "" {
		pl, vd, asEnc := s.fresh()
		tdec, dend, derr, dpanic, derrk := cbDecode(buf, pl, vd, s.version)
		ev["derr"], ev["dpanic"], ev["dend"], ev["tdec"], ev["derrk"] = derr, dpanic, dend, cbCanon(tdec.cells), derrk
		ev["decdiff"] = cbDiff(real.tape.cells, tdec.cells)
		if derr == "" {
			// the version the decoded value reports; restored afterwards so that the remaining clauses judge the rest of the value
			var decBody protocolBody
			if pb, ok := asEnc.(protocolBody); ok {
				decBody = pb
			} else if fe, ok := asEnc.(*cbFramedEnc); ok {
				decBody = fe.r.body
			}
			if decBody != nil {
				ev["decver"] = int(decBody.version())
				if decBody.version() != s.version {
					cbSetVersion(decBody, s.version)
				}
			}
			if s.prepare != nil {
				s.prepare(asEnc, s.value)
			}
			if s.analyse {
				var y interface{} = asEnc
				var x encoder = s.value
				if fe, ok := asEnc.(*cbFramedEnc); ok {
					y = fe.r.body
				}
				if r, ok := s.value.(*request); ok {
					x = r.body
				}
				if reflect.TypeOf(x) != reflect.TypeOf(y) {
					// allocateBody maps the key to another Go type (ConsumerMetadataRequest -> FindCoordinatorRequest): no common paths
				} else if fr, ok := cfAnalyse(x, y); ok {
					ev["fcar"], ev["fdec"], ev["fdiff"], ev["nleaf"], ev["ncar"] = fr.Carried, fr.Decoded, fr.Diff, fr.Leaves, fr.NCarr
					sum.Leaves += fr.Leaves
					sum.Carried += fr.NCarr
				}
			}
			if decBody != nil {
				ev["reshape"] = cbShape(decBody) // collection shape of the decoded value (cause signature for findings)
			} else {
				ev["reshape"] = cbShape(asEnc)
			}
			buf2, _, real2, rerr, rpanic, _, rerrk := cbEncode(asEnc)
			ev["rerr"], ev["rpanic"], ev["relen"], ev["redigest"], ev["treenc"], ev["rerrk"] = rerr, rpanic, len(buf2), cbDigest(buf2), cbCanon(real2.tape.cells), rerrk
			ev["rediff"] = cbDiff(real.tape.cells, real2.tape.cells)
			if rerr == "" {
				pl2, vd2, _ := s.fresh()
				tdec2, d2end, d2err, d2panic, d2errk := cbDecode(buf2, pl2, vd2, s.version)
				ev["d2err"], ev["d2panic"], ev["tdec2"], ev["d2end"], ev["d2errk"] = d2err, d2panic, cbCanon(tdec2.cells), d2end, d2errk
			}
		}
	}
	rec.Ev("body", ev)
	if dk := fmt.Sprintf("%s/%d/%s/%s", s.name, s.version, s.kind, cbDigest(buf)); len(real.tape.cells) >= 3 && !sum.seen[dk] {
		sum.seen[dk] = true
		sum.Distinct++
	}
	if eerr == "" {
		cls := map[string]bool{}
		val := reflect.ValueOf(s.value)
		if r, ok := s.value.(*request); ok {
			val = reflect.ValueOf(r.body)
		}
		cbNest(val, 0, 0, cls)
		if sum.nestedSeen[key] == nil {
			sum.nestedSeen[key] = map[string]bool{}
		}
		for c := range cls {
			sum.Nested[c]++
			sum.nestedSeen[key][c] = true
		}
	}
	sum.Runs[key]++
	sum.Total++
	if len(sum.Samples) < 3 && sum.Total%97 == 1 {
		sum.Samples = append(sum.Samples, fmt.Sprintf("%s v%d %s: %d bytes, %d cells", s.name, s.version, s.fill, len(buf), len(real.tape.cells)))
	}
	return true
}

type cbSummary struct {
	Total    int               `json:"bodies"`
	Runs     map[string]int    `json:"runs"`
	Skipped  map[string]int    `json:"skipped_first_encode_failed"`
	Panicked map[string]string `json:"first_encode_panicked"`
	Samples  []string          `json:"samples"`
	Never    []string          `json:"never_encoded"`
	Distinct int               `json:"distinct_nontrivial"`
	Leaves   int               `json:"fields_examined"`
	Carried  int               `json:"fields_carried_and_compared"`
	// nested collections actually encoded, per relation of the inner length to the length of the collection around it
	Nested       map[string]int      `json:"nested_shapes"`
	NestedType   map[string][]string `json:"nested_shapes_missing_by_type"`
	NestedBodies int                 `json:"bodies_with_nested_collections"`
	nestedSeen   map[string]map[string]bool
	seen         map[string]bool
}

var cbNestClasses = []string{"outer1_inner2plus", "outer2plus_inner1", "outer2plus_inner_other", "inner_empty"}

// classifies every collection of the value that sits inside another collection
func cbNest(v reflect.Value, outer int, depth int, out map[string]bool) {
	if depth > 40 || !v.IsValid() {
		return
	}
	t := v.Type()
	if t == cbTimeT || t == cbBrokerT {
		return
	}
	switch v.Kind() {
	case reflect.Ptr, reflect.Interface:
		if !v.IsNil() {
			cbNest(v.Elem(), outer, depth+1, out)
		}
	case reflect.Struct:
		if !v.CanAddr() {
			c := reflect.New(t).Elem()
			c.Set(v)
			v = c
		}
		for i := 0; i < v.NumField(); i++ {
			if t.Field(i).PkgPath != "" && cbNotValue[t.Field(i).Name] {
				continue
			}
			if fv := cbField(v, i); fv.IsValid() {
				cbNest(fv, outer, depth+1, out)
			}
		}
	case reflect.Slice, reflect.Map:
		if v.Kind() == reflect.Slice && t.Elem().Kind() == reflect.Uint8 {
			return
		}
		n := v.Len()
		if outer > 0 {
			switch {
			case n == 0:
				out["inner_empty"] = true
			case outer == 1 && n >= 2:
				out["outer1_inner2plus"] = true
			case outer >= 2 && n == 1:
				out["outer2plus_inner1"] = true
			case outer >= 2 && n != outer:
				out["outer2plus_inner_other"] = true
			}
		}
		if v.Kind() == reflect.Map {
			for _, k := range v.MapKeys() {
				cbNest(v.MapIndex(k), n, depth+1, out)
			}
		} else {
			for i := 0; i < n; i++ {
				cbNest(v.Index(i), n, depth+1, out)
			}
		}
	}
}

func cbHasNested(t reflect.Type, inColl bool, seen map[reflect.Type]bool) bool {
	switch t.Kind() {
	case reflect.Ptr:
		return cbHasNested(t.Elem(), inColl, seen)
	case reflect.Slice, reflect.Map:
		if t.Kind() == reflect.Slice && t.Elem().Kind() == reflect.Uint8 {
			return false
		}
		if inColl {
			return true
		}
		return cbHasNested(t.Elem(), true, seen)
	case reflect.Struct:
		if t == cbTimeT || t == cbBrokerT || seen[t] {
			return false
		}
		seen[t] = true
		defer delete(seen, t)
		for i := 0; i < t.NumField(); i++ {
			if t.Field(i).PkgPath != "" && cbNotValue[t.Field(i).Name] {
				continue
			}
			if cbHasNested(t.Field(i).Type, inColl, seen) {
				return true
			}
		}
	}
	return false
}

// ---------------------------------------------------------------- structural filler

type cbFill struct {
	rng         *rand.Rand
	mode        int // 0 minimal (zero / nil / empty), 1 maximal, 2 negative / singleton, >= 3 random
	version     int16
	depth       int
	batch       bool  // Records values hold a RecordBatch (else a legacy MessageSet)
	magic       int8  // legacy message version
	shape       []int // cycle of collection lengths (see cbShapes); nil: seeded random per collection
	pos         int   // position in the cycle of the collection around the value being filled (-1: none)
	sib         int   // ordinal of the collection being filled among the collections of its struct
	emptyNonNil bool
	imode       int // how integers are filled: 0 zero, 1 max, 2 -1, 3 seeded random; see cbScalarModes
	bmode       int // how booleans are filled: 0 false, 1 true, 3 seeded random
}

// Collection shapes derived from the structure, not from the type. Every collection has a position in a cycle of 4
// distinct lengths: a top-level collection that is the s-th collection of its struct sits at position s, a collection
// nested in a collection at position p sits at p+1+s (s < 3). A nested collection therefore never has the length of
// the collection around it and the (up to 3) sibling collections of one struct have pairwise different lengths: a
// length prefix taken from the wrong (outer or sibling) collection changes the bytes on the wire.
//
//	fill 1: outer 2 / inner 3 / 1 / 4     fill 2: outer 1 / inner 2 / 3 / 4     fill 3: outer 3 / inner 1 / 2 / 4
//	fill 4: outer 2 / inner EMPTY         fill 5: second collection 2 / its inner EMPTY
var cbShapes = [][]int{{0, 0, 0, 0}, {2, 3, 1, 4}, {1, 2, 3, 4}, {3, 1, 2, 4}, {2, 0, 1, 3}, {3, 2, 0, 1}}

// Integers and booleans are filled independently of each other: the structural fills pair every integer value class
// (0, max, -1) with flags off and with ALL flags on (an id 0 with its "set" flag on, all attribute bits of a batch at
// once, ...). {integers, booleans} per fill; 3 = seeded random.
var cbScalarModes = [][2]int{{0, 0}, {1, 1}, {2, 0}, {0, 1}, {2, 1}, {1, 0}}

func (f *cbFill) setScalarModes(fill int) {
	f.imode, f.bmode = 3, 3
	if fill < len(cbScalarModes) {
		f.imode, f.bmode = cbScalarModes[fill][0], cbScalarModes[fill][1]
	}
}

func (f *cbFill) boolv() bool {
	switch f.bmode {
	case 0:
		return false
	case 1:
		return true
	}
	return f.rng.Intn(2) == 1
}

func cbShapeOf(fill int) []int {
	if fill < len(cbShapes) {
		return cbShapes[fill]
	}
	return nil
}

// position in the length cycle of the collection about to be filled
func (f *cbFill) here() int { return (f.pos + 1 + f.sib%3) % 4 }

// fills the elements of the collection at the current position: sibling ordinal restarts
func (f *cbFill) inside(fn func()) {
	p, s := f.pos, f.sib
	f.pos, f.sib = f.here(), 0
	fn()
	f.pos, f.sib = p, s
}

func cbIsCollection(t reflect.Type) bool {
	for t.Kind() == reflect.Ptr {
		t = t.Elem()
	}
	return t.Kind() == reflect.Map || (t.Kind() == reflect.Slice && t.Elem().Kind() != reflect.Uint8)
}

var (
	cbTimeT     = reflect.TypeOf(time.Time{})
	cbDurT      = reflect.TypeOf(time.Duration(0))
	cbRecordsT  = reflect.TypeOf(Records{})
	cbBatchT    = reflect.TypeOf(RecordBatch{})
	cbMsgSetT   = reflect.TypeOf(MessageSet{})
	cbMessageT  = reflect.TypeOf(Message{})
	cbKVersionT = reflect.TypeOf(KafkaVersion{})
	cbBrokerT   = reflect.TypeOf(Broker{})
	cbUpsertT   = reflect.TypeOf(AlterUserScramCredentialsUpsert{})
)

// state that is not part of the value (caches, the push field object of a record, ...)
var cbNotValue = map[string]bool{"compressedCache": true, "compressedSize": true, "compressedRecords": true,
	"recordsLen": true, "length": true, "recordsType": true}

// a settable view of a struct field, exported or not (the harness lives in the package)
func cbField(v reflect.Value, i int) reflect.Value {
	f := v.Field(i)
	if f.CanSet() {
		return f
	}
	if !f.CanAddr() {
		return reflect.Value{}
	}
	return reflect.NewAt(f.Type(), unsafe.Pointer(f.UnsafeAddr())).Elem()
}

func (f *cbFill) pick(n int) int {
	switch f.mode {
	case 0:
		return 0
	case 1:
		return n - 1
	case 2:
		if n > 2 {
			return 1
		}
		return 0
	}
	return f.rng.Intn(n)
}

func (f *cbFill) intOf(bits int) int64 {
	max := int64(math.MaxInt64)
	min := int64(math.MinInt64)
	if bits < 64 {
		max = int64(1)<<(uint(bits)-1) - 1
		min = -max - 1
	}
	switch f.imode {
	case 0:
		return 0
	case 1:
		return max
	case 2:
		return -1
	}
	c := []int64{0, 1, -1, max, min, 2, 127, 128, 255, 256, int64(f.rng.Intn(1000)), -int64(f.rng.Intn(1000))}
	v := c[f.rng.Intn(len(c))]
	if v > max {
		v = max
	}
	if v < min {
		v = min
	}
	return v
}

func (f *cbFill) str() string {
	c := []string{"", "t", "topic-a", "ü-Kafka✓", strings.Repeat("x", 127), strings.Repeat("y", 130)}
	switch f.mode {
	case 0:
		return ""
	case 1:
		return "topic-b"
	case 2:
		return "c"
	}
	return c[f.rng.Intn(len(c))]
}

func (f *cbFill) bytes() []byte {
	switch f.pick(4) {
	case 0:
		return nil
	case 1:
		return []byte{}
	case 2:
		return []byte{0, 255, 1}
	}
	if f.mode == 1 {
		return []byte("value-bytes")
	}
	b := make([]byte, f.rng.Intn(70))
	f.rng.Read(b)
	return b
}

func (f *cbFill) count() int {
	if f.shape != nil {
		return f.shape[f.here()]
	}
	return f.rng.Intn(4)
}

func (f *cbFill) shapeAt(pos int) int {
	p := f.pos
	f.pos = pos
	n := f.count()
	f.pos = p
	return n
}

func (f *cbFill) timeMs() time.Time {
	switch f.pick(3) {
	case 0:
		return time.Time{}
	case 1:
		return time.Unix(1500000000, 123*int64(time.Millisecond))
	}
	return time.Unix(int64(f.rng.Intn(2000000000)), int64(f.rng.Intn(1000))*int64(time.Millisecond))
}

func (f *cbFill) value(v reflect.Value) {
	if f.depth > 8 {
		return
	}
	f.depth++
	defer func() { f.depth-- }()
	t := v.Type()
	switch t {
	case cbTimeT:
		v.Set(reflect.ValueOf(f.timeMs()))
		return
	case cbDurT:
		v.SetInt(int64(time.Duration(f.intOf(20)) * time.Millisecond))
		return
	case cbKVersionT:
		return
	case cbRecordsT:
		v.Set(reflect.ValueOf(f.records()))
		return
	case cbBatchT:
		v.Set(reflect.ValueOf(*f.recordBatch(CompressionCodec(f.pick(5)), true)))
		return
	case cbMsgSetT:
		v.Set(reflect.ValueOf(*f.messageSet(CompressionCodec(f.pick(4)), f.magic)))
		return
	case cbMessageT:
		v.Set(reflect.ValueOf(*f.message(f.magic)))
		return
	case cbUpsertT: // PBKDF2: a known mechanism and an iteration count that terminates
		u := AlterUserScramCredentialsUpsert{Name: f.str(), Mechanism: ScramMechanismType(1 + f.pick(2)),
			Iterations: int32(1 + f.pick(3)*2047), Salt: f.bytes(), Password: f.bytes()}
		v.Set(reflect.ValueOf(u))
		return
	case cbBrokerT:
		b := Broker{id: int32(f.intOf(32)), addr: []string{"localhost:9092", "kafka-1.example:19092", "10.0.0.1:1"}[f.pick(3)]}
		if f.pick(2) == 1 {
			r := f.str()
			b.rack = &r
		}
		reflect.NewAt(t, unsafe.Pointer(v.UnsafeAddr())).Elem().Set(reflect.ValueOf(&b).Elem())
		return
	}
	switch t.Kind() {
	case reflect.Bool:
		v.SetBool(f.boolv())
	case reflect.Int8:
		v.SetInt(f.intOf(8))
	case reflect.Int16:
		v.SetInt(f.intOf(16))
	case reflect.Int32:
		v.SetInt(f.intOf(32))
	case reflect.Int64:
		v.SetInt(f.intOf(64))
	case reflect.Int:
		if t.Name() != "int" { // enum-like named ints (AclOperation, ...) travel as INT8
			v.SetInt(f.intOf(8))
		} else {
			v.SetInt(f.intOf(31))
		}
	case reflect.Uint8:
		v.SetUint(uint64(f.intOf(8)) & 0xff)
	case reflect.Uint16:
		v.SetUint(uint64(f.intOf(16)) & 0xffff)
	case reflect.Uint32:
		v.SetUint(uint64(f.intOf(32)) & 0xffffffff)
	case reflect.Uint64, reflect.Uint:
		v.SetUint(uint64(f.intOf(64)))
	case reflect.String:
		v.SetString(f.str())
	case reflect.Ptr:
		if t.Elem().Kind() == reflect.String || t.Elem().Kind() == reflect.Int64 || t.Elem().Kind() == reflect.Int32 {
			if f.pick(3) == 0 {
				return // nil
			}
		}
		p := reflect.New(t.Elem())
		f.value(p.Elem())
		v.Set(p)
	case reflect.Slice:
		if t.Elem().Kind() == reflect.Uint8 {
			b := f.bytes()
			if b == nil {
				return
			}
			v.SetBytes(b)
			return
		}
		n := f.count()
		if n == 0 {
			if f.emptyNonNil || (f.shape == nil && f.rng.Intn(2) == 0) {
				v.Set(reflect.MakeSlice(t, 0, 0))
			}
			return
		}
		s := reflect.MakeSlice(t, n, n)
		f.inside(func() {
			for i := 0; i < n; i++ {
				f.value(s.Index(i))
			}
		})
		v.Set(s)
	case reflect.Array:
		for i := 0; i < v.Len(); i++ {
			f.value(v.Index(i))
		}
	case reflect.Map:
		n := f.count()
		if n == 0 {
			if f.emptyNonNil || (f.shape == nil && f.rng.Intn(2) == 0) {
				v.Set(reflect.MakeMap(t))
			}
			return
		}
		m := reflect.MakeMap(t)
		f.inside(func() {
			for i := 0; i < n; i++ {
				k := reflect.New(t.Key()).Elem()
				f.value(k)
				if t.Key().Kind() == reflect.String {
					k.SetString(k.String() + strconv.Itoa(i))
				} else if k.CanInt() {
					k.SetInt(k.Int()/2 + int64(i))
				}
				e := reflect.New(t.Elem()).Elem()
				f.value(e)
				m.SetMapIndex(k, e)
			}
		})
		v.Set(m)
	case reflect.Struct:
		saved, ord := f.sib, 0
		for i := 0; i < t.NumField(); i++ {
			if t.Field(i).PkgPath != "" && cbNotValue[t.Field(i).Name] {
				continue
			}
			if fv := cbField(v, i); fv.IsValid() {
				f.sib = saved
				if cbIsCollection(t.Field(i).Type) || t.Field(i).Type == cbRecordsT {
					f.sib = saved + ord // sibling collections of one struct get different lengths
					ord++
				}
				f.value(fv)
			}
		}
		f.sib = saved
	case reflect.Interface:
		// left nil
	}
}

// ---- records

func (f *cbFill) record() *Record {
	r := &Record{Attributes: int8(f.intOf(8)), TimestampDelta: time.Duration(f.intOf(16)) * time.Millisecond,
		OffsetDelta: f.intOf(16), Key: f.bytes(), Value: f.bytes()}
	for i, n := 0, f.count(); i < n; i++ { // called inside the Records collection: one level deeper already
		r.Headers = append(r.Headers, &RecordHeader{Key: f.bytes(), Value: f.bytes()})
	}
	if f.mode >= 3 && f.rng.Intn(4) == 0 {
		r.Value = make([]byte, 40+f.rng.Intn(60)) // record length around the 1/2 byte varint boundary (64)
	}
	return r
}

var cbLevels = map[CompressionCodec][]int{
	CompressionNone: {CompressionLevelDefault}, CompressionGZIP: {CompressionLevelDefault, 1, 9},
	CompressionSnappy: {CompressionLevelDefault}, CompressionLZ4: {CompressionLevelDefault}, CompressionZSTD: {CompressionLevelDefault},
}

func (f *cbFill) level(c CompressionCodec) int {
	l := cbLevels[c]
	return l[f.pick(len(l))]
}

func (f *cbFill) recordBatch(codec CompressionCodec, nonEmpty bool) *RecordBatch {
	b := &RecordBatch{FirstOffset: f.intOf(64), PartitionLeaderEpoch: int32(f.intOf(32)), Version: 2, Codec: codec,
		CompressionLevel: f.level(codec), Control: f.boolv(), LogAppendTime: f.boolv(),
		LastOffsetDelta: int32(f.intOf(32)), FirstTimestamp: f.timeMs(), MaxTimestamp: f.timeMs(),
		ProducerID: f.intOf(64), ProducerEpoch: int16(f.intOf(16)), FirstSequence: int32(f.intOf(32)),
		IsTransactional: f.boolv()}
	n := f.count()
	if nonEmpty && n == 0 {
		n = 1
	}
	f.inside(func() {
		for i := 0; i < n; i++ {
			b.Records = append(b.Records, f.record())
		}
	})
	return b
}

func (f *cbFill) message(magic int8) *Message {
	m := &Message{Codec: CompressionNone, Key: f.bytes(), Value: f.bytes(), Version: magic, LogAppendTime: f.boolv()}
	if magic >= 1 {
		m.Timestamp = f.timeMs()
	}
	return m
}

// a legacy message set; under a codec: one wrapper message whose value is the encoded inner set (what the producer builds)
func (f *cbFill) messageSet(codec CompressionCodec, magic int8) *MessageSet {
	inner := &MessageSet{}
	n := f.count()
	if n == 0 {
		n = 1
	}
	for i := 0; i < n; i++ {
		inner.Messages = append(inner.Messages, &MessageBlock{Offset: int64(i), Msg: f.message(magic)})
	}
	if codec == CompressionNone {
		return inner
	}
	payload, err := encode(inner, nil)
	if err != nil {
		return inner
	}
	w := &Message{Codec: codec, CompressionLevel: f.level(codec), Key: nil, Value: payload, Set: inner, Version: magic}
	if magic >= 1 {
		w.Timestamp = f.timeMs()
	}
	return &MessageSet{Messages: []*MessageBlock{{Offset: f.intOf(32), Msg: w}}}
}

func (f *cbFill) records() Records {
	if f.batch {
		return newDefaultRecords(f.recordBatch(CompressionCodec(f.pick(5)), true))
	}
	return newLegacyRecords(f.messageSet(CompressionCodec(f.pick(4)), f.magic))
}

// copies the encoder-only parameters (CompressionLevel, SCRAM Password: not on the wire) from the original onto the decoded value
func cbCarryLevels(dec, orig reflect.Value, depth int) {
	if depth > 40 || !dec.IsValid() || !orig.IsValid() || dec.Type() != orig.Type() {
		return
	}
	switch dec.Kind() {
	case reflect.Ptr, reflect.Interface:
		if dec.IsNil() || orig.IsNil() {
			return
		}
		cbCarryLevels(dec.Elem(), orig.Elem(), depth+1)
	case reflect.Struct:
		if dec.Type() == cbTimeT || dec.Type() == cbBrokerT || !dec.CanAddr() || !orig.CanAddr() {
			return
		}
		for i := 0; i < dec.NumField(); i++ {
			fd := dec.Type().Field(i)
			if fd.PkgPath != "" && cbNotValue[fd.Name] {
				continue
			}
			df, of := cbField(dec, i), cbField(orig, i)
			if !df.IsValid() || !of.IsValid() {
				continue
			}
			if fd.Name == "CompressionLevel" {
				df.SetInt(of.Int())
				continue
			}
			if fd.Name == "Password" && df.Kind() == reflect.Slice { // SCRAM: never transmitted, only its salted hash
				df.Set(of)
				continue
			}
			cbCarryLevels(df, of, depth+1)
		}
	case reflect.Slice, reflect.Array:
		for i := 0; i < dec.Len() && i < orig.Len(); i++ {
			cbCarryLevels(dec.Index(i), orig.Index(i), depth+1)
		}
	case reflect.Map:
		for _, k := range dec.MapKeys() {
			o := orig.MapIndex(k)
			if !o.IsValid() {
				continue
			}
			d := dec.MapIndex(k)
			switch d.Kind() {
			case reflect.Ptr, reflect.Map, reflect.Slice:
				cbCarryLevels(d, o, depth+1)
			case reflect.Struct: // map values are not addressable: carry on copies, store back
				dc, oc := reflect.New(d.Type()).Elem(), reflect.New(o.Type()).Elem()
				dc.Set(d)
				oc.Set(o)
				cbCarryLevels(dc, oc, depth+1)
				dec.SetMapIndex(k, dc)
			}
		}
	}
}

// collection shape of the top-level fields (for cause-level matching of findings)
func cbShape(x interface{}) string {
	v := reflect.ValueOf(x)
	for v.Kind() == reflect.Ptr || v.Kind() == reflect.Interface {
		if v.IsNil() {
			return "nil"
		}
		v = v.Elem()
	}
	if v.Kind() == reflect.Slice {
		return "len=" + strconv.Itoa(v.Len())
	}
	if v.Kind() != reflect.Struct {
		return ""
	}
	var parts []string
	for i := 0; i < v.NumField(); i++ {
		f := v.Field(i)
		n := v.Type().Field(i).Name
		switch f.Kind() {
		case reflect.Slice, reflect.Map:
			if f.IsNil() {
				parts = append(parts, n+"=nil")
			} else {
				parts = append(parts, n+"="+strconv.Itoa(f.Len()))
			}
		case reflect.Ptr:
			if f.IsNil() {
				parts = append(parts, n+"=nil")
			}
		}
		if n == "Codec" {
			parts = append(parts, fmt.Sprintf("Codec=%v", CompressionCodec(f.Int())))
		}
	}
	return strings.Join(parts, ",")
}

func cbHasMap(t reflect.Type, seen map[reflect.Type]bool) bool {
	if seen[t] {
		return false
	}
	seen[t] = true
	switch t.Kind() {
	case reflect.Map:
		return true
	case reflect.Ptr, reflect.Slice, reflect.Array:
		return cbHasMap(t.Elem(), seen)
	case reflect.Struct:
		if t == cbTimeT {
			return false
		}
		for i := 0; i < t.NumField(); i++ {
			if cbHasMap(t.Field(i).Type, seen) {
				return true
			}
		}
	}
	return false
}

// ---------------------------------------------------------------- the bodies

type cbBody struct {
	mk   func() protocolBody
	max  int16
	resp bool
}

// requests as enumerated by allocateBody (request.go) and the response each of them is answered with
// (broker.go); max = highest version the body's version switch knows.
var cbBodies = []cbBody{
	{func() protocolBody { return &ProduceRequest{} }, 7, false},
	{func() protocolBody { return &ProduceResponse{} }, 7, true},
	{func() protocolBody { return &FetchRequest{} }, 11, false},
	{func() protocolBody { return &FetchResponse{} }, 11, true},
	{func() protocolBody { return &OffsetRequest{} }, 2, false},
	{func() protocolBody { return &OffsetResponse{} }, 2, true},
	{func() protocolBody { return &MetadataRequest{} }, 5, false},
	{func() protocolBody { return &MetadataResponse{} }, 5, true},
	{func() protocolBody { return &OffsetCommitRequest{} }, 4, false},
	{func() protocolBody { return &OffsetCommitResponse{} }, 4, true},
	{func() protocolBody { return &OffsetFetchRequest{} }, 7, false},
	{func() protocolBody { return &OffsetFetchResponse{} }, 7, true},
	{func() protocolBody { return &FindCoordinatorRequest{} }, 1, false},
	{func() protocolBody { return &FindCoordinatorResponse{} }, 1, true},
	{func() protocolBody { return &ConsumerMetadataRequest{} }, 0, false},
	{func() protocolBody { return &ConsumerMetadataResponse{} }, 0, true},
	{func() protocolBody { return &JoinGroupRequest{} }, 2, false},
	{func() protocolBody { return &JoinGroupResponse{} }, 2, true},
	{func() protocolBody { return &HeartbeatRequest{} }, 0, false},
	{func() protocolBody { return &HeartbeatResponse{} }, 0, true},
	{func() protocolBody { return &LeaveGroupRequest{} }, 0, false},
	{func() protocolBody { return &LeaveGroupResponse{} }, 0, true},
	{func() protocolBody { return &SyncGroupRequest{} }, 0, false},
	{func() protocolBody { return &SyncGroupResponse{} }, 0, true},
	{func() protocolBody { return &DescribeGroupsRequest{} }, 0, false},
	{func() protocolBody { return &DescribeGroupsResponse{} }, 0, true},
	{func() protocolBody { return &ListGroupsRequest{} }, 0, false},
	{func() protocolBody { return &ListGroupsResponse{} }, 0, true},
	{func() protocolBody { return &SaslHandshakeRequest{} }, 1, false},
	{func() protocolBody { return &SaslHandshakeResponse{} }, 0, true},
	{func() protocolBody { return &ApiVersionsRequest{} }, 0, false},
	{func() protocolBody { return &ApiVersionsResponse{} }, 0, true},
	{func() protocolBody { return &CreateTopicsRequest{} }, 2, false},
	{func() protocolBody { return &CreateTopicsResponse{} }, 2, true},
	{func() protocolBody { return &DeleteTopicsRequest{} }, 1, false},
	{func() protocolBody { return &DeleteTopicsResponse{} }, 1, true},
	{func() protocolBody { return &DeleteRecordsRequest{} }, 0, false},
	{func() protocolBody { return &DeleteRecordsResponse{} }, 0, true},
	{func() protocolBody { return &InitProducerIDRequest{} }, 0, false},
	{func() protocolBody { return &InitProducerIDResponse{} }, 0, true},
	{func() protocolBody { return &AddPartitionsToTxnRequest{} }, 0, false},
	{func() protocolBody { return &AddPartitionsToTxnResponse{} }, 0, true},
	{func() protocolBody { return &AddOffsetsToTxnRequest{} }, 0, false},
	{func() protocolBody { return &AddOffsetsToTxnResponse{} }, 0, true},
	{func() protocolBody { return &EndTxnRequest{} }, 0, false},
	{func() protocolBody { return &EndTxnResponse{} }, 0, true},
	{func() protocolBody { return &TxnOffsetCommitRequest{} }, 0, false},
	{func() protocolBody { return &TxnOffsetCommitResponse{} }, 0, true},
	{func() protocolBody { return &DescribeAclsRequest{} }, 1, false},
	{func() protocolBody { return &DescribeAclsResponse{} }, 1, true},
	{func() protocolBody { return &CreateAclsRequest{} }, 1, false},
	{func() protocolBody { return &CreateAclsResponse{} }, 0, true},
	{func() protocolBody { return &DeleteAclsRequest{} }, 1, false},
	{func() protocolBody { return &DeleteAclsResponse{} }, 1, true},
	{func() protocolBody { return &DescribeConfigsRequest{} }, 2, false},
	{func() protocolBody { return &DescribeConfigsResponse{} }, 2, true},
	{func() protocolBody { return &AlterConfigsRequest{} }, 0, false},
	{func() protocolBody { return &AlterConfigsResponse{} }, 0, true},
	{func() protocolBody { return &DescribeLogDirsRequest{} }, 0, false},
	{func() protocolBody { return &DescribeLogDirsResponse{} }, 0, true},
	{func() protocolBody { return &SaslAuthenticateRequest{} }, 0, false},
	{func() protocolBody { return &SaslAuthenticateResponse{} }, 0, true},
	{func() protocolBody { return &CreatePartitionsRequest{} }, 0, false},
	{func() protocolBody { return &CreatePartitionsResponse{} }, 0, true},
	{func() protocolBody { return &DeleteGroupsRequest{} }, 0, false},
	{func() protocolBody { return &DeleteGroupsResponse{} }, 0, true},
	{func() protocolBody { return &IncrementalAlterConfigsRequest{} }, 0, false},
	{func() protocolBody { return &IncrementalAlterConfigsResponse{} }, 0, true},
	{func() protocolBody { return &AlterPartitionReassignmentsRequest{} }, 0, false},
	{func() protocolBody { return &AlterPartitionReassignmentsResponse{} }, 0, true},
	{func() protocolBody { return &ListPartitionReassignmentsRequest{} }, 0, false},
	{func() protocolBody { return &ListPartitionReassignmentsResponse{} }, 0, true},
	{func() protocolBody { return &DescribeUserScramCredentialsRequest{} }, 0, false},
	{func() protocolBody { return &DescribeUserScramCredentialsResponse{} }, 0, true},
	{func() protocolBody { return &AlterUserScramCredentialsRequest{} }, 0, false},
	{func() protocolBody { return &AlterUserScramCredentialsResponse{} }, 0, true},
}

func cbSetVersion(b protocolBody, v int16) {
	f := reflect.ValueOf(b).Elem().FieldByName("Version")
	if f.IsValid() && f.CanSet() && f.CanInt() {
		f.SetInt(int64(v))
	}
}

func cbTypeName(b interface{}) string { return reflect.TypeOf(b).Elem().Name() }

func cbModeName(mode int) string {
	switch mode {
	case 0:
		return "minimal"
	case 1:
		return "maximal"
	case 2:
		return "negative"
	case 3:
		return "wide-outer"
	case 4:
		return "empty-inner"
	case 5:
		return "empty-inner2"
	}
	return "random" + strconv.Itoa(mode)
}

// fills one body of the given version; produce / fetch get valid record sets of the generation the version carries
func cbMakeBody(b cbBody, version int16, mode int, rng *rand.Rand, attempt int) protocolBody {
	body := b.mk()
	f := &cbFill{rng: rng, mode: mode, version: version, shape: cbShapeOf(mode), pos: -1}
	f.setScalarModes(mode)
	if attempt > 0 {
		switch attempt { // retries: flags off with zeros, flags off with -1s, then seeded random
		case 1:
			f.setScalarModes(0)
		case 2:
			f.setScalarModes(2)
		default:
			f.setScalarModes(len(cbScalarModes))
		}
	}
	switch { // retries keep the collection shape and change the scalar values: all-zero (flags off), then -1s, then seeded random
	case attempt == 1:
		f.mode = 0
	case attempt == 2:
		f.mode = 2
	case attempt > 2:
		f.mode = len(cbShapes)
	}
	f.emptyNonNil = attempt%2 == 1 // an empty collection of a structural shape: nil first, non-nil empty on the retry
	name := cbTypeName(body)
	switch name {
	case "ProduceRequest":
		f.batch = version >= 3
		if version >= 2 {
			f.magic = 1
		}
	case "FetchResponse":
		f.batch = version >= 4
		if version >= 2 {
			f.magic = 1
		}
	}
	f.value(reflect.ValueOf(body).Elem())
	cbSetVersion(body, version)
	switch x := body.(type) {
	case *FetchResponse:
		for _, parts := range x.Blocks {
			for _, blk := range parts {
				if blk != nil {
					blk.Records = nil // deprecated alias of RecordsSet[0]
					if !f.batch && len(blk.RecordsSet) > 1 {
						blk.RecordsSet = blk.RecordsSet[:1] // legacy message sets are not delimited: two of them are one
					}
				}
			}
		}
	case *JoinGroupRequest: // the API takes either form of the protocol list, not both
		if len(x.GroupProtocols) > 0 && len(x.OrderedGroupProtocols) > 0 {
			if mode%2 == 0 {
				x.GroupProtocols = nil
			} else {
				x.OrderedGroupProtocols = nil
			}
		}
	case *OffsetRequest: // replica ids are >= 0 (0 is a broker id), negative means "a client"; built through the exported setter
		if x.replicaID < 0 {
			x.isReplicaIDSet = false
		} else if x.isReplicaIDSet {
			x.SetReplicaID(x.replicaID)
		}
	}
	return body
}

func cbBodySubject(b cbBody, version int16, mode int, rng *rand.Rand, framed bool, attempt int) *cbSubject {
	body := cbMakeBody(b, version, mode, rng, attempt)
	name := cbTypeName(body)
	fill := cbModeName(mode)
	if attempt > 0 {
		fill += "+retry" + strconv.Itoa(attempt)
	}
	s := &cbSubject{name: name, version: version, fill: fill, analyse: !framed && (mode < len(cbShapes) || mode%5 == 0),
		hasMap: cbHasMap(reflect.TypeOf(body), map[reflect.Type]bool{})}
	s.prepare = func(dec, orig encoder) { cbCarryLevels(reflect.ValueOf(dec), reflect.ValueOf(orig), 0) }
	if framed {
		s.kind = "framed-request"
		s.value = &request{correlationID: int32(rng.Intn(1 << 30)), clientID: "verif", body: body}
		s.fresh = func() (decoder, versionedDecoder, encoder) {
			r := &request{}
			return &cbFramed{r}, nil, &cbFramedEnc{r}
		}
		s.prepare = func(dec, orig encoder) {
			cbCarryLevels(reflect.ValueOf(dec.(*cbFramedEnc).r.body), reflect.ValueOf(orig.(*request).body), 0)
		}
		return s
	}
	s.kind = "request"
	if b.resp {
		s.kind = "response"
	}
	s.value = body
	// what the library decodes into: allocateBody(key, version) for requests (request.decode), new(T) for responses (broker.go)
	s.fresh = func() (decoder, versionedDecoder, encoder) {
		n := b.mk()
		if !b.resp {
			n = allocateBody(body.key(), version)
		}
		return nil, n, n
	}
	return s
}

// a framed request is encoded with its 4-byte length prefix; decodeRequest strips it before decode()
type cbFramed struct{ r *request }

func (c *cbFramed) decode(pd packetDecoder) error {
	lf := &lengthField{}
	if err := pd.push(lf); err != nil {
		return err
	}
	if err := c.r.decode(pd); err != nil {
		return err
	}
	return pd.pop()
}

type cbFramedEnc struct{ r *request }

func (c *cbFramedEnc) encode(pe packetEncoder) error { return c.r.encode(pe) }

func cbRecordSubjects(rng *rand.Rand, mode int) []*cbSubject {
	var out []*cbSubject
	f := &cbFill{rng: rng, mode: mode, shape: cbShapeOf(mode), pos: -1}
	f.setScalarModes(mode)
	analyse := mode < len(cbShapes) || mode%5 == 0
	for codec := CompressionNone; codec <= CompressionZSTD; codec++ {
		for _, lvl := range cbLevels[codec] {
			b := f.recordBatch(codec, false)
			b.CompressionLevel = lvl
			out = append(out, &cbSubject{name: "RecordBatch", kind: "batch", version: int16(codec), fill: fmt.Sprintf("%s/%s/level%d", cbModeName(mode), codec, lvl),
				value: b, analyse: analyse,
				fresh: func() (decoder, versionedDecoder, encoder) { n := &RecordBatch{}; return n, nil, n },
				prepare: func(dec, orig encoder) {
					dec.(*RecordBatch).CompressionLevel = orig.(*RecordBatch).CompressionLevel
				}})
		}
		if codec == CompressionZSTD {
			continue // legacy message sets predate zstd
		}
		for magic := int8(0); magic <= 1; magic++ {
			for _, lvl := range cbLevels[codec] {
				ms := f.messageSet(codec, magic)
				if codec != CompressionNone {
					ms.Messages[0].Msg.CompressionLevel = lvl
				}
				out = append(out, &cbSubject{name: "MessageSet", kind: "msgset", version: int16(codec)*2 + int16(magic), fill: fmt.Sprintf("%s/%s/level%d/magic%d", cbModeName(mode), codec, lvl, magic),
					value: ms,
					fresh: func() (decoder, versionedDecoder, encoder) { n := &MessageSet{}; return n, nil, n },
					prepare: func(dec, orig encoder) {
						cbCarryLevels(reflect.ValueOf(dec), reflect.ValueOf(orig), 0)
					}})
			}
		}
	}
	// the records of a batch on their own: varint length fields around every record
	var recs recordsArray
	f.inside(func() {
		for i, n := 0, 1+f.shapeAt(-1); i < n; i++ {
			recs = append(recs, f.record())
		}
	})
	nrec := len(recs)
	out = append(out, &cbSubject{name: "recordsArray", kind: "records", version: 0, fill: cbModeName(mode), value: recs,
		fresh: func() (decoder, versionedDecoder, encoder) { n := make(recordsArray, nrec); return n, nil, n }})
	return out
}

// A valid value must round-trip whatever the decompressor saw before: per codec, on COLD reader pools (two GCs empty
// every sync.Pool), first an undecodable but CRC-valid batch is decoded (the zero-byte payload a compacted-away batch
// keeps, or bytes that are not a stream of that codec; its outcome is not judged), then a valid batch / legacy
// message set of that codec goes through the usual encode / decode / re-encode clauses.
func cbAfterUndecodableSubjects(rng *rand.Rand) []*cbSubject {
	var out []*cbSubject
	for codec := CompressionGZIP; codec <= CompressionZSTD; codec++ {
		for _, variant := range []string{"empty-payload", "foreign-payload"} {
			codec, variant := codec, variant
			poison := func() {
				debug.SetGCPercent(-1) // keep what the poison leaves in the pools until the valid value is decoded
				runtime.GC()
				runtime.GC()
				payload := []byte{}
				if variant == "foreign-payload" {
					payload = []byte("this is not a compressed stream of any codec")
				}
				p := &RecordBatch{Version: 2, Codec: codec, compressedRecords: payload}
				var buf []byte
				if cdSafe(func() (e error) { buf, e = encode(p, nil); return }, nil) == nil {
					_ = cdSafe(func() error { return decode(buf, &RecordBatch{}) }, nil)
				}
			}
			f := &cbFill{rng: rng, mode: 1, shape: cbShapeOf(1), pos: -1}
			f.setScalarModes(1)
			b := f.recordBatch(codec, true)
			out = append(out, &cbSubject{name: "RecordBatch", kind: "batch", version: int16(codec),
				fill: fmt.Sprintf("after-undecodable/%s/%s", variant, codec), value: b, before: poison, analyse: true,
				fresh: func() (decoder, versionedDecoder, encoder) { n := &RecordBatch{}; return n, nil, n },
				prepare: func(dec, orig encoder) {
					dec.(*RecordBatch).CompressionLevel = orig.(*RecordBatch).CompressionLevel
				}})
			if codec != CompressionZSTD {
				ms := f.messageSet(codec, 1)
				out = append(out, &cbSubject{name: "MessageSet", kind: "msgset", version: int16(codec)*2 + 1,
					fill: fmt.Sprintf("after-undecodable/%s/%s", variant, codec), value: ms, before: poison,
					fresh: func() (decoder, versionedDecoder, encoder) { n := &MessageSet{}; return n, nil, n },
					prepare: func(dec, orig encoder) {
						cbCarryLevels(reflect.ValueOf(dec), reflect.ValueOf(orig), 0)
					}})
			}
		}
	}
	return out
}

// many records that compress to fewer bytes than there are records (the record count of a batch is not a byte count)
func cbManyTinySubjects() []*cbSubject {
	var out []*cbSubject
	for _, codec := range []CompressionCodec{CompressionNone, CompressionGZIP, CompressionSnappy, CompressionLZ4, CompressionZSTD} {
		b := &RecordBatch{Version: 2, Codec: codec, CompressionLevel: CompressionLevelDefault, FirstTimestamp: time.Unix(1600000000, 0), MaxTimestamp: time.Unix(1600000000, 0)}
		for i := 0; i < 5000; i++ {
			b.Records = append(b.Records, &Record{Value: []byte("a")})
		}
		out = append(out, &cbSubject{name: "RecordBatch", kind: "batch", version: int16(codec), fill: fmt.Sprintf("many-tiny-records/%s", codec), value: b,
			fresh: func() (decoder, versionedDecoder, encoder) { n := &RecordBatch{}; return n, nil, n },
			prepare: func(dec, orig encoder) {
				dec.(*RecordBatch).CompressionLevel = orig.(*RecordBatch).CompressionLevel
			}})
	}
	return out
}

func TestVerifCodecBody(t *testing.T) {
	cdLimitMemory()
	rec := vOpenRec(t, "trace.ndjson")
	sum := &cbSummary{Runs: map[string]int{}, Skipped: map[string]int{}, Panicked: map[string]string{}, seen: map[string]bool{},
		Nested: map[string]int{}, NestedType: map[string][]string{}, nestedSeen: map[string]map[string]bool{}}
	fills := 7 // 0 empty, 1-5 the structural shapes (see cbShapes), 6 seeded random
	if vThorough() {
		fills = 100
	}
	if n := vEnvInt("VERIF_CODEC_FILLS", 0); n > 0 {
		fills = n
	}
	for bi, b := range cbBodies {
		name := cbTypeName(b.mk())
		for v := int16(0); v <= b.max; v++ {
			rec.Reset(kv{"part": "body", "name": name, "ver": int(v)})
			for mode := 0; mode < fills; mode++ {
				salt := int64(bi)*1000003 + int64(v)*10007 + int64(mode)
				// a structural shape whose scalar values the encoder refuses (e.g. a flag the version does not
				// carry) is retried with other scalar values, so that every body x version is encoded in every shape
				attempt := 0
				for ; attempt < 8; attempt++ {
					if cbRun(rec, cbBodySubject(b, v, mode, vRand(salt+int64(attempt)*7919), false, attempt), sum) || mode == 0 || mode >= len(cbShapes) {
						break
					}
				}
				if !b.resp && (mode < 2 || mode%5 == 0) {
					cbRun(rec, cbBodySubject(b, v, mode, vRand(salt+int64(attempt)*7919), true, attempt), sum)
				}
			}
			key := fmt.Sprintf("%s/v%d", name, v)
			if sum.Runs[key] == 0 {
				sum.Never = append(sum.Never, key)
			}
		}
	}
	rec.Reset(kv{"part": "records", "name": "records", "ver": 0})
	for mode := 0; mode < fills; mode++ {
		for _, s := range cbRecordSubjects(vRand(int64(900000+mode)), mode) {
			cbRun(rec, s, sum)
		}
	}
	rec.Reset(kv{"part": "records", "name": "after-undecodable", "ver": 0})
	gcp := debug.SetGCPercent(100)
	for _, s := range cbAfterUndecodableSubjects(vRand(950000)) {
		cbRun(rec, s, sum)
	}
	debug.SetGCPercent(gcp)
	for _, s := range cbManyTinySubjects() {
		cbRun(rec, s, sum)
	}
	rec.Close()
	// every body x version that has a collection inside a collection must have been encoded in every nested shape class
	for _, b := range cbBodies {
		x := b.mk()
		if !cbHasNested(reflect.TypeOf(x), false, map[reflect.Type]bool{}) {
			continue
		}
		sum.NestedBodies++
		for v := int16(0); v <= b.max; v++ {
			key := fmt.Sprintf("%s/v%d", cbTypeName(x), v)
			for _, c := range cbNestClasses {
				if !sum.nestedSeen[key][c] {
					sum.NestedType[key] = append(sum.NestedType[key], c)
				}
			}
		}
	}
	vWriteJSON(t, "summary.json", sum)
}
