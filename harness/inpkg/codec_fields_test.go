//go:build verif
// +build verif

package sarama

// C09 part 2, value level: decode(encode(x)) must preserve every field the version carries.
// Which fields a version carries is not read from a schema but measured on the real encoder: a scalar
// field of x is CARRIED when changing only that field changes the encoded bytes (compared as byte
// histograms, so that Go map iteration order does not matter). Every carried field is then looked up at the
// same path in the decoded value; the pairs (path = original value) and (path = decoded value) are logged and
// compared by spec/CodecTrace.tla (clause body_fields_preserved). A field that the encoder takes from another
// member (or derives from a sibling) shows up as carried-but-not-preserved.

import (
	"crypto/sha1"
	"encoding/hex"
	"fmt"
	"reflect"
	"sort"
	"strconv"
	"strings"
	"time"
)

type cfLeaf struct {
	path string
	v    reflect.Value // settable view into the value
}

func cfIsScalarPtr(t reflect.Type) bool {
	if t.Kind() != reflect.Ptr {
		return false
	}
	switch t.Elem().Kind() {
	case reflect.String, reflect.Bool, reflect.Int8, reflect.Int16, reflect.Int32, reflect.Int64, reflect.Int:
		return true
	}
	return false
}

func cfKey(k reflect.Value) string {
	return fmt.Sprintf("%v", k.Interface())
}

// cfLeaves lists the scalar leaves of a value (exported or not), by path. settable=false: read-only walk (decoded side).
func cfLeaves(v reflect.Value, path string, out *[]cfLeaf, depth int) {
	if depth > 40 || !v.IsValid() {
		return
	}
	t := v.Type()
	switch {
	case t == cbTimeT, t == cbDurT:
		*out = append(*out, cfLeaf{path, v})
		return
	case t == cbBrokerT, t == cbKVersionT:
		return
	case cfIsScalarPtr(t):
		*out = append(*out, cfLeaf{path, v})
		return
	}
	switch v.Kind() {
	case reflect.Bool, reflect.Int8, reflect.Int16, reflect.Int32, reflect.Int64, reflect.Int,
		reflect.Uint8, reflect.Uint16, reflect.Uint32, reflect.Uint64, reflect.Uint, reflect.String:
		*out = append(*out, cfLeaf{path, v})
	case reflect.Ptr, reflect.Interface:
		if !v.IsNil() {
			cfLeaves(v.Elem(), path, out, depth+1)
		}
	case reflect.Slice:
		if t.Elem().Kind() == reflect.Uint8 {
			*out = append(*out, cfLeaf{path, v})
			return
		}
		for i := 0; i < v.Len(); i++ {
			cfLeaves(v.Index(i), path+"["+strconv.Itoa(i)+"]", out, depth+1)
		}
	case reflect.Array:
		for i := 0; i < v.Len(); i++ {
			cfLeaves(v.Index(i), path+"["+strconv.Itoa(i)+"]", out, depth+1)
		}
	case reflect.Map:
		keys := v.MapKeys()
		sort.Slice(keys, func(i, j int) bool { return cfKey(keys[i]) < cfKey(keys[j]) })
		for _, k := range keys {
			e := v.MapIndex(k) // not addressable: only what hangs off references can be changed in place
			p := path + "{" + cfKey(k) + "}"
			switch e.Kind() {
			case reflect.Ptr, reflect.Slice, reflect.Map, reflect.Struct:
				cfLeaves(e, p, out, depth+1)
			}
		}
	case reflect.Struct:
		for i := 0; i < t.NumField(); i++ {
			fd := t.Field(i)
			if (fd.PkgPath != "" && cbNotValue[fd.Name]) || fd.Name == "Version" {
				continue
			}
			var fv reflect.Value
			if v.CanAddr() {
				fv = cbField(v, i)
			} else if fd.PkgPath == "" {
				fv = v.Field(i)
				switch fv.Kind() { // value of a map entry: follow references only
				case reflect.Ptr, reflect.Slice, reflect.Map:
					if fv.Kind() == reflect.Slice && fv.Type().Elem().Kind() == reflect.Uint8 {
						continue
					}
					if cfIsScalarPtr(fv.Type()) {
						continue
					}
				default:
					continue
				}
			}
			if fv.IsValid() {
				cfLeaves(fv, path+"."+fd.Name, out, depth+1)
			}
		}
	}
}

func cfRepr(v reflect.Value) string {
	t := v.Type()
	switch {
	case t == cbTimeT:
		tm := v.Interface().(time.Time)
		if tm.IsZero() {
			return "t0"
		}
		return "t" + strconv.FormatInt(tm.UnixNano()/int64(time.Millisecond), 10)
	case cfIsScalarPtr(t):
		if v.IsNil() {
			return "nil"
		}
		return "&" + cfRepr(v.Elem())
	}
	switch v.Kind() {
	case reflect.Slice: // []byte; nil and empty are one value here (the tape clauses see the wire difference)
		b := v.Bytes()
		if len(b) > 16 {
			h := sha1.Sum(b)
			return "b" + strconv.Itoa(len(b)) + "#" + hex.EncodeToString(h[:6])
		}
		return "b" + hex.EncodeToString(b)
	case reflect.String:
		s := v.String()
		if len(s) > 24 {
			h := sha1.Sum([]byte(s))
			return "s" + strconv.Itoa(len(s)) + "#" + hex.EncodeToString(h[:6])
		}
		return strconv.Quote(s)
	case reflect.Bool:
		return strconv.FormatBool(v.Bool())
	case reflect.Uint8, reflect.Uint16, reflect.Uint32, reflect.Uint64, reflect.Uint:
		return strconv.FormatUint(v.Uint(), 10)
	}
	return strconv.FormatInt(v.Int(), 10)
}

// alternative values of a leaf, each different from the current one
func cfAlternatives(v reflect.Value) []reflect.Value {
	t := v.Type()
	mk := func(x interface{}) reflect.Value { return reflect.ValueOf(x).Convert(t) }
	var out []reflect.Value
	switch {
	case t == cbTimeT:
		tm := v.Interface().(time.Time)
		if tm.IsZero() {
			return []reflect.Value{reflect.ValueOf(time.Unix(1600000000, 0))}
		}
		return []reflect.Value{reflect.ValueOf(tm.Add(time.Second)), reflect.ValueOf(time.Time{})}
	case t == cbDurT:
		return []reflect.Value{mk(v.Int() + int64(time.Millisecond)), mk(int64(7 * time.Millisecond))}
	case cfIsScalarPtr(t):
		if !v.IsNil() {
			out = append(out, reflect.Zero(t))
		}
		p := reflect.New(t.Elem())
		switch t.Elem().Kind() {
		case reflect.String:
			p.Elem().SetString("q~")
		case reflect.Bool:
			p.Elem().SetBool(v.IsNil() || !v.Elem().Bool())
		default:
			n := int64(5)
			if !v.IsNil() && v.Elem().Int() == 5 {
				n = 6
			}
			p.Elem().SetInt(n)
		}
		return append(out, p)
	}
	switch v.Kind() {
	case reflect.Bool:
		return []reflect.Value{mk(!v.Bool())}
	case reflect.String:
		out = append(out, mk(v.String()+"~"))
		if v.String() != "" {
			out = append(out, mk(""))
		}
		return out
	case reflect.Slice:
		b := append(append([]byte{}, v.Bytes()...), 0x55)
		out = append(out, reflect.ValueOf(b).Convert(t))
		if v.Len() > 0 {
			out = append(out, reflect.Zero(t))
		}
		return out
	case reflect.Uint8, reflect.Uint16, reflect.Uint32, reflect.Uint64, reflect.Uint:
		for _, c := range []uint64{v.Uint() ^ 1, 0, 5} {
			if c != v.Uint() {
				x := reflect.New(t).Elem()
				x.SetUint(c)
				if x.Uint() == c {
					out = append(out, x)
				}
			}
		}
		return out
	}
	for _, c := range []int64{v.Int() ^ 1, 0, 5, -1, 3} {
		if c != v.Int() {
			x := reflect.New(t).Elem()
			x.SetInt(c)
			if x.Int() == c {
				out = append(out, x)
			}
		}
	}
	return out
}

// compressed payload caches survive an encode and would hide a changed record field
func cfClearCaches(v reflect.Value, depth int) {
	if depth > 40 || !v.IsValid() {
		return
	}
	switch v.Kind() {
	case reflect.Ptr, reflect.Interface:
		if !v.IsNil() {
			cfClearCaches(v.Elem(), depth+1)
		}
	case reflect.Slice, reflect.Array:
		if v.Kind() == reflect.Slice && v.Type().Elem().Kind() == reflect.Uint8 {
			return
		}
		for i := 0; i < v.Len(); i++ {
			cfClearCaches(v.Index(i), depth+1)
		}
	case reflect.Map:
		for _, k := range v.MapKeys() {
			e := v.MapIndex(k)
			switch e.Kind() {
			case reflect.Ptr, reflect.Slice, reflect.Map, reflect.Struct:
				cfClearCaches(e, depth+1)
			}
		}
	case reflect.Struct:
		t := v.Type()
		if t == cbTimeT || t == cbBrokerT {
			return
		}
		for i := 0; i < t.NumField(); i++ {
			name := t.Field(i).Name
			if v.CanAddr() {
				fv := cbField(v, i)
				if !fv.IsValid() {
					continue
				}
				if name == "compressedCache" || name == "compressedRecords" {
					fv.Set(reflect.Zero(fv.Type()))
					continue
				}
				cfClearCaches(fv, depth+1)
			} else if t.Field(i).PkgPath == "" {
				fv := v.Field(i)
				switch fv.Kind() {
				case reflect.Ptr, reflect.Slice, reflect.Map:
					cfClearCaches(fv, depth+1)
				}
			}
		}
	}
}

func cfParent(path string) string {
	if i := strings.LastIndex(path, "."); i >= 0 {
		return path[:i]
	}
	return ""
}

func cfFlagCarried(x encoder, l cfLeaf, leaves []cfLeaf) bool {
	var sib []cfLeaf
	for _, o := range leaves {
		if o.path != l.path && o.v.Kind() == reflect.Bool && o.v.CanSet() && cfParent(o.path) == cfParent(l.path) {
			sib = append(sib, o)
		}
	}
	if len(sib) == 0 {
		return false
	}
	saved := make([]bool, len(sib))
	for i, o := range sib {
		saved[i] = o.v.Bool()
	}
	mine := l.v.Bool()
	carried := false
	for _, all := range []bool{false, true} {
		for _, o := range sib {
			o.v.SetBool(all)
		}
		l.v.SetBool(mine)
		h0, ok0 := cfEncodeHist(x)
		l.v.SetBool(!mine)
		h1, ok1 := cfEncodeHist(x)
		if ok0 && ok1 && h0 != h1 {
			carried = true
			break
		}
	}
	for i, o := range sib {
		o.v.SetBool(saved[i])
	}
	l.v.SetBool(mine)
	return carried
}

type cfHist [257]int

func cfEncodeHist(x encoder) (h cfHist, ok bool) {
	cfClearCaches(reflect.ValueOf(x), 0)
	var buf []byte
	if err := cdSafe(func() (e error) { buf, e = encode(x, nil); return }, nil); err != nil {
		return h, false
	}
	h[256] = len(buf)
	for _, b := range buf {
		h[b]++
	}
	return h, true
}

type cfResult struct {
	Carried string // "path=value" of every carried leaf of the original, sorted, space separated
	Decoded string // the same paths with the values found in the decoded value ("?" where the path does not exist)
	Diff    string // the differing entries (cause signature)
	Leaves  int
	NCarr   int
}

// cfAnalyse measures which leaves of x the encoder carries and reads them back from the decoded value y.
func cfAnalyse(x encoder, y interface{}) (r cfResult, ok bool) {
	base, ok := cfEncodeHist(x)
	if !ok {
		return r, false
	}
	var leaves []cfLeaf
	cfLeaves(reflect.ValueOf(x), "", &leaves, 0)
	var dl []cfLeaf
	cfLeaves(reflect.ValueOf(y), "", &dl, 0)
	dec := map[string]string{}
	for _, l := range dl {
		dec[l.path] = cfRepr(l.v)
	}
	r.Leaves = len(leaves)
	if len(leaves) > 400 {
		leaves = leaves[:400]
	}
	var car, got, diff []string
	for _, l := range leaves {
		if !l.v.CanSet() {
			continue
		}
		orig := reflect.New(l.v.Type()).Elem()
		orig.Set(l.v)
		carried := false
		for _, alt := range cfAlternatives(l.v) {
			l.v.Set(alt)
			h, ok := cfEncodeHist(x)
			if ok && h != base {
				carried = true
				break
			}
		}
		l.v.Set(orig)
		if !carried && l.v.Kind() == reflect.Bool {
			// a flag may be masked by the other flags of its struct in this particular value (attribute bits computed in
			// a switch): it is carried if flipping it changes the bytes with the sibling flags all off or all on
			carried = cfFlagCarried(x, l, leaves)
		}
		if !carried {
			continue
		}
		r.NCarr++
		want := cfRepr(l.v)
		have, found := dec[l.path]
		if !found {
			have = "?"
		}
		car = append(car, l.path+"="+want)
		got = append(got, l.path+"="+have)
		if want != have && len(diff) < 6 {
			diff = append(diff, l.path+":"+want+"->"+have)
		}
	}
	cfClearCaches(reflect.ValueOf(x), 0)
	r.Carried, r.Decoded, r.Diff = strings.Join(car, " "), strings.Join(got, " "), strings.Join(diff, " ")
	return r, true
}
