//go:build verif
// +build verif

package sarama

import (
	"crypto/tls"
	"encoding/json"
	"fmt"
	"os"
	"runtime"
	"sort"
	"sync"
	"sync/atomic"
	"testing"
	"time"
)

func mdConfig(c *mdCluster, ver string, retryMax int) *Config {
	conf := NewConfig()
	switch ver {
	case "v5":
		conf.Version = V1_0_0_0
	case "v1":
		conf.Version = V0_10_0_0
	default:
		conf.Version = V0_8_2_0
	}
	conf.Metadata.RefreshFrequency = 0
	conf.Metadata.Retry.Max = retryMax
	conf.Metadata.Retry.Backoff = 0
	conf.Metadata.Full = true
	conf.Net.DialTimeout = 3 * time.Second
	conf.Net.ReadTimeout = 3 * time.Second
	conf.Net.WriteTimeout = 3 * time.Second
	conf.Net.Proxy.Enable = true
	conf.Net.Proxy.Dialer = &mdDialer{c: c}
	return conf
}

// how every candidate of step.Down misbehaves: given by the behaviour (spec/Metadata.tla KSeq)
func mdModes(step *mdStep) (map[string]int, []string) {
	m := map[string]int{}
	names := []string{}
	for j, ep := range step.Down {
		name := "refuse"
		if j < len(step.Modes) {
			name = step.Modes[j]
		}
		m[ep] = mdModeByName[name] // validated when the cases are read
		names = append(names, name)
	}
	return m, names
}

// mdRefresh asks for the refresh the way the behaviour says: a full refresh with no argument, with a nil
// slice or with an empty non-nil slice; otherwise the listed topics.
func mdRefresh(cl Client, step *mdStep) error {
	if len(step.Req) > 0 {
		return cl.RefreshMetadata(step.Req...)
	}
	switch step.How {
	case "nil":
		var none []string
		return cl.RefreshMetadata(none...)
	case "empty":
		return cl.RefreshMetadata([]string{}...)
	}
	return cl.RefreshMetadata()
}

// mdPeek reads (only) the candidate lists of the client: endpoint names of the live seeds in
// order, and of the registered brokers.
func mdPeek(c *mdCluster, cl Client) (live, known []string) {
	live, known = []string{}, []string{}
	x, ok := cl.(*client)
	if !ok {
		return
	}
	x.lock.RLock()
	defer x.lock.RUnlock()
	name := func(b *Broker) string {
		if n, ok := c.byAddr[b.Addr()]; ok {
			return n
		}
		return "?" + b.Addr()
	}
	for _, b := range x.seedBrokers {
		live = append(live, name(b))
	}
	for _, b := range x.brokers {
		known = append(known, name(b))
	}
	sort.Strings(known)
	return
}

func mdSwapSeeds(step *mdStep) *mdStep {
	sw := func(s string) string {
		switch s {
		case "s1":
			return "s2"
		case "s2":
			return "s1"
		}
		return s
	}
	n := *step
	n.Down = nil
	for _, d := range step.Down {
		n.Down = append(n.Down, sw(d))
	}
	n.Head, n.Hold = sw(step.Head), sw(step.Hold)
	return &n
}

type mdConcRead struct {
	s0, s1 int64
	r      mdRead
	ok     bool
	val    interface{}
	err    string
	key    string
}

// partitions present in both worlds: the only ones readers ask for in the concurrent family
func mdCommonReads(a, b *mdWorld) []mdRead {
	present := func(w *mdWorld) map[string]bool {
		m := map[string]bool{}
		for _, t := range w.Topics {
			for _, pi := range t[2].([]interface{}) {
				m[fmt.Sprintf("%s/%d", t[0].(string), int(pi.([]interface{})[0].(float64)))] = true
			}
		}
		return m
	}
	pa, pb := present(a), present(b)
	rs := []mdRead{{api: "brokers"}, {api: "topics"}, {api: "controller"}}
	for _, t := range []string{"t1", "t2"} {
		rs = append(rs, mdRead{api: "partitions", t: t}, mdRead{api: "writable", t: t})
		for p := int32(0); p < 2; p++ {
			k := fmt.Sprintf("%s/%d", t, p)
			if pa[k] && pb[k] {
				for _, api := range []string{"leader", "replicas", "isr", "offline"} {
					rs = append(rs, mdRead{api: api, t: t, p: p})
				}
			}
		}
	}
	return rs
}

type mdStats struct {
	mu                                          sync.Mutex
	cases, steps, reads, concReads, concKept    int
	serves, hangs, panics, created, notCreated  int
	byFam, byVer, byMode                        map[string]int
	missReads, failedRefreshes, servedRefreshes int
	samples                                     []interface{}
	strangers                                   int
}

// runCase replays one behaviour and returns its events.
func mdRunCase(c *mdCluster, idx int, mc *mdCase, ver string, st *mdStats) (events []kv) {
	var seq int64
	clientID := c.beginCase(&seq)
	c.takeNotConn()
	events = append(events, kv{"ev": "reset", "fam": mc.Fam, "ver": ver, "idx": idx})
	var cl Client
	defer func() {
		if r := recover(); r != nil {
			events = append(events, kv{"ev": "panic", "what": fmt.Sprint(r)})
		}
		if cl != nil {
			_ = cl.Close()
		}
		allUp := map[string]int{}
		c.setModes(allUp)
		if n := c.endCase(); n > 0 {
			st.mu.Lock()
			st.strangers += n
			st.mu.Unlock()
		}
	}()
	retryMax := 1
	if mc.Retry != nil {
		retryMax = *mc.Retry
	}
	conf := mdConfig(c, ver, retryMax)
	conf.ClientID = clientID
	if mc.Steer == "openwin" {
		conf.Net.TLS.Config = &tls.Config{} // TLS stays disabled: Validate only logs the warning the steering parks on
	}
	for k := range mc.Steps {
		step := &mc.Steps[k]
		live, known := []string{}, []string{}
		if cl != nil {
			live, known = mdPeek(c, cl)
		}
		if mc.Fam == "cref" && step.Head != "" && len(live) > 0 && live[0] != step.Head {
			// the seeds are interchangeable: the model's head seed plays the real client's head seed
			step = mdSwapSeeds(step)
		}
		modes, modeNames := mdModes(step)
		c.setWorld(&step.World)
		c.setModes(modes)
		ev := kv{"ev": "step", "k": k, "mut": step.Mut, "req": append([]string{}, step.Req...),
			"down": append([]string{}, step.Down...), "modes": modeNames, "r0": 0, "r1": 0, "conc": []interface{}{}, "nconc": 0,
			"live": live, "known": known, "hold": step.Hold, "steer": mc.Steer, "how": step.How, "nref": 1, "retry": retryMax}
		var err error
		var results []string
		if k == 0 {
			cl, err = NewClient([]string{c.addr["s1"], c.addr["s2"]}, conf)
			if err != nil {
				cl = nil
			}
		} else if mc.Fam == "conc" {
			conc, r0, r1, n, e := mdConcRound(c, cl, &seq, mdCommonReads(&mc.Steps[k-1].World, &step.World), step)
			err = e
			ev["r0"], ev["r1"], ev["conc"], ev["nconc"] = r0, r1, conc, n
			st.mu.Lock()
			st.concReads += n
			st.concKept += len(conc)
			st.mu.Unlock()
		} else if mc.Fam == "cref" {
			// NRef goroutines call RefreshMetadata at once; the failure of the head candidate is held
			// until all of them have a request in flight on it
			n := mc.Nref
			if n < 1 {
				n = 1
			}
			ev["nref"] = n
			c.setHold(step.Hold, n)
			errs := make([]error, n)
			start := make(chan struct{})
			var wg sync.WaitGroup
			for g := 0; g < n && mc.Steer == ""; g++ {
				wg.Add(1)
				go func(g int) {
					defer wg.Done()
					<-start
					errs[g] = mdRefresh(cl, step)
				}(g)
			}
			if mc.Steer == "openwin" && n == 2 {
				// the model's counterexample, steered: caller A is parked inside Broker.Open's window on the
				// candidate it turns to after the head failed; caller B runs meanwhile; then A is released
				mdPark.mu.Lock()
				mdPark.armed, mdPark.parked, mdPark.release = true, make(chan struct{}), make(chan struct{})
				parked, release := mdPark.parked, mdPark.release
				mdPark.mu.Unlock()
				wg.Add(1)
				go func() { defer wg.Done(); errs[0] = mdRefresh(cl, step) }()
				select {
				case <-parked:
				case <-time.After(2 * time.Second):
				}
				wg.Add(1)
				go func() { defer wg.Done(); errs[1] = mdRefresh(cl, step) }()
				time.Sleep(150 * time.Millisecond)
				mdPark.mu.Lock()
				mdPark.armed = false
				mdPark.mu.Unlock()
				close(release)
			}
			close(start)
			wg.Wait()
			c.setHold("", 0)
			for _, e := range errs {
				results = append(results, mdResult(e))
				if e != nil && err == nil {
					err = e
				}
			}
		} else {
			err = mdRefresh(cl, step)
		}
		c.setModes(map[string]int{}) // everybody reachable again for the reads
		if results == nil {
			results = []string{mdResult(err)}
		}
		ev["results"] = results
		ev["notconn"] = c.takeNotConn() // candidates from which a caller got ErrNotConnected during the refresh(es)
		ev["result"] = mdResult(err)
		ev["created"] = cl != nil
		// distinct responses of this step are logged once (resps), serves are 1-based indexes into it
		resps := []kv{}
		respIdx := map[string]int{}
		index := func(served []kv) []int {
			out := []int{}
			for _, r := range served {
				b, _ := json.Marshal(kv{"full": r["full"], "ctrl": r["ctrl"], "brokers": r["brokers"], "topics": r["topics"]})
				j, ok := respIdx[string(b)]
				if !ok {
					resps = append(resps, kv{"full": r["full"], "ctrl": r["ctrl"], "brokers": r["brokers"], "topics": r["topics"]})
					j = len(resps)
					respIdx[string(b)] = j
				}
				out = append(out, j)
			}
			return out
		}
		sv := index(c.take())
		ev["serves"] = sv
		reads := [][]interface{}{}
		nmiss := 0
		if cl != nil {
			for _, r := range mdAllReads() {
				ok, val, e := c.doRead(cl, r)
				rs := c.take()
				if len(rs) > 0 {
					nmiss++
				}
				reads = append(reads, []interface{}{r.api, r.t, r.p, ok, val, e, index(rs)})
			}
		}
		ev["reads"] = reads
		ev["resps"] = resps
		events = append(events, ev)
		st.mu.Lock()
		st.steps++
		st.reads += len(reads)
		st.missReads += nmiss
		c.mu.Lock()
		st.serves += c.nserve
		c.nserve = 0
		c.mu.Unlock()
		if len(sv) > 0 {
			st.servedRefreshes++
		} else {
			st.failedRefreshes++
		}
		for _, m := range modeNames {
			st.byMode[m]++
		}
		st.mu.Unlock()
		if cl == nil {
			break
		}
	}
	st.mu.Lock()
	if cl != nil {
		st.created++
	} else {
		st.notCreated++
	}
	st.mu.Unlock()
	return events
}

// mdConcRound: readers hammer the read APIs while ONE refresher runs RefreshMetadata.
// Every read is stamped with the shared sequence counter before and after the call. Runs of
// identical consecutive answers of one reader for one key are reduced to their first and last
// element (the clause is monotone in the stamps, so nothing is lost).
func mdConcRound(c *mdCluster, cl Client, seq *int64, rs []mdRead, step *mdStep) ([]interface{}, int64, int64, int, error) {
	const readers = 4
	var stop int32
	var wg sync.WaitGroup
	out := make([][]mdConcRead, readers)
	counts := make([]int64, readers)
	for g := 0; g < readers; g++ {
		wg.Add(1)
		go func(g int) {
			defer wg.Done()
			last := map[string]int{} // key -> index in out[g] of the last kept record of the current run
			first := map[string]bool{}
			for i := g * 3; atomic.LoadInt32(&stop) == 0; i++ {
				r := rs[i%len(rs)]
				s0 := atomic.AddInt64(seq, 1)
				ok, val, e := c.doRead(cl, r)
				s1 := atomic.AddInt64(seq, 1)
				atomic.AddInt64(&counts[g], 1)
				b, _ := json.Marshal([]interface{}{ok, val, e})
				rec := mdConcRead{s0: s0, s1: s1, r: r, ok: ok, val: val, err: e, key: string(b)}
				k := fmt.Sprintf("%s/%s/%d", r.api, r.t, r.p)
				if j, seen := last[k]; seen && out[g][j].key == rec.key {
					if first[k] { // run of length >= 2: keep a separate "last" record
						out[g] = append(out[g], rec)
						last[k] = len(out[g]) - 1
						first[k] = false
					} else {
						out[g][j] = rec // slide the "last" record of the run
					}
				} else {
					out[g] = append(out[g], rec)
					last[k] = len(out[g]) - 1
					first[k] = true
				}
			}
		}(g)
	}
	warm := func(n int64) {
		deadline := time.Now().Add(2 * time.Second)
		for time.Now().Before(deadline) {
			okAll := true
			for g := range counts {
				if atomic.LoadInt64(&counts[g]) < n {
					okAll = false
				}
			}
			if okAll {
				return
			}
			runtime.Gosched()
		}
	}
	warm(int64(len(rs)))
	r0 := atomic.AddInt64(seq, 1)
	err := mdRefresh(cl, step)
	r1 := atomic.AddInt64(seq, 1)
	base := make([]int64, readers)
	for g := range counts {
		base[g] = atomic.LoadInt64(&counts[g])
	}
	deadline := time.Now().Add(2 * time.Second)
	for time.Now().Before(deadline) {
		okAll := true
		for g := range counts {
			if atomic.LoadInt64(&counts[g]) < base[g]+int64(len(rs)) {
				okAll = false
			}
		}
		if okAll {
			break
		}
		runtime.Gosched()
	}
	atomic.StoreInt32(&stop, 1)
	wg.Wait()
	n := 0
	recs := []interface{}{}
	for g := range out {
		n += int(counts[g])
		for _, r := range out[g] {
			recs = append(recs, []interface{}{r.s0, r.s1, r.r.api, r.r.t, r.r.p, r.ok, r.val, r.err})
		}
	}
	return recs, r0, r1, n, err
}

func TestVerifMetadata(t *testing.T) {
	Logger = mdLogger{}
	lines := vReadLines(t, "VERIF_CASES")
	cases := make([]*mdCase, len(lines))
	for i, l := range lines {
		mc := &mdCase{}
		if err := json.Unmarshal([]byte(l), mc); err != nil {
			t.Fatalf("case %d: %v", i, err)
		}
		for _, st := range mc.Steps {
			for _, m := range st.Modes {
				if _, ok := mdModeByName[m]; !ok {
					t.Fatalf("case %d: unknown misbehaviour %q", i, m)
				}
			}
			if len(st.Modes) != len(st.Down) {
				t.Fatalf("case %d: modes and down differ in length", i)
			}
		}
		cases[i] = mc
	}
	rec := vOpenRec(t, "trace.ndjson")
	st := &mdStats{byFam: map[string]int{}, byVer: map[string]int{}, byMode: map[string]int{}}
	workers := vEnvInt("VERIF_WORKERS", runtime.NumCPU()-2)
	if workers < 1 {
		workers = 1
	}
	// self-test of the harness (runs beside the cases, on a cluster of its own): a client carrying
	// another client id gets no answer and nothing is logged as served
	strangerErr := make(chan string, 1)
	go func() {
		c := mdNewCluster()
		defer c.close()
		var seq int64
		c.beginCase(&seq)
		c.setWorld(&cases[0].Steps[0].World)
		conf := mdConfig(c, "v5", 0)
		conf.ClientID = fmt.Sprintf("somebody-else-%d", os.Getpid())
		conf.Net.ReadTimeout = 300 * time.Millisecond
		cl, err := NewClient([]string{c.addr["s1"], c.addr["s2"]}, conf)
		if cl != nil {
			_ = cl.Close()
		}
		served := len(c.take())
		if err == nil || served != 0 || c.endCase() == 0 {
			strangerErr <- fmt.Sprintf("a client with a foreign client id was served (err=%v, served=%d)", err, served)
			return
		}
		strangerErr <- ""
	}()
	var next int64 = -1
	var wg sync.WaitGroup
	for w := 0; w < workers; w++ {
		wg.Add(1)
		go func() {
			defer wg.Done()
			c := mdNewCluster()
			for {
				i := int(atomic.AddInt64(&next, 1))
				if i >= len(cases) {
					break
				}
				mc := cases[i]
				ver := "v5"
				switch i % 8 {
				case 3:
					ver = "v1"
				case 6:
					ver = "v0"
				}
				done := make(chan []kv, 1)
				cc := c
				go func() { done <- mdRunCase(cc, i, mc, ver, st) }()
				var evs []kv
				select {
				case evs = <-done:
				case <-time.After(90 * time.Second):
					// the code under test hangs: recorded as an event; the cluster is abandoned
					evs = []kv{{"ev": "reset", "fam": mc.Fam, "ver": ver, "idx": i}, {"ev": "hang", "what": "case did not finish in 90s"}}
					c = mdNewCluster()
					st.mu.Lock()
					st.hangs++
					st.mu.Unlock()
				}
				rec.mu.Lock()
				rec.t++
				rec.i = 0
				for _, e := range evs {
					f := kv{}
					for k, v := range e {
						if k != "ev" {
							f[k] = v
						}
					}
					rec.emitLocked(e["ev"].(string), f)
				}
				rec.mu.Unlock()
				st.mu.Lock()
				st.cases++
				st.byFam[mc.Fam]++
				st.byVer[ver]++
				if len(st.samples) < 3 && (i%97 == 5 || len(cases) < 100) {
					results := []interface{}{}
					for _, e := range evs {
						if e["ev"] == "step" {
							results = append(results, []interface{}{e["result"], len(e["serves"].([]int))})
						}
					}
					st.samples = append(st.samples, kv{"case": mc, "version": ver, "result_and_responses_served_per_step": results})
				}
				for _, e := range evs {
					if e["ev"] == "panic" || e["ev"] == "hang" {
						st.panics++
					}
				}
				st.mu.Unlock()
			}
			c.close()
		}()
	}
	wg.Wait()
	if msg := <-strangerErr; msg != "" {
		t.Fatalf("harness self-test: %s", msg)
	}
	rec.Close()
	vWriteJSON(t, "summary.json", kv{
		"cases": st.cases, "steps": st.steps, "reads": st.reads, "conc_reads": st.concReads, "conc_reads_kept": st.concKept,
		"responses_served": st.serves, "hangs": st.hangs, "panics_or_hangs": st.panics, "clients_created": st.created,
		"creation_failed": st.notCreated, "by_family": st.byFam, "by_version": st.byVer, "down_by_mode": st.byMode,
		"reads_that_refreshed_on_miss": st.missReads, "refreshes_served": st.servedRefreshes,
		"refreshes_nobody_answered": st.failedRefreshes, "events": rec.events, "requests_of_strangers_turned_away": st.strangers, "samples": st.samples,
	})
}

type noopLogger struct{}

func (noopLogger) Print(v ...interface{})                 {}
func (noopLogger) Printf(format string, v ...interface{}) {}
func (noopLogger) Println(v ...interface{})               {}
