//go:build verif
// +build verif

package sarama

// SyncProducer family (C01: SendMessage/SendMessages return, for each message, exactly the
// outcome of that message). The return values are recorded as the same success / error events
// the async driver records from the channels, so the same observer clauses apply.

import (
	"fmt"
	"strings"
	"sync"
	"sync/atomic"
	"testing"
	"time"
)

func runSyncScenario(t testing.TB, rec *vRec, sc *prodScenario) {
	rec = rec.Sub() // scoped to this scenario: stragglers of an abandoned run cannot pollute later traces
	cfgv := sc.Cfg
	if cfgv.NBrokers == 0 {
		cfgv.NBrokers = 1
	}
	if cfgv.Version == "" {
		cfgv.Version = "0.11.0.0"
	}
	if cfgv.ReadTimeout == 0 {
		// a short read timeout only where the script needs the client to time out (a request that is
		// never answered); everywhere else it is long, so that a held request on a slow machine can
		// never turn into an unscripted connection-level failure
		cfgv.ReadTimeout = 8000
		for _, p := range sc.Plans {
			if p != nil && strings.HasPrefix(p.Conn, "silence") {
				cfgv.ReadTimeout = 250
			}
		}
		if cfgv.InitPidFault == "silence" {
			cfgv.ReadTimeout = 250
		}
	}
	if cfgv.Acks == "" {
		cfgv.Acks = "local"
	}
	if cfgv.Idem {
		cfgv.Acks = "all"
	}
	rec.Reset(kv{"name": sc.Name, "family": sc.Family, "idem": cfgv.Idem, "retryMax": cfgv.RetryMax, "flushMsgs": cfgv.FlushMsgs,
		"flushFreqMs": cfgv.FlushFreqMs, "flushMaxMsgs": cfgv.FlushMaxMsgs, "maxMsgBytes": 1000000, "nparts": len(cfgv.Leaders),
		"nbrokers": cfgv.NBrokers, "acks": cfgv.Acks, "codec": cfgv.Codec, "partitioner": "manual",
		"interceptors": 0, "sync": true, "maxReqSize": 0, "version": cfgv.Version})
	c := newSimCluster(t, rec, cfgv.NBrokers, cfgv.Leaders)
	defer c.Close()
	if cfgv.IDBase0 {
		c.SetIDBase(0)
	}
	for k, p := range sc.Plans {
		var n int
		fmt.Sscanf(k, "%d", &n)
		c.plans[n] = p
	}
	config := NewConfig()
	config.ClientID = c.clientID
	v, err := ParseKafkaVersion(cfgv.Version)
	if err != nil {
		t.Fatalf("bad version %q", cfgv.Version)
	}
	config.Version = v
	config.Producer.Return.Successes = true
	config.Producer.Return.Errors = true
	config.Producer.Retry.Max = cfgv.RetryMax
	config.Producer.Retry.Backoff = time.Duration(cfgv.BackoffMs) * time.Millisecond
	config.Producer.Flush.Messages = cfgv.FlushMsgs
	config.Producer.Flush.Frequency = time.Duration(cfgv.FlushFreqMs) * time.Millisecond
	config.Producer.Flush.MaxMessages = cfgv.FlushMaxMsgs
	config.Producer.Partitioner = NewManualPartitioner
	switch cfgv.Acks {
	case "all":
		config.Producer.RequiredAcks = WaitForAll
	default:
		config.Producer.RequiredAcks = WaitForLocal
	}
	config.Net.ReadTimeout = time.Duration(cfgv.ReadTimeout) * time.Millisecond
	config.Net.DialTimeout = 500 * time.Millisecond
	config.Metadata.Retry.Max = 1
	config.Metadata.Retry.Backoff = 5 * time.Millisecond
	config.Metadata.RefreshFrequency = 0
	if cfgv.Idem {
		config.Producer.Idempotent = true
		config.Net.MaxOpenRequests = 1
	}
	vUseDialer(config)
	if err := config.Validate(); err != nil {
		rec.Ev("skip", kv{"why": "config invalid: " + err.Error()})
		return
	}
	sp, err := NewSyncProducer(c.Addrs(), config)
	if err != nil {
		rec.Ev("skip", kv{"why": "producer not created: " + errClass(err)})
		return
	}
	var wg sync.WaitGroup
	var outcomes int64
	mk := func(st prodStep) *ProducerMessage {
		val := fmt.Sprintf("v%d|", st.ID)
		m := &ProducerMessage{Topic: simTopic, Partition: int32(st.Part), Value: StringEncoder(val), Metadata: st.ID}
		c.mu.Lock()
		c.submitted[st.ID] = &simSubmitted{value: []byte(val), tsMs: -1}
		c.mu.Unlock()
		rec.Ev("submit", kv{"id": st.ID, "part": st.Part, "keyed": false, "size": len(val)})
		return m
	}
	report := func(m *ProducerMessage, part int32, off int64, err error) {
		if err != nil {
			rec.Ev("error", kv{"id": msgID(m), "err": errClass(err)})
		} else {
			rec.Ev("success", kv{"id": msgID(m), "part": int(part), "off": int(off)})
		}
		atomic.AddInt64(&outcomes, 1)
	}
	var batch []*ProducerMessage
	for _, st := range sc.Steps {
		switch st.Op {
		case "submit":
			m := mk(st)
			wg.Add(1)
			go func() {
				defer wg.Done()
				p, o, err := sp.SendMessage(m)
				if err == nil && (p != m.Partition || o != m.Offset) {
					rec.Ev("sync_mismatch", kv{"id": msgID(m)})
				}
				report(m, p, o, err)
			}()
			time.Sleep(time.Millisecond) // keep the submission order of the script
		case "batch_add":
			batch = append(batch, mk(st))
		case "batch_send":
			msgs := batch
			batch = nil
			wg.Add(1)
			go func() {
				defer wg.Done()
				err := sp.SendMessages(msgs)
				failed := map[*ProducerMessage]error{}
				if pes, ok := err.(ProducerErrors); ok {
					for _, pe := range pes {
						failed[pe.Msg] = pe.Err
					}
				} else if err != nil {
					for _, m := range msgs {
						failed[m] = err
					}
				}
				for _, m := range msgs {
					report(m, m.Partition, m.Offset, failed[m])
				}
			}()
		case "wait_req":
			d := vWait
			if st.Ms > 0 {
				d = time.Duration(st.Ms) * time.Millisecond
			}
			if !c.WaitReq(st.N, d) {
				rec.Ev("unsteered", kv{"what": fmt.Sprintf("wait_req %d", st.N)})
			}
		case "release":
			c.Release(st.N)
		case "wait_outcomes":
			d := vWait
			if st.Ms > 0 {
				d = time.Duration(st.Ms) * time.Millisecond
			}
			dl := time.Now().Add(d)
			for atomic.LoadInt64(&outcomes) < int64(st.N) && time.Now().Before(dl) {
				time.Sleep(2 * time.Millisecond)
			}
		case "move":
			c.MoveLeader(int32(st.Part), int32(st.To))
		case "sleep":
			time.Sleep(time.Duration(st.Ms) * time.Millisecond)
		}
	}
	for n := range sc.Plans {
		var k int
		fmt.Sscanf(n, "%d", &k)
		c.Release(k)
	}
	// every call must return
	done := make(chan struct{})
	go func() { wg.Wait(); close(done) }()
	if vAwait(done, vCloseMax) {
	} else {
		rec.Ev("hang", kv{"what": "submit"})
	}
	rec.Ev("close_call", kv{"async": false})
	cd := make(chan struct{})
	go func() { sp.Close(); close(cd) }()
	if vAwait(cd, vCloseMax) {
		rec.Ev("succ_closed", nil)
		rec.Ev("err_closed", nil)
		rec.Ev("close_ret", nil)
	} else {
		rec.Ev("hang", kv{"what": "close"})
	}
	rec.Ev("fin", kv{"logs": [][]interface{}{}, "hooks": 0})
}
