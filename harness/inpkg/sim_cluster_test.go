//go:build verif
// +build verif

package sarama

// Simulated Kafka cluster (trusted base, DESIGN.md 3.4): N brokers on loopback listeners with
// their own frame reader/writer, requests decoded and responses encoded with sarama's protocol
// structs, cluster state under one mutex, every decision recorded as an event.

import (
	"bytes"
	"encoding/binary"
	"fmt"
	"io"
	"net"
	"os"
	"sort"
	"strconv"
	"strings"
	"sync"
	"sync/atomic"
	"testing"
	"time"
)

const simTopic = "vt"

type simRecord struct {
	id     int
	pid    int64
	epoch  int16
	seq    int32
	key    []byte
	value  []byte
	hdrs   []RecordHeader
	tsMs   int64
	isCtl  bool
	txn    bool
	offset int64
}

type simBatchMeta struct {
	first, n int32
	base     int64
}

type simPart struct {
	leader int32
	// follower fetching (KIP-392): index of a broker that also holds the log; the leader then sends a rack-aware consumer there
	follower int32
	log    []simRecord
	// producer-id state (single producer id per scenario)
	hasState bool
	pepoch   int16
	pnext    int32
	win      []simBatchMeta
	// consumer side: the log as stored batches
	batches  []simLogBatch
	logStart int64
	fetchN   int
	// offset of the last fetch that was answered with data or emptily (faults excluded)
	lastFetchOff int64
}

// per produce-request plan (fault script)
type simPlan struct {
	Hold      bool              `json:"hold"`      // wait for Release(n) before acting
	Conn      string            `json:"conn"`      // "", drop_before, drop_after, silence_before, silence_after
	Part      map[string]string `json:"part"`      // partition -> ok | retry | retryapp | fatal | missing | code:<n> | codeapp:<n>
	MoveAfter map[string]int32  `json:"moveAfter"` // partition -> new leader (after handling)
	DelayMs   int               `json:"delayMs"`
}

type simSubmitted struct {
	key, value []byte
	hdrs       []RecordHeader
	tsMs       int64
}

type simCluster struct {
	t   testing.TB
	rec *vRec
	mu  sync.Mutex

	brokers []*simBroker
	parts   map[int32]*simPart
	pid     int64

	submitted map[int]*simSubmitted
	plans     map[int]*simPlan
	produceN  int
	holds     map[int]chan struct{}
	reqSeen   map[int]chan struct{}
	metaFail  int // number of upcoming metadata requests answered with an unusable leader
	metaN     int
	closed    bool
	logAppend bool // LogAppendTime: responses carry a timestamp

	noHold bool // conducted replay left its behaviour: requests are no longer held
	// conducted replay: a produce request WITHOUT any batch (the idempotent producer forces an empty buffer out on an epoch
	// roll-over) is answered at once, is not numbered and takes no plan; the conductor is told (broker index)
	onEmptyProduce func(broker int32)
	reqIDs         map[int]map[int][]int // produce request number -> partition -> ids it carries

	// the Kafka client id the scenario's clients carry (unique per cluster and process): requests with another client id come from a
	// client that does not belong to this scenario (another verification process whose client redials a port this listener was given
	// afterwards, or a straggler of an abandoned scenario) - such connections are closed without being recorded
	clientID       string
	initPidFault   string
	fetchPlans     map[string]*simFetchPlan
	abortedReverse bool
}

type simBroker struct {
	c    *simCluster
	idx  int32 // 1-based index used by scenarios (leaders, moves); 0 = no broker
	id   int32 // the Kafka broker id announced in metadata (idBase + idx - 1; may be 0)
	ln   net.Listener
	wg   sync.WaitGroup
	mu   sync.Mutex
	cons map[net.Conn]bool
}

var simClusterSeq int64

func newSimCluster(t testing.TB, rec *vRec, nbrokers int, leaders []int32) *simCluster {
	c := &simCluster{t: t, rec: rec, parts: map[int32]*simPart{}, pid: 7000, submitted: map[int]*simSubmitted{},
		plans: map[int]*simPlan{}, holds: map[int]chan struct{}{}, reqSeen: map[int]chan struct{}{}, fetchPlans: map[string]*simFetchPlan{}}
	c.clientID = fmt.Sprintf("verif-%d-%d", os.Getpid(), atomic.AddInt64(&simClusterSeq, 1))
	for p, l := range leaders {
		c.parts[int32(p)] = &simPart{leader: l}
	}
	for i := 0; i < nbrokers; i++ {
		ln, err := net.Listen("tcp", "127.0.0.1:0")
		if err != nil {
			t.Fatal(err)
		}
		b := &simBroker{c: c, idx: int32(i + 1), id: int32(i + 1), ln: ln, cons: map[net.Conn]bool{}}
		c.brokers = append(c.brokers, b)
		go b.serve()
	}
	return c
}

// SetIDBase renumbers the brokers' Kafka ids (idBase 0 makes the first broker id 0, a valid id that
// code must not confuse with "unset"); scenario-level indices stay 1-based.
func (c *simCluster) SetIDBase(base int32) {
	for _, b := range c.brokers {
		b.id = base + b.idx - 1
	}
}

func (c *simCluster) idOf(idx int32) int32 {
	for _, b := range c.brokers {
		if b.idx == idx {
			return b.id
		}
	}
	return -1
}

func (c *simCluster) Addrs() []string {
	var a []string
	for _, b := range c.brokers {
		a = append(a, b.ln.Addr().String())
	}
	return a
}

func (c *simCluster) Close() {
	c.mu.Lock()
	c.closed = true
	for _, h := range c.holds {
		select {
		case <-h:
		default:
			close(h)
		}
	}
	c.mu.Unlock()
	for _, b := range c.brokers {
		b.ln.Close()
		b.mu.Lock()
		for cn := range b.cons {
			cn.Close()
		}
		b.mu.Unlock()
	}
	for _, b := range c.brokers {
		b.wg.Wait()
	}
}

func (c *simCluster) holdChan(n int) chan struct{} {
	h := c.holds[n]
	if h == nil {
		h = make(chan struct{})
		c.holds[n] = h
	}
	return h
}

func (c *simCluster) seenChan(n int) chan struct{} {
	h := c.reqSeen[n]
	if h == nil {
		h = make(chan struct{})
		c.reqSeen[n] = h
	}
	return h
}

// Release lets held produce request n proceed.
func (c *simCluster) Release(n int) {
	c.mu.Lock()
	h := c.holdChan(n)
	c.mu.Unlock()
	select {
	case <-h:
	default:
		close(h)
	}
}

// LiftHolds lets every held produce request proceed and stops holding later ones (fail-open of a conducted replay).
func (c *simCluster) LiftHolds() {
	c.mu.Lock()
	c.noHold = true
	for _, h := range c.holds {
		select {
		case <-h:
		default:
			close(h)
		}
	}
	c.mu.Unlock()
}

// ReqIDs returns the content of produce request n as it arrived: partition -> ids.
func (c *simCluster) ReqIDs(n int) map[int][]int {
	c.mu.Lock()
	defer c.mu.Unlock()
	return c.reqIDs[n]
}

// ReqSeen reports whether produce request n has been received (decoded) by some broker.
func (c *simCluster) ReqSeen(n int) bool {
	c.mu.Lock()
	h := c.seenChan(n)
	c.mu.Unlock()
	select {
	case <-h:
		return true
	default:
		return false
	}
}

// WaitReq waits until produce request n has been received (decoded) by some broker.
func (c *simCluster) WaitReq(n int, d time.Duration) bool {
	c.mu.Lock()
	h := c.seenChan(n)
	c.mu.Unlock()
	select {
	case <-h:
		return true
	case <-time.After(d):
		return false
	}
}

func (c *simCluster) MoveLeader(part, to int32) {
	c.mu.Lock()
	c.parts[part].leader = to
	c.rec.Ev("move", kv{"part": int(part), "to": int(to)})
	c.mu.Unlock()
}

func (c *simCluster) Log(part int32) []int {
	c.mu.Lock()
	defer c.mu.Unlock()
	var ids []int
	for _, r := range c.parts[part].log {
		ids = append(ids, r.id)
	}
	return ids
}

func (b *simBroker) serve() {
	for {
		conn, err := b.ln.Accept()
		if err != nil {
			return
		}
		if tc, ok := conn.(*net.TCPConn); ok {
			_ = tc.SetLinger(0)
		}
		conn = condServerConn(conn)
		b.mu.Lock()
		b.cons[conn] = true
		b.mu.Unlock()
		b.wg.Add(1)
		go b.handleConn(conn)
	}
}

func (b *simBroker) handleConn(conn net.Conn) {
	defer b.wg.Done()
	defer func() {
		conn.Close()
		b.mu.Lock()
		delete(b.cons, conn)
		b.mu.Unlock()
	}()
	for {
		hdr := make([]byte, 4)
		if _, err := io.ReadFull(conn, hdr); err != nil {
			return
		}
		n := int32(binary.BigEndian.Uint32(hdr))
		if n <= 4 || n > 200<<20 {
			return
		}
		body := make([]byte, n)
		if _, err := io.ReadFull(conn, body); err != nil {
			return
		}
		req, _, err := decodeRequest(bytes.NewReader(append(hdr, body...)))
		if err != nil {
			// the client under test put bytes on the wire that are not a decodable request
			b.c.rec.Ev("bad_request", kv{"what": err.Error()})
			return
		}
		if b.c.clientID != "" && req.clientID != b.c.clientID {
			return // not a client of this scenario
		}
		res, after := b.c.handle(b, req, int(n)+4)
		if after == "drop" {
			return
		}
		if res == nil {
			continue
		}
		enc, err := encode(res, nil)
		if err != nil {
			b.c.rec.Ev("sim_error", kv{"what": "response does not encode: " + err.Error()})
			return
		}
		hl := 8
		if res.headerVersion() >= 1 {
			hl = 9
		}
		out := make([]byte, hl, hl+len(enc))
		binary.BigEndian.PutUint32(out, uint32(len(enc)+hl-4))
		binary.BigEndian.PutUint32(out[4:], uint32(req.correlationID))
		out = append(out, enc...)
		if _, err := conn.Write(out); err != nil {
			return
		}
	}
}

// handle returns the response (nil = no response) and "drop" to close the connection.
func (c *simCluster) handle(b *simBroker, req *request, wire int) (encoderWithHeader, string) {
	switch body := req.body.(type) {
	case *MetadataRequest:
		return c.handleMetadata(b, body), ""
	case *InitProducerIDRequest:
		switch c.initPidFault {
		case "drop":
			c.rec.Ev("drop", kv{"req": 0, "when": "init_producer_id"})
			return nil, "drop"
		case "silence":
			c.rec.Ev("drop", kv{"req": 0, "when": "init_producer_id_silence"})
			return nil, ""
		case "err":
			return &InitProducerIDResponse{Err: ErrConsumerCoordinatorNotAvailable}, ""
		}
		return &InitProducerIDResponse{ProducerID: c.pid, ProducerEpoch: 0}, ""
	case *ProduceRequest:
		return c.handleProduce(b, body, wire)
	case *FetchRequest:
		return c.handleFetch(b, body)
	case *OffsetRequest:
		return c.handleOffsets(b, body), ""
	case *ApiVersionsRequest:
		return nil, "drop"
	}
	return nil, ""
}

func (c *simCluster) handleMetadata(b *simBroker, r *MetadataRequest) encoderWithHeader {
	c.mu.Lock()
	defer c.mu.Unlock()
	c.metaN++
	fail := false
	if c.metaFail > 0 {
		c.metaFail--
		fail = true
	}
	md := &MetadataResponse{Version: r.Version, ControllerID: c.idOf(1)}
	for _, br := range c.brokers {
		md.AddBroker(br.ln.Addr().String(), br.id)
	}
	var ps []int
	for p := range c.parts {
		ps = append(ps, int(p))
	}
	sort.Ints(ps)
	for _, p := range ps {
		pt := c.parts[int32(p)]
		if fail || pt.leader <= 0 {
			md.AddTopicPartition(simTopic, int32(p), -1, nil, nil, nil, ErrLeaderNotAvailable)
		} else {
			lid := c.idOf(pt.leader)
			md.AddTopicPartition(simTopic, int32(p), lid, []int32{lid}, []int32{lid}, nil, ErrNoError)
		}
	}
	c.rec.Ev("meta", kv{"broker": int(b.idx), "fail": fail})
	return md
}

func simParseID(value []byte) int {
	s := string(value)
	if !strings.HasPrefix(s, "v") {
		return 0
	}
	s = s[1:]
	if i := strings.IndexByte(s, '|'); i >= 0 {
		s = s[:i]
	}
	n, err := strconv.Atoi(s)
	if err != nil {
		return 0
	}
	return n
}

// identity of a record: "v<id>|..." in the value, or "k<id>" in the key for tombstones
func simRecID(key, value []byte) int {
	if id := simParseID(value); id != 0 || value != nil {
		return id
	}
	ks := string(key)
	if strings.HasPrefix(ks, "k") {
		if n, err := strconv.Atoi(ks[1:]); err == nil {
			return n
		}
	}
	return 0
}

func simFlatten(ms *MessageSet, out *[]simRecord) {
	for _, mb := range ms.Messages {
		if mb.Msg == nil {
			continue
		}
		if mb.Msg.Set != nil {
			simFlatten(mb.Msg.Set, out)
			continue
		}
		ts := int64(-1)
		if !mb.Msg.Timestamp.IsZero() && mb.Msg.Version >= 1 {
			ts = mb.Msg.Timestamp.UnixNano() / int64(time.Millisecond)
		}
		*out = append(*out, simRecord{id: simRecID(mb.Msg.Key, mb.Msg.Value), key: mb.Msg.Key, value: mb.Msg.Value, tsMs: ts, pid: -1})
	}
}

func simHeadersEqual(a, b []RecordHeader) bool {
	if len(a) != len(b) {
		return false
	}
	for i := range a {
		if !bytes.Equal(a[i].Key, b[i].Key) || !bytes.Equal(a[i].Value, b[i].Value) {
			return false
		}
	}
	return true
}

type simBatchIn struct {
	part  int32
	recs  []simRecord
	pid   int64
	epoch int16
	seq   int32
	kvLen int
}

func (c *simCluster) decodeBatches(r *ProduceRequest) []simBatchIn {
	var out []simBatchIn
	for topic, parts := range r.records {
		if topic != simTopic {
			continue
		}
		var ps []int
		for p := range parts {
			ps = append(ps, int(p))
		}
		sort.Ints(ps)
		for _, p := range ps {
			rs := parts[int32(p)]
			bi := simBatchIn{part: int32(p), pid: -1, epoch: -1, seq: -1}
			if rs.RecordBatch != nil {
				rb := rs.RecordBatch
				bi.pid, bi.epoch, bi.seq = rb.ProducerID, rb.ProducerEpoch, rb.FirstSequence
				// what a broker validates before it appends a v2 batch: record i sits at base offset + i, and the batch
				// header's last offset delta agrees with the number of records
				wellFormed := int(rb.LastOffsetDelta) == len(rb.Records)-1
				for i, rc := range rb.Records {
					if rc.OffsetDelta != int64(i) {
						wellFormed = false
					}
				}
				if !wellFormed && len(rb.Records) > 0 {
					var ds []int
					for _, rc := range rb.Records {
						ds = append(ds, int(rc.OffsetDelta))
					}
					c.rec.Ev("bad_request", kv{"what": fmt.Sprintf("record batch of partition %d: offset deltas %v, last offset delta %d for %d records",
						p, ds, rb.LastOffsetDelta, len(rb.Records))})
				}
				for i, rc := range rb.Records {
					var hs []RecordHeader
					for _, h := range rc.Headers {
						if h != nil {
							hs = append(hs, *h)
						}
					}
					ts := rb.FirstTimestamp.Add(rc.TimestampDelta).UnixNano() / int64(time.Millisecond)
					bi.recs = append(bi.recs, simRecord{id: simRecID(rc.Key, rc.Value), key: rc.Key, value: rc.Value, hdrs: hs,
						tsMs: ts, pid: rb.ProducerID, epoch: rb.ProducerEpoch, seq: rb.FirstSequence + int32(i),
						isCtl: rb.Control, txn: rb.IsTransactional})
				}
			} else if rs.MsgSet != nil {
				simFlatten(rs.MsgSet, &bi.recs)
			}
			for _, x := range bi.recs {
				bi.kvLen += len(x.key) + len(x.value)
			}
			out = append(out, bi)
		}
	}
	return out
}

func simLast5(w []simBatchMeta) []simBatchMeta {
	if len(w) > 5 {
		return w[len(w)-5:]
	}
	return w
}

// Kafka's sequence check for one incoming batch (DESIGN.md 3.4)
func (pt *simPart) seqDecision(b *simBatchIn) (string, int64) {
	n := int32(len(b.recs))
	if b.pid < 0 {
		return "accept", 0
	}
	if !pt.hasState {
		if b.seq == 0 {
			return "accept", 0
		}
		return "ooo", 0
	}
	if b.epoch < pt.pepoch {
		return "fenced", 0
	}
	if b.epoch > pt.pepoch {
		if b.seq == 0 {
			return "accept", 0
		}
		return "ooo", 0
	}
	for _, w := range pt.win {
		if w.first == b.seq && w.n == n {
			return "dupwin", w.base
		}
	}
	if b.seq == pt.pnext {
		return "accept", 0
	}
	if len(pt.win) > 0 && b.seq+n-1 < pt.win[0].first {
		return "dupold", 0
	}
	return "ooo", 0
}

func (c *simCluster) handleProduce(b *simBroker, r *ProduceRequest, wire int) (encoderWithHeader, string) {
	batches := c.decodeBatches(r)
	c.mu.Lock()
	if c.onEmptyProduce != nil && len(batches) == 0 {
		c.rec.Ev("recv", kv{"req": 0, "broker": int(b.idx), "batches": []kv{}, "wire": wire, "nmsgs": 0, "acks": int(r.RequiredAcks), "ver": int(r.Version)})
		c.onEmptyProduce(b.idx)
		c.rec.Ev("reply", kv{"req": 0, "kinds": [][]interface{}{}})
		c.mu.Unlock()
		if r.RequiredAcks == NoResponse {
			return nil, ""
		}
		return &ProduceResponse{Version: r.Version}, ""
	}
	c.produceN++
	n := c.produceN
	plan := c.plans[n]
	if plan == nil {
		plan = &simPlan{}
	}
	evb := []kv{}
	total := 0
	if c.reqIDs == nil {
		c.reqIDs = map[int]map[int][]int{}
	}
	c.reqIDs[n] = map[int][]int{}
	for _, bt := range batches {
		ids := []int{}
		for _, x := range bt.recs {
			ids = append(ids, x.id)
		}
		c.reqIDs[n][int(bt.part)] = ids
		total += len(ids)
		evb = append(evb, kv{"part": int(bt.part), "ids": ids, "pid": int(bt.pid), "epoch": int(bt.epoch), "seq": int(bt.seq), "kvbytes": bt.kvLen})
	}
	c.rec.Ev("recv", kv{"req": n, "broker": int(b.idx), "batches": evb, "wire": wire, "nmsgs": total, "acks": int(r.RequiredAcks), "ver": int(r.Version)})
	seen := c.seenChan(n)
	select {
	case <-seen:
	default:
		close(seen)
	}
	var hold chan struct{}
	if plan.Hold && !c.noHold {
		hold = c.holdChan(n)
	}
	c.mu.Unlock()
	if hold != nil {
		select {
		case <-hold:
		case <-time.After(20 * time.Second):
		}
	}
	if plan.DelayMs > 0 {
		time.Sleep(time.Duration(plan.DelayMs) * time.Millisecond)
	}

	c.mu.Lock()
	defer c.mu.Unlock()
	if plan.Conn == "drop_before" {
		c.rec.Ev("drop", kv{"req": n, "when": "before"})
		return nil, "drop"
	}
	if plan.Conn == "silence_before" {
		c.rec.Ev("drop", kv{"req": n, "when": "silence_before"})
		return nil, ""
	}
	resp := &ProduceResponse{Version: r.Version}
	kinds := [][]interface{}{}
	for i := range batches {
		bt := &batches[i]
		pt := c.parts[bt.part]
		kind := plan.Part[strconv.Itoa(int(bt.part))]
		if kind == "" {
			kind = "ok"
		}
		if pt == nil {
			resp.AddTopicPartition(simTopic, bt.part, ErrUnknownTopicOrPartition)
			kinds = append(kinds, []interface{}{int(bt.part), "unknown"})
			continue
		}
		if pt.leader != b.idx {
			resp.AddTopicPartition(simTopic, bt.part, ErrNotLeaderForPartition)
			kinds = append(kinds, []interface{}{int(bt.part), "notleader"})
			continue
		}
		if kind == "retry" {
			resp.AddTopicPartition(simTopic, bt.part, ErrNotEnoughReplicas)
			kinds = append(kinds, []interface{}{int(bt.part), "retry"})
			continue
		}
		if strings.HasPrefix(kind, "code:") {
			n, _ := strconv.Atoi(kind[5:])
			resp.AddTopicPartition(simTopic, bt.part, KError(n))
			kinds = append(kinds, []interface{}{int(bt.part), kind})
			continue
		}
		if kind == "fatal" {
			resp.AddTopicPartition(simTopic, bt.part, ErrInvalidRequiredAcks)
			kinds = append(kinds, []interface{}{int(bt.part), "fatal"})
			continue
		}
		dec, dupBase := pt.seqDecision(bt)
		switch dec {
		case "accept":
			base := int64(len(pt.log))
			ids := []int{}
			bad := []int{}
			for k := range bt.recs {
				x := bt.recs[k]
				x.offset = base + int64(k)
				pt.log = append(pt.log, x)
				ids = append(ids, x.id)
				if s := c.submitted[x.id]; s == nil || !bytes.Equal(s.key, x.key) || !bytes.Equal(s.value, x.value) ||
					!simHeadersEqual(s.hdrs, x.hdrs) || (s.tsMs >= 0 && x.tsMs >= 0 && x.tsMs != s.tsMs) {
					bad = append(bad, x.id)
				}
			}
			if bt.pid >= 0 {
				if !pt.hasState || bt.epoch > pt.pepoch {
					pt.win = nil
				}
				pt.hasState, pt.pepoch, pt.pnext = true, bt.epoch, bt.seq+int32(len(bt.recs))
				pt.win = simLast5(append(pt.win, simBatchMeta{bt.seq, int32(len(bt.recs)), base}))
			}
			c.rec.Ev("append", kv{"req": n, "part": int(bt.part), "base": int(base), "ids": ids, "bad": bad,
				"pid": int(bt.pid), "epoch": int(bt.epoch), "seq": int(bt.seq)})
			switch {
			case kind == "retryapp":
				resp.AddTopicPartition(simTopic, bt.part, ErrNotEnoughReplicasAfterAppend)
			case strings.HasPrefix(kind, "codeapp:"):
				// the batch IS appended and the broker still answers with this error code (request timed out after the
				// append, not enough replicas after the append, ...)
				cn, _ := strconv.Atoi(kind[8:])
				resp.AddTopicPartition(simTopic, bt.part, KError(cn))
			case kind == "missing":
			default:
				resp.AddTopicPartition(simTopic, bt.part, ErrNoError)
				resp.Blocks[simTopic][bt.part].Offset = base
			}
			kinds = append(kinds, []interface{}{int(bt.part), kind})
		case "dupwin":
			c.rec.Ev("dedup", kv{"req": n, "part": int(bt.part), "decision": "dupwin", "base": int(dupBase), "epoch": int(bt.epoch), "seq": int(bt.seq), "n": len(bt.recs)})
			resp.AddTopicPartition(simTopic, bt.part, ErrNoError)
			resp.Blocks[simTopic][bt.part].Offset = dupBase
			kinds = append(kinds, []interface{}{int(bt.part), "dupwin"})
		case "dupold":
			c.rec.Ev("dedup", kv{"req": n, "part": int(bt.part), "decision": "dupold", "base": -1, "epoch": int(bt.epoch), "seq": int(bt.seq), "n": len(bt.recs)})
			resp.AddTopicPartition(simTopic, bt.part, ErrDuplicateSequenceNumber)
			kinds = append(kinds, []interface{}{int(bt.part), "dupold"})
		case "fenced":
			c.rec.Ev("dedup", kv{"req": n, "part": int(bt.part), "decision": "fenced", "base": -1, "epoch": int(bt.epoch), "seq": int(bt.seq), "n": len(bt.recs)})
			resp.AddTopicPartition(simTopic, bt.part, ErrInvalidProducerEpoch)
			kinds = append(kinds, []interface{}{int(bt.part), "fenced"})
		default:
			c.rec.Ev("dedup", kv{"req": n, "part": int(bt.part), "decision": "ooo", "base": -1, "epoch": int(bt.epoch), "seq": int(bt.seq), "n": len(bt.recs)})
			resp.AddTopicPartition(simTopic, bt.part, ErrOutOfOrderSequenceNumber)
			kinds = append(kinds, []interface{}{int(bt.part), "ooo"})
		}
		if resp.Blocks[simTopic] != nil && resp.Blocks[simTopic][bt.part] != nil {
			if c.logAppend && resp.Blocks[simTopic][bt.part].Err == ErrNoError {
				resp.Blocks[simTopic][bt.part].Timestamp = simT0.Add(time.Duration(n) * time.Second)
			} else {
				resp.Blocks[simTopic][bt.part].Timestamp = time.Time{}
			}
		}
	}
	for p, to := range plan.MoveAfter {
		pi, _ := strconv.Atoi(p)
		c.parts[int32(pi)].leader = to
		c.rec.Ev("move", kv{"part": pi, "to": int(to)})
	}
	switch plan.Conn {
	case "drop_after":
		c.rec.Ev("drop", kv{"req": n, "when": "after"})
		return nil, "drop"
	case "silence_after":
		c.rec.Ev("drop", kv{"req": n, "when": "silence_after"})
		return nil, ""
	}
	c.rec.Ev("reply", kv{"req": n, "kinds": kinds})
	if r.RequiredAcks == NoResponse {
		return nil, ""
	}
	return resp, ""
}

var _ = fmt.Sprintf
