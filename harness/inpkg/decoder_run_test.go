//go:build verif
// +build verif

package sarama

// C10 harness, part 3: execution. Every decode of adversarial bytes runs in a WORKER
// SUBPROCESS (the test binary re-executed) under an address-space limit, a watchdog and
// recover(); the parent turns worker deaths (out of memory, stack overflow) into recorded
// results and restarts the worker behind the fatal case. The parent writes the NDJSON
// trace that spec/DecoderTrace.tla judges.

import (
	"bufio"
	"bytes"
	"encoding/binary"
	"encoding/hex"
	"encoding/json"
	"fmt"
	"hash/crc32"
	"math"
	"math/rand"
	"os"
	"os/exec"
	"path/filepath"
	"regexp"
	"runtime"
	"sort"
	"strconv"
	"strings"
	"sync"
	"syscall"
	"testing"
	"time"
)

// ---------------------------------------------------------------- one guarded execution

type vdRes struct {
	Res   string   `json:"res"` // ok | err | panic | hang | oom | crash
	Err   string   `json:"err"`
	Site  string   `json:"site"`
	Cause string   `json:"cause"`
	ASite string   `json:"asite"` // function that allocated the most, when the allocation bound is exceeded
	Alloc int      `json:"alloc"` // KiB allocated during the call (TotalAlloc delta)
	Got   []string `json:"got"`
	// the decoder flagged its result as incomplete (partial trailing message / batch)
	Partial bool `json:"partial"`
}

func vdIsHarnessFrame(f runtime.Frame) bool {
	return strings.Contains(f.File, "zz_verif_") || strings.Contains(f.Function, ".vd") || strings.Contains(f.Function, "TestVerif")
}

// first sarama (non-harness) function below the runtime's panic frames
func vdSiteFromPCs(pcs []uintptr) string {
	site, _ := vdSiteFromPCs2(pcs)
	return site
}

// vdSiteFromPCs2 also tells whether the FIRST non-runtime frame is a harness frame: then the harness itself
// faulted (no verdict about sarama). A fault in a library sarama called (compress/gzip, snappy ...) is
// attributed to the first sarama frame below it.
func vdSiteFromPCs2(pcs []uintptr) (site string, harnessFirst bool) {
	fr := runtime.CallersFrames(pcs)
	first := true
	for {
		f, more := fr.Next()
		isRuntime := strings.HasPrefix(f.Function, "runtime.") || f.Function == ""
		if !isRuntime && first {
			first = false
			if vdIsHarnessFrame(f) {
				return "harness:" + vdTrimFunc(f.Function), true
			}
		}
		if strings.Contains(f.Function, "Shopify/sarama.") && !vdIsHarnessFrame(f) {
			return vdTrimFunc(f.Function), false
		}
		if !more {
			return "?", false
		}
	}
}

var vdHexRe = regexp.MustCompile(`\[[^\]]*\]|0x[0-9a-f]+|-?\d+`)

func vdCauseOf(msg string) string {
	switch {
	case strings.Contains(msg, "makeslice"):
		return "makeslice"
	case strings.Contains(msg, "slice bounds out of range"):
		return "slice_bounds"
	case strings.Contains(msg, "index out of range"):
		return "index"
	case strings.Contains(msg, "nil pointer dereference"):
		return "nil_deref"
	case strings.Contains(msg, "out of memory"):
		return "oom"
	case strings.Contains(msg, "stack overflow") || strings.Contains(msg, "stack exceeds"):
		return "stack_overflow"
	}
	m := vdHexRe.ReplaceAllString(msg, "#")
	if len(m) > 48 {
		m = m[:48]
	}
	return m
}

func vdErrClass(err error) string {
	if err == nil {
		return ""
	}
	switch err {
	case ErrInsufficientData:
		return "insufficient"
	case errVarintOverflow, errUVarintOverflow:
		return "overflow"
	}
	s := vdHexRe.ReplaceAllString(err.Error(), "#")
	if len(s) > 60 {
		s = s[:60]
	}
	return s
}

var vdHangTimeout = 10 * time.Second

// vdGuard runs fn under recover, a watchdog and allocation measurement. exit=true: the
// function is still running (hang) - the process must not continue.
func vdGuard(fn func() ([]string, error)) (r vdRes, exit bool) {
	type outT struct {
		got     []string
		err     error
		pan     interface{}
		site    string
		harness bool
		stack   string
	}
	done := make(chan outT, 1)
	// the watchdog timer is created before and stopped after the measured window (thousands of pending
	// 10 s timers would make the runtime's timer heap grow inside it)
	wd := time.NewTimer(vdHangTimeout)
	defer wd.Stop()
	var m0, m1 runtime.MemStats
	runtime.ReadMemStats(&m0)
	go func() {
		var o outT
		defer func() {
			if p := recover(); p != nil {
				pcs := make([]uintptr, 64)
				n := runtime.Callers(2, pcs)
				o.pan = p
				o.site, o.harness = vdSiteFromPCs2(pcs[:n])
			}
			done <- o
		}()
		o.got, o.err = fn()
	}()
	var o outT
	select {
	case o = <-done:
	case <-wd.C:
		buf := make([]byte, 1<<16)
		buf = buf[:runtime.Stack(buf, true)]
		site := "?"
		for _, ln := range strings.Split(string(buf), "\n") {
			if strings.HasPrefix(ln, "github.com/Shopify/sarama.") && !strings.Contains(ln, ".vd") && !strings.Contains(ln, "TestVerif") {
				site = vdTrimFunc(strings.SplitN(ln, "(0x", 2)[0])
				if i := strings.LastIndex(site, "("); i > 0 && strings.HasSuffix(site, ")") && !strings.HasPrefix(site[i:], "(*") {
					site = site[:i]
				}
				break
			}
		}
		return vdRes{Res: "hang", Site: site, ASite: "-", Cause: "hang", Got: []string{}}, true
	}
	runtime.ReadMemStats(&m1)
	alloc := (m1.TotalAlloc - m0.TotalAlloc + 1023) / 1024
	if alloc > 1<<30 {
		alloc = 1 << 30
	}
	r = vdRes{Alloc: int(alloc), Site: "-", Cause: "-", ASite: "-", Got: []string{}}
	for _, g := range o.got {
		if g == vdPartialMark {
			r.Partial = true
		} else {
			r.Got = append(r.Got, g)
		}
	}
	switch {
	case o.pan != nil && o.harness:
		r.Res = "harness" // the harness itself faulted: inconclusive, never a verdict
		r.Site = o.site
		r.Err = fmt.Sprint(o.pan)
		r.Got = []string{}
	case o.pan != nil:
		r.Res = "panic"
		r.Site = o.site
		r.Cause = vdCauseOf(fmt.Sprint(o.pan))
		r.Err = fmt.Sprint(o.pan)
		if len(r.Err) > 120 {
			r.Err = r.Err[:120]
		}
		r.Got = []string{}
	case o.err != nil:
		r.Res = "err"
		r.Err = vdErrClass(o.err)
		r.Got = []string{}
	default:
		r.Res = "ok"
	}
	return r, false
}

// vdAllocSite re-runs fn and names the sarama function that allocated the most (heap
// profile with MemProfileRate = 1, set at worker start).
func vdAllocSite(fn func() ([]string, error)) string {
	snap := func() map[string]int64 {
		runtime.GC()
		runtime.GC()
		n, _ := runtime.MemProfile(nil, true)
		recs := make([]runtime.MemProfileRecord, n+64)
		n, ok := runtime.MemProfile(recs, true)
		if !ok {
			return nil
		}
		m := map[string]int64{}
		for _, r := range recs[:n] {
			m[vdSiteFromPCs(r.Stack())] += r.AllocBytes
		}
		return m
	}
	before := snap()
	func() {
		defer func() { recover() }()
		fn()
	}()
	after := snap()
	best, bestN := "?", int64(0)
	for k, v := range after {
		if d := v - before[k]; d > bestN && k != "?" {
			best, bestN = k, d
		}
	}
	return best
}

// ---------------------------------------------------------------- worker

// vdExact: a copy whose capacity equals its length (what broker.go reads responses into), so
// that slicing past the end faults instead of silently reading spare capacity
func vdExact(b []byte) []byte {
	out := make([]byte, len(b))
	copy(out, b)
	return out[:len(b):len(b)]
}

func vdLimitAddressSpace() {
	b, err := os.ReadFile("/proc/self/statm")
	if err != nil {
		return
	}
	pages, err := strconv.ParseUint(strings.Fields(string(b))[0], 10, 64)
	if err != nil {
		return
	}
	lim := pages*uint64(os.Getpagesize()) + uint64(vEnvInt("VERIF_DEC_ASLIMIT_GIB", 1))<<30
	_ = syscall.Setrlimit(syscall.RLIMIT_AS, &syscall.Rlimit{Cur: lim, Max: lim})
}

type vdSubjInfo struct {
	Si      int      `json:"si"`
	Name    string   `json:"name"`
	Ver     int      `json:"ver"`
	Len     int      `json:"len"`
	NCells  int      `json:"ncells"`
	NPush   int      `json:"npush"`
	NCases  int      `json:"ncases"`
	Orig    []string `json:"orig"`
	HasRecs bool     `json:"hasrecs"`
	Comp    bool     `json:"comp"`
	Wrapped bool     `json:"wrapped"`
	HasCrc  bool     `json:"hascrc"`
	Allow   int      `json:"allow"`
	Valid   string   `json:"valid"` // res of the unmutated encoding (must be ok)
	VErr    string   `json:"verr"`
	Hex     string   `json:"hex"`
}

type vdBegin struct {
	Name  string `json:"name"`
	Ver   int    `json:"ver"`
	Si    int    `json:"si"`
	Ci    int    `json:"ci"`
	InLen int    `json:"inlen"`
	Case  vdCase `json:"case"`
	Hex   string `json:"hex"`
}

const vdAllocFloorKiB = 64

// case index of the worker-start decodes
const vdPreambleCi = -20

func vdAllocBoundKiB(inlen int, comp bool) int {
	b := vdAllocFloorKiB + (200*inlen)/1024 + 1
	if comp {
		b += vdCompAllowKiB
	}
	return b
}

// legitimate inflation + decompressor working memory (zstd/lz4 frame buffers)
const vdCompAllowKiB = 16384

func TestVerifDecoderWorker(t *testing.T) {
	runtime.MemProfileRate = 1
	if os.Getenv("VERIF_DEC_WORKER") == "" {
		t.Skip("worker mode only")
	}
	resPath := os.Getenv("VERIF_DEC_RES")
	f, err := os.OpenFile(resPath, os.O_CREATE|os.O_WRONLY|os.O_APPEND, 0o644)
	if err != nil {
		t.Fatal(err)
	}
	defer f.Close()
	put := func(tag string, v interface{}) {
		b, err := json.Marshal(v)
		if err != nil {
			panic(err)
		}
		f.Write(append(append([]byte(tag+" "), b...), '\n'))
	}
	if os.Getenv("VERIF_DEC_NOLIMIT") == "" {
		vdLimitAddressSpace()
	}
	if p := os.Getenv("VERIF_DEC_PROGS"); p != "" {
		vdProgWorker(t, p, put)
		return
	}
	corpus, _ := vdCorpus()
	var subj []int
	for _, s := range strings.Split(os.Getenv("VERIF_DEC_SUBJECTS"), ",") {
		if s != "" {
			n, _ := strconv.Atoi(s)
			subj = append(subj, n)
		}
	}
	resume := strings.Split(os.Getenv("VERIF_DEC_RESUME"), ":")
	pos0, ci0 := 0, 0
	if len(resume) == 2 {
		pos0, _ = strconv.Atoi(resume[0])
		ci0, _ = strconv.Atoi(resume[1])
	}
	thorough := vThorough()
	if os.Getenv("VERIF_DEC_NOPREAMBLE") == "" {
		// Every worker process starts with empty pools: decode, per codec, a payload with a corrupt compression header
		// and then a valid one (the afterCorrupt subjects do exactly that in one call), so that state poisoned by a
		// failed decode is met deterministically. Recorded under the subject it belongs to.
		for si, s := range corpus {
			if !strings.Contains(s.name, ".afterCorrupt/") {
				continue
			}
			fin := vdExact(s.valid)
			put("B", vdBegin{Name: s.name, Ver: int(s.ver), Si: si, Ci: vdPreambleCi, InLen: len(fin),
				Case: vdCase{Kind: "valid", Trig: "worker-start", Prim: "-", Caller: "-", RunVer: -1}})
			r, exit := vdGuard(func() ([]string, error) { return s.run(fin) })
			put("R", r)
			if exit {
				f.Close()
				os.Exit(3)
			}
		}
	}
	for pos := pos0; pos < len(subj); pos++ {
		si := subj[pos]
		s := corpus[si]
		start := 0
		if pos == pos0 {
			start = ci0
		}
		// Phase 0: the VALID encoding, through the recording decoder and through the real entry point, guarded like
		// every other decode: a panic in sarama code here (e.g. pooled state poisoned by an earlier decode in this
		// process) is a recorded result, not a harness failure. A few attempts: the faulting state may have been
		// consumed by the fault.
		var tp *vdTape
		tapeOK := false
		tapeRes, tapeErr := "", ""
		begin := func(ci int, trig string, n int) {
			put("B", vdBegin{Name: s.name, Ver: int(s.ver), Si: si, Ci: ci, InLen: n,
				Case: vdCase{Kind: "valid", Trig: trig, Prim: "-", Caller: "-", RunVer: -1}})
		}
		for attempt := 0; attempt < 3 && !tapeOK; attempt++ {
			tp = &vdTape{}
			begin(-10+attempt, "valid-tape", len(s.valid))
			r, exit := vdGuard(func() ([]string, error) { return nil, s.tape(s.valid, tp) })
			put("R", r)
			if exit {
				f.Close()
				os.Exit(3)
			}
			tapeOK = r.Res == "ok"
			tapeRes, tapeErr = r.Res, r.Err
			if r.Res == "err" || r.Res == "harness" {
				break
			}
		}
		if !tapeOK {
			put("S", vdSubjInfo{Si: si, Name: s.name, Ver: int(s.ver), Len: len(s.valid), Orig: []string{}, HasRecs: s.hasRecs, Comp: s.comp,
				Wrapped: s.wrap != nil, Allow: s.allowKiB, Valid: tapeRes, VErr: "tape: " + tapeErr})
			continue
		}
		cases := vdCases(s, tp, thorough, rand.New(rand.NewSource(vSeed()*7919+int64(si))))
		if start <= 0 {
			// warms pools / lazily built decompressors, gives the reference digests
			fin := vdExact(s.final(s.valid))
			var r vdRes
			for attempt := 0; attempt < 4; attempt++ {
				begin(-5+attempt, "valid-run", len(fin))
				var exit bool
				r, exit = vdGuard(func() ([]string, error) { return s.run(fin) })
				put("R", r)
				if exit {
					f.Close()
					os.Exit(3)
				}
				if attempt >= 1 && r.Res == "ok" || r.Res == "err" || r.Res == "harness" {
					break
				}
			}
			put("S", vdSubjInfo{Si: si, Name: s.name, Ver: int(s.ver), Len: len(fin), NCells: len(tp.cells), NPush: len(tp.pushes),
				NCases: len(cases), Orig: r.Got, HasRecs: s.hasRecs, Comp: s.comp, Wrapped: s.wrap != nil, HasCrc: tp.hasCrc(), Allow: s.allowKiB, Valid: r.Res, VErr: r.Err,
				Hex: hex.EncodeToString(fin)})
			if r.Res != "ok" {
				continue
			}
			start = 0
		}
		for ci := start; ci < len(cases); ci++ {
			c := cases[ci]
			var fin []byte
			if err := vdTry(func() error { fin = s.final(c.inner); return nil }); err != nil {
				continue // the wrapper could not be built around these inner bytes: not an input
			}
			fin = vdExact(fin)
			run := s.run
			if c.RunVer >= 0 {
				rv := int16(c.RunVer)
				run = func(b []byte) ([]string, error) { return s.runAt(b, rv) }
			}
			hx := ""
			if len(fin) <= 160 {
				hx = hex.EncodeToString(fin)
			}
			put("B", vdBegin{Name: s.name, Ver: int(s.ver), Si: si, Ci: ci, InLen: len(fin), Case: c, Hex: hx})
			r, exit := vdGuard(func() ([]string, error) { return run(fin) })
			if !exit && r.Alloc > vdAllocBoundKiB(len(fin), s.comp)+s.allowKiB {
				for try := 0; try < 3 && (r.ASite == "-" || r.ASite == "?"); try++ {
					r.ASite = vdAllocSite(func() ([]string, error) { return run(fin) })
				}
				if r.ASite == "?" { // heap profile did not name it: the panic site, else who read the mutated cell
					r.ASite = "-"
					if r.Site == "-" && c.Caller != "-" {
						r.ASite = c.Caller
					}
				}
			}
			put("R", r)
			if exit {
				f.Close()
				os.Exit(3)
			}
			if os.Getenv("VERIF_DEC_ONECASE") != "" {
				put("D", map[string]int{"done": 1})
				return
			}
		}
	}
	put("D", map[string]int{"done": 1})
}

// ---------------------------------------------------------------- parent side: worker supervision

var (
	vdFatalRe = regexp.MustCompile(`(?m)^(fatal error: .*|runtime: out of memory.*|runtime: goroutine stack exceeds.*|panic: .*)$`)
	vdFrameRe = regexp.MustCompile(`(?m)^(github\.com/Shopify/sarama\.[^\s]+)\(.*\)\n\t(\S+)`)
)

func vdCrashInfo(stderr string) (res, site, cause, msg string) {
	res, site, cause = "crash", "?", "fatal"
	if m := vdFatalRe.FindString(stderr); m != "" {
		msg = m
		cause = vdCauseOf(m)
		if cause == "oom" {
			res = "oom"
		}
	} else if len(stderr) > 0 {
		msg = stderr
		if len(msg) > 200 {
			msg = msg[len(msg)-200:]
		}
	}
	for _, m := range vdFrameRe.FindAllStringSubmatch(stderr, -1) {
		fn := m[1]
		if strings.Contains(m[2], "zz_verif_") || strings.Contains(fn, ".vd") || strings.Contains(fn, "TestVerif") {
			continue
		}
		site = vdTrimFunc(fn)
		break
	}
	return
}

type vdSpawnOut struct {
	lines  []string
	err    error
	stderr string
	code   int
}

func vdSpawn(dir string, tag string, n int, env []string) vdSpawnOut {
	resPath := filepath.Join(dir, fmt.Sprintf("%s.%d.res", tag, n))
	os.Remove(resPath)
	cmd := exec.Command(os.Args[0], "-test.run=^TestVerifDecoderWorker$", "-test.count=1", "-test.timeout=1500s")
	cmd.Env = append(os.Environ(), append(env, "VERIF_DEC_WORKER=1", "VERIF_DEC_RES="+resPath)...)
	var outb bytes.Buffer
	cmd.Stdout, cmd.Stderr = &outb, &outb
	err := cmd.Run()
	var lines []string
	if fh, e := os.Open(resPath); e == nil {
		sc := bufio.NewScanner(fh)
		sc.Buffer(make([]byte, 1<<20), 1<<26)
		for sc.Scan() {
			lines = append(lines, sc.Text())
		}
		fh.Close()
	}
	if os.Getenv("VERIF_DEC_KEEPRES") == "" {
		os.Remove(resPath)
	}
	code := 0
	if err != nil {
		code = -1
		if ee, ok := err.(*exec.ExitError); ok {
			code = ee.ExitCode()
		}
	}
	return vdSpawnOut{lines: lines, err: err, stderr: outb.String(), code: code}
}

type vdDone struct {
	B vdBegin
	R vdRes
}

// vdRunSubjects supervises one worker stripe; returns subject infos and finished cases.
func vdRunSubjects(dir string, w int, subj []int) (infos []vdSubjInfo, done []vdDone, spawns int, err error) {
	var sl []string
	for _, s := range subj {
		sl = append(sl, strconv.Itoa(s))
	}
	pos, ci := 0, 0
	posOf := map[int]int{}
	validDeaths := map[int]int{}
	noPreamble := false
	for i, s := range subj {
		posOf[s] = i
	}
	for {
		spawns++
		if spawns > 4000 {
			return nil, nil, spawns, fmt.Errorf("worker %d: too many respawns", w)
		}
		envs := []string{"VERIF_DEC_SUBJECTS=" + strings.Join(sl, ","), fmt.Sprintf("VERIF_DEC_RESUME=%d:%d", pos, ci)}
		if noPreamble {
			envs = append(envs, "VERIF_DEC_NOPREAMBLE=1")
		}
		o := vdSpawn(dir, fmt.Sprintf("w%d", w), spawns, envs)
		var open *vdBegin
		finished := false
		for _, ln := range o.lines {
			if len(ln) < 2 {
				continue
			}
			switch ln[0] {
			case 'S':
				var in vdSubjInfo
				if e := json.Unmarshal([]byte(ln[2:]), &in); e != nil {
					return nil, nil, spawns, e
				}
				infos = append(infos, in)
			case 'B':
				var b vdBegin
				if e := json.Unmarshal([]byte(ln[2:]), &b); e != nil {
					return nil, nil, spawns, e
				}
				open = &b
			case 'R':
				var r vdRes
				if e := json.Unmarshal([]byte(ln[2:]), &r); e != nil || open == nil {
					return nil, nil, spawns, fmt.Errorf("worker %d: stray result line", w)
				}
				done = append(done, vdDone{*open, r})
				switch {
				case open.Ci == vdPreambleCi:
					if r.Res == "hang" { // the worker exits after a hang: do not run into it again
						noPreamble = true
					}
				case open.Ci < 0 && r.Res == "hang":
					validDeaths[open.Si]++
					if validDeaths[open.Si] >= 3 {
						pos, ci = posOf[open.Si]+1, 0
					} else {
						pos, ci = posOf[open.Si], open.Ci+1
					}
				default:
					pos, ci = posOf[open.Si], open.Ci+1
				}
				open = nil
			case 'D':
				finished = true
			}
		}
		if finished && o.err == nil {
			return infos, done, spawns, nil
		}
		if open != nil {
			// the worker died inside this decode
			res, site, cause, msg := vdCrashInfo(o.stderr)
			if site == "?" {
				// died without a Go traceback (e.g. the C runtime could not create a thread right below the
				// address-space limit): once more, alone, with more head room
				o2 := vdSpawn(dir, fmt.Sprintf("w%dr", w), spawns, []string{"VERIF_DEC_SUBJECTS=" + strings.Join(sl, ","),
					fmt.Sprintf("VERIF_DEC_RESUME=%d:%d", posOf[open.Si], open.Ci), "VERIF_DEC_ONECASE=1", "VERIF_DEC_ASLIMIT_GIB=4", "VERIF_DEC_NOPREAMBLE=1"})
				var r2 *vdRes
				for _, ln := range o2.lines {
					if len(ln) > 2 && ln[0] == 'R' {
						var r vdRes
						if json.Unmarshal([]byte(ln[2:]), &r) == nil {
							r2 = &r
						}
					}
				}
				if r2 != nil {
					done = append(done, vdDone{*open, *r2})
					pos, ci = posOf[open.Si], open.Ci+1
					continue
				}
				if o2.err != nil {
					if r, s2, c2, m2 := vdCrashInfo(o2.stderr); s2 != "?" {
						res, site, cause, msg = r, s2, c2, m2
					}
				}
			}
			if len(msg) > 160 {
				msg = msg[:160]
			}
			asite := "-"
			if res == "oom" {
				asite = site
			}
			allocKiB := 0
			if res == "oom" {
				allocKiB = 1 << 30
			}
			done = append(done, vdDone{*open, vdRes{Res: res, Site: site, ASite: asite, Cause: cause, Err: msg, Alloc: allocKiB, Got: []string{}}})
			if open.Ci == vdPreambleCi { // died in the worker-start decodes: recorded; do not repeat them, resume where we were
				noPreamble = true
				continue
			}
			pos, ci = posOf[open.Si], open.Ci+1
			if open.Ci < 0 { // died while decoding the VALID encoding: the phase is repeated; a subject that keeps dying is left
				validDeaths[open.Si]++
				if validDeaths[open.Si] >= 3 {
					pos, ci = posOf[open.Si]+1, 0
				}
			}
			continue
		}
		if o.code == 3 { // hang: result line was written before the exit
			continue
		}
		tail := o.stderr
		if len(tail) > 3000 {
			tail = tail[len(tail)-3000:]
		}
		return nil, nil, spawns, fmt.Errorf("worker %d died outside a decode (exit %d): %v\n%s", w, o.code, o.err, tail)
	}
}

// ---------------------------------------------------------------- parent: bulk family

func TestVerifDecoder(t *testing.T) {
	if os.Getenv("VERIF_DEC_WORKER") != "" {
		t.Skip("parent mode only")
	}
	dir := vOutDir(t)
	corpus, skips := vdCorpus()
	nw := vEnvInt("VERIF_DEC_WORKERS", 8)
	stripes := make([][]int, nw)
	// deal subjects by descending size so that the stripes are balanced
	order := make([]int, len(corpus))
	for i := range order {
		order[i] = i
	}
	sort.SliceStable(order, func(a, b int) bool { return len(corpus[order[a]].valid) > len(corpus[order[b]].valid) })
	if only := os.Getenv("VERIF_DEC_ONLY"); only != "" {
		var keep []int
		for _, i := range order {
			if strings.Contains(corpus[i].name, only) {
				keep = append(keep, i)
			}
		}
		order = keep
	}
	for k, i := range order {
		stripes[k%nw] = append(stripes[k%nw], i)
	}
	type wout struct {
		infos  []vdSubjInfo
		done   []vdDone
		spawns int
		err    error
	}
	outs := make([]wout, nw)
	var wg sync.WaitGroup
	for w := 0; w < nw; w++ {
		if len(stripes[w]) == 0 {
			continue
		}
		wg.Add(1)
		go func(w int) {
			defer wg.Done()
			var o wout
			o.infos, o.done, o.spawns, o.err = vdRunSubjects(dir, w, stripes[w])
			outs[w] = o
		}(w)
	}
	// the primitive programs (TLC-generated) run meanwhile
	var progOut *vdProgOut
	if os.Getenv("VERIF_CASES") != "" {
		wg.Add(1)
		go func() {
			defer wg.Done()
			progOut = vdRunPrograms(t, dir)
		}()
	}
	wg.Wait()
	infos := map[int]vdSubjInfo{}
	bySubj := map[int][]vdDone{}
	spawns := 0
	for w, o := range outs {
		if o.err != nil {
			t.Fatalf("worker %d: %v", w, o.err)
		}
		spawns += o.spawns
		for _, in := range o.infos {
			if _, dup := infos[in.Si]; !dup {
				infos[in.Si] = in
			}
		}
		for _, d := range o.done {
			bySubj[d.B.Si] = append(bySubj[d.B.Si], d)
		}
	}
	// trace.ndjson: what TLC judges; detail.ndjson: the same events with everything that describes
	// them (for the findings' features), same t/i numbering
	rec := vOpenRec(t, "trace.ndjson")
	det := vOpenRec(t, "detail.ndjson")
	byRes := map[string]int{}
	byKind := map[string]int{}
	var samples []kv
	nDec, nSubj := 0, 0
	distinct := map[string]bool{}
	var subjSummary []kv
	var sis []int
	for si := range infos {
		sis = append(sis, si)
	}
	sort.Ints(sis)
	for si, ds := range bySubj { // a subject whose worker died in the valid phase every time has no info line
		if _, ok := infos[si]; !ok && len(ds) > 0 {
			infos[si] = vdSubjInfo{Si: si, Name: ds[0].B.Name, Ver: ds[0].B.Ver, Orig: []string{}, Valid: "crash"}
			sis = append(sis, si)
		}
	}
	sort.Ints(sis)
	for _, si := range sis {
		in := infos[si]
		for _, d := range bySubj[si] {
			if d.R.Res == "harness" {
				t.Fatalf("subject %s v%d case %d: the harness itself panicked at %s: %s", in.Name, in.Ver, d.B.Ci, d.R.Site, d.R.Err)
			}
		}
		if in.Valid == "err" || in.Valid == "harness" || in.Valid == "" {
			// (a panic / crash of sarama on the valid encoding is a recorded result below, not a harness problem)
			t.Fatalf("subject %s v%d: the valid encoding does not decode (%s %s)", in.Name, in.Ver, in.Valid, in.VErr)
		}
		if in.Orig == nil {
			in.Orig = []string{}
		}
		nSubj++
		rec.Reset(kv{"fam": "body", "orig": in.Orig})
		det.Reset(kv{"fam": "body", "type": in.Name, "ver": in.Ver, "len": in.Len, "ncells": in.NCells,
			"hasrecs": in.HasRecs, "comp": in.Comp, "wrapped": in.Wrapped, "orig": in.Orig})
		ds := bySubj[si]
		sort.Slice(ds, func(a, b int) bool { return ds[a].B.Ci < ds[b].B.Ci })
		for _, d := range ds {
			c := d.B.Case
			// the checksum clause speaks about checksummed data: a bare Record (no CRC of its own) re-parsed
			// consistently after a length change is a valid encoding of another record, not damage
			dmg := in.HasRecs && in.HasCrc && !in.Wrapped && !c.Fix && c.Dmg
			// consistent damage (one wrong length / trailing junk under correct checksums): the original records, an
			// error, or a result the decoder itself flags as partial - nothing else
			strict := in.HasRecs && (in.HasCrc || in.Wrapped) && c.Strict
			ev := kv{"type": in.Name, "ver": in.Ver, "ci": d.B.Ci, "kind": c.Kind, "trig": c.Trig, "prim": c.Prim, "caller": c.Caller,
				"fix": c.Fix, "pos": c.Pos, "runver": c.RunVer, "strict": strict, "mustfail": c.MustFail, "truncok": c.TruncOK, "partial": d.R.Partial, "allow": in.Allow, "inlen": d.B.InLen, "comp": in.Comp, "dmg": dmg,
				"res": d.R.Res, "err": d.R.Err, "site": d.R.Site, "asite": d.R.ASite, "cause": d.R.Cause, "alloc": d.R.Alloc, "got": d.R.Got, "hex": d.B.Hex}
			rec.Ev("dec", kv{"inlen": d.B.InLen, "comp": in.Comp, "dmg": dmg, "strict": strict, "mustfail": c.MustFail, "truncok": c.TruncOK, "partial": d.R.Partial, "allow": in.Allow,
				"res": d.R.Res, "alloc": d.R.Alloc, "got": d.R.Got})
			det.Ev("dec", ev)
			nDec++
			byRes[d.R.Res]++
			byKind[c.Kind]++
			distinct[in.Name+"|"+strconv.Itoa(in.Ver)+"|"+c.Kind+"|"+c.Trig+"|"+c.Prim+"|"+c.Caller+"|"+d.R.Res+"|"+d.R.Err+"|"+d.R.Site] = true
			if len(samples) < 6 && (d.R.Res == "panic" || d.R.Res == "oom" || (d.B.Ci%97 == 5 && len(samples) < 3)) {
				samples = append(samples, ev)
			}
		}
		subjSummary = append(subjSummary, kv{"type": in.Name, "ver": in.Ver, "len": in.Len, "cells": in.NCells, "cases": len(ds)})
	}
	nProg, progSummary := 0, kv{}
	if progOut != nil {
		nProg = progOut.emit(rec, det)
		progSummary = progOut.summary()
	}
	rec.Close()
	det.Close()
	vWriteJSON(t, "summary.json", kv{
		"subjects": nSubj, "decodes": nDec, "programs": nProg, "by_result": byRes, "by_kind": byKind,
		"distinct_behaviours": len(distinct), "worker_spawns": spawns, "skipped": skips, "samples": samples,
		"subject_list": subjSummary, "prog": progSummary, "events": rec.events,
	})
}

// ---------------------------------------------------------------- primitive programs (TLC-generated)

// one step of a program emitted by spec/Decoder.tla
type vdStep struct {
	Op   string `json:"op"`
	Cls  string `json:"cls"`
	V    string `json:"v"`    // concrete value of the cell / parameter (decimal)
	Off0 int    `json:"off0"` // model: cursor before
	Res  string `json:"res"`  // model: ok | insufficient | invalid | overflow | panic | oom
	Off1 int    `json:"off1"` // model: cursor after
	Retc string `json:"retc"` // model: class of the returned length
}

type vdProg struct {
	Len   int      `json:"len"`
	Steps []vdStep `json:"steps"`
}

type vdStepRes struct {
	K     int    `json:"k"`
	Off0  int    `json:"off0"`
	Res   string `json:"res"`
	Err   string `json:"err"`
	Off   int    `json:"off"`
	Ret   string `json:"ret"`
	Retc  string `json:"retc"`
	Alloc int    `json:"alloc"`
	Depth int    `json:"depth"`
	Site  string `json:"site"`
	Cause string `json:"cause"`
}

func vdRetClass(n int64, rem int) string {
	switch {
	case n < -1:
		return "neg"
	case n == -1:
		return "null"
	case n <= int64(rem):
		return "within"
	}
	return "beyond"
}

func vdPutCell(raw []byte, off int, cell []byte) {
	if off < 0 || off > len(raw) {
		return
	}
	copy(raw[off:], cell)
}

// vdCellBytes: the bytes the adversary puts under the cursor for this step
func vdCellBytes(st vdStep) []byte {
	sv, _ := strconv.ParseInt(st.V, 10, 64)
	uv, _ := strconv.ParseUint(st.V, 10, 64)
	if st.Cls == "ovf" {
		return vdOverflowVarint
	}
	switch st.Op {
	case "getBool":
		return []byte{byte(sv)}
	case "getVarint", "getVarintBytes", "pushVarLen":
		return vdVar(sv)
	case "getUVarint", "getEmptyTaggedFieldArray", "getCompactArrayLength", "getCompactBytes", "getCompactString",
		"getCompactNullableString", "getCompactInt32Array":
		return vdUvar(uv)
	case "getString", "getNullableString":
		return vdI16(int(sv))
	case "getArrayLength", "getBytes", "getInt32Array", "getInt64Array", "getStringArray", "pushLen":
		b := make([]byte, 4)
		binary.BigEndian.PutUint32(b, uint32(sv))
		return b
	}
	return nil
}

func vdRunStep(rd *realDecoder, st vdStep, pushed *[]pushDecoder) (ret int64, hasRet bool, err error) {
	sv, _ := strconv.ParseInt(st.V, 10, 64)
	switch st.Op {
	case "getInt8":
		_, err = rd.getInt8()
	case "getInt16":
		_, err = rd.getInt16()
	case "getInt32":
		_, err = rd.getInt32()
	case "getInt64":
		_, err = rd.getInt64()
	case "getBool":
		_, err = rd.getBool()
	case "getVarint":
		_, err = rd.getVarint()
	case "getUVarint":
		_, err = rd.getUVarint()
	case "getEmptyTaggedFieldArray":
		_, err = rd.getEmptyTaggedFieldArray()
	case "getArrayLength":
		var n int
		n, err = rd.getArrayLength()
		ret, hasRet = int64(n), true
	case "getCompactArrayLength":
		var n int
		n, err = rd.getCompactArrayLength()
		ret, hasRet = int64(n), true
	case "getString":
		_, err = rd.getString()
	case "getNullableString":
		_, err = rd.getNullableString()
	case "getCompactString":
		_, err = rd.getCompactString()
	case "getCompactNullableString":
		_, err = rd.getCompactNullableString()
	case "getBytes":
		_, err = rd.getBytes()
	case "getVarintBytes":
		_, err = rd.getVarintBytes()
	case "getCompactBytes":
		_, err = rd.getCompactBytes()
	case "getRawBytes":
		_, err = rd.getRawBytes(int(sv))
	case "getSubset":
		_, err = rd.getSubset(int(sv))
	case "getInt32Array":
		_, err = rd.getInt32Array()
	case "getInt64Array":
		_, err = rd.getInt64Array()
	case "getStringArray":
		_, err = rd.getStringArray()
	case "getCompactInt32Array":
		_, err = rd.getCompactInt32Array()
	case "peekInt8":
		_, err = rd.peekInt8(int(sv))
	case "peek":
		_, err = rd.peek(0, int(sv))
	case "pushLen":
		err = rd.push(&lengthField{})
	case "pushCrc":
		err = rd.push(newCRC32Field(crcIEEE))
	case "pushVarLen":
		err = rd.push(&varintLengthField{})
	case "pop":
		// length fields were read at push; a CRC field is checked now: the adversary writes it
		// consistent (good) or one bit off (bad)
		top := rd.stack[len(rd.stack)-1]
		switch x := top.(type) {
		case *crc32Field:
			c := crc32.ChecksumIEEE(rd.raw[x.startOffset+4 : rd.off])
			if st.Cls == "bad" {
				c ^= 1
			}
			binary.BigEndian.PutUint32(rd.raw[x.startOffset:], c)
		}
		err = rd.pop()
	default:
		panic("vd: unknown op " + st.Op)
	}
	return
}

func vdModelErr(err error) string {
	switch {
	case err == nil:
		return "ok"
	case err == ErrInsufficientData:
		return "insufficient"
	case err == errVarintOverflow || err == errUVarintOverflow:
		return "overflow"
	}
	return "invalid"
}

func vdProgWorker(t *testing.T, path string, put func(string, interface{})) {
	lines := vdReadLinesFile(t, path)
	from, _ := strconv.Atoi(os.Getenv("VERIF_DEC_PFROM"))
	to, _ := strconv.Atoi(os.Getenv("VERIF_DEC_PTO"))
	stride, _ := strconv.Atoi(os.Getenv("VERIF_DEC_PSTRIDE"))
	if stride < 1 {
		stride = 1
	}
	for pi := from; pi < to && pi < len(lines); pi += stride {
		var p vdProg
		if err := json.Unmarshal([]byte(lines[pi]), &p); err != nil {
			t.Fatalf("program %d: %v", pi, err)
		}
		put("Q", map[string]int{"pi": pi})
		raw := make([]byte, p.Len)
		rd := &realDecoder{raw: raw}
		var pushed []pushDecoder
		for k, st := range p.Steps {
			off0 := rd.off
			if cell := vdCellBytes(st); cell != nil {
				vdPutCell(raw, rd.off, cell)
			}
			put("N", map[string]int{"k": k})
			var ret int64
			var hasRet bool
			r, exit := vdGuard(func() ([]string, error) {
				var e error
				ret, hasRet, e = vdRunStep(rd, st, &pushed)
				return nil, e
			})
			sr := vdStepRes{K: k, Off0: off0, Off: rd.off, Alloc: r.Alloc, Depth: len(rd.stack), Ret: "-", Retc: "-", Site: r.Site, Cause: r.Cause, Err: r.Err}
			switch r.Res {
			case "ok":
				sr.Res = "ok"
				if hasRet {
					sr.Ret = strconv.FormatInt(ret, 10)
					sr.Retc = vdRetClass(ret, len(raw)-rd.off)
				}
			case "err":
				sr.Res = r.Err
				if r.Err != "insufficient" && r.Err != "overflow" {
					sr.Res = "invalid"
				}
			default:
				sr.Res = r.Res
			}

			put("T", sr)
			if exit {
				os.Exit(3)
			}
			if sr.Res != "ok" {
				break
			}
		}
		put("E", map[string]int{"pi": pi})
	}
	put("D", map[string]int{"done": 1})
}

func vdReadLinesFile(t testing.TB, p string) []string {
	f, err := os.Open(p)
	if err != nil {
		t.Fatal(err)
	}
	defer f.Close()
	var out []string
	sc := bufio.NewScanner(f)
	sc.Buffer(make([]byte, 1<<20), 1<<26)
	for sc.Scan() {
		if s := strings.TrimSpace(sc.Text()); s != "" {
			out = append(out, s)
		}
	}
	return out
}

type vdProgOut struct {
	progs  []vdProg
	steps  map[int][]vdStepRes
	spawn  int
	nsteps int
}

func vdRunPrograms(t *testing.T, dir string) *vdProgOut {
	path := os.Getenv("VERIF_CASES")
	lines := vdReadLinesFile(t, path)
	out := &vdProgOut{steps: map[int][]vdStepRes{}}
	for _, ln := range lines {
		var p vdProg
		if err := json.Unmarshal([]byte(ln), &p); err != nil {
			t.Fatalf("program: %v", err)
		}
		out.progs = append(out.progs, p)
	}
	nw := vEnvInt("VERIF_DEC_PWORKERS", 6)
	var mu sync.Mutex
	var wg sync.WaitGroup
	var firstErr error
	for w := 0; w < nw; w++ {
		wg.Add(1)
		go func(w int) {
			defer wg.Done()
			from := w
			spawns := 0
			for from < len(lines) {
				spawns++
				o := vdSpawn(dir, fmt.Sprintf("p%d", w), spawns, []string{"VERIF_DEC_PROGS=" + path,
					fmt.Sprintf("VERIF_DEC_PFROM=%d", from), fmt.Sprintf("VERIF_DEC_PTO=%d", len(lines)), fmt.Sprintf("VERIF_DEC_PSTRIDE=%d", nw)})
				cur, curStep := -1, -1
				closed := true
				finished := false
				mu.Lock()
				for _, ln := range o.lines {
					if len(ln) < 2 {
						continue
					}
					switch ln[0] {
					case 'Q':
						var q map[string]int
						json.Unmarshal([]byte(ln[2:]), &q)
						cur, curStep, closed = q["pi"], -1, false
					case 'N':
						var q map[string]int
						json.Unmarshal([]byte(ln[2:]), &q)
						curStep = q["k"]
					case 'T':
						var sr vdStepRes
						json.Unmarshal([]byte(ln[2:]), &sr)
						out.steps[cur] = append(out.steps[cur], sr)
						curStep = -1
					case 'E':
						closed = true
					case 'D':
						finished = true
					}
				}
				out.spawn++
				if !closed && curStep >= 0 {
					res, site, cause, msg := vdCrashInfo(o.stderr)
					st := out.progs[cur].Steps[curStep]
					out.steps[cur] = append(out.steps[cur], vdStepRes{K: curStep, Off0: st.Off0, Res: res, Err: msg, Off: st.Off0, Ret: "-", Retc: "-",
						Alloc: 1 << 30, Site: site, Cause: cause})
					closed = true
				}
				mu.Unlock()
				if finished && o.err == nil {
					return
				}
				if cur < 0 || !closed {
					mu.Lock()
					if firstErr == nil {
						tail := o.stderr
						if len(tail) > 2000 {
							tail = tail[len(tail)-2000:]
						}
						firstErr = fmt.Errorf("program worker %d died outside a step (exit %d)\n%s", w, o.code, tail)
					}
					mu.Unlock()
					return
				}
				from = cur + nw
			}
		}(w)
	}
	wg.Wait()
	if firstErr != nil {
		t.Fatal(firstErr)
	}
	return out
}

func (o *vdProgOut) emit(rec, det *vRec) int {
	n := 0
	rec.Reset(kv{"fam": "prog", "orig": []string{}})
	det.Reset(kv{"fam": "prog", "orig": []string{}})
	for pi, p := range o.progs {
		srs := o.steps[pi]
		if len(srs) == 0 {
			continue
		}
		if n > 0 && n%1500 == 0 { // keep the traces small enough to be dealt to parallel TLC processes
			rec.Reset(kv{"fam": "prog", "orig": []string{}})
			det.Reset(kv{"fam": "prog", "orig": []string{}})
		}
		for _, sr := range srs {
			st := p.Steps[sr.K]
			rec.Ev("pstep", kv{"len": p.Len, "moff0": st.Off0, "mres": st.Res, "moff": st.Off1, "mretc": st.Retc,
				"off0": sr.Off0, "res": sr.Res, "off": sr.Off, "retc": sr.Retc, "alloc": sr.Alloc})
			det.Ev("pstep", kv{"pi": pi, "k": sr.K, "len": p.Len, "nsteps": len(p.Steps), "op": st.Op, "cls": st.Cls, "v": st.V,
				"moff0": st.Off0, "mres": st.Res, "moff": st.Off1, "mretc": st.Retc,
				"off0": sr.Off0, "res": sr.Res, "off": sr.Off, "ret": sr.Ret, "retc": sr.Retc, "alloc": sr.Alloc,
				"site": sr.Site, "cause": sr.Cause, "err": sr.Err})
			o.nsteps++
		}
		n++
	}
	return n
}

func (o *vdProgOut) summary() kv {
	byRes := map[string]int{}
	nsteps := 0
	for _, srs := range o.steps {
		for _, sr := range srs {
			byRes[sr.Res]++
			nsteps++
		}
	}
	return kv{"programs": len(o.progs), "steps_executed": nsteps, "by_result": byRes, "worker_spawns": o.spawn}
}

var _ = math.MaxInt32
