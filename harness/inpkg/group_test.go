//go:build verif
// +build verif

package sarama

// C07 harness: real ConsumerGroup(s) (NewConsumerGroup) against a simulated cluster with a
// group coordinator that has the real join / sync barriers, an offset store fenced by member id
// and generation, and a small numbered log per partition. Scenario scripts (one JSON object per
// line of VERIF_CASES) are emitted by TLC from spec/Group.tla; what the real code does is recorded
// as NDJSON and judged by spec/GroupTrace.tla (GroupObs!ObsStep).

import (
	"bytes"
	"context"
	"encoding/binary"
	"encoding/json"
	"fmt"
	"io"
	"net"
	"os"
	"sort"
	"strings"
	"sync"
	"sync/atomic"
	"testing"
	"time"
)

const grpTopic = "vt"

// every scenario has its own tag "verif-<pid>-<seq>": client ids are "<tag>-c1", ..., the group is "vg-<tag>". The simulated
// cluster turns away (closes, unrecorded, nothing stored) every request whose client id or group id is not the scenario's -
// a client of another verification process redialling a recycled port, or a straggler of an abandoned scenario of this one.
var grpSeq int64

// ---------------------------------------------------------------- scenario script

type grpHandlerScript struct {
	Mode string `json:"mode"` // early | drain | ctxwait
	N    int    `json:"n"`    // messages per claim before the handler acts / the claim trigger fires
	Mark int    `json:"mark"` // prefix of delivered messages that is marked
	Slow bool   `json:"slow"` // Cleanup lasts until 3 more heartbeats of this member reached the coordinator (or 3x the session timeout)
}

type grpTrig struct {
	Kind string `json:"kind"` // none | cancel | close | hb_rebalance | hb_unknown | hb_illegal | hb_notcoord | hb_conn | hb_conn1
	At   string `json:"at"`   // pre | join | sync | setup | claim | cleanup
}

type grpSessScript struct {
	JF   []string         `json:"jf"` // answers to the successive JoinGroup requests of this Consume call
	SF   []string         `json:"sf"` // ... SyncGroup
	CF   []string         `json:"cf"` // ... OffsetCommit
	H    grpHandlerScript `json:"h"`
	DF   *int             `json:"df"` // data-plane fault: ListOffsets for this assigned partition fails during this call
	Trig grpTrig          `json:"trig"`
}

type grpClientScript struct {
	C     string          `json:"c"`
	Start string          `json:"start"` // pre | setup (after the first client's first Setup)
	Pre   string          `json:"pre"`   // none | cancel | close: before the first Consume call
	NSess int             `json:"nsess"` // Consume calls
	Sess  []grpSessScript `json:"sess"`
	LF    string          `json:"lf"` // answer to LeaveGroup
}

type grpScenario struct {
	ID           string            `json:"id"`
	Fam          string            `json:"fam"`
	NP           int               `json:"np"`
	LogLen       int               `json:"loglen"`
	LogStart     int               `json:"logstart"`
	Initial      int               `json:"initial"`
	Auto         string            `json:"auto"` // fast | slow | off
	Strategy     string            `json:"strategy"`
	Committed    []int64           `json:"committed"`
	GrowAt       string            `json:"growat"`       // "" | "claim": partition count grows when c1's handler reaches its point
	Refresh0     bool              `json:"refresh0"`     // Metadata.RefreshFrequency = 0 (background refresh disabled)
	DClose       bool              `json:"dclose"`       // every group is closed a second time after Close returned
	NoNet        bool              `json:"nonet"`        // never end a call by the safety-net context cancel
	DFKind       string            `json:"dfkind"`       // how the start of a claim is failed: notleader (default) | conn
	NPThen       int               `json:"npthen"`       // > 0: the topic has this many partitions from the moment c1's first Consume call returned
	SessTO       int               `json:"sessto"`       // ms; > 0: Consumer.Group.Session.Timeout, ENFORCED by the simulated coordinator (heartbeat interval 50 ms)
	RRetry       *int              `json:"rretry"`       // Consumer.Group.Rebalance.Retry.Max (default 2)
	ORetry       *int              `json:"oretry"`       // Consumer.Offsets.Retry.Max (default 3)
	Leaderless   *int              `json:"leaderless"`   // this partition is listed by the metadata with ErrLeaderNotAvailable (leader -1)
	LookupFail   bool              `json:"lookupfail"`   // once the coordinator is down, coordinator lookups are answered with an error too
	ReturnErrors bool              `json:"returnerrors"` // Consumer.Return.Errors
	Clients      []grpClientScript `json:"clients"`
}

const grpHbRetry = 1 // Metadata.Retry.Max: heartbeats lost in a row that the session survives

func grpKErr(kind string) KError {
	switch kind {
	case "rebalance":
		return ErrRebalanceInProgress
	case "unknown":
		return ErrUnknownMemberId
	case "illegal":
		return ErrIllegalGeneration
	case "notcoord":
		return ErrNotCoordinatorForConsumer
	case "load":
		return ErrOffsetsLoadInProgress
	}
	return ErrNoError
}

// ---------------------------------------------------------------- simulated cluster

type grpMember struct {
	id, client string
	meta       []byte
	joined     bool
	assignment []byte
	result     *JoinGroupResponse
	alive      *vBound // enforced session timeout: restarted by every join / sync / heartbeat of the member
}

type grpClientState struct {
	jq, sq, cq []string
	lf         string
	hbArmed    string
	hbDrop     int
	hbDone     chan struct{} // closed when the armed heartbeat verdict has been answered
	onJoin     func()
	onRejoin   func() // at a later JoinGroup of the call that carries an empty member id (rejoin after a fence)
	onSync     func()
	persist    string // "sync" | "join": EVERY SyncGroup / JoinGroup of the current call is answered REBALANCE_IN_PROGRESS
	persistN   int    // ... refusals so far
	persistCl  bool   // ... and the group is closed at the third refusal
	quiet      bool   // ... after 8 refusals the call's join / sync traffic is no longer recorded (a spinning loop must not
	// look like progress to the watchdog nor flood the trace)
	joinN    int  // JoinGroup requests of the current call
	holdResp bool // Close was called during this JoinGroup: its answer is held until Close had its chance to run
}

type grpSim struct {
	rec   *vRec
	sc    *grpScenario
	mu    sync.Mutex
	cond  *sync.Cond
	lns   []net.Listener
	conns map[net.Conn]bool
	wg    sync.WaitGroup
	dead  bool

	np          int
	state       string // Empty | Preparing | Completing | Stable
	gen         int32
	members     map[string]*grpMember
	order       []string
	leader      string
	protocol    string
	nextID      int
	store       map[int32]int64
	clients     map[string]*grpClientState
	simErrs     []string
	expect      map[string]bool // clients started up front: the first join round waits for all of them
	tag         string          // "verif-<pid>-<seq>"
	group       string          // the scenario's consumer group id
	coord       int             // listener (broker id - 1) that currently is the group's coordinator
	hbOK        int             // heartbeats answered OK (the watchdog's clock)
	hbSeen      map[string]int  // heartbeat requests seen per client
	closeRet    map[string]bool // Close of this client's group has returned
	closer      map[string]func()
	nretry      int             // refused coordinator lookups / initial OffsetFetches (a watchdog clock: a retry loop is spinning)
	lookupFail  map[string]bool // coordinator lookups of this client are answered COORDINATOR_NOT_AVAILABLE
	lookupLate  map[string]bool // ... from the moment its JoinGroup was answered NOT_COORDINATOR (scripted)
	lookupN     map[string]int
	onLookup    map[string]func() // one-shot hook at the fifth refused lookup (Close during the retry loop)
	fetchFails  map[string]int    // refused OffsetFetch requests of the current call (only the first three are logged)
	failOff     map[string]int    // client -> partition whose ListOffsets requests fail (claim start fails)
	failFetch   map[string]string // client -> how its OffsetFetch requests fail during the current Consume call
	onFetchFail map[string]func() // one-shot hook at the first refused OffsetFetch (Close racing with the failing set-up)
	connLn      map[net.Conn]int
	down        map[int]bool // listeners taken down (unreachable coordinator)
}

func newGrpSim(rec *vRec, sc *grpScenario) (*grpSim, error) {
	s := &grpSim{rec: rec, sc: sc, conns: map[net.Conn]bool{}, np: sc.NP, state: "Empty", members: map[string]*grpMember{},
		store: map[int32]int64{}, clients: map[string]*grpClientState{}}
	s.tag = fmt.Sprintf("verif-%d-%d", os.Getpid(), atomic.AddInt64(&grpSeq, 1))
	s.group = "vg-" + s.tag
	s.cond = sync.NewCond(&s.mu)
	for p, off := range sc.Committed {
		if off >= 0 {
			s.store[int32(p)] = off
		}
	}
	s.expect = map[string]bool{}
	s.failOff = map[string]int{}
	s.hbSeen = map[string]int{}
	s.closeRet = map[string]bool{}
	s.closer = map[string]func(){}
	s.lookupFail = map[string]bool{}
	s.lookupLate = map[string]bool{}
	s.lookupN = map[string]int{}
	s.onLookup = map[string]func(){}
	s.fetchFails = map[string]int{}
	s.failFetch = map[string]string{}
	s.onFetchFail = map[string]func(){}
	s.connLn = map[net.Conn]int{}
	s.down = map[int]bool{}
	for _, c := range sc.Clients {
		s.clients[c.C] = &grpClientState{}
		if c.Start == "pre" && c.NSess > 0 {
			s.expect[c.C] = true
		}
	}
	for i := 0; i < 2; i++ {
		ln, err := net.Listen("tcp", "127.0.0.1:0")
		if err != nil {
			for _, l := range s.lns {
				l.Close()
			}
			return nil, err
		}
		s.lns = append(s.lns, ln)
	}
	for i := range s.lns {
		s.wg.Add(1)
		go s.serve(i)
	}
	if sc.SessTO > 0 {
		s.wg.Add(1)
		go s.reaper()
	}
	return s, nil
}

func (s *grpSim) addr(i int) string { return s.lns[i].Addr().String() }

func (s *grpSim) Close() {
	s.mu.Lock()
	s.dead = true
	for c := range s.conns {
		c.Close()
	}
	s.cond.Broadcast()
	s.mu.Unlock()
	for _, l := range s.lns {
		l.Close()
	}
	done := make(chan struct{})
	go func() { s.wg.Wait(); close(done) }()
	select {
	case <-done:
	case <-time.After(5 * time.Second):
	}
}

func (s *grpSim) serve(i int) {
	defer s.wg.Done()
	for {
		conn, err := s.lns[i].Accept()
		if err != nil {
			return
		}
		s.mu.Lock()
		if s.dead {
			s.mu.Unlock()
			conn.Close()
			return
		}
		if s.down[i] {
			s.mu.Unlock()
			conn.Close()
			continue
		}
		s.conns[conn] = true
		s.connLn[conn] = i
		s.mu.Unlock()
		s.wg.Add(1)
		go s.handleConn(conn)
	}
}

func (s *grpSim) simErr(what string) {
	s.simErrs = append(s.simErrs, what)
}

func (s *grpSim) handleConn(conn net.Conn) {
	defer s.wg.Done()
	defer func() {
		conn.Close()
		s.mu.Lock()
		delete(s.conns, conn)
		delete(s.connLn, conn)
		s.mu.Unlock()
	}()
	for {
		hdr := make([]byte, 4)
		if _, err := io.ReadFull(conn, hdr); err != nil {
			return
		}
		n := int32(binary.BigEndian.Uint32(hdr))
		if n <= 4 || n > 10<<20 {
			return
		}
		body := make([]byte, n)
		if _, err := io.ReadFull(conn, body); err != nil {
			return
		}
		req, _, err := decodeRequest(bytes.NewReader(append(hdr, body...)))
		if err != nil {
			s.mu.Lock()
			s.simErr("request does not decode: " + err.Error())
			s.mu.Unlock()
			return
		}
		s.mu.Lock()
		li := s.connLn[conn]
		s.mu.Unlock()
		res, drop := s.handle(req, li)
		if drop {
			return
		}
		if res == nil {
			continue
		}
		enc, err := encode(res, nil)
		if err != nil {
			s.mu.Lock()
			s.simErr("response does not encode: " + err.Error())
			s.mu.Unlock()
			return
		}
		hl := 8
		if res.headerVersion() >= 1 {
			hl = 9
		}
		out := make([]byte, hl, hl+len(enc))
		binary.BigEndian.PutUint32(out, uint32(len(enc)+hl-4))
		binary.BigEndian.PutUint32(out[4:], uint32(req.correlationID))
		out = append(out, enc...)
		if _, err := conn.Write(out); err != nil {
			return
		}
	}
}

// stale answers a group request that reached a broker which is not the group's coordinator (any more):
// NOT_COORDINATOR, nothing applied. Every such request is logged like the others, with stale=true.
func (s *grpSim) stale(cl string, li int, body protocolBody) encoderWithHeader {
	s.mu.Lock()
	defer s.mu.Unlock()
	if li == s.coord {
		return nil
	}
	nc := ErrNotCoordinatorForConsumer
	switch r := body.(type) {
	case *JoinGroupRequest:
		s.rec.Ev("join_req", kv{"c": cl, "mid": r.MemberId})
		s.rec.Ev("join_resp", kv{"c": cl, "err": "notcoord", "mid": "", "gen": -1, "stale": true})
		return &JoinGroupResponse{Version: r.Version, Err: nc, GenerationId: -1}
	case *SyncGroupRequest:
		s.rec.Ev("sync_req", kv{"c": cl, "mid": r.MemberId, "gen": int(r.GenerationId)})
		s.rec.Ev("sync_resp", kv{"c": cl, "err": "notcoord", "claims": []int{}, "stale": true})
		return &SyncGroupResponse{Err: nc}
	case *HeartbeatRequest:
		s.rec.Ev("hb", kv{"c": cl, "mid": r.MemberId, "gen": int(r.GenerationId), "err": "notcoord", "stale": true})
		return &HeartbeatResponse{Err: nc}
	case *LeaveGroupRequest:
		s.rec.Ev("leave", kv{"c": cl, "mid": r.MemberId, "err": "notcoord", "stale": true})
		return &LeaveGroupResponse{Err: nc}
	case *OffsetCommitRequest:
		var ps []int
		for p := range r.blocks[grpTopic] {
			ps = append(ps, int(p))
		}
		sort.Ints(ps)
		blocks := [][]int64{}
		for _, p := range ps {
			blocks = append(blocks, []int64{int64(p), r.blocks[grpTopic][int32(p)].offset})
		}
		s.rec.Ev("commit", kv{"c": cl, "mid": r.ConsumerID, "gen": int(r.ConsumerGroupGeneration), "err": "notcoord", "blocks": blocks,
			"applied": false, "stale": true})
		res := &OffsetCommitResponse{Version: r.Version}
		for topic, bs := range r.blocks {
			for p := range bs {
				res.AddError(topic, p, nc)
			}
		}
		return res
	case *OffsetFetchRequest:
		res := &OffsetFetchResponse{Version: r.Version}
		for topic, ps := range r.partitions {
			for _, p := range ps {
				res.AddBlock(topic, p, &OffsetFetchResponseBlock{Offset: -1, Err: nc})
			}
		}
		return res
	}
	return nil
}

// moveCoord migrates the group's coordinator to the other broker; the group state (members, generation, offsets) moves along
func (s *grpSim) moveCoord(locked bool) {
	if !locked {
		s.mu.Lock()
		defer s.mu.Unlock()
	}
	s.coord = 1 - s.coord
	s.rec.Ev("coord_move", kv{"to": s.coord + 1})
}

// lookupRefused: the coordinator cannot be found for this client right now (scripted)
func (s *grpSim) lookupRefused(cl string) bool {
	s.mu.Lock()
	if !s.lookupFail[cl] {
		s.mu.Unlock()
		return false
	}
	s.lookupN[cl]++
	s.nretry++
	n := s.lookupN[cl]
	if n <= 3 {
		s.rec.Ev("lookup_fail", kv{"c": cl})
	}
	var hook func()
	if n == 5 { // (deep inside the retry loop: the first lookups belong to client.Coordinator's own retries)
		hook = s.onLookup[cl]
		delete(s.onLookup, cl)
	}
	s.mu.Unlock()
	if hook != nil {
		hook()
	}
	return true
}

// clientID is the client id a scenario's client has to present
func (s *grpSim) clientID(name string) string { return s.tag + "-" + name }

// foreign: the request does not belong to this scenario (client id or group id of somebody else)
func (s *grpSim) foreign(req *request) (string, bool) {
	prefix := s.tag + "-"
	if !strings.HasPrefix(req.clientID, prefix) {
		return "", true
	}
	cl := req.clientID[len(prefix):]
	if _, ok := s.clients[cl]; !ok {
		return "", true
	}
	group := ""
	switch r := req.body.(type) {
	case *JoinGroupRequest:
		group = r.GroupId
	case *SyncGroupRequest:
		group = r.GroupId
	case *HeartbeatRequest:
		group = r.GroupId
	case *LeaveGroupRequest:
		group = r.GroupId
	case *OffsetCommitRequest:
		group = r.ConsumerGroup
	case *OffsetFetchRequest:
		group = r.ConsumerGroup
	case *FindCoordinatorRequest:
		group = r.CoordinatorKey
	case *ConsumerMetadataRequest:
		group = r.ConsumerGroup
	default:
		return cl, false
	}
	return cl, group != s.group
}

func (s *grpSim) handle(req *request, li int) (encoderWithHeader, bool) {
	cl, alien := s.foreign(req)
	if alien {
		return nil, true // connection closed, nothing recorded, nothing stored
	}
	if res := s.stale(cl, li, req.body); res != nil {
		return res, false
	}
	switch r := req.body.(type) {
	case *MetadataRequest:
		res := &MetadataResponse{Version: r.Version}
		s.mu.Lock()
		np := s.np
		gone := s.down[0]
		s.mu.Unlock()
		if !gone {
			res.AddBroker(s.addr(0), 1)
		}
		res.AddBroker(s.addr(1), 2)
		for p := 0; p < np; p++ {
			if s.sc.Leaderless != nil && *s.sc.Leaderless == p {
				// the partition exists but has no leader at the moment
				res.AddTopicPartition(grpTopic, int32(p), -1, []int32{2}, []int32{}, nil, ErrLeaderNotAvailable)
				continue
			}
			res.AddTopicPartition(grpTopic, int32(p), 2, []int32{2}, []int32{2}, nil, ErrNoError)
		}
		return res, false
	case *FindCoordinatorRequest:
		s.mu.Lock()
		lost := s.down[0] && s.sc.LookupFail
		s.mu.Unlock()
		if lost || s.lookupRefused(cl) {
			return &FindCoordinatorResponse{Version: r.Version, Err: ErrConsumerCoordinatorNotAvailable}, false
		}
		return s.findCoordinator(r.Version), false
	case *ConsumerMetadataRequest:
		s.mu.Lock()
		lost := s.down[0] && s.sc.LookupFail
		s.mu.Unlock()
		if lost || s.lookupRefused(cl) {
			return &ConsumerMetadataResponse{Err: ErrConsumerCoordinatorNotAvailable}, false
		}
		s.mu.Lock()
		co := s.coord
		s.mu.Unlock()
		host, port := grpHostPort(s.addr(co))
		return &ConsumerMetadataResponse{Coordinator: &Broker{id: int32(co + 1), addr: s.addr(co)}, CoordinatorID: int32(co + 1), CoordinatorHost: host, CoordinatorPort: port}, false
	case *OffsetRequest:
		res := &OffsetResponse{Version: r.Version}
		for topic, bs := range r.blocks {
			for p, b := range bs {
				s.mu.Lock()
				fp, failing := s.failOff[cl]
				if failing && int(p) == fp {
					kind := s.sc.DFKind
					if kind == "" {
						kind = "notleader"
					}
					s.rec.Ev("claim_fail", kv{"c": cl, "p": int(p), "kind": kind})
					s.mu.Unlock()
					if kind == "conn" {
						return nil, true
					}
					res.AddTopicPartition(topic, p, -1)
					res.Blocks[topic][p].Err = ErrNotLeaderForPartition
					continue
				}
				s.mu.Unlock()
				off := int64(s.sc.LogLen)
				if b.time == OffsetOldest {
					off = int64(s.sc.LogStart)
				}
				res.AddTopicPartition(topic, p, off)
			}
		}
		return res, false
	case *FetchRequest:
		return s.handleFetch(r), false
	case *OffsetFetchRequest:
		res := &OffsetFetchResponse{Version: r.Version}
		s.mu.Lock()
		if kind := s.failFetch[cl]; kind != "" {
			// session set-up fails: the initial OffsetFetch of the session's offset manager is refused for the whole call
			s.fetchFails[cl]++
			s.nretry++
			if s.fetchFails[cl] <= 3 {
				s.rec.Ev("ofetch_fail", kv{"c": cl, "kind": kind, "n": s.fetchFails[cl]})
			}
			hook := s.onFetchFail[cl]
			delete(s.onFetchFail, cl)
			s.mu.Unlock()
			if hook != nil {
				hook()
			}
			if kind == "conn" {
				return nil, true
			}
			for topic, ps := range r.partitions {
				for _, p := range ps {
					res.AddBlock(topic, p, &OffsetFetchResponseBlock{Offset: -1, Err: grpKErr(kind)})
				}
			}
			return res, false
		}
		for topic, ps := range r.partitions {
			for _, p := range ps {
				off, ok := s.store[p]
				if !ok {
					off = -1
				}
				s.rec.Ev("ofetch", kv{"c": cl, "p": int(p), "off": off})
				res.AddBlock(topic, p, &OffsetFetchResponseBlock{Offset: off})
			}
		}
		s.mu.Unlock()
		return res, false
	case *JoinGroupRequest:
		return s.handleJoin(cl, r)
	case *SyncGroupRequest:
		return s.handleSync(cl, r)
	case *HeartbeatRequest:
		return s.handleHeartbeat(cl, r)
	case *OffsetCommitRequest:
		return s.handleCommit(cl, r)
	case *LeaveGroupRequest:
		return s.handleLeave(cl, r)
	}
	s.mu.Lock()
	s.simErr(fmt.Sprintf("unexpected request %T", req.body))
	s.mu.Unlock()
	return nil, true
}

func (s *grpSim) findCoordinator(version int16) *FindCoordinatorResponse {
	s.mu.Lock()
	co := s.coord
	s.mu.Unlock()
	return &FindCoordinatorResponse{Version: version, Coordinator: &Broker{id: int32(co + 1), addr: s.addr(co)}}
}

func grpHostPort(addr string) (string, int32) {
	h, p, _ := net.SplitHostPort(addr)
	var n int
	fmt.Sscanf(p, "%d", &n)
	return h, int32(n)
}

func (s *grpSim) handleFetch(r *FetchRequest) encoderWithHeader {
	res := &FetchResponse{Version: r.Version}
	empty := true
	for topic, bs := range r.blocks {
		for p, b := range bs {
			off := b.fetchOffset
			switch {
			case off < int64(s.sc.LogStart) || off > int64(s.sc.LogLen):
				res.AddError(topic, p, ErrOffsetOutOfRange)
				empty = false
			default:
				for o := off; o < int64(s.sc.LogLen); o++ {
					if r.Version >= 4 {
						res.AddRecord(topic, p, nil, StringEncoder(fmt.Sprintf("v%d", o)), o)
					} else {
						res.AddMessage(topic, p, nil, StringEncoder(fmt.Sprintf("v%d", o)), o)
					}
					empty = false
				}
				fb := res.GetBlock(topic, p)
				if fb == nil {
					res.AddError(topic, p, ErrNoError)
					fb = res.GetBlock(topic, p)
				}
				fb.HighWaterMarkOffset = int64(s.sc.LogLen)
			}
		}
	}
	if empty {
		<-time.After(time.Duration(r.MaxWaitTime) * time.Millisecond) // (not time.Sleep: the watchdog treats sleeping goroutines as progress)
	}
	return res
}

// nextFault pops the scripted answer for the next request of the given type ("ok" when exhausted)
func grpPop(q *[]string) string {
	if len(*q) == 0 {
		return "ok"
	}
	k := (*q)[0]
	*q = (*q)[1:]
	if k == "" {
		return "ok"
	}
	return k
}

func (s *grpSim) removeMember(mid string, why string) {
	if s.members[mid] == nil {
		return
	}
	delete(s.members, mid)
	var no []string
	for _, id := range s.order {
		if id != mid {
			no = append(no, id)
		}
	}
	s.order = no
	if len(s.members) == 0 {
		s.state = "Empty"
	} else {
		s.state = "Preparing"
	}
	s.rec.Ev("evict", kv{"mid": mid, "why": why})
	s.cond.Broadcast()
}

// holdUntilCloseRan (s.mu held): Close was called while this JoinGroup is in flight. The answer - which issues the member id -
// is held until Close has returned (it did not wait for the running Consume) or until Close had its chance to run: a
// load-aware bound of 300 ms (Close is then blocked on the Consume lock and nothing more can happen before the answer).
func (s *grpSim) holdUntilCloseRan(cl string) {
	b := vNewBound(300 * time.Millisecond)
	for !s.closeRet[cl] && !s.dead {
		if expired, _ := b.state(); expired {
			return
		}
		s.mu.Unlock()
		time.Sleep(10 * time.Millisecond)
		s.mu.Lock()
	}
}

func (s *grpSim) evq(cs *grpClientState, ev string, f kv) {
	if !cs.quiet {
		s.rec.Ev(ev, f)
	}
}

// refuse (s.mu held): the rebalance does not settle - this SyncGroup / JoinGroup of the call is answered REBALANCE_IN_PROGRESS
// like all the others. The n-th refusal is recorded with the budget the code has (Rebalance.Retry.Max + 1 rounds).
func (s *grpSim) refuse(cl string, cs *grpClientState, what string) {
	cs.persistN++
	s.nretry++
	max := 3
	if s.sc.RRetry != nil {
		max = *s.sc.RRetry + 1
	}
	s.evq(cs, what, kv{"c": cl, "err": "rebalance", "mid": "", "gen": -1, "claims": []int{}, "n": cs.persistN, "max": max})
	if cs.persistN == 3 && cs.persistCl {
		if c := s.closer[cl]; c != nil {
			c()
		}
	}
	if cs.persistN >= 8 {
		cs.quiet = true
	}
}

// touch restarts the member's session timer (enforced session timeout)
func (s *grpSim) touch(mid string) {
	if s.sc.SessTO > 0 {
		if m := s.members[mid]; m != nil {
			m.alive = vNewBound(time.Duration(s.sc.SessTO) * time.Millisecond)
		}
	}
}

// reaper enforces the session timeout like a real coordinator: a member of a stable group whose last heartbeat is older than
// its session timeout is removed (its later heartbeats / commits get UNKNOWN_MEMBER_ID, the others a rebalance). The bound is
// load-aware (vBound): it only expires when this process itself had the CPU for that long.
func (s *grpSim) reaper() {
	defer s.wg.Done()
	for {
		time.Sleep(20 * time.Millisecond)
		s.mu.Lock()
		if s.dead {
			s.mu.Unlock()
			return
		}
		if s.state == "Stable" {
			for id, m := range s.members {
				if m.alive == nil || m.joined {
					continue
				}
				if expired, starved := m.alive.state(); expired && !starved {
					s.removeMember(id, "session_timeout")
				}
			}
		}
		s.mu.Unlock()
	}
}

func (s *grpSim) allJoined() bool {
	if len(s.members) == 0 {
		return false
	}
	if s.gen == 0 {
		// the very first round is held for every client that was started up front
		have := map[string]bool{}
		for _, m := range s.members {
			have[m.client] = true
		}
		for c := range s.expect {
			if !have[c] {
				return false
			}
		}
	}
	for _, m := range s.members {
		if !m.joined {
			return false
		}
	}
	return true
}

func (s *grpSim) completeRound(version int16) {
	s.gen++
	if s.members[s.leader] == nil {
		s.leader = s.order[0]
	}
	s.state = "Completing"
	all := map[string][]byte{}
	for id, m := range s.members {
		all[id] = m.meta
	}
	for id, m := range s.members {
		m.joined = false
		m.assignment = nil
		res := &JoinGroupResponse{Version: version, GenerationId: s.gen, GroupProtocol: s.protocol, LeaderId: s.leader, MemberId: id}
		if id == s.leader {
			res.Members = all
		}
		m.result = res
	}
	s.cond.Broadcast()
}

func (s *grpSim) handleJoin(cl string, r *JoinGroupRequest) (encoderWithHeader, bool) {
	s.mu.Lock()
	defer s.mu.Unlock()
	cs := s.clients[cl]
	if cs == nil {
		s.simErr("join from unknown client " + cl)
		return nil, true
	}
	s.evq(cs, "join_req", kv{"c": cl, "mid": r.MemberId})
	cs.joinN++
	if f := cs.onJoin; f != nil {
		cs.onJoin = nil
		f()
	} else if f := cs.onRejoin; f != nil && cs.joinN >= 2 && r.MemberId == "" {
		cs.onRejoin = nil
		f()
	}
	if cs.persist == "join" {
		s.refuse(cl, cs, "join_resp")
		return &JoinGroupResponse{Version: r.Version, Err: ErrRebalanceInProgress, GenerationId: -1}, false
	}
	fail := func(kind string) (encoderWithHeader, bool) {
		s.evq(cs, "join_resp", kv{"c": cl, "err": kind, "mid": "", "gen": -1})
		if kind == "conn" {
			return nil, true
		}
		return &JoinGroupResponse{Version: r.Version, Err: grpKErr(kind), GenerationId: -1}, false
	}
	kind := grpPop(&cs.jq)
	if kind != "ok" {
		if kind == "unknown" {
			s.removeMember(r.MemberId, "scripted")
		}
		if kind == "notcoord" && s.lookupLate[cl] {
			s.lookupFail[cl] = true // ... and the new coordinator cannot be found
		}
		return fail(kind)
	}
	mid := r.MemberId
	if mid != "" && s.members[mid] == nil {
		return fail("unknown")
	}
	if mid == "" {
		// a client has at most one live member id: ids it abandoned expire (emulates the session timeout)
		for id, m := range s.members {
			if m.client == cl {
				s.removeMember(id, "expired")
			}
		}
		s.nextID++
		mid = fmt.Sprintf("%s-%d", cl, s.nextID)
		s.members[mid] = &grpMember{id: mid, client: cl}
		s.order = append(s.order, mid)
	}
	m := s.members[mid]
	for _, gp := range r.OrderedGroupProtocols {
		m.meta = gp.Metadata
		s.protocol = gp.Name
		break
	}
	if len(r.OrderedGroupProtocols) == 0 {
		for name, meta := range r.GroupProtocols {
			m.meta = meta
			s.protocol = name
		}
	}
	m.joined = true
	m.result = nil
	s.state = "Preparing"
	s.cond.Broadcast()
	for {
		if s.dead {
			return nil, true
		}
		if s.members[mid] != m {
			return fail("unknown")
		}
		if m.result != nil {
			res := m.result
			m.result = nil
			if cs.holdResp {
				cs.holdResp = false
				s.holdUntilCloseRan(cl)
			}
			s.touch(res.MemberId)
			s.evq(cs, "join_resp", kv{"c": cl, "err": "ok", "mid": res.MemberId, "gen": int(res.GenerationId)})
			return res, false
		}
		if s.state == "Preparing" && s.allJoined() {
			s.completeRound(r.Version)
			continue
		}
		s.cond.Wait()
	}
}

func grpClaimsOf(assignment []byte) []int {
	out := []int{}
	if len(assignment) == 0 {
		return out
	}
	a := new(ConsumerGroupMemberAssignment)
	if err := decode(assignment, a); err != nil {
		return out
	}
	for _, p := range a.Topics[grpTopic] {
		out = append(out, int(p))
	}
	sort.Ints(out)
	return out
}

func (s *grpSim) handleSync(cl string, r *SyncGroupRequest) (encoderWithHeader, bool) {
	s.mu.Lock()
	defer s.mu.Unlock()
	cs := s.clients[cl]
	if cs == nil {
		return nil, true
	}
	s.evq(cs, "sync_req", kv{"c": cl, "mid": r.MemberId, "gen": int(r.GenerationId)})
	if f := cs.onSync; f != nil {
		cs.onSync = nil
		f()
	}
	if cs.persist == "sync" {
		s.refuse(cl, cs, "sync_resp")
		return &SyncGroupResponse{Err: ErrRebalanceInProgress}, false
	}
	fail := func(kind string) (encoderWithHeader, bool) {
		s.evq(cs, "sync_resp", kv{"c": cl, "err": kind, "claims": []int{}})
		if kind == "conn" {
			return nil, true
		}
		return &SyncGroupResponse{Err: grpKErr(kind)}, false
	}
	kind := grpPop(&cs.sq)
	if kind != "ok" {
		if kind == "unknown" {
			s.removeMember(r.MemberId, "scripted")
		}
		return fail(kind)
	}
	for {
		if s.dead {
			return nil, true
		}
		m := s.members[r.MemberId]
		switch {
		case m == nil:
			return fail("unknown")
		case r.GenerationId != s.gen:
			return fail("illegal")
		case s.state == "Preparing":
			return fail("rebalance")
		}
		if s.state == "Completing" && r.MemberId == s.leader {
			if !cs.quiet {
				s.recordPlan(cl, r)
			}
			for id, a := range r.GroupAssignments {
				if mm := s.members[id]; mm != nil {
					mm.assignment = a
				}
			}
			s.state = "Stable"
			s.cond.Broadcast()
		}
		if s.state == "Stable" {
			s.touch(r.MemberId)
			s.evq(cs, "sync_resp", kv{"c": cl, "err": "ok", "claims": grpClaimsOf(m.assignment)})
			return &SyncGroupResponse{MemberAssignment: m.assignment}, false
		}
		s.cond.Wait()
	}
}

// recordPlan logs the assignments the group leader hands to SyncGroup together with what they have to cover: every
// partition the cluster metadata lists (leaderless ones included) for every topic some member subscribes to.
func (s *grpSim) recordPlan(cl string, r *SyncGroupRequest) {
	plan := [][]interface{}{}
	unknown, nosub, foreign := 0, 0, 0
	var ids []string
	for id := range r.GroupAssignments {
		ids = append(ids, id)
	}
	sort.Strings(ids)
	for _, id := range ids {
		m := s.members[id]
		if m == nil {
			unknown++
			continue
		}
		a := new(ConsumerGroupMemberAssignment)
		if len(r.GroupAssignments[id]) > 0 {
			if err := decode(r.GroupAssignments[id], a); err != nil {
				unknown++
				continue
			}
		}
		subs := map[string]bool{}
		meta := new(ConsumerGroupMemberMetadata)
		if err := decode(m.meta, meta); err == nil {
			for _, t := range meta.Topics {
				subs[t] = true
			}
		}
		for topic, ps := range a.Topics {
			if topic != grpTopic {
				foreign += len(ps)
				continue
			}
			if !subs[topic] {
				nosub += len(ps)
			}
			sorted := append([]int32{}, ps...)
			sort.Slice(sorted, func(i, j int) bool { return sorted[i] < sorted[j] })
			for _, p := range sorted {
				plan = append(plan, []interface{}{m.client, int(p)})
			}
		}
	}
	subscribed := false
	mem := []string{}
	for _, m := range s.members {
		mem = append(mem, m.client)
		meta := new(ConsumerGroupMemberMetadata)
		if err := decode(m.meta, meta); err == nil {
			for _, t := range meta.Topics {
				if t == grpTopic {
					subscribed = true
				}
			}
		}
	}
	sort.Strings(mem)
	parts := []int{}
	if subscribed {
		for p := 0; p < s.np; p++ {
			parts = append(parts, p)
		}
	}
	s.rec.Ev("sync_plan", kv{"c": cl, "strategy": s.protocol, "plan": plan, "parts": parts, "members": mem,
		"unknown": unknown, "nosub": nosub, "foreign": foreign})
}

func (s *grpSim) handleHeartbeat(cl string, r *HeartbeatRequest) (encoderWithHeader, bool) {
	s.mu.Lock()
	defer s.mu.Unlock()
	cs := s.clients[cl]
	if cs == nil {
		return nil, true
	}
	kind := "ok"
	m := s.members[r.MemberId]
	switch {
	case m == nil:
		kind = "unknown"
	case r.GenerationId != s.gen:
		kind = "illegal"
	case s.state != "Stable":
		kind = "rebalance"
	}
	if kind == "ok" && cs.hbArmed != "" {
		switch cs.hbArmed {
		case "hb_rebalance":
			kind = "rebalance"
			s.state = "Preparing"
			s.cond.Broadcast()
		case "hb_unknown":
			kind = "unknown"
			s.removeMember(r.MemberId, "scripted")
		case "hb_illegal":
			kind = "illegal"
		case "hb_notcoord":
			kind = "notcoord"
		case "hb_conn", "hb_conn1":
			kind = "conn"
		}
		if kind == "conn" && cs.hbDrop > 1 {
			cs.hbDrop--
		} else {
			cs.hbArmed = ""
			if cs.hbDone != nil {
				close(cs.hbDone)
				cs.hbDone = nil
			}
		}
	}
	s.rec.Ev("hb", kv{"c": cl, "mid": r.MemberId, "gen": int(r.GenerationId), "err": kind})
	s.hbSeen[cl]++
	s.touch(r.MemberId)
	if kind == "ok" {
		s.hbOK++
	}
	if kind == "conn" {
		return nil, true
	}
	return &HeartbeatResponse{Err: grpKErr(kind)}, false
}

// armHb scripts the verdict of the client's next heartbeat(s); the returned channel is closed once answered
func (s *grpSim) armHb(cl, kind string, locked bool) chan struct{} {
	if !locked {
		s.mu.Lock()
		defer s.mu.Unlock()
	}
	cs := s.clients[cl]
	cs.hbArmed = kind
	cs.hbDrop = 1
	if kind == "hb_conn" {
		cs.hbDrop = grpHbRetry + 1
	}
	cs.hbDone = make(chan struct{})
	return cs.hbDone
}

func (s *grpSim) handleCommit(cl string, r *OffsetCommitRequest) (encoderWithHeader, bool) {
	s.mu.Lock()
	defer s.mu.Unlock()
	cs := s.clients[cl]
	if cs == nil {
		return nil, true
	}
	var ps []int
	for p := range r.blocks[grpTopic] {
		ps = append(ps, int(p))
	}
	sort.Ints(ps)
	blocks := [][]int64{}
	for _, p := range ps {
		blocks = append(blocks, []int64{int64(p), r.blocks[grpTopic][int32(p)].offset})
	}
	kind := grpPop(&cs.cq)
	if kind == "ok" {
		m := s.members[r.ConsumerID]
		switch {
		case m == nil:
			kind = "unknown"
		case r.ConsumerGroupGeneration != s.gen:
			kind = "illegal"
		case s.state == "Completing":
			kind = "rebalance"
		}
	} else if kind == "unknown" {
		s.removeMember(r.ConsumerID, "scripted")
	}
	applied := kind == "ok"
	if applied {
		for _, b := range blocks {
			s.store[int32(b[0])] = b[1]
		}
	}
	s.rec.Ev("commit", kv{"c": cl, "mid": r.ConsumerID, "gen": int(r.ConsumerGroupGeneration), "err": kind, "blocks": blocks, "applied": applied})
	if kind == "conn" {
		return nil, true
	}
	res := &OffsetCommitResponse{Version: r.Version}
	for topic, bs := range r.blocks {
		for p := range bs {
			res.AddError(topic, p, grpKErr(kind))
		}
	}
	return res, false
}

func (s *grpSim) handleLeave(cl string, r *LeaveGroupRequest) (encoderWithHeader, bool) {
	s.mu.Lock()
	defer s.mu.Unlock()
	cs := s.clients[cl]
	if cs == nil {
		return nil, true
	}
	kind := cs.lf
	cs.lf = ""
	if kind == "" {
		kind = "ok"
	}
	if kind == "ok" && s.members[r.MemberId] == nil {
		kind = "unknown"
	}
	s.rec.Ev("leave", kv{"c": cl, "mid": r.MemberId, "err": kind})
	if kind == "ok" || kind == "unknown" {
		s.removeMember(r.MemberId, "left")
	}
	if kind == "conn" {
		return nil, true
	}
	return &LeaveGroupResponse{Err: grpKErr(kind)}, false
}

// clientGone: the client was closed; whatever member id it still owns expires
func (s *grpSim) clientGone(cl string) {
	s.mu.Lock()
	defer s.mu.Unlock()
	s.rec.Ev("gone", kv{"c": cl})
	delete(s.expect, cl)
	s.cond.Broadcast()
	for id, m := range s.members {
		if m.client == cl {
			s.removeMember(id, "gone")
		}
	}
}

// coordDown makes broker 1 (seed + coordinator) unreachable: listener and connections closed
func (s *grpSim) coordDown() {
	s.mu.Lock()
	s.rec.Ev("coord_down", kv{})
	s.down[0] = true
	for c, i := range s.connLn {
		if i == 0 {
			c.Close()
		}
	}
	s.mu.Unlock()
	s.lns[0].Close()
}

func (s *grpSim) noteCloseRet(cl string) {
	s.mu.Lock()
	s.closeRet[cl] = true
	s.mu.Unlock()
}

func (s *grpSim) setNP(n int) {
	s.mu.Lock()
	s.np = n
	s.rec.Ev("meta_change", kv{"np": s.np})
	s.mu.Unlock()
}

func (s *grpSim) grow() {
	s.mu.Lock()
	s.np++
	s.rec.Ev("meta_change", kv{"np": s.np})
	s.mu.Unlock()
}

// ---------------------------------------------------------------- client driver + handler

type grpClient struct {
	run    *grpRun
	script *grpClientScript
	name   string
	g      ConsumerGroup
	cg     *consumerGroup
	ctx    context.Context
	cancel context.CancelFunc

	mu        sync.Mutex
	call      int // index of the current Consume call
	fired     bool
	cancelled bool
	closeOnce sync.Once
	closeDone chan struct{}
	closing   bool
	stage     string // what the driver is blocked in (for the watchdog)
	done      chan struct{}
}

type grpRun struct {
	rec        *vRec
	sc         *grpScenario
	sim        *grpSim
	clients    []*grpClient
	firstSetup chan struct{}
	setupOnce  sync.Once
	growOnce   sync.Once
	npMu       sync.Mutex
	npArrived  int
	npOpen     chan struct{}
}

// npGate: barrier of all clients after their first call; the last one to arrive changes the partition count
func (r *grpRun) npGate(n int) {
	r.npMu.Lock()
	r.npArrived++
	if r.npArrived == n {
		r.sim.setNP(r.sc.NPThen)
		close(r.npOpen)
	}
	r.npMu.Unlock()
	select {
	case <-r.npOpen:
	case <-time.After(10 * time.Second):
	}
}

var grpDefaultSess = grpSessScript{H: grpHandlerScript{Mode: "drain", N: 0, Mark: 99}, Trig: grpTrig{Kind: "none", At: "pre"}}

func (c *grpClient) sess() *grpSessScript {
	c.mu.Lock()
	defer c.mu.Unlock()
	if c.call < len(c.script.Sess) {
		return &c.script.Sess[c.call]
	}
	return &grpDefaultSess
}

func (c *grpClient) doClose() {
	c.closeOnce.Do(func() {
		c.mu.Lock()
		c.closing = true
		c.mu.Unlock()
		c.run.rec.Ev("close_call", kv{"c": c.name})
		go func() {
			defer close(c.closeDone)
			err := grpGuard(c, "Close", func() error { return c.g.Close() })
			c.run.rec.Ev("close_ret", kv{"c": c.name, "err": grpErrStr(err)})
			c.run.sim.noteCloseRet(c.name)
		}()
		// Close() first closes c.closed, then waits for the Consume lock
		select {
		case <-c.cg.closed:
		case <-time.After(5 * time.Second):
		}
	})
}

func grpErrStr(err error) string {
	if err == nil {
		return ""
	}
	s := err.Error()
	if len(s) > 120 {
		s = s[:120]
	}
	return s
}

func grpGuard(c *grpClient, what string, f func() error) (err error) {
	defer func() {
		if r := recover(); r != nil {
			c.run.rec.Ev("panic", kv{"c": c.name, "what": fmt.Sprintf("%s: %v", what, r)})
			err = fmt.Errorf("panic: %v", r)
		}
	}()
	return f()
}

// fire runs the scripted trigger of the current Consume call if it is planned at this point
func (c *grpClient) fire(at string, sess ConsumerGroupSession) { c.fireL(at, sess, false) }

// fireL: simLocked tells that the caller holds the simulator's mutex (join / sync steering points)
func (c *grpClient) fireL(at string, sess ConsumerGroupSession, simLocked bool) {
	ss := c.sess()
	if ss.Trig.Kind == "none" || ss.Trig.Kind == "" || ss.Trig.At != at {
		return
	}
	c.mu.Lock()
	if c.fired {
		c.mu.Unlock()
		return
	}
	c.fired = true
	c.mu.Unlock()
	switch ss.Trig.Kind {
	case "cancel":
		c.mu.Lock()
		c.cancelled = true
		c.mu.Unlock()
		c.run.rec.Ev("cancel", kv{"c": c.name})
		c.cancel()
	case "close":
		c.doClose()
		if at == "join" || at == "rejoin" {
			// (simLocked) the answer of the JoinGroup in flight is held until Close had its chance to run
			c.run.sim.clients[c.name].holdResp = true
		}
	case "nocoord_close", "nocoord_late_close", "sync_rebalance_forever", "sync_rebalance_forever_close", "join_rebalance_forever",
		"join_rebalance_forever_close":
		// armed by the driver at the start of the call (no steering point is ever reached)
	case "ofetch_fail", "ofetch_fail_conn", "ofetch_fail_close", "ofetch_fail_load", "ofetch_fail_load_close":
		// armed when the SyncGroup request arrives: the session's initial OffsetFetch fails for good
		sim := c.run.sim
		if !simLocked {
			sim.mu.Lock()
		}
		sim.failFetch[c.name] = "notcoord"
		if ss.Trig.Kind == "ofetch_fail_conn" {
			sim.failFetch[c.name] = "conn"
		}
		if ss.Trig.Kind == "ofetch_fail_load" || ss.Trig.Kind == "ofetch_fail_load_close" {
			sim.failFetch[c.name] = "load" // OFFSETS_LOAD_IN_PROGRESS for as long as the call lasts
		}
		if ss.Trig.Kind == "ofetch_fail_close" || ss.Trig.Kind == "ofetch_fail_load_close" {
			sim.onFetchFail[c.name] = c.doClose
		}
		if !simLocked {
			sim.mu.Unlock()
		}
	case "setup_error", "setup_error_close":
		// handled by Setup itself (it returns an error)
	case "coord_move":
		c.run.sim.moveCoord(simLocked)
	case "coord_move_cancel":
		c.run.sim.moveCoord(simLocked)
		c.mu.Lock()
		c.cancelled = true
		c.mu.Unlock()
		c.run.rec.Ev("cancel", kv{"c": c.name})
		c.cancel()
	case "coord_down_close":
		c.run.sim.coordDown()
		c.doClose()
	default: // heartbeat verdict
		done := c.run.sim.armHb(c.name, ss.Trig.Kind, simLocked)
		if at == "setup" && sess != nil && ss.Trig.Kind != "hb_conn1" {
			// hold Setup until the verdict has ended the session: every claim then takes the quick exit
			select {
			case <-done:
			case <-time.After(3 * time.Second):
			}
			select {
			case <-sess.Context().Done():
			case <-time.After(3 * time.Second):
			}
		}
	}
}

type grpHandler struct{ c *grpClient }

func (h grpHandler) Setup(sess ConsumerGroupSession) error {
	c := h.c
	claims := []int{}
	for _, p := range sess.Claims()[grpTopic] {
		claims = append(claims, int(p))
	}
	sort.Ints(claims)
	c.run.rec.Ev("setup", kv{"c": c.name, "mid": sess.MemberID(), "gen": int(sess.GenerationID()), "claims": claims})
	c.run.setupOnce.Do(func() { close(c.run.firstSetup) })
	c.fire("setup", sess)
	if ss := c.sess(); ss.Trig.At == "setup" && (ss.Trig.Kind == "setup_error" || ss.Trig.Kind == "setup_error_close") {
		// session set-up fails in the handler: the code releases the session (with Cleanup) and Consume returns the error
		c.run.rec.Ev("setup_fail", kv{"c": c.name})
		if ss.Trig.Kind == "setup_error_close" {
			c.doClose()
		}
		return fmt.Errorf("verif: Setup refuses the session")
	}
	if len(claims) == 0 {
		// no claim will reach the handler's point: the "claim" trigger fires shortly after Setup
		go func() {
			time.Sleep(30 * time.Millisecond)
			c.reached(sess)
		}()
	}
	return nil
}

func (c *grpClient) reached(sess ConsumerGroupSession) {
	if c.name == "c1" && c.run.sc.GrowAt == "claim" {
		c.run.growOnce.Do(func() { c.run.sim.grow() })
	}
	c.fire("claim", sess)
}

func (h grpHandler) Cleanup(sess ConsumerGroupSession) error {
	c := h.c
	c.run.rec.Ev("cleanup", kv{"c": c.name})
	c.fire("cleanup", sess)
	if c.sess().H.Slow {
		// a long Cleanup, measured in the member's own heartbeats instead of wall-clock time: it lasts until three more
		// heartbeat requests of this client have reached the coordinator, or (load-aware bound) 3x the session timeout
		sim := c.run.sim
		seen := func() int { sim.mu.Lock(); defer sim.mu.Unlock(); return sim.hbSeen[c.name] }
		to := time.Duration(c.run.sc.SessTO) * time.Millisecond
		if to <= 0 {
			to = 400 * time.Millisecond
		}
		start := seen()
		b := vNewBound(3 * to)
		expired, starved := false, false
		for seen() < start+3 && !expired {
			time.Sleep(10 * time.Millisecond)
			expired, starved = b.state()
		}
		c.run.rec.Ev("cleanup_wait", kv{"c": c.name, "hbs": seen() - start, "expired": expired && !starved})
	}
	return nil
}

func (h grpHandler) ConsumeClaim(sess ConsumerGroupSession, claim ConsumerGroupClaim) error {
	c := h.c
	p := int(claim.Partition())
	c.run.rec.Ev("claim_start", kv{"c": c.name, "p": p, "init": claim.InitialOffset()})
	hs := c.sess().H
	n := 0
	at := false
	point := func() {
		if !at {
			at = true
			c.reached(sess)
		}
	}
	if hs.N <= 0 {
		point()
	}
	idle := time.NewTimer(400 * time.Millisecond)
	defer idle.Stop()
loop:
	for {
		if at && hs.Mode == "early" {
			break
		}
		if at && hs.Mode == "ctxwait" {
			select {
			case <-sess.Context().Done():
			case <-time.After(20 * time.Second):
			}
			break
		}
		select {
		case msg, ok := <-claim.Messages():
			if !ok {
				break loop
			}
			c.run.rec.Ev("msg", kv{"c": c.name, "p": p, "off": msg.Offset})
			if n < hs.Mark {
				c.run.rec.Ev("mark", kv{"c": c.name, "p": p, "off": msg.Offset + 1})
				sess.MarkMessage(msg, "")
			}
			n++
			if n == hs.N {
				point()
			}
			if !idle.Stop() {
				select {
				case <-idle.C:
				default:
				}
			}
			idle.Reset(400 * time.Millisecond)
		case <-idle.C:
			// fewer records than planned: act as if the point had been reached (fail-open)
			point()
			idle.Reset(time.Hour)
		}
	}
	c.run.rec.Ev("claim_ret", kv{"c": c.name, "p": p})
	return nil
}

func grpORetry(sc *grpScenario) int {
	if sc.ORetry == nil {
		return 3
	}
	return *sc.ORetry
}

func grpLeaderless(sc *grpScenario) int {
	if sc.Leaderless == nil {
		return -1
	}
	return *sc.Leaderless
}

func grpStrategy(name string) BalanceStrategy {
	switch name {
	case "roundrobin":
		return BalanceStrategyRoundRobin
	case "sticky":
		return BalanceStrategySticky
	}
	return BalanceStrategyRange
}

func grpConfig(sc *grpScenario, clientID string) *Config {
	conf := NewConfig()
	conf.Version = V0_10_2_0
	conf.ClientID = clientID
	conf.Consumer.Return.Errors = sc.ReturnErrors
	conf.Consumer.Offsets.Initial = int64(sc.Initial)
	conf.Consumer.Offsets.AutoCommit.Enable = sc.Auto != "off"
	conf.Consumer.Offsets.AutoCommit.Interval = 15 * time.Millisecond
	if sc.Auto != "fast" {
		conf.Consumer.Offsets.AutoCommit.Interval = time.Hour
	}
	conf.Consumer.Offsets.Retry.Max = grpORetry(sc)
	conf.Consumer.Group.Session.Timeout = time.Second
	conf.Consumer.Group.Heartbeat.Interval = 20 * time.Millisecond
	if sc.SessTO > 0 {
		conf.Consumer.Group.Session.Timeout = time.Duration(sc.SessTO) * time.Millisecond
		conf.Consumer.Group.Heartbeat.Interval = 50 * time.Millisecond
	}
	conf.Consumer.Group.Rebalance.Timeout = 2 * time.Second
	conf.Consumer.Group.Rebalance.Retry.Max = 2
	if sc.RRetry != nil {
		conf.Consumer.Group.Rebalance.Retry.Max = *sc.RRetry
	}
	conf.Consumer.Group.Rebalance.Retry.Backoff = 5 * time.Millisecond
	conf.Consumer.Group.Rebalance.Strategy = grpStrategy(sc.Strategy)
	conf.Consumer.MaxWaitTime = 20 * time.Millisecond
	conf.Consumer.Retry.Backoff = 10 * time.Millisecond
	conf.Metadata.Retry.Max = grpHbRetry
	conf.Metadata.Retry.Backoff = 5 * time.Millisecond
	conf.Metadata.RefreshFrequency = 10 * time.Minute
	if sc.GrowAt != "" {
		conf.Metadata.RefreshFrequency = 25 * time.Millisecond
	}
	if sc.LookupFail {
		conf.Metadata.RefreshFrequency = 25 * time.Millisecond // the dead coordinator drops out of the client's broker list quickly
	}
	if sc.Refresh0 {
		conf.Metadata.RefreshFrequency = 0
	}
	conf.Net.DialTimeout = 3 * time.Second
	conf.Net.ReadTimeout = 30 * time.Second
	conf.Net.WriteTimeout = 3 * time.Second
	return conf
}

func (c *grpClient) setStage(s string) {
	c.mu.Lock()
	c.stage = s
	c.mu.Unlock()
}

func (c *grpClient) drive() {
	defer close(c.done)
	r := c.run
	if c.script.Start == "setup" {
		select {
		case <-r.firstSetup:
		case <-time.After(5 * time.Second):
		}
	}
	handler := grpHandler{c}
	switch c.script.Pre {
	case "cancel":
		c.mu.Lock()
		c.cancelled = true
		c.mu.Unlock()
		r.rec.Ev("cancel", kv{"c": c.name})
		c.cancel()
	case "close":
		c.doClose()
	}
	for k := 0; k < c.script.NSess; k++ {
		c.mu.Lock()
		c.call = k
		c.fired = false
		c.mu.Unlock()
		ss := c.sess()
		cs := r.sim.clients[c.name]
		r.sim.mu.Lock()
		cs.jq = append([]string{}, ss.JF...)
		cs.sq = append([]string{}, ss.SF...)
		cs.cq = append([]string{}, ss.CF...)
		cs.hbArmed = ""
		delete(r.sim.failOff, c.name)
		delete(r.sim.failFetch, c.name)
		delete(r.sim.onFetchFail, c.name)
		delete(r.sim.fetchFails, c.name)
		delete(r.sim.lookupFail, c.name)
		delete(r.sim.lookupLate, c.name)
		delete(r.sim.lookupN, c.name)
		delete(r.sim.onLookup, c.name)
		cs.persist, cs.persistN, cs.persistCl, cs.quiet = "", 0, false, false
		r.sim.closer[c.name] = c.doClose
		switch ss.Trig.Kind {
		case "sync_rebalance_forever", "sync_rebalance_forever_close":
			cs.persist = "sync"
			cs.persistCl = ss.Trig.Kind == "sync_rebalance_forever_close"
		case "join_rebalance_forever", "join_rebalance_forever_close":
			cs.persist = "join"
			cs.persistCl = ss.Trig.Kind == "join_rebalance_forever_close"
		case "nocoord_close": // the coordinator cannot be found from the start of this call; Close during the retry loop
			r.sim.lookupFail[c.name] = true
			r.sim.onLookup[c.name] = c.doClose
		case "nocoord_late_close": // ... from the (scripted) NOT_COORDINATOR answer to JoinGroup on
			r.sim.lookupLate[c.name] = true
			r.sim.onLookup[c.name] = c.doClose
		}
		if ss.DF != nil && *ss.DF >= 0 {
			r.sim.failOff[c.name] = *ss.DF
		}
		nonet := r.sc.NoNet || (ss.DF != nil && *ss.DF >= 0)
		cs.joinN = 0
		cs.holdResp = false
		cs.onRejoin = func() { c.fireL("rejoin", nil, true) }
		cs.onJoin = func() { c.fireL("join", nil, true) }
		cs.onSync = func() { c.fireL("sync", nil, true) }
		r.sim.mu.Unlock()
		c.fire("pre", nil)
		c.setStage("Consume")
		r.rec.Ev("consume_call", kv{"c": c.name})
		// safety net: a call that outlives its script (the real interleaving left the session without the planned
		// ending cause) is ended by cancelling the context - itself a legitimate trigger, logged as such
		// Never when the group is being closed or a claim was made to fail: those must end the call by themselves
		// (the quiescence-aware watchdog reports the hang otherwise).
		net := time.AfterFunc(2500*time.Millisecond, func() {
			c.mu.Lock()
			if c.closing || nonet {
				c.mu.Unlock()
				return
			}
			c.cancelled = true
			c.mu.Unlock()
			r.rec.Ev("cancel", kv{"c": c.name})
			c.cancel()
		})
		err := grpGuard(c, "Consume", func() error { return c.g.Consume(c.ctx, []string{grpTopic}, handler) })
		net.Stop()
		r.rec.Ev("consume_ret", kv{"c": c.name, "err": grpErrStr(err)})
		if k == 0 && r.sc.NPThen > 0 {
			// the topic is expanded / re-created with another partition count between two generations: at a moment when every
			// client is between its first and its second Consume call (nobody sits between its metadata refresh and its join)
			r.npGate(len(r.clients))
		}
		c.setStage("between")
		c.mu.Lock()
		stop := c.cancelled || c.closing
		c.mu.Unlock()
		if stop {
			break
		}
	}
	c.setStage("Close")
	r.sim.mu.Lock()
	r.sim.clients[c.name].cq = nil
	r.sim.mu.Unlock()
	c.doClose()
	<-c.closeDone // a Close that never returns is the watchdog's business (stage "Close")
	if r.sc.DClose {
		r.rec.Ev("close_call", kv{"c": c.name})
		err := grpGuard(c, "Close", func() error { return c.g.Close() })
		r.rec.Ev("close_ret", kv{"c": c.name, "err": grpErrStr(err)})
	}
	// after Close returned (with or without an error) the Errors() channel must be closed: drain it to its end.
	// A channel that stays open blocks here; the scenario watchdog then reports hang{what: "errors_not_closed"}.
	c.setStage("errors_not_closed")
	nerr := 0
	for range c.g.Errors() {
		nerr++
	}
	r.rec.Ev("errors_closed", kv{"c": c.name, "drained": nerr})
	c.setStage("done")
	r.sim.clientGone(c.name)
}

// grpAwait waits for done. A hang is reported (false) only when
//   - the clients keep heartbeating, or keep spinning in a retry loop (refused coordinator lookups / initial OffsetFetches),
//     but nothing else has happened for 300 such requests per client (the code under test is scheduled and alive, yet makes
//     no progress: a criterion in units of its own activity, not of wall-clock time), or
//   - the whole process is blocked (three identical goroutine pictures without a runnable goroutine, as vAwait), or
//   - a hard cap of 75 s is reached.
func grpAwait(r *grpRun, done <-chan struct{}, d time.Duration) bool {
	select {
	case <-done:
		return true
	case <-time.After(d):
	}
	snap := func() (int, int) {
		r.sim.mu.Lock()
		hb := r.sim.hbOK
		clock := r.sim.hbOK + r.sim.nretry
		r.sim.mu.Unlock()
		r.rec.mu.Lock()
		ev := r.rec.events
		r.rec.mu.Unlock()
		return ev - hb, clock
	}
	hard := time.Now().Add(75 * time.Second)
	prog, hb0 := snap()
	same, last := 0, ""
	for time.Now().Before(hard) {
		select {
		case <-done:
			return true
		case <-time.After(300 * time.Millisecond):
		}
		p, hb := snap()
		if p != prog {
			prog, hb0 = p, hb
			same = 0
			continue
		}
		if hb-hb0 >= 300*len(r.clients) {
			return false
		}
		fp, active := vGoroutineStates()
		if !active && fp == last && hb == hb0 {
			same++
			if same >= 3 {
				return false
			}
		} else {
			same = 0
		}
		last = fp
	}
	select {
	case <-done:
		return true
	default:
		return false
	}
}

type grpOutcome struct {
	ID      string `json:"id"`
	Hang    bool   `json:"hang"`
	SimErrs []string
}

func grpRunScenario(t *testing.T, rec *vRec, sc *grpScenario) (out grpOutcome, err error) {
	out.ID = sc.ID
	sim, err := newGrpSim(rec, sc)
	if err != nil {
		return out, err
	}
	defer sim.Close()
	sim.mu.Lock()
	for _, c := range sc.Clients {
		sim.clients[c.C].lf = c.LF
	}
	sim.mu.Unlock()
	run := &grpRun{rec: rec, sc: sc, sim: sim, firstSetup: make(chan struct{}), npOpen: make(chan struct{})}
	for i := range sc.Clients {
		cs := &sc.Clients[i]
		var g ConsumerGroup
		for k := 0; k < 5; k++ {
			g, err = NewConsumerGroup([]string{sim.addr(0)}, sim.group, grpConfig(sc, sim.clientID(cs.C)))
			if err == nil {
				break
			}
			time.Sleep(100 * time.Millisecond)
		}
		if err != nil {
			for _, c := range run.clients {
				_ = c.g.Close()
			}
			return out, err
		}
		ctx, cancel := context.WithCancel(context.Background())
		run.clients = append(run.clients, &grpClient{run: run, script: cs, name: cs.C, g: g, cg: g.(*consumerGroup), ctx: ctx, cancel: cancel,
			closeDone: make(chan struct{}), done: make(chan struct{})})
	}
	committed := []int64{}
	for p := 0; p < sc.NP; p++ {
		v := int64(-1)
		if p < len(sc.Committed) {
			v = sc.Committed[p]
		}
		committed = append(committed, v)
	}
	rec.Reset(kv{"id": sc.ID, "fam": sc.Fam, "members": len(sc.Clients), "np": sc.NP, "loglen": sc.LogLen, "logstart": sc.LogStart,
		"initial": sc.Initial, "auto": sc.Auto, "hbretry": grpHbRetry, "strategy": sc.Strategy, "committed": committed,
		"refresh0": sc.Refresh0, "leaderless": grpLeaderless(sc), "oretry": grpORetry(sc)})
	for _, c := range run.clients {
		go c.drive()
	}
	// quiescence-aware watchdog: a hang is only reported when the whole process is blocked (sound under load)
	for _, c := range run.clients {
		if !grpAwait(run, c.done, 4*time.Second) {
			out.Hang = true
		}
	}
	if out.Hang {
		for _, c := range run.clients {
			select {
			case <-c.done:
			default:
				c.mu.Lock()
				st := c.stage
				c.mu.Unlock()
				rec.Ev("hang", kv{"c": c.name, "what": st})
			}
		}
		// forced teardown so that the next scenario starts clean
		for _, c := range run.clients {
			c.cancel()
		}
		sim.Close()
		for _, c := range run.clients {
			select {
			case <-c.done:
			case <-time.After(5 * time.Second):
			}
		}
	}
	for _, c := range run.clients {
		c.cancel()
	}
	sim.mu.Lock()
	out.SimErrs = append([]string{}, sim.simErrs...)
	sim.mu.Unlock()
	return out, nil
}

func TestVerifGroup(t *testing.T) {
	lines := vReadLines(t, "VERIF_CASES")
	rec := vOpenRec(t, "trace.ndjson")
	defer rec.Close()
	sum := map[string]interface{}{}
	fams := map[string]int{}
	var hangs, simErrs, setupFail []string
	var samples []json.RawMessage
	for _, ln := range lines {
		sc := new(grpScenario)
		if err := json.Unmarshal([]byte(ln), sc); err != nil {
			t.Fatalf("bad scenario %q: %v", ln, err)
		}
		out, err := grpRunScenario(t, rec, sc)
		if err != nil {
			setupFail = append(setupFail, sc.ID+": "+err.Error())
			continue
		}
		fams[sc.Fam]++
		if out.Hang {
			hangs = append(hangs, sc.ID)
		}
		for _, e := range out.SimErrs {
			simErrs = append(simErrs, sc.ID+": "+e)
		}
		if len(samples) < 2 {
			samples = append(samples, json.RawMessage(ln))
		}
	}
	sum["cases"] = fams
	sum["hangs"] = hangs
	sum["sim_errors"] = simErrs
	sum["setup_failures"] = setupFail
	sum["samples"] = samples
	sum["events"] = rec.events
	vWriteJSON(t, "summary.json", sum)
}
