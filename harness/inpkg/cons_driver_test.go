//go:build verif
// +build verif

package sarama

// Consumer scenario driver: a REAL Consumer / PartitionConsumer against the simulated cluster
// whose partition logs are given as batch layouts; per-fetch fault plans; scripted reader pace;
// records what the application observes for spec/ConsumerObsTrace.tla.

import (
	"bytes"
	"encoding/json"
	"fmt"
	"os"
	"sync"
	"sync/atomic"
	"testing"
	"time"
)

type consCfg struct {
	Version        string  `json:"version"`
	Iso            string  `json:"iso"` // ru | rc
	FetchDefault   int     `json:"fetchDefault"`
	FetchMax       int     `json:"fetchMax"`
	MaxProcMs      int     `json:"maxProcMs"`
	ChanBuf        int     `json:"chanBuf"`
	Leaders        []int32 `json:"leaders"`
	Followers      []int32 `json:"followers"` // per partition: broker index of a read replica (0 none); needs rack
	Rack           string  `json:"rack"`      // Config.RackID (follower fetching, Kafka >= 2.3)
	NBrokers       int     `json:"nbrokers"`
	MaxWaitMs      int     `json:"maxWaitMs"`
	Interceptors   int     `json:"interceptors"`
	AbortedReverse bool    `json:"abortedReverse"`
	ReadTimeoutMs  int     `json:"readTimeoutMs"`
	DoubleClose    bool    `json:"doubleClose"`
	IDBase0        bool    `json:"idBase0"` // broker ids start at 0 instead of 1
	PanicIc        int     `json:"panicIc"` // 1-based index of a consumer interceptor that panics after logging
	IcKind         string  `json:"icKind"`  // dynamic type of the interceptors: "" pointer, "value" struct value, "func" func adapter
}

type consConsume struct {
	Part  int   `json:"part"`
	Start int64 `json:"start"` // literal, -1 newest, -2 oldest
}

type consStall struct {
	At int `json:"at"` // before taking the message with this 0-based delivery index
	Ms int `json:"ms"`
}

type consStep struct {
	Op      string        `json:"op"`
	Part    int           `json:"part"`
	N       int           `json:"n"`
	Ms      int           `json:"ms"`
	To      int           `json:"to"`
	Batches []simLogBatch `json:"batches"`
}

type consScenario struct {
	Name       string                   `json:"name"`
	Family     string                   `json:"family"`
	Cfg        consCfg                  `json:"cfg"`
	Logs       map[string][]simLogBatch `json:"logs"`
	LogStart   map[string]int64         `json:"logStart"`
	FetchPlans map[string]*simFetchPlan `json:"fetchPlans"`
	Consume    []consConsume            `json:"consume"`
	Reader     map[string][]consStall   `json:"reader"`
	Steps      []consStep               `json:"steps"`
	ExpectAll  map[string]bool          `json:"expectAll"`
}

type vConsInterceptor struct {
	rec    *vRec
	chain  int
	panics bool
}

func (i *vConsInterceptor) OnConsume(m *ConsumerMessage) {
	i.rec.Ev("cintercept", kv{"chain": i.chain, "part": int(m.Partition), "off": int(m.Offset)})
	if i.panics {
		panic("verif: consumer interceptor panic")
	}
}

type vValConsInterceptor struct{ p *vConsInterceptor }

func (i vValConsInterceptor) OnConsume(m *ConsumerMessage) { i.p.OnConsume(m) }

type vFuncConsInterceptor func(*ConsumerMessage)

func (f vFuncConsInterceptor) OnConsume(m *ConsumerMessage) { f(m) }

func vWrapConsIc(kind string, p *vConsInterceptor) ConsumerInterceptor {
	switch kind {
	case "value":
		return vValConsInterceptor{p}
	case "func":
		return vFuncConsInterceptor(p.OnConsume)
	}
	return p
}

func batchesJSON(bs []simLogBatch) []kv {
	out := []kv{}
	for _, b := range bs {
		offs := []int{}
		for _, o := range b.Offs {
			offs = append(offs, int(o))
		}
		out = append(out, kv{"fmt": b.Fmt, "offs": offs, "pid": int(b.Pid), "txn": b.Txn, "ctl": b.Ctl})
	}
	return out
}

// Go-side copy of the visibility rule, used ONLY to know how long to wait; the verdict is TLC's.
func visibleOffsets(bs []simLogBatch, start int64, rc bool) []int64 {
	aborted := map[int]bool{}
	for i := range bs {
		if !bs[i].Txn || bs[i].Ctl != "" {
			continue
		}
		for j := i + 1; j < len(bs); j++ {
			if bs[j].Ctl != "" && bs[j].Pid == bs[i].Pid {
				aborted[i] = bs[j].Ctl == "abort"
				break
			}
		}
	}
	var lim int64 = 1 << 60
	if rc {
		end := int64(0)
		if len(bs) > 0 {
			end = bs[len(bs)-1].last() + 1
		}
		lim = simLSO(bs, end)
	}
	var out []int64
	for i := range bs {
		if bs[i].Ctl != "" || (rc && aborted[i]) {
			continue
		}
		for _, o := range bs[i].Offs {
			if o >= start && o < lim {
				out = append(out, o)
			}
		}
	}
	return out
}

// hook-level events of the feeder go to a second file (soft conformance, spec/FeederConfTrace.tla)
var vConsInternalRec *vRec

func runConsumerScenario(t testing.TB, rec *vRec, sc *consScenario) {
	rec = rec.Sub() // scoped to this scenario: stragglers of an abandoned run cannot pollute later traces
	if vConsInternalRec != nil {
		irec := vConsInternalRec.Sub()
		irec.Reset(kv{"name": sc.Name})
		verifHook = func(point string, args ...interface{}) {
			if len(args) == 0 {
				return
			}
			part, ok := args[0].(int32)
			if !ok {
				return
			}
			switch point {
			case "pc.parsed":
				n, _ := args[1].(int)
				irec.Ev("pc_parsed", kv{"part": int(part), "n": n, "err": errClassAny(args[2])})
			case "pc.sent":
				off, _ := args[1].(int64)
				irec.Ev("pc_sent", kv{"part": int(part), "off": int(off)})
			case "pc.tick":
				f, _ := args[1].(bool)
				irec.Ev("pc_tick", kv{"part": int(part), "first": f})
			case "pc.resub":
				irec.Ev("pc_resub", kv{"part": int(part)})
			case "pc.done":
				irec.Ev("pc_done", kv{"part": int(part)})
			}
		}
		defer func() { verifHook = nil }()
	}
	cf := sc.Cfg
	if cf.NBrokers == 0 {
		cf.NBrokers = 1
	}
	if cf.Version == "" {
		cf.Version = "0.11.0.0"
	}
	if cf.Iso == "" {
		cf.Iso = "ru"
	}
	if cf.FetchDefault == 0 {
		cf.FetchDefault = 1 << 20
	}
	if cf.MaxProcMs == 0 {
		cf.MaxProcMs = 100
	}
	if cf.MaxWaitMs == 0 {
		cf.MaxWaitMs = 10
	}
	if cf.ReadTimeoutMs == 0 {
		cf.ReadTimeoutMs = 200
	}
	rec.Reset(kv{"name": sc.Name, "family": sc.Family, "iso": cf.Iso, "version": cf.Version, "fetchDefault": cf.FetchDefault,
		"fetchMax": cf.FetchMax, "maxProcMs": cf.MaxProcMs, "chanBuf": cf.ChanBuf, "nparts": len(cf.Leaders),
		"interceptors": cf.Interceptors})
	c := newSimCluster(t, rec, cf.NBrokers, cf.Leaders)
	defer c.Close()
	if cf.IDBase0 {
		c.SetIDBase(0)
	}
	c.abortedReverse = cf.AbortedReverse
	for p, f := range cf.Followers {
		if pt := c.parts[int32(p)]; pt != nil {
			pt.follower = f
		}
	}
	for k, bs := range sc.Logs {
		var p int
		fmt.Sscanf(k, "%d", &p)
		pt := c.parts[int32(p)]
		pt.batches = append(pt.batches, bs...)
		pt.logStart = sc.LogStart[k]
		rec.Ev("logdef", kv{"part": p, "start": int(pt.logStart), "batches": batchesJSON(bs)})
	}
	for k, pl := range sc.FetchPlans {
		c.fetchPlans[k] = pl
	}

	config := NewConfig()
	config.ClientID = c.clientID
	config.RackID = cf.Rack
	v, err := ParseKafkaVersion(cf.Version)
	if err != nil {
		t.Fatalf("bad version %q", cf.Version)
	}
	config.Version = v
	config.Consumer.Return.Errors = true
	config.Consumer.Fetch.Default = int32(cf.FetchDefault)
	config.Consumer.Fetch.Max = int32(cf.FetchMax)
	config.Consumer.MaxProcessingTime = time.Duration(cf.MaxProcMs) * time.Millisecond
	config.Consumer.MaxWaitTime = time.Duration(cf.MaxWaitMs) * time.Millisecond
	config.Consumer.Retry.Backoff = 5 * time.Millisecond
	config.ChannelBufferSize = cf.ChanBuf
	config.Net.ReadTimeout = time.Duration(cf.ReadTimeoutMs) * time.Millisecond
	config.Net.DialTimeout = 500 * time.Millisecond
	config.Metadata.Retry.Max = 1
	config.Metadata.Retry.Backoff = 5 * time.Millisecond
	config.Metadata.RefreshFrequency = 0
	if cf.Iso == "rc" {
		config.Consumer.IsolationLevel = ReadCommitted
	}
	for i := 0; i < cf.Interceptors; i++ {
		config.Consumer.Interceptors = append(config.Consumer.Interceptors, vWrapConsIc(cf.IcKind, &vConsInterceptor{rec: rec, chain: i + 1, panics: cf.PanicIc == i+1}))
	}
	vUseDialer(config)
	if err := config.Validate(); err != nil {
		rec.Ev("skip", kv{"why": "config invalid: " + err.Error()})
		return
	}
	cons, err := NewConsumer(c.Addrs(), config)
	if err != nil {
		rec.Ev("skip", kv{"why": "consumer not created: " + errClass(err)})
		return
	}

	type pcState struct {
		pc        PartitionConsumer
		stalling  int64 // 1 while the scripted reader is sleeping; stallEpoch counts starts and ends
		stallEp   int64
		delivered int64
		closedM   chan struct{}
		closedE   chan struct{}
		start     int64
	}
	pcs := map[int]*pcState{}
	var wg sync.WaitGroup
	for _, cs := range sc.Consume {
		pc, err := cons.ConsumePartition(simTopic, int32(cs.Part), cs.Start)
		if err != nil {
			rec.Ev("consume_err", kv{"part": cs.Part, "start": int(cs.Start), "err": errClass(err)})
			continue
		}
		c.mu.Lock()
		pt := c.parts[int32(cs.Part)]
		resolved := cs.Start
		if cs.Start == OffsetNewest {
			resolved = pt.logEnd()
		} else if cs.Start == OffsetOldest {
			resolved = pt.logStart
		}
		rec.Ev("start", kv{"part": cs.Part, "start": int(cs.Start), "resolved": int(resolved)})
		c.mu.Unlock()
		st := &pcState{pc: pc, closedM: make(chan struct{}), closedE: make(chan struct{}), start: resolved}
		pcs[cs.Part] = st
		stalls := map[int]int{}
		for _, s := range sc.Reader[fmt.Sprintf("%d", cs.Part)] {
			stalls[s.At] = s.Ms
		}
		part := cs.Part
		wg.Add(2)
		go func() {
			defer wg.Done()
			idx := 0
			for {
				if ms, ok := stalls[idx]; ok {
					delete(stalls, idx)
					rec.Ev("stall", kv{"part": part, "at": idx, "ms": ms})
					atomic.StoreInt64(&st.stalling, 1)
					atomic.AddInt64(&st.stallEp, 1)
					time.Sleep(time.Duration(ms) * time.Millisecond)
					atomic.StoreInt64(&st.stalling, 0)
					atomic.AddInt64(&st.stallEp, 1)
				}
				m, ok := <-pc.Messages()
				if !ok {
					break
				}
				content := bytes.Equal(m.Key, simKey(m.Offset)) && bytes.Equal(m.Value, simValue(m.Offset))
				// headers and timestamp as stored
				c.mu.Lock()
				var src *simLogBatch
				for i := range c.parts[int32(part)].batches {
					b := &c.parts[int32(part)].batches[i]
					for _, o := range b.Offs {
						if o == m.Offset && b.Ctl == "" {
							src = b
						}
					}
				}
				if src != nil {
					if len(m.Headers) != src.Hdrs {
						content = false
					}
					for h, hd := range m.Headers {
						want := simHdr(m.Offset, h)
						if hd == nil || !bytes.Equal(hd.Key, want.Key) || !bytes.Equal(hd.Value, want.Value) {
							content = false
						}
					}
					if src.Fmt != "v0" && src.Fmt != "v0w" {
						wantTs := simRecTime(m.Offset)
						if src.Lat {
							wantTs = simRecTime(src.last())
						}
						if !m.Timestamp.Equal(wantTs) {
							content = false
						}
					}
				}
				c.mu.Unlock()
				rec.Ev("deliver", kv{"part": part, "off": int(m.Offset), "ok": content})
				atomic.AddInt64(&st.delivered, 1)
				idx++
			}
			rec.Ev("msgs_closed", kv{"part": part})
			close(st.closedM)
		}()
		go func() {
			defer wg.Done()
			for e := range pc.Errors() {
				rec.Ev("cerror", kv{"part": part, "err": errClass(e.Err)})
			}
			rec.Ev("errs_closed", kv{"part": part})
			close(st.closedE)
		}()
	}

	closedPC := map[int]bool{}
	closePC := func(part int, async bool) {
		st := pcs[part]
		if st == nil || closedPC[part] {
			return
		}
		closedPC[part] = true
		rec.Ev("pc_close_call", kv{"part": part, "async": async})
		done := make(chan struct{})
		go func() {
			st.pc.AsyncClose()
			<-st.closedM
			<-st.closedE
			close(done)
		}()
		if vAwait(done, vCloseMax) {
			rec.Ev("pc_close_ret", kv{"part": part})
		} else {
			rec.Ev("hang", kv{"what": "pc_close", "part": part})
		}
	}
	waitDelivered := func(part, n int, d time.Duration) bool {
		st := pcs[part]
		if st == nil {
			return false
		}
		deadline := time.Now().Add(d)
		for atomic.LoadInt64(&st.delivered) < int64(n) {
			if time.Now().After(deadline) {
				return false
			}
			time.Sleep(2 * time.Millisecond)
		}
		return true
	}
	// waitComplete waits until `want` messages were delivered. It gives up ("stuck") only on evidence
	// that does not depend on the machine's speed: the consumer has polled the partition at least 6
	// more times at an unchanged fetch offset without delivering anything, or the whole process is
	// blocked (three identical goroutine pictures with nothing runnable), or after a 60 s cap.
	waitComplete := func(part, want int) bool {
		st := pcs[part]
		if st == nil {
			return false
		}
		hard := time.Now().Add(60 * time.Second)
		lastDelivered := int64(-1)
		lastEp := int64(-1)
		var fetchAtLast int
		var offAtLast int64
		same, lastFp := 0, ""
		tick := 0
		for time.Now().Before(hard) {
			dl := atomic.LoadInt64(&st.delivered)
			if dl >= int64(want) {
				return true
			}
			c.mu.Lock()
			fn, fo := c.parts[int32(part)].fetchN, c.parts[int32(part)].lastFetchOff
			c.mu.Unlock()
			ep := atomic.LoadInt64(&st.stallEp)
			if dl != lastDelivered || fo != offAtLast || ep != lastEp || atomic.LoadInt64(&st.stalling) != 0 {
				// progress, or the application itself is (or was) not reading: restart the count
				lastDelivered, fetchAtLast, offAtLast, lastEp = dl, fn, fo, ep
			} else if fn-fetchAtLast >= 8 {
				return false
			}
			time.Sleep(5 * time.Millisecond)
			tick++
			if tick%80 == 0 {
				fp, active := vGoroutineStates()
				if !active && fp == lastFp {
					same++
					if same >= 3 {
						return atomic.LoadInt64(&st.delivered) >= int64(want)
					}
				} else {
					same = 0
				}
				lastFp = fp
			}
		}
		return atomic.LoadInt64(&st.delivered) >= int64(want)
	}
	for _, st := range sc.Steps {
		d := vWait
		if st.Ms > 0 {
			d = time.Duration(st.Ms) * time.Millisecond
		}
		switch st.Op {
		case "wait_delivered":
			if !waitDelivered(st.Part, st.N, d) {
				rec.Ev("unsteered", kv{"what": fmt.Sprintf("wait_delivered %d %d", st.Part, st.N)})
			}
		case "append":
			c.mu.Lock()
			pt := c.parts[int32(st.Part)]
			pt.batches = append(pt.batches, st.Batches...)
			rec.Ev("logappend", kv{"part": st.Part, "batches": batchesJSON(st.Batches)})
			c.mu.Unlock()
		case "move":
			c.MoveLeader(int32(st.Part), int32(st.To))
		case "sleep":
			time.Sleep(d)
		case "release_fetch":
			c.Release(1000 + st.Part*100 + st.N)
		case "close_pc_again":
			// closing a partition consumer twice must be harmless
			if st0 := pcs[st.Part]; st0 != nil && closedPC[st.Part] {
				done := make(chan struct{})
				go func() {
					defer func() {
						if r := recover(); r != nil {
							rec.Ev("panic", kv{"msg": fmt.Sprintf("second Close of partition consumer: %v", r), "stack": ""})
						}
						close(done)
					}()
					st0.pc.AsyncClose()
					_ = st0.pc.Close()
				}()
				if vAwait(done, vCloseMax) {
				} else {
					rec.Ev("hang", kv{"what": "pc_close_again", "part": st.Part})
				}
			}
		case "close_pc":
			closePC(st.Part, false)
		case "async_close_pc":
			closePC(st.Part, true)
		}
	}
	// completeness: wait (bounded) until every partition that must deliver everything has done so
	for part, st := range pcs {
		key := fmt.Sprintf("%d", part)
		if closedPC[part] {
			rec.Ev("fin_part", kv{"part": part, "expect_all": false})
			continue
		}
		exp := sc.ExpectAll[key]
		if exp {
			c.mu.Lock()
			want := len(visibleOffsets(c.parts[int32(part)].batches, st.start, cf.Iso == "rc"))
			c.mu.Unlock()
			if !waitComplete(part, want) {
				rec.Ev("stuck", kv{"part": part, "delivered": int(atomic.LoadInt64(&st.delivered)), "want": want})
			} else {
				time.Sleep(3 * time.Millisecond) // anything delivered beyond the expected set shows up as a violation
			}
		}
		rec.Ev("fin_part", kv{"part": part, "expect_all": exp})
	}
	for part := range pcs {
		closePC(part, part%2 == 1)
	}
	rec.Ev("close_call", kv{"async": false})
	done := make(chan struct{})
	go func() {
		defer func() {
			if r := recover(); r != nil {
				rec.Ev("panic", kv{"msg": fmt.Sprintf("consumer Close: %v", r), "stack": ""})
				close(done)
			}
		}()
		cons.Close()
		if cf.DoubleClose {
			cons.Close() // closing the consumer (and its client) twice must be harmless
		}
		wg.Wait()
		close(done)
	}()
	if vAwait(done, vCloseMax) {
		rec.Ev("close_ret", nil)
	} else {
		rec.Ev("hang", kv{"what": "close"})
	}
	rec.Ev("fin", nil)
}

func errClassAny(v interface{}) string {
	if e, ok := v.(error); ok && e != nil {
		return errClass(e)
	}
	return ""
}

func TestVerifConsumer(t *testing.T) {
	lines := vReadLines(t, "VERIF_CASES")
	rec := vOpenRec(t, "trace.ndjson")
	defer rec.Close()
	if os.Getenv("VERIF_INTERNAL") != "" {
		vConsInternalRec = vOpenRec(t, "internal.ndjson")
		defer func() { vConsInternalRec.Close(); vConsInternalRec = nil }()
	}
	vInstallPanicHandler(rec)
	defer func() { PanicHandler = nil }()
	n := 0
	for _, line := range lines {
		var sc consScenario
		if err := json.Unmarshal([]byte(line), &sc); err != nil {
			t.Fatalf("bad scenario %q: %v", line, err)
		}
		runConsumerScenario(t, rec, &sc)
		n++
	}
	vWriteJSON(t, "summary.json", kv{"scenarios": n})
}
