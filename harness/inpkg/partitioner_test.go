//go:build verif
// +build verif

package sarama

// C17 binding. Two families of cases, both emitted by TLC:
//
//   - spec/Partitioner.tla behaviours (one partitioner instance, a sequence of Partition
//     calls) are replayed on instances built with the REAL constructors and options. Hash
//     partitioners with a custom hash function get a hash.Hash32 that returns the hash the
//     model enumerated, so the int32 arithmetic is exercised at its corners. Behaviours that
//     can die in unbounded recursion (custom fallback partitioner + keyless message) run in
//     a subprocess so that the crash becomes an event.
//   - spec/PartitionerPair.tla schedules (two instances handed out by ONE constructor value,
//     their calls split into Reset+Write / Sum32 and interleaved) are replayed on two real
//     instances from two goroutines; the injected hash.Hash32 can be held inside Write, which
//     makes the interleaving deterministic.
//   - spec/PartitionerRouting.tla scenarios (a topic with leaderless partitions, a
//     partitioner kind, a few messages) are run on a REAL AsyncProducer against a MockBroker;
//     the partitioner is wrapped to log what it was offered and what it chose, the broker
//     logs in which partition every message arrived, the driver logs successes and errors.
//     Scenarios with a recovery ("flip") first run with every partition leaderless, then the
//     broker's metadata gets leaders back while the producer is idle, then more messages follow.
//
// Everything is written as NDJSON for spec/PartitionerTrace.tla; nothing is judged here.

import (
	"bytes"
	"encoding/binary"
	"encoding/json"
	"errors"
	"fmt"
	"hash"
	"hash/fnv"
	"io"
	"log"
	"net"
	"os"
	"os/exec"
	"runtime/debug"
	"strconv"
	"strings"
	"sync"
	"testing"
	"time"

	"github.com/eapache/go-resiliency/breaker"
)

// ---------------------------------------------------------------- case formats

type vpKey struct {
	K    string `json:"k"`
	H    int64  `json:"h"`
	Name string `json:"name"`
}

type vpCall struct {
	Key  vpKey  `json:"key"`
	Part int32  `json:"part"`
	N    int32  `json:"n"`
	Xk   string `json:"xk"`
	Xv   int64  `json:"xv"`
}

type vpCfg struct {
	Ctor   string `json:"ctor"`
	Abs    bool   `json:"abs"`
	Hashfn bool   `json:"hashfn"`
	Fb     bool   `json:"fb"`
}

type vpCase struct {
	Fam     string   `json:"fam"`
	Cfg     vpCfg    `json:"cfg"`
	Cursor0 int64    `json:"cursor0"` // round-robin: cursor the instance starts from (0 = as constructed)
	Calls   []vpCall `json:"calls"`
}

// ---------------------------------------------------------------- injected hash

// vpFakeHash32 is the hash.Hash32 handed to NewCustomHashPartitioner / WithCustomHashFunction.
// A key made of exactly four bytes hashes to those four bytes (big endian), the empty key to
// 0xffffffff; anything else (only possible if the partitioner does not Reset/Write once per
// message) to a value that depends on everything written since the last Reset.
type vpFakeHash32 struct {
	writes [][]byte
}

func (f *vpFakeHash32) Write(p []byte) (int, error) {
	f.writes = append(f.writes, append([]byte(nil), p...))
	return len(p), nil
}
func (f *vpFakeHash32) Reset()         { f.writes = nil }
func (f *vpFakeHash32) Size() int      { return 4 }
func (f *vpFakeHash32) BlockSize() int { return 1 }
func (f *vpFakeHash32) Sum(b []byte) []byte {
	v := f.Sum32()
	return append(b, byte(v>>24), byte(v>>16), byte(v>>8), byte(v))
}
func (f *vpFakeHash32) Sum32() uint32 {
	var all []byte
	for _, w := range f.writes {
		all = append(all, w...)
	}
	if len(all) == 0 {
		return 0xffffffff
	}
	if len(f.writes) == 1 && len(all) == 4 {
		return binary.BigEndian.Uint32(all)
	}
	h := fnv.New32()
	h.Write(all)
	return h.Sum32() | 1
}

func vpNewFake() hash.Hash32 { return &vpFakeHash32{} }

// ---------------------------------------------------------------- building instances

func vpBuild(c vpCfg) Partitioner {
	switch c.Ctor {
	case "manual":
		return NewManualPartitioner("t")
	case "random":
		return NewRandomPartitioner("t")
	case "roundrobin":
		return NewRoundRobinPartitioner("t")
	case "hash":
		return NewHashPartitioner("t")
	case "refhash":
		return NewReferenceHashPartitioner("t")
	case "customhash":
		return NewCustomHashPartitioner(vpNewFake)("t")
	case "custom":
		var opts []HashPartitionerOption
		if c.Abs {
			opts = append(opts, WithAbsFirst())
		}
		if c.Hashfn {
			opts = append(opts, WithCustomHashFunction(vpNewFake))
		}
		if c.Fb {
			fb, _ := NewReferenceHashPartitioner("fallback").(*hashPartitioner)
			opts = append(opts, WithCustomFallbackPartitioner(fb))
		}
		return NewCustomPartitioner(opts...)("t")
	}
	panic("unknown constructor " + c.Ctor)
}

// vpBuildCase builds the instance of a behaviour. A round-robin behaviour may start from a cursor other
// than 0: the state after that many earlier calls (2^31 of them cannot be made in the quick tier) or after
// calls with a larger partition count; the cursor field is set directly.
func vpBuildCase(c vpCase) Partitioner {
	p := vpBuild(c.Cfg)
	if rr, ok := p.(*roundRobinPartitioner); ok && c.Cursor0 != 0 {
		rr.partition = int32(c.Cursor0)
	}
	return p
}

func vpIsHash(c vpCfg) bool {
	return c.Ctor == "hash" || c.Ctor == "refhash" || c.Ctor == "customhash" || c.Ctor == "custom"
}

// vpMessage builds the message of a call and returns the int32 hash of its key bytes: the
// injected one for configurations with a custom hash function, hash/fnv's otherwise.
func vpMessage(c vpCfg, call vpCall) (*ProducerMessage, int64) {
	m := &ProducerMessage{Topic: "t", Partition: call.Part}
	var kb []byte
	switch call.Key.K {
	case "nil":
		return m, 0
	case "empty": // the three spellings of a key that is not nil but has no bytes
		kb = []byte{}
		m.Key = ByteEncoder(kb)
	case "empty_s":
		kb = []byte{}
		m.Key = StringEncoder("")
	case "empty_n":
		kb = []byte{}
		m.Key = ByteEncoder(nil)
	case "h":
		kb = make([]byte, 4)
		binary.BigEndian.PutUint32(kb, uint32(int32(call.Key.H)))
		m.Key = ByteEncoder(kb)
	case "fnv":
		kb = []byte(call.Key.Name)
		m.Key = StringEncoder(call.Key.Name)
	}
	if vpIsHash(c) && !c.Hashfn && c.Ctor != "customhash" {
		h := fnv.New32a()
		h.Write(kb)
		return m, int64(int32(h.Sum32()))
	}
	if strings.HasPrefix(call.Key.K, "empty") {
		return m, -1
	}
	return m, call.Key.H
}

// vpCallSafely runs one Partition call; a panic or a hang of the code under test is
// reported as text, not propagated.
func vpCallSafely(p Partitioner, m *ProducerMessage, n int32) (int32, string) {
	type res struct {
		ret int32
		err string
	}
	ch := make(chan res, 1)
	go func() {
		defer func() {
			if r := recover(); r != nil {
				ch <- res{-1, fmt.Sprintf("panic: %v", r)}
			}
		}()
		ret, err := p.Partition(m, n)
		if err != nil {
			ch <- res{ret, "error: " + err.Error()}
			return
		}
		ch <- res{ret, ""}
	}()
	select {
	case r := <-ch:
		return r.ret, r.err
	case <-time.After(20 * time.Second):
		return -1, "hang: Partition did not return within 20s"
	}
}

// vpRequires asks the instance what it tells the producer about this message: MessageRequiresConsistency
// when it is a DynamicConsistencyPartitioner, RequiresConsistency otherwise. Returns "true"/"false" or the panic.
func vpRequires(p Partitioner, m *ProducerMessage) (res string) {
	defer func() {
		if r := recover(); r != nil {
			res = fmt.Sprintf("panic: %v", r)
		}
	}()
	if dp, ok := p.(DynamicConsistencyPartitioner); ok {
		return strconv.FormatBool(dp.MessageRequiresConsistency(m))
	}
	return strconv.FormatBool(p.RequiresConsistency())
}

func vpResetFields(c vpCfg) kv {
	return kv{"fam": "part", "ctor": c.Ctor, "abs": c.Abs, "hashfn": c.Hashfn, "fb": c.Fb, "cursor0": 0, "skipped": "0"}
}

func vpResetFieldsCase(c vpCase) kv {
	f := vpResetFields(c.Cfg)
	f["cursor0"] = c.Cursor0
	return f
}

func vpCallFields(call vpCall, h int64, ret int32, errs string, sub bool, mrc string) kv {
	return kv{"kk": call.Key.K, "h": h, "name": call.Key.Name, "part": call.Part, "n": call.N,
		"ret": ret, "err": errs, "xk": call.Xk, "xv": call.Xv, "sub": sub, "inst": 0, "ovl": false, "fact": -1, "mrc": mrc}
}

func vpNeedsSubprocess(c vpCase) bool {
	if !c.Cfg.Fb {
		return false
	}
	for _, call := range c.Calls {
		if call.Key.K == "nil" {
			return true
		}
	}
	return false
}

// prefix of a behaviour up to and including its first keyless call: two behaviours with the
// same prefix that die at that call are the same execution.
func vpCrashPrefix(c vpCase) string {
	var sb strings.Builder
	fmt.Fprintf(&sb, "%v|", c.Cfg)
	for _, call := range c.Calls {
		fmt.Fprintf(&sb, "%s/%d/%s/%d;", call.Key.K, call.Key.H, call.Key.Name, call.N)
		if call.Key.K == "nil" {
			break
		}
	}
	return sb.String()
}

type vpCallRes struct {
	ret int32
	err string
	h   int64
}

// ---------------------------------------------------------------- subprocess

// TestVerifPartitionerChild is the worker side: replays the behaviours of the file named by
// VERIF_PART_CHILD starting at index VERIF_PART_FROM and appends one line per call to
// VERIF_PART_RES ("B case call" before the call, "R case call ret h err" after it).
func TestVerifPartitionerChild(t *testing.T) {
	path := os.Getenv("VERIF_PART_CHILD")
	if path == "" {
		t.Skip("worker of TestVerifPartitioner")
	}
	debug.SetMaxStack(16 << 20) // unbounded recursion dies after 16 MB instead of 1 GB
	from, _ := strconv.Atoi(os.Getenv("VERIF_PART_FROM"))
	lines := vReadLines(t, "VERIF_PART_CHILD")
	if to, err := strconv.Atoi(os.Getenv("VERIF_PART_TO")); err == nil && to < len(lines) {
		lines = lines[:to]
	}
	out, err := os.OpenFile(os.Getenv("VERIF_PART_RES"), os.O_APPEND|os.O_WRONLY|os.O_CREATE, 0o644)
	if err != nil {
		t.Fatal(err)
	}
	defer out.Close()
	for ci := from; ci < len(lines); ci++ {
		var c vpCase
		if err := json.Unmarshal([]byte(lines[ci]), &c); err != nil {
			t.Fatalf("bad case: %v", err)
		}
		p := vpBuildCase(c)
		for k, call := range c.Calls {
			m, h := vpMessage(c.Cfg, call)
			fmt.Fprintf(out, "B %d %d\n", ci, k)
			ret, errs := vpCallSafely(p, m, call.N)
			fmt.Fprintf(out, "R %d %d %d %d %s\n", ci, k, ret, h, strconv.Quote(errs))
		}
	}
}

// vpRunInSubprocess replays the given behaviours in worker processes; a worker that dies is
// restarted after the behaviour it died in. Returns per behaviour the results of the calls
// that were made (the call during which the worker died is the last one, with err "crash...").
// skip(i) is asked right before behaviour i would be started; crashed(i) is told about deaths.
func vpRunInSubprocess(dir string, w int, cases []vpCase, skip func(int) bool, crashed func(int)) (map[int][]vpCallRes, int, error) {
	res := map[int][]vpCallRes{}
	spawns := 0
	if len(cases) == 0 {
		return res, 0, nil
	}
	in := fmt.Sprintf("%s/sub%d.cases", dir, w)
	f, err := os.Create(in)
	if err != nil {
		return nil, 0, err
	}
	for _, c := range cases {
		b, _ := json.Marshal(c)
		f.Write(append(b, '\n'))
	}
	f.Close()
	from := 0
	for from < len(cases) {
		if skip(from) {
			from++
			continue
		}
		to := from // the worker runs [from, to): up to the next behaviour that is to be skipped
		for to < len(cases) && (to == from || !skip(to)) {
			to++
		}
		resPath := fmt.Sprintf("%s/sub%d.%d.res", dir, w, spawns)
		spawns++
		os.Remove(resPath)
		cmd := exec.Command(os.Args[0], "-test.run=^TestVerifPartitionerChild$", "-test.count=1", "-test.timeout=300s")
		cmd.Env = append(os.Environ(), "VERIF_PART_CHILD="+in, "VERIF_PART_FROM="+strconv.Itoa(from),
			"VERIF_PART_TO="+strconv.Itoa(to), "VERIF_PART_RES="+resPath)
		var outb bytes.Buffer
		cmd.Stdout, cmd.Stderr = &outb, &outb
		runErr := cmd.Run()
		data, _ := os.ReadFile(resPath)
		os.Remove(resPath)
		begun := [2]int{-1, -1}
		open := false
		for _, line := range strings.Split(string(data), "\n") {
			fs := strings.SplitN(line, " ", 6)
			if len(fs) >= 3 && fs[0] == "B" {
				begun[0], _ = strconv.Atoi(fs[1])
				begun[1], _ = strconv.Atoi(fs[2])
				open = true
			} else if len(fs) == 6 && fs[0] == "R" {
				ci, _ := strconv.Atoi(fs[1])
				ret, _ := strconv.Atoi(fs[3])
				h, _ := strconv.ParseInt(fs[4], 10, 64)
				e, _ := strconv.Unquote(fs[5])
				res[ci] = append(res[ci], vpCallRes{int32(ret), e, h})
				open = false
			}
		}
		if runErr == nil {
			from = to
			continue
		}
		if !open {
			return nil, spawns, fmt.Errorf("partitioner worker died outside a Partition call: %v\n%s", runErr, vpTail(outb.String(), 30))
		}
		why := "crash: worker process died during Partition (" + runErr.Error() + ")"
		o := outb.String()
		if strings.Contains(o, "stack overflow") || strings.Contains(o, "stack exceeds") {
			why = "crash: stack overflow (unbounded recursion; goroutine stack exceeds limit)"
		}
		ci := begun[0]
		_, h := vpMessage(cases[ci].Cfg, cases[ci].Calls[begun[1]])
		res[ci] = append(res[ci], vpCallRes{-1, why, h})
		crashed(ci)
		from = ci + 1
	}
	return res, spawns, nil
}

func vpTail(s string, n int) string {
	ls := strings.Split(s, "\n")
	if len(ls) > n {
		ls = ls[len(ls)-n:]
	}
	return strings.Join(ls, "\n")
}

// ---------------------------------------------------------------- two instances of one constructor

type vpStep struct {
	Ph   string `json:"ph"`
	Inst int    `json:"inst"`
	Key  vpKey  `json:"key"`
	N    int32  `json:"n"`
	Xv   int64  `json:"xv"`
}

type vpPairCase struct {
	Fam   string   `json:"fam"`
	Cfg   vpCfg    `json:"cfg"`
	Steps []vpStep `json:"steps"`
}

type vpGate struct {
	entered chan struct{}
	release chan struct{}
}

// vpGateCtl is shared by all hashers one factory hands out: it counts the factory invocations
// and holds a Write whose bytes a gate was registered for until that gate is released.
type vpGateCtl struct {
	mu    sync.Mutex
	gates map[string]*vpGate
	nfact int
}

func (c *vpGateCtl) take(k string) *vpGate {
	c.mu.Lock()
	defer c.mu.Unlock()
	g := c.gates[k]
	delete(c.gates, k)
	return g
}

// vpGateHash32 behaves like vpFakeHash32 (same Sum32) and can be held inside Write.
type vpGateHash32 struct {
	ctl   *vpGateCtl
	mu    sync.Mutex
	inner vpFakeHash32
}

func (f *vpGateHash32) Write(p []byte) (int, error) {
	f.mu.Lock()
	n, err := f.inner.Write(p)
	f.mu.Unlock()
	if g := f.ctl.take(string(p)); g != nil {
		close(g.entered)
		<-g.release
	}
	return n, err
}
func (f *vpGateHash32) Reset()         { f.mu.Lock(); f.inner.Reset(); f.mu.Unlock() }
func (f *vpGateHash32) Size() int      { return 4 }
func (f *vpGateHash32) BlockSize() int { return 1 }
func (f *vpGateHash32) Sum(b []byte) []byte {
	v := f.Sum32()
	return append(b, byte(v>>24), byte(v>>16), byte(v>>8), byte(v))
}
func (f *vpGateHash32) Sum32() uint32 {
	f.mu.Lock()
	defer f.mu.Unlock()
	return f.inner.Sum32()
}

type vpPairRes struct {
	ret int32
	err string
}

// vpReplayPair builds ONE constructor value as an application does (Config.Producer.Partitioner),
// asks it for two partitioners and drives them from two goroutines in the order of the schedule.
// emit is called once per finished call.
func vpReplayPair(c vpPairCase, emit func(f kv)) {
	ctl := &vpGateCtl{gates: map[string]*vpGate{}}
	factory := func() hash.Hash32 {
		ctl.mu.Lock()
		ctl.nfact++
		ctl.mu.Unlock()
		return &vpGateHash32{ctl: ctl}
	}
	var ctor PartitionerConstructor
	if c.Cfg.Ctor == "customhash" {
		ctor = NewCustomHashPartitioner(factory)
	} else {
		var opts []HashPartitionerOption
		if c.Cfg.Abs {
			opts = append(opts, WithAbsFirst())
		}
		opts = append(opts, WithCustomHashFunction(factory))
		if c.Cfg.Fb {
			fb, _ := NewReferenceHashPartitioner("fallback").(*hashPartitioner)
			opts = append(opts, WithCustomFallbackPartitioner(fb))
		}
		ctor = NewCustomPartitioner(opts...)
	}
	insts := [2]Partitioner{ctor("t0"), ctor("t1")}
	type pending struct {
		gate *vpGate
		res  chan vpPairRes
		call vpCall
		h    int64
		ovl  bool
		mrc  string
	}
	var pend [2]*pending
	for _, st := range c.Steps {
		i := st.Inst & 1
		switch st.Ph {
		case "begin":
			call := vpCall{Key: st.Key, N: st.N, Xk: "exact", Xv: st.Xv}
			m, h := vpMessage(c.Cfg, call)
			kb, _ := m.Key.Encode()
			g := &vpGate{entered: make(chan struct{}), release: make(chan struct{})}
			ctl.mu.Lock()
			ctl.gates[string(kb)] = g
			ctl.mu.Unlock()
			pd := &pending{gate: g, res: make(chan vpPairRes, 1), call: call, h: h, ovl: pend[1-i] != nil, mrc: vpRequires(insts[i], m)}
			if pend[1-i] != nil {
				pend[1-i].ovl = true
			}
			pend[i] = pd
			p := insts[i]
			go func() {
				defer func() {
					if r := recover(); r != nil {
						pd.res <- vpPairRes{-1, fmt.Sprintf("panic: %v", r)}
					}
				}()
				ret, err := p.Partition(m, st.N)
				if err != nil {
					pd.res <- vpPairRes{ret, "error: " + err.Error()}
					return
				}
				pd.res <- vpPairRes{ret, ""}
			}()
			select {
			case <-g.entered:
			case r := <-pd.res: // the call finished without ever writing these bytes
				pd.res <- r
			case <-time.After(10 * time.Second):
			}
		case "end":
			pd := pend[i]
			if pd == nil {
				continue
			}
			pend[i] = nil
			close(pd.gate.release)
			var r vpPairRes
			select {
			case r = <-pd.res:
			case <-time.After(10 * time.Second):
				r = vpPairRes{-1, "hang: Partition did not return within 10s"}
			}
			f := vpCallFields(pd.call, pd.h, r.ret, r.err, false, pd.mrc)
			f["inst"] = i
			f["ovl"] = pd.ovl
			ctl.mu.Lock()
			f["fact"] = ctl.nfact
			ctl.mu.Unlock()
			emit(f)
		}
	}
	for i := range pend { // never leave a goroutine parked
		if pend[i] != nil {
			close(pend[i].gate.release)
		}
	}
}

// ---------------------------------------------------------------- family 1 driver

func TestVerifPartitioner(t *testing.T) {
	if os.Getenv("VERIF_PART_CHILD") != "" {
		t.Skip("worker mode")
	}
	lines := vReadLines(t, "VERIF_CASES")
	rec := vOpenRec(t, "part.ndjson")
	defer rec.Close()

	var inproc, sub []vpCase
	var pairs []vpPairCase
	for _, line := range lines {
		var c vpCase
		if err := json.Unmarshal([]byte(line), &c); err != nil {
			t.Fatalf("bad case %q: %v", line, err)
		}
		if c.Fam == "pair" {
			var pc vpPairCase
			if err := json.Unmarshal([]byte(line), &pc); err != nil {
				t.Fatalf("bad case %q: %v", line, err)
			}
			pairs = append(pairs, pc)
			continue
		}
		if c.Fam != "part" {
			continue
		}
		if vpNeedsSubprocess(c) {
			sub = append(sub, c)
		} else {
			inproc = append(inproc, c)
		}
	}

	ncalls, ninst, nsub, ncrash, ndedup := 0, 0, 0, 0, 0
	byCtor := map[string]int{}
	var samples []interface{}
	distinct := map[string]bool{}

	// --- subprocess behaviours, dealt to workers by crash prefix
	const workers = 8
	var mu sync.Mutex
	crashedPrefix := map[string]bool{}
	buckets := make([][]vpCase, workers)
	for _, c := range sub {
		h := fnv.New32a()
		h.Write([]byte(vpCrashPrefix(c)))
		k := int(h.Sum32() % workers)
		buckets[k] = append(buckets[k], c)
	}
	subRes := make([]map[int][]vpCallRes, workers)
	subErr := make([]error, workers)
	skipped := make([]map[int]bool, workers)
	spawns := make([]int, workers)
	var wg sync.WaitGroup
	for w := 0; w < workers; w++ {
		w := w
		skipped[w] = map[int]bool{}
		wg.Add(1)
		go func() {
			defer wg.Done()
			subRes[w], spawns[w], subErr[w] = vpRunInSubprocess(vOutDir(t), w, buckets[w],
				func(i int) bool {
					mu.Lock()
					defer mu.Unlock()
					if crashedPrefix[vpCrashPrefix(buckets[w][i])] {
						skipped[w][i] = true
						return true
					}
					return false
				},
				func(i int) {
					mu.Lock()
					crashedPrefix[vpCrashPrefix(buckets[w][i])] = true
					mu.Unlock()
				})
		}()
	}

	// --- in-process behaviours
	npreset := 0
	for _, c := range inproc {
		rec.Reset(vpResetFieldsCase(c))
		ninst++
		byCtor[c.Cfg.Ctor]++
		if c.Cursor0 != 0 {
			npreset++
		}
		p := vpBuildCase(c)
		for _, call := range c.Calls {
			m, h := vpMessage(c.Cfg, call)
			mrc := vpRequires(p, m)
			ret, errs := vpCallSafely(p, m, call.N)
			f := vpCallFields(call, h, ret, errs, false, mrc)
			rec.Ev("call", f)
			ncalls++
			distinct[fmt.Sprintf("%v/%s/%d/%s/%d/%d", c.Cfg, call.Key.K, h, call.Key.Name, call.N, call.Part)] = true
			if len(samples) < 4 && h < 0 && call.N > 2 {
				samples = append(samples, kv{"cfg": c.Cfg, "call": f})
			}
		}
	}

	// --- thorough: the same round-robin machine without touching its state: 2^31 - 64 calls are made and not
	// recorded, the 192 calls around the point where an int32 cursor would overflow are
	nlong, nlongRuns := int64(0), 0
	if vThorough() {
		for _, n := range []int32{3, 16} {
			p := NewRoundRobinPartitioner("t")
			m := &ProducerMessage{Topic: "t"}
			skip := int64(1)<<31 - 64
			for i := int64(0); i < skip; i++ {
				p.Partition(m, n)
			}
			nlong += skip
			f := vpResetFields(vpCfg{Ctor: "roundrobin"})
			f["skipped"] = strconv.FormatInt(skip, 10)
			rec.Reset(f)
			ninst++
			nlongRuns++
			byCtor["roundrobin"]++
			for i := 0; i < 192; i++ {
				call := vpCall{Key: vpKey{K: "nil"}, N: n, Xk: "range"}
				ret, errs := vpCallSafely(p, m, n)
				rec.Ev("call", vpCallFields(call, 0, ret, errs, false, vpRequires(p, m)))
				ncalls++
			}
		}
	}

	// --- two instances of one constructor, interleaved
	npairs, npaircalls, novl := 0, 0, 0
	var pairSample interface{}
	for _, pc := range pairs {
		rec.Reset(vpResetFields(pc.Cfg))
		ninst++
		npairs++
		byCtor[pc.Cfg.Ctor]++
		vpReplayPair(pc, func(f kv) {
			rec.Ev("call", f)
			ncalls++
			npaircalls++
			if f["ovl"] == true {
				novl++
				if pairSample == nil {
					pairSample = kv{"cfg": pc.Cfg, "schedule": pc.Steps, "call": f}
				}
			}
		})
	}
	if pairSample != nil {
		samples = append(samples, pairSample)
	}

	wg.Wait()
	nspawn := 0
	for w := 0; w < workers; w++ {
		if subErr[w] != nil {
			t.Fatalf("subprocess replay: %v", subErr[w])
		}
		nspawn += spawns[w]
		for i, c := range buckets[w] {
			rs := subRes[w][i]
			if skipped[w][i] || len(rs) == 0 {
				ndedup++
				continue
			}
			rec.Reset(vpResetFieldsCase(c))
			ninst++
			nsub++
			byCtor[c.Cfg.Ctor]++
			probe := vpBuild(c.Cfg) // MessageRequiresConsistency is asked of an instance of the same constructor here
			for k, r := range rs {
				if k >= len(c.Calls) {
					break
				}
				pm, _ := vpMessage(c.Cfg, c.Calls[k])
				f := vpCallFields(c.Calls[k], r.h, r.ret, r.err, true, vpRequires(probe, pm))
				rec.Ev("call", f)
				ncalls++
				distinct[fmt.Sprintf("%v/%s/%d/%s/%d/%d", c.Cfg, c.Calls[k].Key.K, r.h, c.Calls[k].Key.Name, c.Calls[k].N, c.Calls[k].Part)] = true
				if strings.HasPrefix(r.err, "crash") {
					ncrash++
					if ncrash == 1 {
						samples = append(samples, kv{"cfg": c.Cfg, "call": f})
					}
				}
			}
		}
	}
	vWriteJSON(t, "part.summary.json", kv{"behaviours": ninst, "calls": ncalls, "in_subprocess": nsub,
		"crashes": ncrash, "identical_crash_prefix_not_rerun": ndedup, "worker_processes": nspawn, "by_constructor": byCtor,
		"distinct_calls": len(distinct), "roundrobin_preset_cursor_behaviours": npreset, "roundrobin_unrecorded_calls_before_tail": nlong, "roundrobin_long_runs": nlongRuns, "pair_schedules": npairs, "pair_calls": npaircalls, "pair_calls_overlapping": novl,
		"samples": samples})
}

// ---------------------------------------------------------------- family 2: producer

type vprMsg struct {
	Keyed   bool   `json:"keyed"`
	Part    int32  `json:"part"`
	Sc      string `json:"sc"`
	Want    int32  `json:"want"`
	Ek      string `json:"ek"` // "-" or the spelling of a key without bytes: b / s / n
	Xn      int    `json:"xn"`
	Xout    string `json:"xout"`
	Xtarget int    `json:"xtarget"`
	Xwhy    string `json:"xwhy"`
}

type vprCase struct {
	Fam         string  `json:"fam"`
	Flip        bool    `json:"flip"`        // leaders come back after the first P1 messages
	P1          int     `json:"p1"`
	Leaderless2 []int32 `json:"leaderless2"` // leaderless partitions after the recovery
	Np         int32    `json:"np"`
	Leaderless []int32  `json:"leaderless"`
	Pk         string   `json:"pk"`
	Static     bool     `json:"static"`
	Dyn        string   `json:"dyn"`
	Msgs       []vprMsg `json:"msgs"`
}

type vprScen struct {
	c      vprCase
	topic  string
	mu     *sync.Mutex // of the batch: orders the events of all its scenarios
	events []kv
	evname []string
	curLL  []int32 // what the broker's metadata currently reports as leaderless (under mu)
}

func (s *vprScen) leaderless() []int32 {
	s.mu.Lock()
	defer s.mu.Unlock()
	return s.curLL
}

func (s *vprScen) ev(name string, f kv) {
	s.mu.Lock()
	s.events = append(s.events, f)
	s.evname = append(s.evname, name)
	s.mu.Unlock()
}

type vprMeta struct {
	scen *vprScen
	id   int
	sc   string
}

// logging wrapper around the partitioner under test
type vprLog struct{ inner Partitioner }

func (l *vprLog) Partition(m *ProducerMessage, n int32) (int32, error) {
	ret, err := l.inner.Partition(m, n)
	if meta, ok := m.Metadata.(*vprMeta); ok {
		pe := ""
		if err != nil {
			pe = err.Error()
		}
		meta.scen.ev("offer", kv{"id": meta.id, "n": n, "ret": ret, "perr": pe})
	}
	return ret, err
}
func (l *vprLog) RequiresConsistency() bool { return l.inner.RequiresConsistency() }

type vprLogDyn struct{ vprLog }

func (l *vprLogDyn) MessageRequiresConsistency(m *ProducerMessage) bool {
	return l.inner.(DynamicConsistencyPartitioner).MessageRequiresConsistency(m)
}

func vprWrap(p Partitioner) Partitioner {
	if _, ok := p.(DynamicConsistencyPartitioner); ok {
		return &vprLogDyn{vprLog{p}}
	}
	return &vprLog{p}
}

// scripted custom partitioner
type vprScript struct{ static bool }

func (s *vprScript) Partition(m *ProducerMessage, n int32) (int32, error) {
	meta, _ := m.Metadata.(*vprMeta)
	sc := "first"
	if meta != nil {
		sc = meta.sc
	}
	switch sc {
	case "first":
		return 0, nil
	case "last":
		return n - 1, nil
	case "neg":
		return -1, nil
	case "over":
		return n, nil
	}
	return -1, errors.New("scripted partitioner error")
}
func (s *vprScript) RequiresConsistency() bool { return s.static }

type vprScriptDyn struct {
	vprScript
	rule string
}

func (s *vprScriptDyn) MessageRequiresConsistency(m *ProducerMessage) bool {
	switch s.rule {
	case "keyed":
		return m.Key != nil
	case "always":
		return true
	}
	return false
}

func vprBuild(c vprCase, topic string) Partitioner {
	switch c.Pk {
	case "manual":
		return NewManualPartitioner(topic)
	case "hash":
		return NewHashPartitioner(topic)
	case "refhash":
		return NewReferenceHashPartitioner(topic)
	case "roundrobin":
		return NewRoundRobinPartitioner(topic)
	case "random":
		return NewRandomPartitioner(topic)
	}
	if c.Dyn == "none" {
		return &vprScript{static: c.Static}
	}
	return &vprScriptDyn{vprScript{static: c.Static}, c.Dyn}
}

// a key that the (reference) hash partitioner maps to index want among np partitions
func vprKeyFor(pk string, np, want int32, salt int) Encoder {
	var probe Partitioner
	if pk == "refhash" {
		probe = NewReferenceHashPartitioner("probe")
	} else if pk == "hash" {
		probe = NewHashPartitioner("probe")
	}
	if probe != nil && want >= 0 {
		for i := 0; i < 4000; i++ {
			k := StringEncoder(fmt.Sprintf("key-%d-%d", salt, i))
			if r, err := probe.Partition(&ProducerMessage{Key: k}, np); err == nil && r == want {
				return k
			}
		}
	}
	return StringEncoder(fmt.Sprintf("key-%d", salt))
}

type vprQuiet struct {
	mu   sync.Mutex
	msgs []string
}

func (q *vprQuiet) add(s string) {
	q.mu.Lock()
	if len(q.msgs) < 20 {
		q.msgs = append(q.msgs, s)
	}
	q.mu.Unlock()
}
func (q *vprQuiet) Error(a ...interface{})            { q.add(fmt.Sprint(a...)) }
func (q *vprQuiet) Errorf(f string, a ...interface{}) { q.add(fmt.Sprintf(f, a...)) }
func (q *vprQuiet) Fatal(a ...interface{})            { q.add(fmt.Sprint(a...)) }
func (q *vprQuiet) Fatalf(f string, a ...interface{}) { q.add(fmt.Sprintf(f, a...)) }

// vprErrClass sorts the error of an error event: "partitioner" (the choice was rejected or the
// partitioner failed), "leader" (no leader / no partition), "breaker" (a circuit breaker of the producer
// was open), "transport" (connection trouble between client and mock broker: not a statement about
// routing), "other".
func vprErrClass(err error) string {
	var ne net.Error
	switch {
	case errors.Is(err, ErrInvalidPartition) || err.Error() == "scripted partitioner error":
		return "partitioner"
	case errors.Is(err, ErrLeaderNotAvailable) || errors.Is(err, ErrUnknownTopicOrPartition):
		return "leader"
	case errors.Is(err, breaker.ErrBreakerOpen):
		return "breaker"
	case errors.Is(err, ErrNotConnected) || errors.Is(err, ErrOutOfBrokers) || errors.Is(err, io.EOF) ||
		errors.Is(err, io.ErrUnexpectedEOF) || errors.As(err, &ne) || errors.Is(err, ErrClosedClient) ||
		strings.Contains(err.Error(), "connection reset") || strings.Contains(err.Error(), "broken pipe"):
		return "transport"
	}
	return "other"
}

var vprHangs int32
var vprHangMu sync.Mutex

// vprRunBatch runs the scenarios as the topics of ONE real AsyncProducer against one MockBroker.
func vprRunBatch(t *testing.T, scens []*vprScen, panics *vprQuiet) string {
	byTopic := map[string]*vprScen{}
	for _, s := range scens {
		byTopic[s.topic] = s
	}
	quiet := &vprQuiet{}
	broker := NewMockBroker(quiet, 1)
	defer broker.Close()

	addTopic := func(resp *MetadataResponse, s *vprScen) {
		ll := map[int32]bool{}
		for _, p := range s.leaderless() {
			ll[p] = true
		}
		for p := int32(0); p < s.c.Np; p++ {
			if ll[p] {
				resp.AddTopicPartition(s.topic, p, -1, nil, nil, nil, ErrLeaderNotAvailable)
			} else {
				resp.AddTopicPartition(s.topic, p, broker.BrokerID(), nil, nil, nil, ErrNoError)
			}
		}
	}
	broker.setHandler(func(req *request) encoderWithHeader {
		switch r := req.body.(type) {
		case *MetadataRequest:
			resp := &MetadataResponse{Version: r.Version}
			resp.AddBroker(broker.Addr(), broker.BrokerID())
			if len(r.Topics) == 0 {
				for _, s := range scens {
					addTopic(resp, s)
				}
			}
			for _, tn := range r.Topics {
				if s := byTopic[tn]; s != nil {
					addTopic(resp, s)
				} else {
					resp.AddTopic(tn, ErrUnknownTopicOrPartition)
				}
			}
			return resp
		case *ProduceRequest:
			resp := &ProduceResponse{Version: r.Version}
			for tn, parts := range r.records {
				s := byTopic[tn]
				for p, recs := range parts {
					var values [][]byte
					if recs.RecordBatch != nil {
						for _, rr := range recs.RecordBatch.Records {
							values = append(values, rr.Value)
						}
					}
					if recs.MsgSet != nil {
						for _, mb := range recs.MsgSet.Messages {
							for _, inner := range mb.Messages() {
								values = append(values, inner.Msg.Value)
							}
						}
					}
					for _, v := range values {
						id, _ := strconv.Atoi(string(v))
						if s != nil {
							s.ev("wire", kv{"id": id, "part": p})
						}
					}
					resp.AddTopicPartition(tn, p, ErrNoError)
				}
			}
			return resp
		}
		return nil
	})

	conf := NewConfig()
	conf.Version = V0_11_0_0
	conf.ClientID = "verif-c17"
	conf.Producer.Return.Successes = true
	conf.Producer.Return.Errors = true
	conf.Producer.Retry.Max = 0
	conf.Producer.Retry.Backoff = time.Millisecond
	conf.Metadata.Retry.Max = 0
	conf.Metadata.Retry.Backoff = time.Millisecond
	conf.Metadata.RefreshFrequency = 0
	conf.Net.DialTimeout = 5 * time.Second
	conf.Net.ReadTimeout = 10 * time.Second
	conf.Net.WriteTimeout = 10 * time.Second
	conf.Producer.Partitioner = func(topic string) Partitioner {
		s := byTopic[topic]
		if s == nil {
			return NewManualPartitioner(topic)
		}
		return vprWrap(vprBuild(s.c, topic))
	}
	client, err := NewClient([]string{broker.Addr()}, conf)
	if err != nil {
		return "setup: " + err.Error()
	}
	defer client.Close()
	// warm-up: have the connection to the leader established before the first message, so that
	// connection set-up (not part of this property) cannot fail a message
	for _, b := range client.Brokers() {
		_ = b.Open(conf)
		if ok, err := b.Connected(); !ok {
			return fmt.Sprintf("setup: broker %d not connected: %v", b.ID(), err)
		}
	}
	producer, err := NewAsyncProducerFromClient(client)
	if err != nil {
		return "setup: " + err.Error()
	}

	note := ""
	// one round = submit the given messages of every scenario, then wait for all their outcomes
	round := func(from func(s *vprScen) (int, int)) {
		total := 0
		for si, s := range scens {
			lo, hi := from(s)
			for k := lo; k < hi && k < len(s.c.Msgs); k++ {
				m := s.c.Msgs[k]
				id := k + 1
				pm := &ProducerMessage{Topic: s.topic, Partition: m.Part, Value: StringEncoder(strconv.Itoa(id)),
					Metadata: &vprMeta{scen: s, id: id, sc: m.Sc}}
				if m.Keyed {
					switch m.Ek {
					case "b":
						pm.Key = ByteEncoder([]byte{})
					case "s":
						pm.Key = StringEncoder("")
					case "n":
						pm.Key = ByteEncoder(nil)
					default:
						pm.Key = vprKeyFor(s.c.Pk, s.c.Np, m.Want, si*8+k%8)
					}
				}
				ek := m.Ek
				if ek == "" {
					ek = "-"
				}
				s.ev("submit", kv{"id": id, "keyed": pm.Key != nil, "ek": ek, "part": m.Part, "sc": m.Sc, "xout": m.Xout, "xtarget": m.Xtarget})
				select {
				case producer.Input() <- pm:
					total++
				case <-time.After(20 * time.Second):
					s.ev("outcome", kv{"id": id, "kind": "none", "part": -1, "err": "hang: Input() did not accept the message within 20s", "cls": "-"})
				}
			}
		}
		vprHangMu.Lock()
		patience := 15 * time.Second
		if vprHangs >= 1 {
			patience = 3 * time.Second
		}
		vprHangMu.Unlock()
		got := 0
		timer := time.NewTimer(patience)
		defer timer.Stop()
		for got < total {
			select {
			case m := <-producer.Successes():
				meta := m.Metadata.(*vprMeta)
				meta.scen.ev("outcome", kv{"id": meta.id, "kind": "success", "part": m.Partition, "err": "", "cls": "-"})
				got++
			case e := <-producer.Errors():
				meta := e.Msg.Metadata.(*vprMeta)
				meta.scen.ev("outcome", kv{"id": meta.id, "kind": "error", "part": e.Msg.Partition, "err": e.Err.Error(), "cls": vprErrClass(e.Err)})
				got++
			case <-timer.C:
				if note == "" {
					note = fmt.Sprintf("hang: %d of %d messages without success or error event after %v", total-got, total, patience)
				}
				vprHangMu.Lock()
				vprHangs++
				vprHangMu.Unlock()
				got = total
				continue
			}
			if !timer.Stop() {
				select {
				case <-timer.C:
				default:
				}
			}
			timer.Reset(patience)
		}
	}
	// round 1: everything up to the recovery (all messages of a scenario without one)
	anyFlip := false
	round(func(s *vprScen) (int, int) {
		if s.c.Flip {
			anyFlip = true
			return 0, s.c.P1
		}
		return 0, len(s.c.Msgs)
	})
	if anyFlip {
		// the producer is idle: leaders come back in the broker's metadata; the client has to notice by itself
		for _, s := range scens {
			if s.c.Flip {
				ll2 := s.c.Leaderless2
				if ll2 == nil {
					ll2 = []int32{}
				}
				s.mu.Lock()
				s.curLL = ll2
				s.mu.Unlock()
				s.ev("leaders", kv{"leaderless": ll2})
			}
		}
		round(func(s *vprScen) (int, int) {
			if s.c.Flip {
				return s.c.P1, len(s.c.Msgs)
			}
			return 0, 0
		})
	}
	vprHangMu.Lock()
	closePatience := 5 * time.Second
	if vprHangs >= 1 {
		closePatience = time.Second
	}
	vprHangMu.Unlock()
	closed := make(chan struct{})
	go func() {
		producer.AsyncClose()
		for range producer.Successes() {
		}
		close(closed)
	}()
	go func() {
		for range producer.Errors() {
		}
	}()
	select {
	case <-closed:
	case <-time.After(closePatience):
		if note == "" {
			note = "hang: producer did not close in time"
		}
	}
	return note
}

func TestVerifPartitionerProducer(t *testing.T) {
	lines := vReadLines(t, "VERIF_CASES2")
	rec := vOpenRec(t, "prod.ndjson")
	defer rec.Close()

	if lp := os.Getenv("VERIF_DEBUG_LOG"); lp != "" {
		if lf, err := os.Create(lp); err == nil {
			old := Logger
			Logger = log.New(lf, "", log.Lmicroseconds)
			defer func() { Logger = old; lf.Close() }()
		}
	}
	panics := &vprQuiet{}
	oldPH := PanicHandler
	PanicHandler = func(e interface{}) { panics.add(fmt.Sprintf("panic in a producer goroutine: %v", e)) }
	defer func() { PanicHandler = oldPH }()

	var all []*vprScen
	for i, line := range lines {
		var c vprCase
		if err := json.Unmarshal([]byte(line), &c); err != nil {
			t.Fatalf("bad case %q: %v", line, err)
		}
		if c.Fam != "prod" {
			continue
		}
		all = append(all, &vprScen{c: c, topic: fmt.Sprintf("s%d", i), curLL: c.Leaderless})
	}
	const batch = 80
	const par = 6
	var batches [][]*vprScen
	for i := 0; i < len(all); i += batch {
		j := i + batch
		if j > len(all) {
			j = len(all)
		}
		b := all[i:j]
		mu := &sync.Mutex{}
		for _, s := range b {
			s.mu = mu
		}
		batches = append(batches, b)
	}
	notes := make([]string, len(batches))
	sem := make(chan struct{}, par)
	var wg sync.WaitGroup
	for bi := range batches {
		bi := bi
		wg.Add(1)
		sem <- struct{}{}
		go func() {
			defer wg.Done()
			defer func() { <-sem }()
			notes[bi] = vprRunBatch(t, batches[bi], panics)
		}()
	}
	wg.Wait()

	nmsgs, nev, hangs, ntransport, nflip, nbreaker := 0, 0, 0, 0, 0, 0
	byPk := map[string]int{}
	var samples []interface{}
	var flipSample interface{}
	for bi, b := range batches {
		if strings.HasPrefix(notes[bi], "setup:") {
			t.Fatalf("producer scenario batch could not be set up: %s", notes[bi])
		}
		if notes[bi] != "" {
			hangs++
		}
		for _, s := range b {
			ll := s.c.Leaderless
			if ll == nil {
				ll = []int32{}
			}
			rec.Reset(kv{"fam": "prod", "np": s.c.Np, "leaderless": ll, "pk": s.c.Pk, "static": s.c.Static, "dyn": s.c.Dyn})
			s.mu.Lock()
			for k, e := range s.events {
				rec.Ev(s.evname[k], e)
				nev++
				if e["cls"] == "transport" {
					ntransport++
				}
				if e["cls"] == "breaker" {
					nbreaker++
				}
			}
			if len(samples) < 3 && len(ll) > 0 && s.c.Np > 1 && (s.c.Pk == "hash" || s.c.Pk == "cust_keyed") {
				samples = append(samples, kv{"scenario": s.c, "events": append([]kv(nil), s.events...)})
			}
			if flipSample == nil && s.c.Flip && s.c.Np > 1 && s.c.Pk == "roundrobin" {
				flipSample = kv{"scenario": s.c, "events": append([]kv(nil), s.events...)}
			}
			s.mu.Unlock()
			note := notes[bi]
			if note != "" && len(panics.msgs) > 0 {
				note += "; " + panics.msgs[0]
			}
			rec.Ev("done", kv{"msgs": len(s.c.Msgs), "note": note})
			nmsgs += len(s.c.Msgs)
			byPk[s.c.Pk]++
			if s.c.Flip {
				nflip++
			}
		}
	}
	if flipSample != nil {
		samples = append([]interface{}{flipSample}, samples...)
	}
	vWriteJSON(t, "prod.summary.json", kv{"scenarios": len(all), "messages": nmsgs, "events": nev, "batches": len(batches),
		"batches_with_hang": hangs, "transport_errors": ntransport, "recovery_scenarios": nflip, "breaker_open_errors": nbreaker, "panics": panics.msgs, "by_partitioner": byPk, "samples": samples})
}
