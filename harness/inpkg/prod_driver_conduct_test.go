//go:build verif
// +build verif

package sarama

// Conducted replay (DESIGN.md 3.3): the real goroutines of the async producer follow the interleaving of a
// behaviour of spec/Producer.tla. While a scenario is conducted, EVERY goroutine that reaches a hook point
// (verifPoint in async_producer.go) parks there; the conductor - the scenario's own goroutine - walks the
// behaviour's step list, performs the environment steps itself (submit, broker verdict = release of the held
// request, leader move) and releases exactly the parked goroutine whose hook and message identity match the next
// internal step. After every release it waits until the process is quiescent again (no goroutine runnable, no
// byte in flight on the loopback connections), so that the steps really happen one after the other.
//
// FAIL-OPEN, always: the conductor never creates a verdict and never a hang. If the expected hook does not show
// up although the process is quiescent (or within the hard cap), an `unsteered` event is recorded, every parked
// goroutine is released, hooks become pass-through, holds of the simulated brokers are lifted and the scenario
// free-runs to its end (the observer validates it like any other execution). The same release happens when Close
// is called, at the end of the scenario, and when any single goroutine has been parked for condHardCap.

import (
	"bytes"
	"fmt"
	"net"
	"os"
	"runtime"
	"sort"
	"strconv"
	"strings"
	"sync"
	"sync/atomic"
	"time"
)

type condStep struct {
	K       string           `json:"k"` // submit move handle | disp rhdeq pprecv ppflush bprecv bpsend bpresp rbstart
	ID      int              `json:"id"`
	Part    int              `json:"part"`
	Retries int              `json:"retries"`
	Flag    string           `json:"flag"`   // none syn fin
	Broker  int              `json:"broker"` // 1-based scenario index of the broker
	Level   int              `json:"level"`  // ppflush: level that is flushed
	Err     bool             `json:"err"`    // bpresp: connection-level error
	Req     int              `json:"req"`    // bpsend: number this produce request gets at the cluster; handle: request to answer
	To      int              `json:"to"`
	IDs     map[string][]int `json:"ids"` // bpsend: expected content of the request, partition -> ids
}

const (
	condHardCap  = 25 * time.Second // no goroutine is ever parked longer than this
	condStepCap  = 6 * time.Second  // an expected hook that is that late (process not quiescent all the time) = divergence
	condQuietCap = 3 * time.Second
)

type condWaiter struct {
	point   string
	id      int
	part    int
	retries int
	flag    string
	broker  int32 // Kafka broker id as the hook reports it
	level   int
	hasErr  bool
	n       int // rh.loop: queue length
	ch      chan struct{}
}

func (w *condWaiter) String() string {
	switch w.point {
	case "disp.recv", "pp.recv", "bp.recv":
		return fmt.Sprintf("%s(id%d p%d r%d %s b%d)", w.point, w.id, w.part, w.retries, w.flag, w.broker)
	case "pp.flush":
		return fmt.Sprintf("pp.flush(p%d l%d)", w.part, w.level)
	case "rh.loop":
		return fmt.Sprintf("rh.loop(%d)", w.n)
	case "bp.resp":
		return fmt.Sprintf("bp.resp(b%d err=%v)", w.broker, w.hasErr)
	}
	return fmt.Sprintf("%s(b%d p%d)", w.point, w.broker, w.part)
}

type conductor struct {
	rec       *vRec
	c         *simCluster
	steps     []condStep
	idBase    int32
	mu        sync.Mutex
	waiters   []*condWaiter
	free      int32 // 1 = pass-through
	wake      chan struct{}
	rhDeqN    int64
	predone   map[int]bool
	unchecked map[int]map[string][]int
	emptyResp map[int32]int // Kafka broker id -> answers to empty produce requests that are on their way
	idx       int
	forced    int
	unsettled int
	samples   int
	self      string
	buf       []byte
	why       string
	submit    func(id, part int)
	// what the last goroutine dump showed
	retrySenderBlocked bool
	debug              bool
	t0                 time.Time
}

func newConductor(rec *vRec, c *simCluster, steps []condStep, idBase0 bool) *conductor {
	cd := &conductor{rec: rec, c: c, steps: steps, wake: make(chan struct{}, 1), predone: map[int]bool{}, unchecked: map[int]map[string][]int{}, emptyResp: map[int32]int{},
		buf: make([]byte, 1<<20), debug: os.Getenv("VERIF_DEBUG_CONDUCT") != ""}
	if !idBase0 {
		cd.idBase = 1
	}
	c.onEmptyProduce = func(broker int32) {
		cd.mu.Lock()
		cd.emptyResp[cd.kafkaID(int(broker))]++
		cd.mu.Unlock()
	}
	return cd
}

func (cd *conductor) kafkaID(idx int) int32 { return cd.idBase + int32(idx) - 1 }

func (cd *conductor) poke() {
	select {
	case cd.wake <- struct{}{}:
	default:
	}
}

func condFlag(m *ProducerMessage) string {
	switch {
	case m.flags&fin != 0:
		return "fin"
	case m.flags&syn != 0:
		return "syn"
	case m.flags&shutdown != 0:
		return "shutdown"
	}
	return "none"
}

// hook is installed as verifHook for a conducted scenario.
func (cd *conductor) hook(point string, args ...interface{}) {
	if atomic.LoadInt32(&cd.free) != 0 {
		return
	}
	w := &condWaiter{point: point, ch: make(chan struct{})}
	switch point {
	case "tp.recv":
		return // the topic stage is order preserving and not part of the model
	case "rh.deq":
		atomic.AddInt64(&cd.rhDeqN, 1)
		cd.poke()
		return
	case "rh.loop":
		w.n, _ = args[0].(int)
		if w.n == 0 {
			return // an empty retry handler only waits for bounced messages
		}
	case "disp.recv", "pp.recv", "bp.recv":
		m, _ := args[0].(*ProducerMessage)
		if m == nil {
			return
		}
		w.id, w.part, w.retries, w.flag = msgID(m), int(m.Partition), m.retries, condFlag(m)
		if w.flag == "shutdown" {
			return
		}
		if point == "bp.recv" && len(args) > 1 {
			w.broker, _ = args[1].(int32)
		}
	case "pp.flush":
		pt, _ := args[1].(int32)
		w.part = int(pt)
		w.level, _ = args[2].(int)
	case "bp.send":
		// the bridge goroutine is never parked: the simulated broker holds every request until the behaviour's verdict
		// step anyway; a `bpsend` step waits for the request to be on the broker's table with the expected content
		return
	case "bp.resp":
		w.broker, _ = args[0].(int32)
		if len(args) > 1 && args[1] != nil {
			w.hasErr = true
		}
		if !w.hasErr {
			// the answer to an EMPTY produce request (forced epoch roll-over of an empty buffer; not in the model)
			cd.mu.Lock()
			if cd.emptyResp[w.broker] > 0 {
				cd.emptyResp[w.broker]--
				cd.mu.Unlock()
				return
			}
			cd.mu.Unlock()
		}
	case "rb.start":
		pt, _ := args[1].(int32)
		w.part = int(pt)
	default:
		return
	}
	cd.mu.Lock()
	if atomic.LoadInt32(&cd.free) != 0 {
		cd.mu.Unlock()
		return
	}
	cd.waiters = append(cd.waiters, w)
	cd.mu.Unlock()
	cd.poke()
	tm := time.NewTimer(condHardCap)
	select {
	case <-w.ch:
		tm.Stop()
	case <-tm.C:
		cd.failOpen("a goroutine was parked for " + condHardCap.String() + " at " + w.String())
	}
}

// releaseAll makes the hooks pass-through and lets every parked goroutine go. Idempotent.
func (cd *conductor) releaseAll() {
	cd.mu.Lock()
	atomic.StoreInt32(&cd.free, 1)
	ws := cd.waiters
	cd.waiters = nil
	cd.mu.Unlock()
	for _, w := range ws {
		close(w.ch)
	}
}

// failOpen: the behaviour cannot be followed any further (soft; never a verdict)
func (cd *conductor) failOpen(why string) {
	cd.mu.Lock()
	first := cd.why == "" && atomic.LoadInt32(&cd.free) == 0
	if first {
		cd.why = why
	}
	cd.mu.Unlock()
	if first {
		cd.rec.Ev("unsteered", kv{"what": "conduct: " + why})
	}
	cd.releaseAll()
	cd.c.LiftHolds()
}

func (cd *conductor) waiting() string {
	cd.mu.Lock()
	defer cd.mu.Unlock()
	var s []string
	for _, w := range cd.waiters {
		s = append(s, w.String())
	}
	sort.Strings(s)
	return strings.Join(s, " ")
}

func (cd *conductor) matches(s *condStep, w *condWaiter) bool {
	switch s.K {
	case "disp":
		return w.point == "disp.recv" && w.id == s.ID && w.part == s.Part && w.retries == s.Retries && w.flag == s.Flag
	case "pprecv":
		return w.point == "pp.recv" && w.id == s.ID && w.part == s.Part && w.retries == s.Retries && w.flag == s.Flag
	case "bprecv":
		return w.point == "bp.recv" && w.id == s.ID && w.part == s.Part && w.retries == s.Retries && w.flag == s.Flag &&
			w.broker == cd.kafkaID(s.Broker)
	case "ppflush":
		return w.point == "pp.flush" && w.part == s.Part && w.level == s.Level
	case "bpresp":
		return w.point == "bp.resp" && w.broker == cd.kafkaID(s.Broker) && w.hasErr == s.Err
	case "rbstart":
		return w.point == "rb.start" && w.part == s.Part
	case "rhdeq":
		return w.point == "rh.loop"
	}
	return false
}

// take removes and returns the parked goroutine matching s (nil if none)
func (cd *conductor) take(s *condStep) *condWaiter {
	cd.mu.Lock()
	defer cd.mu.Unlock()
	for i, w := range cd.waiters {
		if cd.matches(s, w) {
			cd.waiters = append(cd.waiters[:i], cd.waiters[i+1:]...)
			return w
		}
	}
	return nil
}

func (cd *conductor) has(point string) bool {
	cd.mu.Lock()
	defer cd.mu.Unlock()
	for _, w := range cd.waiters {
		if w.point == point {
			return true
		}
	}
	return false
}

// ---------------------------------------------------------------- quiescence

var condBlockedStates = []string{"chan receive", "chan send", "select", "IO wait", "semacquire", "sync.", "GC ", "force gc",
	"finalizer wait", "cleanup wait", "timer goroutine", "debug call"}

// quiet reports whether nothing in the process can make progress without the conductor: no goroutine is
// running / runnable / sleeping / in a system call, no dial in progress, and every byte written on a
// loopback connection has been read by the other side.
func (cd *conductor) quiet() bool {
	if condNetBusy() {
		return false
	}
	cd.samples++
	n := runtime.Stack(cd.buf, true)
	if n >= len(cd.buf) {
		return false // truncated picture: cannot tell
	}
	if condNetBusy() {
		return false
	}
	dump := cd.buf[:n]
	quiet := true
	cd.retrySenderBlocked = false
	for len(dump) > 0 {
		var block []byte
		if i := bytes.Index(dump, []byte("\n\n")); i >= 0 {
			block, dump = dump[:i], dump[i+2:]
		} else {
			block, dump = dump, nil
		}
		if !bytes.HasPrefix(block, []byte("goroutine ")) {
			continue
		}
		eol := bytes.IndexByte(block, '\n')
		if eol < 0 {
			eol = len(block)
		}
		hdr := string(block[:eol])
		lb := strings.IndexByte(hdr, '[')
		if lb < 0 {
			continue
		}
		if cd.self != "" && strings.HasPrefix(hdr, cd.self) {
			continue
		}
		st := hdr[lb+1:]
		if j := strings.IndexAny(st, ",]"); j >= 0 {
			st = st[:j]
		}
		blocked := false
		for _, p := range condBlockedStates {
			if strings.HasPrefix(st, p) {
				blocked = true
				break
			}
		}
		if !blocked && st == "syscall" && bytes.Contains(block, []byte("os/signal.signal_recv")) {
			blocked = true
		}
		if !blocked {
			quiet = false
			if !cd.debug {
				return false
			}
			if cd.samples%200 == 0 {
				cd.log("not quiet: %s", string(block))
			}
		}
		if st == "chan send" && bytes.Contains(block, []byte(").retryMessage")) {
			cd.retrySenderBlocked = true
		}
	}
	return quiet
}

// settle waits until the process is quiescent (bounded; on the bound the conductor just goes on)
func (cd *conductor) settle() bool {
	deadline := time.Now().Add(condQuietCap)
	for i := 0; ; i++ {
		if atomic.LoadInt32(&cd.free) != 0 {
			return false
		}
		if cd.quiet() {
			return true
		}
		if time.Now().After(deadline) {
			// something in the process keeps running on its own (a straggler of an earlier scenario, a timer loop): steps
			// cannot be told apart any more
			cd.unsettled++
			if cd.unsettled >= 2 {
				cd.failOpen("the process does not become quiescent")
			}
			return false
		}
		if i < 3 {
			runtime.Gosched()
		} else {
			time.Sleep(150 * time.Microsecond)
		}
	}
}

// await waits for the parked goroutine that matches s. nil = it cannot come any more (process quiescent without
// it) or it did not come within condStepCap.
func (cd *conductor) await(s *condStep) *condWaiter {
	deadline := time.Now().Add(condStepCap)
	for i := 0; ; i++ {
		if atomic.LoadInt32(&cd.free) != 0 {
			return nil
		}
		if w := cd.take(s); w != nil {
			return w
		}
		if cd.quiet() {
			if w := cd.take(s); w != nil {
				return w
			}
			// a broker worker may sit in the middle of bouncing several messages because the retry handler is parked
			if cd.forceRetryHandler() {
				continue
			}
			// confirm: a second identical picture a moment later
			time.Sleep(time.Millisecond)
			if cd.quiet() {
				if w := cd.take(s); w != nil {
					return w
				}
				return nil
			}
		}
		if time.Now().After(deadline) {
			return nil
		}
		tm := time.NewTimer(300 * time.Microsecond)
		select {
		case <-cd.wake:
		case <-tm.C:
		}
		tm.Stop()
	}
}

// forceRetryHandler: the retry handler is parked at rh.loop with a non-empty queue, and some broker worker is
// blocked handing it a further bounced message (one model action bounces several messages). Letting the handler
// loop once is needed; it may then take the bounced message (intended) or, if the dispatcher is idle, hand its
// head to the dispatcher (an early RhDeq). To keep the dispatcher's order as in the behaviour, the next step of
// the behaviour that fills the dispatcher is looked up: a Submit is performed now (the dispatcher parks on that
// message, so the handler can only take bounced messages); an RhDeq may simply happen early.
func (cd *conductor) forceRetryHandler() bool {
	if !cd.retrySenderBlocked {
		return false
	}
	rh := cd.take(&condStep{K: "rhdeq"})
	if rh == nil {
		return false
	}
	cd.forced++
	if !cd.has("disp.recv") {
		for j := cd.idx; j < len(cd.steps); j++ {
			if cd.predone[j] {
				continue
			}
			if cd.steps[j].K == "submit" {
				cd.predone[j] = true
				cd.submit(cd.steps[j].ID, cd.steps[j].Part)
				cd.settle()
				break
			}
			if cd.steps[j].K == "rhdeq" {
				before := atomic.LoadInt64(&cd.rhDeqN)
				close(rh.ch)
				cd.settle()
				if atomic.LoadInt64(&cd.rhDeqN) > before {
					cd.predone[j] = true
				}
				return true
			}
		}
	}
	close(rh.ch)
	cd.settle()
	return true
}

func (cd *conductor) log(format string, a ...interface{}) {
	if cd.debug {
		fmt.Fprintf(os.Stderr, "[conduct %6.1fms] "+format+"\n", append([]interface{}{float64(time.Since(cd.t0).Microseconds()) / 1000}, a...)...)
	}
}

// run walks the behaviour. It returns when the behaviour has been followed to its end or has been left.
func (cd *conductor) run() {
	cd.t0 = time.Now()
	defer func() {
		// a defect of the conductor itself must never look like a panic of the code under test
		if r := recover(); r != nil {
			cd.failOpen(fmt.Sprintf("conductor failed: %v", r))
			atomic.StoreInt32(&condTrack, 0)
			cd.rec.Ev("conduct", kv{"steps": len(cd.steps), "done": 0, "followed": false, "forced": cd.forced, "samples": cd.samples,
				"ms": int(time.Since(cd.t0).Milliseconds()), "why": "conductor failed"})
		}
	}()
	// the conductor's own goroutine is excluded from the quiescence picture
	n := runtime.Stack(cd.buf, false)
	if i := bytes.IndexByte(cd.buf[:n], '['); i > 0 {
		cd.self = string(cd.buf[:i])
	}
	atomic.StoreInt32(&condTrack, 1)
	why := ""
	for cd.idx = 0; cd.idx < len(cd.steps) && why == ""; cd.idx++ {
		if atomic.LoadInt32(&cd.free) != 0 {
			why = cd.why
			if why == "" {
				why = "released"
			}
			break
		}
		if cd.predone[cd.idx] {
			continue
		}
		s := &cd.steps[cd.idx]
		cd.log("step %d %+v   waiting: %s", cd.idx, *s, cd.waiting())
		switch s.K {
		case "submit":
			cd.submit(s.ID, s.Part)
			cd.settle()
		case "move":
			cd.c.MoveLeader(int32(s.Part), int32(s.To))
		case "handle":
			if !cd.c.ReqSeen(s.Req) {
				why = fmt.Sprintf("step %d: request %d is not at the broker", cd.idx, s.Req)
				break
			}
			if want, ok := cd.unchecked[s.Req]; ok {
				if got := cd.c.ReqIDs(s.Req); !condSameIDs(got, want) {
					why = fmt.Sprintf("step %d: request %d carries %v, the behaviour has %v", cd.idx, s.Req, got, want)
					break
				}
			}
			cd.c.Release(s.Req)
			cd.settle()
		case "bpsend":
			// the request must be on the broker's table before anything else moves (requests are numbered by arrival);
			// it may also wait on its connection behind a request the broker is still holding (checked when it is answered)
			cd.settle()
			if cd.c.ReqSeen(s.Req) {
				if got := cd.c.ReqIDs(s.Req); !condSameIDs(got, s.IDs) {
					why = fmt.Sprintf("step %d: request %d carries %v, the behaviour has %v", cd.idx, s.Req, got, s.IDs)
				}
			} else {
				cd.unchecked[s.Req] = s.IDs
			}
		case "rhdeq":
			for tries := 0; why == ""; tries++ {
				before := atomic.LoadInt64(&cd.rhDeqN)
				w := cd.await(s)
				if w == nil || tries > 16 {
					why = fmt.Sprintf("step %d rhdeq(id%d r%d): retry handler not ready; parked: %s", cd.idx, s.ID, s.Retries, cd.waiting())
					break
				}
				close(w.ch)
				cd.settle()
				if atomic.LoadInt64(&cd.rhDeqN) > before {
					break
				}
				// it took one more bounced message instead and is back at rh.loop: once more
			}
		default:
			w := cd.await(s)
			if w == nil {
				why = fmt.Sprintf("step %d %s(id%d p%d r%d %s b%d l%d) not reached; parked: %s", cd.idx, s.K, s.ID, s.Part, s.Retries, s.Flag,
					s.Broker, s.Level, cd.waiting())
				break
			}
			close(w.ch)
			cd.settle()
		}
	}
	done := cd.idx
	if why != "" {
		done--
		cd.log("DIVERGED %s", why)
		cd.failOpen(why)
	} else {
		cd.log("followed %d steps", done)
	}
	cd.releaseAll()
	cd.c.LiftHolds()
	atomic.StoreInt32(&condTrack, 0)
	cd.rec.Ev("conduct", kv{"steps": len(cd.steps), "done": done, "followed": why == "", "forced": cd.forced,
		"samples": cd.samples, "ms": int(time.Since(cd.t0).Milliseconds()), "why": why})
}

func condSameIDs(got map[int][]int, want map[string][]int) bool {
	if want == nil {
		return true
	}
	nw := 0
	for p, ids := range want {
		if len(ids) == 0 {
			continue
		}
		nw++
		pi, _ := strconv.Atoi(p)
		g := got[pi]
		if len(g) != len(ids) {
			return false
		}
		for i := range ids {
			if g[i] != ids[i] {
				return false
			}
		}
	}
	return nw == len(got)
}

// ---------------------------------------------------------------- bytes in flight on the loopback connections

var (
	condTrack   int32
	condDialing int64
	condPairs   sync.Map // client-side address -> *condPair
)

type condPair struct {
	c2s, s2c     int64 // bytes written by the client / the simulated broker that the other side has not read yet
	srvRd, cliRd int32 // the broker side / the client side is inside Read (it will take what is in flight)
	dead         int32
}

func condPairOf(key string) *condPair {
	v, _ := condPairs.LoadOrStore(key, &condPair{})
	return v.(*condPair)
}

func condNetBusy() bool {
	if atomic.LoadInt64(&condDialing) != 0 {
		return true
	}
	busy := false
	condPairs.Range(func(k, v interface{}) bool {
		p := v.(*condPair)
		if atomic.LoadInt32(&p.dead) != 0 {
			condPairs.Delete(k)
			return true
		}
		// bytes nobody is reading (the broker holds an earlier request of this connection) are not progress
		if atomic.LoadInt64(&p.c2s) != 0 && atomic.LoadInt32(&p.srvRd) != 0 || atomic.LoadInt64(&p.s2c) != 0 && atomic.LoadInt32(&p.cliRd) != 0 {
			busy = true
			return false
		}
		return true
	})
	return busy
}

type condConn struct {
	net.Conn
	p       *condPair
	out, in *int64
	rd      *int32
}

func (c *condConn) Write(b []byte) (int, error) {
	atomic.AddInt64(c.out, int64(len(b)))
	n, err := c.Conn.Write(b)
	if n < len(b) {
		atomic.AddInt64(c.out, -int64(len(b)-n))
	}
	if err != nil {
		atomic.StoreInt32(&c.p.dead, 1)
	}
	return n, err
}

func (c *condConn) Read(b []byte) (int, error) {
	atomic.StoreInt32(c.rd, 1)
	n, err := c.Conn.Read(b)
	if n > 0 {
		atomic.AddInt64(c.in, -int64(n))
	}
	atomic.StoreInt32(c.rd, 0)
	if err != nil {
		if ne, ok := err.(net.Error); !ok || !ne.Timeout() {
			atomic.StoreInt32(&c.p.dead, 1)
		}
	}
	return n, err
}

func (c *condConn) Close() error {
	atomic.StoreInt32(&c.p.dead, 1)
	return c.Conn.Close()
}

// condServerConn wraps a connection accepted by a simulated broker
func condServerConn(c net.Conn) net.Conn {
	if atomic.LoadInt32(&condTrack) == 0 && !condTrackAlways {
		return c
	}
	p := condPairOf(c.RemoteAddr().String())
	return &condConn{Conn: c, p: p, out: &p.s2c, in: &p.c2s, rd: &p.srvRd}
}

var condTrackAlways bool

type condDialer struct{ inner vDialer }

func (d condDialer) Dial(network, addr string) (net.Conn, error) {
	atomic.AddInt64(&condDialing, 1)
	defer atomic.AddInt64(&condDialing, -1)
	c, err := d.inner.Dial(network, addr)
	if err != nil {
		return c, err
	}
	p := condPairOf(c.LocalAddr().String())
	return &condConn{Conn: c, p: p, out: &p.c2s, in: &p.s2c, rd: &p.cliRd}, nil
}
