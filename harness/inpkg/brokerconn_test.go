//go:build verif
// +build verif

package sarama

// C14 binding: behaviours of spec/BrokerConn.tla (projected on the steps a conductor can
// perform or observe) are replayed on a REAL *Broker (NewBroker + Open) that talks to a raw
// TCP frame server living in this file. The conductor performs the environment steps
// (start a call, Broker.Close, the server's answer of a given kind, silence until the read
// timeout) and uses the observable steps (request arrived at the server, call returned,
// Close returned) as fail-open gates. Everything the code did is recorded as events
//   call_start / srv_recv / srv_send / call_ret / close_start / close_ret / done
// and judged by spec/BrokerConnTrace.tla; nothing is judged here.

import (
	"encoding/binary"
	"encoding/json"
	"fmt"
	"net"
	"os"
	"path/filepath"
	"regexp"
	"runtime"
	"runtime/debug"
	"sort"
	"strconv"
	"strings"
	"sync"
	"sync/atomic"
	"testing"
	"time"
)

type bcStep struct {
	A    string `json:"a"`
	C    int    `json:"c"`
	Kind string `json:"kind"`
}

type bcCase struct {
	ID  int    `json:"id"`
	Max int    `json:"max"`
	Src string `json:"src"`
	// Hv: response header version of the request type used (0: MetadataRequest, 1: the flexible
	// ListPartitionReassignmentsRequest); Len: length field of a runt / shortbody frame
	Hv  int `json:"hv"`
	Len int `json:"len"`
	// Timed (write-deadline family): the server stays silent for the first call while further requests
	// keep being written on the connection (no-response sends every 50 ms until the verdict, or a
	// second call 100 ms later); the silent call must be back about ReadTimeout (RtMs) after it was
	// written, not WriteTimeout (WtMs) after the last write. BoundMs is the generous bound.
	Timed   bool `json:"timed"`
	RtMs    int  `json:"rtms"`
	WtMs    int  `json:"wtms"`
	BoundMs int  `json:"boundms"`
	// Mix (header v0 cases): the calls rotate through several APIs that expect a response - GetMetadata,
	// Produce with RequiredAcks 1, -1, 2, 3, Fetch, CommitOffset - instead of GetMetadata only
	Mix bool `json:"mix"`
	// Impatient: before going on, wait only for the first of the returns the model expects
	Impatient bool     `json:"impatient"`
	Steps     []bcStep `json:"steps"`
}

// ---------------------------------------------------------------- per-case recorder

// bcEvent has the same fields for every event type (the trace spec may access any of them).
type bcEvent struct {
	Ev   string `json:"ev"`
	C    int    `json:"c"`    // caller (reset: number of callers of the case)
	Tag  string `json:"tag"`  // call_*: tag of the call; srv_recv / srv_send: tag of the request received / consumed
	Corr int    `json:"corr"` // correlation id in the request / response header
	Kind string `json:"kind"` // srv_send: behaviour; reset: source of the case
	Res  string `json:"res"`  // call_ret: topic name echoed in the response; srv_send: content of the frame
	Err  string `json:"err"`  // call_ret / close_ret: error text, "hang", "panic" (detail in res)
	N    int    `json:"n"`    // reset: MaxOpenRequests; srv_send: 1 = well-formed complete frame
	Us   int    `json:"us"`   // microseconds since the start of the case (diagnostics only)
}

type bcRec struct {
	t0     time.Time
	mu     sync.Mutex
	evs    []bcEvent
	closed bool
	wake   chan struct{}
}

// ev appends an event and runs fn, atomically with respect to all other events of the case.
func (r *bcRec) ev(e bcEvent, fn func()) {
	r.mu.Lock()
	if !r.closed {
		r.add(e)
	}
	if fn != nil {
		fn()
	}
	r.mu.Unlock()
	select {
	case r.wake <- struct{}{}:
	default:
	}
}

// add appends an event; the caller holds r.mu
func (r *bcRec) add(e bcEvent) {
	e.Us = int(time.Since(r.t0) / time.Microsecond)
	r.evs = append(r.evs, e)
}

// waitFor waits until pred (evaluated under the recorder lock) holds or the timeout expires.
func (r *bcRec) waitFor(pred func() bool, timeout time.Duration) bool {
	deadline := time.NewTimer(timeout)
	defer deadline.Stop()
	for {
		r.mu.Lock()
		ok := pred()
		r.mu.Unlock()
		if ok {
			return true
		}
		select {
		case <-r.wake:
		case <-deadline.C:
			r.mu.Lock()
			ok := pred()
			r.mu.Unlock()
			return ok
		}
	}
}

// ---------------------------------------------------------------- load-aware time bounds

// bcTicks is advanced by a goroutine that sleeps 5 ms at a time: on a starved machine it advances
// more slowly than the wall clock, and so do the time bounds built on it.
var bcTicks int64

func bcHeartbeat(stop <-chan struct{}) {
	for {
		select {
		case <-stop:
			return
		default:
		}
		time.Sleep(5 * time.Millisecond)
		atomic.AddInt64(&bcTicks, 1)
	}
}

// bcBound is a time bound that only expires when BOTH the wall clock and this process's own
// progress (heartbeat ticks, at least 60 % of the nominal rate) say that d has passed; after 8*d
// of wall time without that progress it reports "starved" instead of "expired".
type bcBound struct {
	t0    time.Time
	tick0 int64
	d     time.Duration
}

func bcNewBound(d time.Duration) *bcBound {
	return &bcBound{t0: time.Now(), tick0: atomic.LoadInt64(&bcTicks), d: d}
}

func (b *bcBound) state() (expired, starved bool) {
	el := time.Since(b.t0)
	if el < b.d {
		return false, false
	}
	need := int64(float64(b.d/(5*time.Millisecond)) * 0.6)
	if atomic.LoadInt64(&bcTicks)-b.tick0 >= need {
		return true, false
	}
	if el >= 8*b.d {
		return true, true
	}
	return false, false
}

// waitBound waits until pred holds or the load-aware bound d has expired
func (r *bcRec) waitBound(pred func() bool, d time.Duration) (ok, starved bool) {
	b := bcNewBound(d)
	for {
		if r.waitFor(pred, 25*time.Millisecond) {
			return true, false
		}
		if exp, st := b.state(); exp {
			return r.waitFor(pred, time.Millisecond), st
		}
	}
}

// ---------------------------------------------------------------- raw frame server

type bcReq struct {
	corr int32
	tag  string
	kind string // API of the request: meta, reassign, produce, fetch, commit
}

type bcServer struct {
	rec  *bcRec
	ln   net.Listener
	conn net.Conn
	// The server talks to exactly one peer: the connection dialled by the Broker under test (remote
	// address = the Broker's local address) whose requests carry this case's unique client id. Any
	// other connection - a client of another verification process redialling a recycled port, a
	// straggler of an earlier case - is closed without being recorded.
	clientID string
	accMu    sync.Mutex
	pending  map[string]net.Conn // accepted, not yet adopted, by remote address
	adopted  bool
	accC     chan struct{}
	// guarded by rec.mu
	unans  []bcReq
	nrecv  int
	ended  bool  // no further frames will be sent
	closed bool  // the server closed the connection
	noresp int64 // requests without response received
	hv     int   // response header version
	rlen   int   // length field of runt / shortbody frames
	// after a stalled body nothing is sent before the call of the stalled request has returned
	// (the bytes would be taken for the missing body, which no client can detect)
	stallTag string
	returned func(tag string) bool // holds rec.mu
}

func bcNewServer(rec *bcRec) (*bcServer, error) {
	ln, err := net.Listen("tcp", "127.0.0.1:0")
	if err != nil {
		return nil, err
	}
	s := &bcServer{rec: rec, ln: ln, pending: map[string]net.Conn{}, accC: make(chan struct{}, 1)}
	go func() {
		for {
			c, err := ln.Accept()
			if err != nil {
				return
			}
			s.accMu.Lock()
			if s.adopted {
				s.accMu.Unlock()
				atomic.AddInt64(&bcStrangers, 1)
				c.Close()
				continue
			}
			s.pending[c.RemoteAddr().String()] = c
			s.accMu.Unlock()
			select {
			case s.accC <- struct{}{}:
			default:
			}
		}
	}()
	return s, nil
}

// adopt picks the accepted connection whose remote address is the Broker's local address and closes
// every other one
func (s *bcServer) adopt(brokerLocal string, timeout time.Duration) (net.Conn, error) {
	deadline := time.After(timeout)
	for {
		s.accMu.Lock()
		if c, ok := s.pending[brokerLocal]; ok {
			delete(s.pending, brokerLocal)
			for _, o := range s.pending {
				atomic.AddInt64(&bcStrangers, 1)
				o.Close()
			}
			s.pending = nil
			s.adopted = true
			s.accMu.Unlock()
			go s.readLoop(c)
			return c, nil
		}
		s.accMu.Unlock()
		select {
		case <-s.accC:
		case <-deadline:
			return nil, fmt.Errorf("server did not see the connection from %s", brokerLocal)
		}
	}
}

// bcStrangers counts connections / requests of peers other than the Broker under test
var bcStrangers, bcCaseSeq int64

func (s *bcServer) readLoop(c net.Conn) {
	for {
		req, _, err := decodeRequest(c)
		if err != nil {
			return
		}
		if req.clientID != s.clientID {
			// not the Broker of this case: drop the connection, record nothing
			atomic.AddInt64(&bcStrangers, 1)
			c.Close()
			return
		}
		tag, kind := "?", "?"
		if p, isProduce := req.body.(*ProduceRequest); isProduce && p.RequiredAcks == NoResponse {
			// a request without response (acks = 0): nothing to answer, not part of the in-flight count
			atomic.AddInt64(&s.noresp, 1)
			continue
		}
		switch m := req.body.(type) {
		case *MetadataRequest:
			kind = "meta"
			if len(m.Topics) == 1 {
				tag = m.Topics[0]
			}
		case *ListPartitionReassignmentsRequest:
			kind = "reassign"
			if len(m.blocks) == 1 {
				for k := range m.blocks {
					tag = k
				}
			}
		case *ProduceRequest:
			// any RequiredAcks other than 0 is answered (a broker answers acks > 1 with INVALID_REQUIRED_ACKS)
			kind = "produce"
			if len(m.records) == 1 {
				for k := range m.records {
					tag = k
				}
			}
		case *FetchRequest:
			kind = "fetch"
			if len(m.blocks) == 1 {
				for k := range m.blocks {
					tag = k
				}
			}
		case *OffsetCommitRequest:
			kind = "commit"
			if len(m.blocks) == 1 {
				for k := range m.blocks {
					tag = k
				}
			}
		}
		s.rec.ev(bcEvent{Ev: "srv_recv", Tag: tag, Corr: int(req.correlationID), Kind: kind}, func() {
			s.unans = append(s.unans, bcReq{req.correlationID, tag, kind})
			s.nrecv++
		})
	}
}

// bcMetadataBody is a version 0 MetadataResponse body: no brokers, one topic `name`
// without error and without partitions.
func bcMetadataBody(name string) []byte {
	b := make([]byte, 0, 16+len(name))
	b = binary.BigEndian.AppendUint32(b, 0) // brokers
	b = binary.BigEndian.AppendUint32(b, 1) // topics
	b = binary.BigEndian.AppendUint16(b, 0) // error
	b = binary.BigEndian.AppendUint16(b, uint16(len(name)))
	b = append(b, name...)
	b = binary.BigEndian.AppendUint32(b, 0) // partitions
	return b
}

// bcReassignBody is a version 0 ListPartitionReassignmentsResponse body (flexible encoding): no
// error, one topic `name` with partition 0 on replica 1.
func bcReassignBody(name string) []byte {
	b := make([]byte, 0, 32+len(name))
	b = binary.BigEndian.AppendUint32(b, 0) // throttle
	b = binary.BigEndian.AppendUint16(b, 0) // error
	b = append(b, 0)                        // null error message
	b = append(b, 2)                        // topics: compact array of 1
	b = append(b, byte(len(name)+1))        // compact string
	b = append(b, name...)
	b = append(b, 2)                        // partitions: compact array of 1
	b = binary.BigEndian.AppendUint32(b, 0) // partition 0
	b = append(b, 2)                        // replicas: compact array of 1
	b = binary.BigEndian.AppendUint32(b, 1)
	b = append(b, 1, 1) // adding, removing: empty compact arrays
	b = append(b, 0)    // partition tagged fields
	b = append(b, 0)    // topic tagged fields
	b = append(b, 0)    // response tagged fields
	return b
}

// bcTopicPartBody is a version 0 response body of the shape topics[name, partitions[0, tail]]
// (ProduceResponse: error + offset; FetchResponse: error + high watermark + empty message set;
// OffsetCommitResponse: error)
func bcTopicPartBody(name string, tail []byte) []byte {
	b := make([]byte, 0, 32+len(name))
	b = binary.BigEndian.AppendUint32(b, 1) // topics
	b = binary.BigEndian.AppendUint16(b, uint16(len(name)))
	b = append(b, name...)
	b = binary.BigEndian.AppendUint32(b, 1) // partitions
	b = binary.BigEndian.AppendUint32(b, 0) // partition 0
	return append(b, tail...)
}

func (s *bcServer) body(kind, name string) []byte {
	switch kind {
	case "reassign":
		return bcReassignBody(name)
	case "produce":
		return bcTopicPartBody(name, make([]byte, 2+8))
	case "fetch":
		return bcTopicPartBody(name, make([]byte, 2+8+4))
	case "commit":
		return bcTopicPartBody(name, make([]byte, 2))
	}
	if s.hv >= 1 {
		return bcReassignBody(name)
	}
	return bcMetadataBody(name)
}

// frame builds a complete response frame for the server's header version
func (s *bcServer) frame(corr int32, body []byte) []byte {
	n := 4 + len(body)
	if s.hv >= 1 {
		n++
	}
	b := make([]byte, 0, 4+n)
	b = binary.BigEndian.AppendUint32(b, uint32(n))
	b = binary.BigEndian.AppendUint32(b, uint32(corr))
	if s.hv >= 1 {
		b = append(b, 0) // empty tagged fields of the flexible response header
	}
	return append(b, body...)
}

// short builds a frame whose length field is n: the correlation id as far as it fits, then zeroes
func bcShortFrame(n int, corr int32) []byte {
	b := make([]byte, 0, 4+n)
	b = binary.BigEndian.AppendUint32(b, uint32(n))
	c := binary.BigEndian.AppendUint32(nil, uint32(corr))
	for k := 0; k < n; k++ {
		if k < 4 {
			b = append(b, c[k])
		} else {
			b = append(b, 0)
		}
	}
	return b
}

// answer performs one server step of the given kind on the oldest unanswered request
// ("ooo": on the second oldest). The srv_send event is recorded BEFORE the bytes are
// written. Returns false when there was nothing to answer.
func (s *bcServer) answer(kind string) bool {
	var out []byte
	doClose := false
	did := false
	s.rec.mu.Lock()
	st := s.stallTag
	s.rec.mu.Unlock()
	if st != "" && !s.rec.waitFor(func() bool { return s.returned(st) }, 400*time.Millisecond) {
		return false
	}
	s.rec.mu.Lock()
	if len(s.unans) > 0 && !s.ended && !s.closed && s.conn != nil {
		did = true
		k := 0
		if kind == "ooo" {
			if len(s.unans) >= 2 {
				k = 1
			} else {
				kind = "wrongid"
			}
		}
		r := s.unans[k]
		s.unans = append(append([]bcReq(nil), s.unans[:k]...), s.unans[k+1:]...)
		e := bcEvent{Ev: "srv_send", Tag: r.tag, Kind: kind}
		switch kind {
		case "ok", "ooo":
			e.Corr, e.Res, e.N = int(r.corr), r.tag, 1
			out = s.frame(r.corr, s.body(r.kind, r.tag))
		case "wrongid":
			e.Corr, e.Res, e.N = int(r.corr)+100, r.tag, 1
			out = s.frame(r.corr+100, s.body(r.kind, r.tag))
		case "nested":
			// a frame with a wrong correlation id whose body is itself a well-formed frame for
			// the next request: a receiver that merely skips the mismatched header would
			// deliver the inner frame to the next caller
			e.Corr, e.Res, e.N = int(r.corr)+100, "N."+r.tag, 1
			out = s.frame(r.corr+100, s.frame(r.corr+1, s.body(r.kind, "N."+r.tag)))
		case "bodystall":
			// intact header (valid length, matching id), fewer body bytes than announced; the
			// connection stays open and later requests are answered once the client has given up
			full := s.frame(r.corr, s.body(r.kind, r.tag))
			hl := 8 + s.hv
			out = full[:hl+(len(full)-hl)/2]
			e.Corr = int(r.corr)
			s.stallTag = r.tag
		case "runt":
			if s.rlen < 0 {
				// a response header that does not decode although the length is fine: flexible (v1)
				// header with a NON-EMPTY tagged-field section, followed by the ordinary body.
				// Variants: -1 one small tagged field; -2 multi-byte varint field count; -3 one tagged
				// field crafted so that tag bytes + body would decode as a response if the tag section
				// were taken for the start of the body
				var tags []byte
				switch s.rlen {
				case -1:
					tags = []byte{0x01, 0x00, 0x02, 0xaa, 0xbb}
				case -2:
					tags = []byte{0x80, 0x01, 0x00, 0x01, 0x07}
				default:
					tags = []byte{0x01, 0x00, 0x05, 0x00, 0x00, 0x00, 0x29, 0x08}
				}
				body := s.body(r.kind, r.tag)
				out = make([]byte, 0, 8+len(tags)+len(body))
				out = binary.BigEndian.AppendUint32(out, uint32(4+len(tags)+len(body)))
				out = binary.BigEndian.AppendUint32(out, uint32(r.corr))
				out = append(append(out, tags...), body...)
				e.Kind, e.Corr = "hdrtags", int(r.corr)
				e.Err = strconv.Itoa(s.rlen)
				break
			}
			// length field <= 4: shorter than any response header
			out = bcShortFrame(s.rlen, r.corr)
			if s.rlen >= 4 {
				e.Corr = int(r.corr)
			}
			e.Err = strconv.Itoa(s.rlen)
		case "shortbody":
			// well-framed (length 5..8, matching id) but the body cannot be decoded: only this
			// call fails, the connection is healthy
			out = bcShortFrame(s.rlen, r.corr)
			e.Corr, e.Res, e.N = int(r.corr), "?short", 1
			e.Err = strconv.Itoa(s.rlen)
		case "oversize":
			out = make([]byte, 8)
			binary.BigEndian.PutUint32(out, 0x7fffffff)
			binary.BigEndian.PutUint32(out[4:], uint32(r.corr))
			e.Corr = int(r.corr)
			s.ended = true
		case "close":
			doClose = true
			s.ended, s.closed = true, true
		default:
			panic("unknown server behaviour " + kind)
		}
		if !s.rec.closed {
			s.rec.add(e)
		}
	}
	s.rec.mu.Unlock()
	if len(out) > 0 {
		s.conn.SetWriteDeadline(time.Now().Add(2 * time.Second))
		s.conn.Write(out)
	}
	if doClose {
		s.conn.Close()
	}
	return did
}

func (s *bcServer) shutdown() {
	s.ln.Close()
	s.accMu.Lock()
	for _, o := range s.pending {
		o.Close()
	}
	s.pending = nil
	s.adopted = true
	s.accMu.Unlock()
	if s.conn != nil {
		s.conn.Close()
	}
}

// ---------------------------------------------------------------- conductor

type bcStats struct {
	cases, diverged, calls, okCalls, errCalls, hangs, setupFailures int64
}

var bcPanics int64

// panics recovered by sarama's withRecover (PanicHandler) are attributed to the connection whose
// goroutine panicked through the receiver pointer printed in the stack trace
var (
	bcBrokers    sync.Map // "0x..." -> *bcRec
	bcLostPanics struct {
		sync.Mutex
		l []string
	}
	bcStackRe = regexp.MustCompile(`\(\*Broker\)\.[A-Za-z0-9_.]+\((0x[0-9a-f]+)`)
)

func bcPanicHandler(v interface{}) {
	atomic.AddInt64(&bcPanics, 1)
	msg := fmt.Sprint(v)
	if len(msg) > 120 {
		msg = msg[:120]
	}
	for _, m := range bcStackRe.FindAllStringSubmatch(string(debug.Stack()), -1) {
		if r, ok := bcBrokers.Load(m[1]); ok {
			r.(*bcRec).ev(bcEvent{Ev: "panic", Res: msg, Err: "panic"}, nil)
			return
		}
	}
	bcLostPanics.Lock()
	bcLostPanics.l = append(bcLostPanics.l, msg)
	bcLostPanics.Unlock()
}

func bcNeedsShortTimeout(c *bcCase) bool {
	for _, s := range c.Steps {
		if s.A == "timeout" || (s.A == "srv" && s.Kind == "runt") {
			return true
		}
	}
	return false
}

func bcErrStr(err error) string {
	if err == nil {
		return ""
	}
	s := err.Error()
	if s == "" {
		s = "error"
	}
	if len(s) > 120 {
		s = s[:120]
	}
	return s
}

// APIs that expect a response, used in rotation by the calls of a Mix case (all with response header v0)
var bcAPIs = []string{"meta", "produce1", "fetch", "produce2", "commit", "produce-1", "produce3"}

// bcDoCall issues one request of the given API carrying tag as its only topic and returns the topic
// echoed in the response ("?nil": neither a response nor an error came back)
func bcDoCall(b *Broker, api, tag string) (string, error) {
	one := func(n int, first func() string) string {
		if n != 1 {
			return "?malformed"
		}
		return first()
	}
	switch {
	case api == "reassign":
		req := &ListPartitionReassignmentsRequest{TimeoutMs: 1000}
		req.AddBlock(tag, []int32{0})
		resp, err := b.ListPartitionReassignments(req)
		if err != nil || resp == nil {
			return "?nil", err
		}
		return one(len(resp.TopicStatus), func() string {
			for k := range resp.TopicStatus {
				return k
			}
			return ""
		}), nil
	case strings.HasPrefix(api, "produce"):
		acks, _ := strconv.Atoi(strings.TrimPrefix(api, "produce"))
		req := &ProduceRequest{RequiredAcks: RequiredAcks(acks), Timeout: 1000}
		req.AddMessage(tag, 0, &Message{Value: []byte("x")})
		resp, err := b.Produce(req)
		if err != nil || resp == nil {
			return "?nil", err
		}
		return one(len(resp.Blocks), func() string {
			for k := range resp.Blocks {
				return k
			}
			return ""
		}), nil
	case api == "fetch":
		req := &FetchRequest{MaxWaitTime: 100, MinBytes: 1}
		req.AddBlock(tag, 0, 0, 1024)
		resp, err := b.Fetch(req)
		if err != nil || resp == nil {
			return "?nil", err
		}
		return one(len(resp.Blocks), func() string {
			for k := range resp.Blocks {
				return k
			}
			return ""
		}), nil
	case api == "commit":
		req := &OffsetCommitRequest{ConsumerGroup: "g"}
		req.AddBlock(tag, 0, 1, 0, "")
		resp, err := b.CommitOffset(req)
		if err != nil || resp == nil {
			return "?nil", err
		}
		return one(len(resp.Errors), func() string {
			for k := range resp.Errors {
				return k
			}
			return ""
		}), nil
	}
	resp, err := b.GetMetadata(&MetadataRequest{Topics: []string{tag}})
	if err != nil || resp == nil {
		return "?nil", err
	}
	return one(len(resp.Topics), func() string { return resp.Topics[0].Name }), nil
}

// bcRunCase replays one case and returns the recorded events.
func bcRunCase(c *bcCase, hang time.Duration, st *bcStats) ([]bcEvent, error) {
	rec := &bcRec{wake: make(chan struct{}, 1), t0: time.Now()}
	srv, err := bcNewServer(rec)
	if err != nil {
		return nil, err
	}
	defer srv.shutdown()

	rt := 1500 * time.Millisecond
	if c.RtMs > 0 {
		rt = time.Duration(c.RtMs) * time.Millisecond
	} else if bcNeedsShortTimeout(c) {
		rt = 60 * time.Millisecond
	}
	conf := NewConfig()
	if c.Hv >= 1 {
		conf.Version = V2_4_0_0
	}
	conf.Net.MaxOpenRequests = c.Max
	conf.Net.ReadTimeout = rt
	conf.Net.WriteTimeout = 2 * time.Second
	if c.WtMs > 0 {
		conf.Net.WriteTimeout = time.Duration(c.WtMs) * time.Millisecond
	}
	conf.Net.DialTimeout = 3 * time.Second
	conf.ClientID = fmt.Sprintf("verif-c14-%d-%d", os.Getpid(), atomic.AddInt64(&bcCaseSeq, 1))
	srv.clientID = conf.ClientID
	srv.hv, srv.rlen = c.Hv, c.Len
	b := NewBroker(srv.ln.Addr().String())
	bkey := fmt.Sprintf("%p", b)
	bcBrokers.Store(bkey, rec)
	defer bcBrokers.Delete(bkey)
	if err := b.Open(conf); err != nil {
		return nil, err
	}
	if ok, err := b.Connected(); !ok {
		return nil, fmt.Errorf("broker did not connect: %v", err)
	}
	b.lock.Lock()
	local := ""
	if b.conn != nil {
		local = b.conn.LocalAddr().String()
	}
	b.lock.Unlock()
	cn, err := srv.adopt(local, 3*time.Second)
	if err != nil {
		b.Close()
		return nil, err
	}
	rec.mu.Lock()
	srv.conn = cn
	rec.mu.Unlock()

	ncallers := 0
	for _, s := range c.Steps {
		if s.C > ncallers {
			ncallers = s.C
		}
	}
	rec.ev(bcEvent{Ev: "reset", C: ncallers, N: c.Max, Kind: c.Src, Tag: strconv.Itoa(c.ID)}, nil)

	// guarded by rec.mu
	busy := map[int]bool{}
	callNo := map[int]int{}
	outstanding := map[string]int{} // tag -> caller
	nret := 0
	closeStarted, closeReturned := false, false

	srv.returned = func(tag string) bool { _, waiting := outstanding[tag]; return !waiting }
	ncalls := 0
	startCall := func(want int) {
		rec.mu.Lock()
		id := want
		if id <= 0 || busy[id] {
			id = 0
			for k := 1; k <= ncallers+len(busy)+1; k++ {
				if !busy[k] {
					id = k
					break
				}
			}
		}
		busy[id] = true
		callNo[id]++
		tag := fmt.Sprintf("c%d.%d", id, callNo[id])
		outstanding[tag] = id
		api := "meta"
		if c.Hv >= 1 {
			api = "reassign"
		} else if c.Mix {
			api = bcAPIs[(c.ID+ncalls)%len(bcAPIs)]
		}
		ncalls++
		rec.mu.Unlock()
		atomic.AddInt64(&st.calls, 1)
		go func() {
			res, errs := "", ""
			defer func() {
				if p := recover(); p != nil {
					errs, res = "panic", fmt.Sprint(p)
					if len(res) > 120 {
						res = res[:120]
					}
				}
				rec.ev(bcEvent{Ev: "call_ret", C: id, Tag: tag, Res: res, Err: errs}, func() {
					if _, ok := outstanding[tag]; ok {
						delete(outstanding, tag)
						busy[id] = false
						nret++
					}
				})
			}()
			rec.ev(bcEvent{Ev: "call_start", C: id, Tag: tag, Kind: api}, nil)
			got, err := bcDoCall(b, api, tag)
			if err != nil {
				errs = bcErrStr(err)
				atomic.AddInt64(&st.errCalls, 1)
				return
			}
			atomic.AddInt64(&st.okCalls, 1)
			res = got
			if res == "" {
				res = "?empty"
			}
		}()
	}
	startClose := func() {
		rec.mu.Lock()
		already := closeStarted
		closeStarted = true
		rec.mu.Unlock()
		if already {
			return
		}
		go func() {
			errs := ""
			defer func() {
				if p := recover(); p != nil {
					errs = "panic"
				}
				rec.ev(bcEvent{Ev: "close_ret", Err: errs}, func() { closeReturned = true })
			}()
			rec.ev(bcEvent{Ev: "close_start"}, nil)
			errs = bcErrStr(b.Close())
		}()
	}

	// requests without response (acks = 0 produce): scripted ones are gated by "fired", the periodic
	// ones of a timed case run until told to stop
	nfired, nfires := 0, 0
	fire := func(gated bool) {
		rec.mu.Lock()
		nfires++
		tag := fmt.Sprintf("f.%d", nfires)
		outstanding[tag] = 0
		rec.mu.Unlock()
		errs := ""
		defer func() {
			if p := recover(); p != nil {
				errs = "panic"
			}
			rec.ev(bcEvent{Ev: "fire_ret", Tag: tag, Err: errs}, func() {
				if _, ok := outstanding[tag]; ok {
					delete(outstanding, tag)
					if gated {
						nfired++
					}
				}
			})
		}()
		rec.ev(bcEvent{Ev: "fire_start", Tag: tag}, nil)
		req := &ProduceRequest{RequiredAcks: NoResponse, Timeout: 1000}
		req.AddMessage("t", 0, &Message{Value: []byte(tag)})
		b.Produce(req) // the outcome (nil, a write error, ErrNotConnected) does not matter, returning does
	}
	firesInScript := false
	for _, s := range c.Steps {
		if s.A == "fire" {
			firesInScript = true
		}
	}
	bound := time.Duration(c.BoundMs) * time.Millisecond
	if bound <= 0 {
		bound = 2500 * time.Millisecond
	}

	diverged := false
	silenced := false // the script asked for silence: the drive-to-completion phase must not answer
	why := ""
	stepNo := 0
	wantWrites, wantRets, wantClosed, pending, slow := 0, 0, false, false, false
	wantFired := 0
	flushedRets := 0
	flush := func() {
		if !pending {
			return
		}
		pending = false
		to := 250 * time.Millisecond
		if slow {
			to += rt // the awaited observation needs the read timeout to expire
		}
		slow = false
		if diverged {
			to = 3 * time.Millisecond
		}
		needRets := wantRets
		if c.Impatient && needRets > flushedRets+1 {
			needRets = flushedRets + 1
		}
		flushedRets = wantRets
		ok := rec.waitFor(func() bool {
			return srv.nrecv >= wantWrites && nret >= needRets && nfired >= wantFired && (!wantClosed || closeReturned)
		}, to)
		if !ok && !diverged {
			diverged = true
			rec.mu.Lock()
			why = fmt.Sprintf("gate before step %d: writes %d/%d rets %d/%d closed %v/%v", stepNo, srv.nrecv, wantWrites, nret, wantRets, closeReturned, wantClosed)
			rec.mu.Unlock()
		}
	}
	for k, s := range c.Steps {
		stepNo = k
		switch s.A {
		case "write":
			wantWrites++
			pending = true
		case "ret":
			wantRets++
			pending = true
		case "closed":
			wantClosed = true
			pending = true
		case "fired":
			wantFired++
			pending = true
		case "fire":
			flush()
			if c.Timed {
				time.Sleep(50 * time.Millisecond)
			}
			go fire(true)
		case "start":
			flush()
			if c.Timed && wantWrites > 0 {
				time.Sleep(100 * time.Millisecond) // the second request goes out while the first one is being waited for
			}
			startCall(s.C)
		case "close":
			flush()
			startClose()
		case "srv":
			flush()
			slow = s.Kind == "runt" // a frame shorter than the header: the client may have to wait for its deadline
			if !srv.answer(s.Kind) && !diverged {
				diverged = true
				why = fmt.Sprintf("nothing to answer at step %d", k)
			}
		case "timeout":
			flush() // silence: the next gates wait for the read timeout to fail the call
			slow = true
			silenced = true
			if c.Timed {
				// write-deadline family: writes go on (variant with no-response sends) while the oldest
				// request stays unanswered; its call must be back within the load-aware bound
				rec.mu.Lock()
				tag := ""
				if len(srv.unans) > 0 {
					tag = srv.unans[0].tag
				}
				rec.mu.Unlock()
				if tag == "" {
					break
				}
				stop := make(chan struct{})
				stopped := make(chan struct{})
				go func() {
					defer close(stopped)
					for firesInScript {
						select {
						case <-stop:
							return
						case <-time.After(50 * time.Millisecond):
						}
						fire(false)
					}
				}()
				back, starved := rec.waitBound(func() bool { return srv.returned(tag) }, bound)
				kind := "returned"
				if !back {
					kind = "outstanding"
					if starved {
						kind = "starved"
					}
				}
				rec.mu.Lock()
				if srv.returned(tag) {
					kind = "returned"
				}
				rec.add(bcEvent{Ev: "rt_check", Tag: tag, Kind: kind, N: int(rt / time.Millisecond)})
				rec.mu.Unlock()
				close(stop)
				select {
				case <-stopped:
				case <-time.After(hang): // a send that hangs is reported by the watchdog below
				}
				if kind != "returned" {
					srv.answer("close") // release the call: the verdict is in, do not wait for WriteTimeout
				}
				slow = false
			}
		default:
			return nil, fmt.Errorf("unknown step %q", s.A)
		}
	}
	stepNo = len(c.Steps)
	flush()

	// drive to completion: answer whatever is still unanswered (only after a divergence),
	// then every call must return within the watchdog bound
	hb := bcNewBound(hang)
	expired := func() bool { e, _ := hb.state(); return e }
	for {
		rec.mu.Lock()
		left := len(outstanding)
		canAnswer := len(srv.unans) > 0 && !srv.ended && !srv.closed && !silenced
		rec.mu.Unlock()
		if left == 0 {
			break
		}
		if expired() {
			break
		}
		if canAnswer {
			if !diverged {
				diverged, why = true, "unanswered requests after the last step"
			}
			srv.answer("ok")
			continue
		}
		if expired() {
			break
		}
		rec.waitFor(func() bool { return len(outstanding) < left || len(srv.unans) > 0 }, 20*time.Millisecond)
	}
	rec.mu.Lock()
	var hung []string
	for tag := range outstanding {
		hung = append(hung, tag)
	}
	sort.Strings(hung)
	for _, tag := range hung {
		id := outstanding[tag]
		delete(outstanding, tag)
		if strings.HasPrefix(tag, "f.") {
			rec.add(bcEvent{Ev: "fire_ret", Tag: tag, Err: "hang"})
		} else {
			rec.add(bcEvent{Ev: "call_ret", C: id, Tag: tag, Err: "hang"})
		}
		atomic.AddInt64(&st.hangs, 1)
	}
	rec.mu.Unlock()

	// Close (the one of the script, or a final one) must return too
	startClose()
	if ok, _ := rec.waitBound(func() bool { return closeReturned }, hang); !ok {
		rec.mu.Lock()
		if !closeReturned {
			closeReturned = true
			rec.add(bcEvent{Ev: "close_ret", Err: "hang"})
			atomic.AddInt64(&st.hangs, 1)
		}
		rec.mu.Unlock()
	}
	rec.mu.Lock()
	dv := 0
	if diverged {
		dv = 1
	}
	rec.add(bcEvent{Ev: "done", N: dv, Res: why})
	rec.closed = true
	evs := rec.evs
	rec.mu.Unlock()
	if diverged {
		atomic.AddInt64(&st.diverged, 1)
	}
	atomic.AddInt64(&st.cases, 1)
	return evs, nil
}

// TestVerifBrokerConn replays every case of VERIF_CASES and writes trace.ndjson + summary.json.
func TestVerifBrokerConn(t *testing.T) {
	lines := vReadLines(t, "VERIF_CASES")
	cases := make([]*bcCase, 0, len(lines))
	for _, l := range lines {
		c := &bcCase{}
		if err := json.Unmarshal([]byte(l), c); err != nil {
			t.Fatalf("bad case %q: %v", l, err)
		}
		cases = append(cases, c)
	}
	hang := time.Duration(vEnvInt("VERIF_BC_HANG_MS", 4000)) * time.Millisecond
	par := vEnvInt("VERIF_BC_PAR", 4*runtime.GOMAXPROCS(0))

	stopHB := make(chan struct{})
	go bcHeartbeat(stopHB)
	defer close(stopHB)
	oldPH := PanicHandler
	PanicHandler = bcPanicHandler
	defer func() { PanicHandler = oldPH }()

	results := make([][]bcEvent, len(cases))
	errs := make([]error, len(cases))
	st := &bcStats{}
	var next int64 = -1
	var skipped int64
	var wg sync.WaitGroup
	for w := 0; w < par; w++ {
		wg.Add(1)
		go func() {
			defer wg.Done()
			for {
				k := int(atomic.AddInt64(&next, 1))
				if k >= len(cases) {
					return
				}
				if atomic.LoadInt64(&st.hangs) >= 25 {
					atomic.AddInt64(&skipped, 1) // the verdict is red anyway; do not wait for thousands of watchdogs
					continue
				}
				for attempt := 0; attempt < 3; attempt++ {
					results[k], errs[k] = bcRunCase(cases[k], hang, st)
					if errs[k] == nil {
						break
					}
					atomic.AddInt64(&st.setupFailures, 1)
				}
			}
		}()
	}
	wg.Wait()
	for k, err := range errs {
		if err != nil {
			t.Fatalf("case %d could not be set up: %v", cases[k].ID, err)
		}
	}

	f, err := os.Create(filepath.Join(vOutDir(t), "trace.ndjson"))
	if err != nil {
		t.Fatal(err)
	}
	nev := 0
	bySrc := map[string]int{}
	byKind := map[string]int{}
	var samples []interface{}
	var sb strings.Builder
	for k, evs := range results {
		if evs == nil {
			continue
		}
		for i, e := range evs {
			body, _ := json.Marshal(e)
			sb.WriteString(`{"t":` + strconv.Itoa(k+1) + `,"i":` + strconv.Itoa(i+1) + `,` + string(body[1:]) + "\n")
			nev++
			if e.Ev == "srv_send" {
				byKind[e.Kind]++
			}
		}
		bySrc[cases[k].Src]++
		if len(samples) < 3 && len(evs) > 8 && k%7 == 0 {
			samples = append(samples, map[string]interface{}{"case": cases[k], "events": evs})
		}
		if sb.Len() > 1<<20 {
			f.WriteString(sb.String())
			sb.Reset()
		}
	}
	// panics that could not be attributed to a connection: a trace of their own
	bcLostPanics.Lock()
	lost := bcLostPanics.l
	bcLostPanics.Unlock()
	if len(lost) > 0 {
		evs := []bcEvent{{Ev: "reset", Kind: "unattributed-panics", Tag: "0", N: 1}}
		for _, m := range lost {
			evs = append(evs, bcEvent{Ev: "panic", Res: m, Err: "panic"})
		}
		evs = append(evs, bcEvent{Ev: "done"})
		for i, e := range evs {
			body, _ := json.Marshal(e)
			sb.WriteString(`{"t":` + strconv.Itoa(len(results)+1) + `,"i":` + strconv.Itoa(i+1) + `,` + string(body[1:]) + "\n")
			nev++
		}
	}
	sb.WriteString(`{"t":` + strconv.Itoa(len(results)+2) + `,"i":1,"ev":"end","c":0,"tag":"","corr":0,"kind":"","res":"","err":"","n":0,"us":0}` + "\n")
	nev++
	f.WriteString(sb.String())
	if err := f.Close(); err != nil {
		t.Fatal(err)
	}
	vWriteJSON(t, "summary.json", map[string]interface{}{
		"cases": st.cases, "skipped_after_many_hangs": skipped, "events": nev, "diverged": st.diverged, "calls": st.calls,
		"ok_calls": st.okCalls, "err_calls": st.errCalls, "hangs": st.hangs,
		"setup_retries": st.setupFailures, "panics_in_sarama_goroutines": atomic.LoadInt64(&bcPanics),
		"unattributed_panics":                     len(lost),
		"foreign_connections_or_requests_dropped": atomic.LoadInt64(&bcStrangers),
		"cases_by_source":                         bySrc, "server_answers_by_kind": byKind, "samples": samples,
	})
}
