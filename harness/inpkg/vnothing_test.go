//go:build verif
// +build verif

package sarama

import "testing"

// TestVerifNothing exists so that `bin/check --setup` can compile the whole harness.
func TestVerifNothing(t *testing.T) {}
