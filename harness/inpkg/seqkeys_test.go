//go:build verif
// +build verif

package sarama

// C05, numbering per topic-partition: the idempotent producer's transaction manager obtained from a real client
// (InitProducerID answered by the simulated cluster) is asked for sequence numbers of many (topic, partition) pairs -
// among them pairs whose names run into each other when concatenated ("m1"/2 vs "m"/12) - interleaved, with epoch
// bumps in between. spec/SeqKeysTrace.tla checks that every pair is numbered 0,1,2,... on its own within an epoch.

import (
	"testing"
)

func TestVerifSeqKeys(t *testing.T) {
	rec := vOpenRec(t, "trace.ndjson")
	defer rec.Close()
	topics := []string{"m", "m1", "m12", "m-1", "m1-", "vt", "vt-0", "1", "11", ""}
	parts := []int32{0, 1, 2, 10, 11, 12, 21, 111, 112}
	rnd := vRand(77)
	for round := 0; round < 6; round++ {
		cr := rec.Sub()
		cr.Reset(kv{"name": "seqkeys-cluster", "round": round})
		c := newSimCluster(t, cr, 1, []int32{1})
		config := NewConfig()
		config.ClientID = c.clientID
		config.Version = V0_11_0_0
		config.Producer.Idempotent = true
		config.Producer.RequiredAcks = WaitForAll
		config.Net.MaxOpenRequests = 1
		config.Producer.Return.Successes = true
		vUseDialer(config)
		client, err := NewClient(c.Addrs(), config)
		if err != nil {
			t.Fatalf("client: %v", err)
		}
		tm, err := newTransactionManager(config, client)
		if err != nil {
			t.Fatalf("transaction manager: %v", err)
		}
		r := rec.Sub()
		r.Reset(kv{"name": "seqkeys", "round": round})
		for k := 0; k < 400; k++ {
			tp := topics[rnd.Intn(len(topics))]
			if round%2 == 0 { // concentrate on the colliding spellings
				tp = topics[rnd.Intn(4)]
			}
			p := parts[rnd.Intn(len(parts))]
			seq, epoch := tm.getAndIncrementSequenceNumber(tp, p)
			r.Ev("seq", kv{"topic": "t:" + tp, "part": int(p), "seq": int(seq), "epoch": int(epoch)})
			if rnd.Intn(60) == 0 {
				tm.bumpEpoch()
				r.Ev("bump", kv{"topic": "", "part": 0, "seq": 0, "epoch": 0})
			}
		}
		_ = client.Close()
		c.Close()
	}
}
