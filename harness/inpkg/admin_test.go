//go:build verif
// +build verif

package sarama

// C19 binding: the cases emitted by TLC from spec/Admin.tla (controller-bound
// operations: every script of controller moves / acknowledgements / error codes /
// incomplete answers / dropped connections for every Admin.Retry.Max) and from
// spec/AdminSpread.tla (leader- and coordinator-bound operations: every spread of the
// items over three brokers with per-item verdicts) are executed on a REAL ClusterAdmin
// talking to three scripted MockBrokers (ids 0, 1, 2 - broker id 0 is an ordinary broker). The brokers log which of them received which
// request (type, version, items) and what they answered, the driver logs the value the
// admin call returned; spec/AdminTrace.tla evaluates the clauses of C19 on that.

import (
	"encoding/json"
	"errors"
	"fmt"
	"io"
	"net"
	"os"
	"reflect"
	"sort"
	"strconv"
	"strings"
	"sync"
	"sync/atomic"
	"testing"
	"time"
)

var admKafkaVersions = []KafkaVersion{V0_10_1_0, V0_10_2_0, V0_11_0_0, V1_0_0_0, V2_0_0_0, V2_4_0_0, V0_10_2_1}

const admTopic = "t"

var admForeign int64 // requests of foreign clients turned away (not recorded)
var admCaseSeq int64 // per-process sequence number of cases: every case has its own client id

type admCase struct {
	Fam    string          `json:"fam"`
	Src    string          `json:"src"`
	Op     string          `json:"op"`
	Kv     int             `json:"kv"`
	Max    int             `json:"max"`
	Init   int             `json:"init"`
	Pre    string          `json:"pre"`    // "cached" | "empty" | "none"
	Script [][]interface{} `json:"script"` // [kind, arg, place, k]: k metadata answers without controller after this step-down
	Pred   struct {
		Att  int    `json:"att"`
		Cls  string `json:"cls"`
		Code int    `json:"code"`
	} `json:"pred"`
	Own    [][]int         `json:"own"`    // [item, broker]
	Itemv  [][]int         `json:"itemv"`  // [item, code]
	Bfault [][]interface{} `json:"bfault"` // [broker, "none"|"conn"|"inc"]
	All    bool            `json:"all"`    // ListConsumerGroupOffsets: nil partition map (all partitions)
	Gerr   int             `json:"gerr"`   // ListConsumerGroupOffsets: group-level error code of the coordinator
}

type admEvent struct {
	ev string
	f  kv
}

// quiet TestReporter for the MockBrokers: their complaints are counted, never fatal.
type admReporter struct {
	mu   sync.Mutex
	msgs []string
}

func (r *admReporter) add(s string) {
	r.mu.Lock()
	if len(r.msgs) < 50 {
		r.msgs = append(r.msgs, s)
	}
	r.mu.Unlock()
}
func (r *admReporter) Error(a ...interface{})            { r.add(fmt.Sprint(a...)) }
func (r *admReporter) Errorf(f string, a ...interface{}) { r.add(fmt.Sprintf(f, a...)) }
func (r *admReporter) Fatal(a ...interface{})            { r.add("FATAL " + fmt.Sprint(a...)) }
func (r *admReporter) Fatalf(f string, a ...interface{}) { r.add("FATAL " + fmt.Sprintf(f, a...)) }

// admDropConn is "answered" by a MockBroker to make it close the connection without a
// response: encode fails with io.EOF, which MockBroker.serverError treats as a closed
// connection (no test error), then handleRequests leaves its loop and closes the socket.
type admDropConn struct{}

func (admDropConn) encode(pe packetEncoder) error { return io.EOF }
func (admDropConn) headerVersion() int16          { return 0 }

// admCluster: three scripted MockBrokers and the state of the case being run on them.
type admCluster struct {
	mu       sync.Mutex
	rep      *admReporter
	brokers  map[int32]*MockBroker
	c        *admCase
	ctl      int32  // true controller
	k        int    // admin requests of the current operation seen so far
	noneLeft int    // metadata answers still to come that name no controller
	clientID string // client id of the admin client of the current case; other clients are turned away
	own      map[int]int32
	itemv    map[int]int
	bfault   map[int32]string
	events   []admEvent
}

// admDialer is sarama's default dialer plus SO_LINGER 0: the tens of thousands of short-lived
// client connections of a run are reset on Close instead of lingering in TIME_WAIT (which
// would exhaust the ephemeral ports when several checks run at once).
// It also remembers the connections of one case so that the driver can close those the client
// forgets (client.deregisterController drops the old controller's Broker without closing it:
// one leaked socket per NOT_CONTROLLER answer, which adds up over 10^4 cases).
type admDialer struct {
	timeout time.Duration
	mu      sync.Mutex
	conns   []net.Conn
}

func (d *admDialer) Dial(network, addr string) (net.Conn, error) {
	c, err := (&net.Dialer{Timeout: d.timeout}).Dial(network, addr)
	if err != nil {
		return c, err
	}
	if tc, ok := c.(*net.TCPConn); ok {
		_ = tc.SetLinger(0)
	}
	d.mu.Lock()
	d.conns = append(d.conns, c)
	d.mu.Unlock()
	return c, nil
}

func (d *admDialer) closeAll() {
	d.mu.Lock()
	for _, c := range d.conns {
		_ = c.Close()
	}
	d.conns = nil
	d.mu.Unlock()
}

func newAdmCluster(rep *admReporter) (*admCluster, error) {
	cl := &admCluster{rep: rep, brokers: map[int32]*MockBroker{}}
	for id := int32(0); id < 3; id++ {
		var l net.Listener
		var err error
		for try := 0; try < 20; try++ {
			if l, err = net.Listen("tcp", "127.0.0.1:0"); err == nil {
				break
			}
			time.Sleep(100 * time.Millisecond)
		}
		if err != nil {
			return nil, fmt.Errorf("environment: cannot listen: %v", err)
		}
		b := NewMockBrokerListener(rep, id, l)
		id := id
		b.setHandler(func(req *request) encoderWithHeader { return cl.handle(id, req) })
		cl.brokers[id] = b
	}
	return cl, nil
}

func (cl *admCluster) close() {
	for _, b := range cl.brokers {
		b.Close()
	}
}

func (cl *admCluster) ev(name string, f kv) { cl.events = append(cl.events, admEvent{name, f}) }

func admLogDirPath(b int) string { return "/data/b" + strconv.Itoa(b) }
func admLogDirOrigin(path string) int {
	i, err := strconv.Atoi(strings.TrimPrefix(path, "/data/b"))
	if err != nil {
		return 99
	}
	return i
}
func admGroupName(i int) string { return "g" + strconv.Itoa(i) }
func admGroupIndex(g string) int {
	i, err := strconv.Atoi(strings.TrimPrefix(g, "g"))
	if err != nil {
		return 99
	}
	return i
}

func (cl *admCluster) handle(me int32, req *request) encoderWithHeader {
	cl.mu.Lock()
	defer cl.mu.Unlock()
	if cl.c == nil || req.clientID != cl.clientID {
		// not the client of the case being run: a straggler of an earlier case, or a client of
		// another process redialling a port the kernel meanwhile gave to this listener. The
		// connection is closed and nothing is recorded.
		atomic.AddInt64(&admForeign, 1)
		return admDropConn{}
	}
	api := reflect.TypeOf(req.body).Elem().Name()
	switch r := req.body.(type) {
	case *MetadataRequest:
		named := cl.ctl
		if cl.noneLeft > 0 { // election in progress: this answer names no controller
			cl.noneLeft--
			named = -1
		}
		res := &MetadataResponse{Version: r.Version, ControllerID: named}
		for id := int32(0); id < 3; id++ {
			res.AddBroker(cl.brokers[id].Addr(), id)
		}
		for p := 0; p < 3; p++ {
			leader := int32(1)
			if l, ok := cl.own[p]; ok && cl.c.Op == "DeleteRecords" {
				leader = l
			}
			res.AddTopicPartition(admTopic, int32(p), leader, []int32{leader}, []int32{leader}, []int32{}, ErrNoError)
		}
		cl.ev("meta", kv{"b": int(me), "ctl": int(cl.ctl), "named": int(named)})
		return res
	case *FindCoordinatorRequest:
		owner, known := cl.own[admGroupIndex(r.CoordinatorKey)]
		if !known {
			owner = 1
		}
		cl.ev("lookup", kv{"b": int(me), "item": admGroupIndex(r.CoordinatorKey), "owner": int(owner)})
		return &FindCoordinatorResponse{Version: r.Version, Coordinator: &Broker{id: owner, addr: cl.brokers[owner].Addr()}}
	}
	if cl.c.Fam == "ctl" {
		return cl.handleCtl(me, api, req)
	}
	return cl.handleSpread(me, api, req)
}

// ---------------------------------------------------------------- controller-bound

func (cl *admCluster) handleCtl(me int32, api string, req *request) encoderWithHeader {
	cl.k++
	kind, arg, place, none := "ack", 0, "-", 0 // beyond the script: the controller acknowledges
	if cl.k <= len(cl.c.Script) {
		s := cl.c.Script[cl.k-1]
		kind, arg, place = s[0].(string), int(s[1].(float64)), s[2].(string)
		if len(s) > 3 {
			none = int(s[3].(float64))
		}
	}
	before := cl.ctl
	code := 0
	if me != cl.ctl {
		// a broker that is not the controller refuses, whatever the script says
		kind, code = "nc", int(ErrNotController)
	} else {
		switch kind {
		case "nc":
			cl.ctl = int32(arg) // the controller steps down, broker arg takes over ...
			if none > 0 {
				cl.noneLeft = none // ... after an election: the next metadata answers name nobody
			}
			code = int(ErrNotController)
		case "err":
			code = arg
		}
	}
	ver := int(req.body.version())
	var res encoderWithHeader
	kerr := KError(code)
	switch r := req.body.(type) {
	case *CreateTopicsRequest:
		m := map[string]*TopicError{}
		if kind != "inc" {
			for topic := range r.TopicDetails {
				m[topic] = &TopicError{Err: kerr}
			}
		}
		res = &CreateTopicsResponse{Version: r.Version, TopicErrors: m}
	case *DeleteTopicsRequest:
		m := map[string]KError{}
		if kind != "inc" {
			for _, topic := range r.Topics {
				m[topic] = kerr
			}
		}
		res = &DeleteTopicsResponse{Version: r.Version, TopicErrorCodes: m}
	case *CreatePartitionsRequest:
		m := map[string]*TopicPartitionError{}
		if kind != "inc" {
			for topic := range r.TopicPartitions {
				m[topic] = &TopicPartitionError{Err: kerr}
			}
		}
		res = &CreatePartitionsResponse{TopicPartitionErrors: m}
	case *AlterPartitionReassignmentsRequest:
		ar := &AlterPartitionReassignmentsResponse{Version: r.Version}
		first := true
		for topic, parts := range r.blocks {
			var ps []int
			for p := range parts {
				ps = append(ps, int(p))
			}
			sort.Ints(ps)
			for _, p := range ps {
				pe := ErrNoError
				if kind == "err" && place == "part" && first {
					pe = kerr
				}
				first = false
				ar.AddError(topic, int32(p), pe, nil)
			}
		}
		if kind == "nc" || (kind == "err" && place != "part") {
			ar.ErrorCode = kerr // Kafka reports NOT_CONTROLLER at the top level
		}
		res = ar
	default:
		kind = "conn" // not a controller-bound admin request at all: no sensible answer
	}
	if kind == "conn" {
		res = admDropConn{}
	}
	cl.ev("req", kv{"b": int(me), "ctl": int(before), "after": int(cl.ctl), "api": api, "v": ver, "k": cl.k,
		"ans": kind, "code": code})
	return res
}

// ---------------------------------------------------------------- leader / coordinator-bound

func (cl *admCluster) handleSpread(me int32, api string, req *request) encoderWithHeader {
	cl.k++
	fault := cl.bfault[me]
	if fault == "" {
		fault = "none"
	}
	ans := "items"
	if fault != "none" {
		ans = fault
	}
	items := []int{}
	ver := int(req.body.version())
	var res encoderWithHeader
	codeOf := func(i int) KError { return KError(cl.itemv[i]) }
	switch r := req.body.(type) {
	case *DeleteRecordsRequest:
		dr := &DeleteRecordsResponse{Topics: map[string]*DeleteRecordsResponseTopic{}}
		for topic, t := range r.Topics {
			rt := &DeleteRecordsResponseTopic{Partitions: map[int32]*DeleteRecordsResponsePartition{}}
			for p := range t.PartitionOffsets {
				items = append(items, int(p))
				rt.Partitions[p] = &DeleteRecordsResponsePartition{LowWatermark: 1, Err: codeOf(int(p))}
			}
			if ans != "inc" {
				dr.Topics[topic] = rt
			}
		}
		res = dr
	case *DescribeGroupsRequest:
		dg := &DescribeGroupsResponse{}
		for _, g := range r.Groups {
			i := admGroupIndex(g)
			items = append(items, i)
			dg.Groups = append(dg.Groups, &GroupDescription{GroupId: g, Err: codeOf(i), State: "Stable", ProtocolType: "consumer", Protocol: "range"})
		}
		res = dg
	case *OffsetFetchRequest:
		// a version-faithful coordinator: the group has committed offsets for partitions 0..2;
		// from v2 on a null partition list means all of them and a group-level error is reported
		// at the top level; before v2 only the listed partitions are answered and a group-level
		// error is reported on each of them
		of := &OffsetFetchResponse{Version: r.Version}
		asked := r.partitions
		if asked == nil && r.Version >= 2 {
			asked = map[string][]int32{admTopic: {0, 1, 2}}
		}
		for topic, parts := range asked {
			for _, p := range parts {
				items = append(items, int(p))
				switch {
				case cl.c.Gerr != 0 && r.Version >= 2:
				case cl.c.Gerr != 0:
					of.AddBlock(topic, p, &OffsetFetchResponseBlock{Offset: -1, Err: KError(cl.c.Gerr)})
				default:
					of.AddBlock(topic, p, &OffsetFetchResponseBlock{Offset: 5, Err: codeOf(int(p))})
				}
			}
		}
		if cl.c.Gerr != 0 && r.Version >= 2 {
			of.Err = KError(cl.c.Gerr)
		}
		res = of
	case *DeleteGroupsRequest:
		dg := &DeleteGroupsResponse{GroupErrorCodes: map[string]KError{}}
		for _, g := range r.Groups {
			i := admGroupIndex(g)
			items = append(items, i)
			if ans != "inc" {
				dg.GroupErrorCodes[g] = codeOf(i)
			}
		}
		res = dg
	case *DescribeLogDirsRequest:
		// the item is this broker itself; its answer is recognisable by the path
		items = append(items, int(me))
		res = &DescribeLogDirsResponse{Version: r.Version, LogDirs: []DescribeLogDirsResponseDirMetadata{
			{ErrorCode: codeOf(int(me)), Path: admLogDirPath(int(me))}}}
	default:
		ans = "conn"
	}
	if ans == "conn" {
		res = admDropConn{}
	}
	sort.Ints(items)
	cl.ev("sreq", kv{"b": int(me), "api": api, "v": ver, "items": items, "ans": ans})
	return res
}

// ---------------------------------------------------------------- driver

func admClassify(err error) (string, int, string) {
	if err == nil {
		return "nil", 0, ""
	}
	text := err.Error()
	if len(text) > 120 {
		text = text[:120]
	}
	var te *TopicError
	var tpe *TopicPartitionError
	var ke KError
	var ra ErrReassignPartitions
	var rd ErrDeleteRecords
	switch {
	case errors.Is(err, ErrControllerNotAvailable):
		return "nocontroller", 0, text
	case errors.Is(err, ErrIncompleteResponse):
		return "incomplete", 0, text
	case errors.As(err, &te) && te != nil:
		return "topicerr", int(te.Err), text
	case errors.As(err, &tpe) && tpe != nil:
		return "tperr", int(tpe.Err), text
	case errors.As(err, &ke):
		return "kerr", int(ke), text
	case errors.As(err, &ra), errors.As(err, &rd):
		return "agg", 0, text
	}
	return "other", 0, text
}

type admResult struct {
	err      error
	reported []int
	status   string // "", "panic: ...", "hang"
}

func admGuard(fn func() (error, []int)) admResult {
	ch := make(chan admResult, 1)
	go func() {
		defer func() {
			if r := recover(); r != nil {
				ch <- admResult{status: fmt.Sprintf("panic: %v", r)}
			}
		}()
		err, rep := fn()
		ch <- admResult{err: err, reported: rep}
	}()
	select {
	case r := <-ch:
		return r
	case <-time.After(8 * time.Second):
		return admResult{status: "hang"}
	}
}

func admPairs(p [][]int) [][]int {
	if p == nil {
		return [][]int{}
	}
	return p
}

// runCase executes one case on the cluster and returns the recorded events
// (reset fields first). broken: the cluster must not be reused.
func (cl *admCluster) runCase(c *admCase, idx int) (kv, []admEvent, bool) {
	cl.mu.Lock()
	cl.c = c
	cl.k = 0
	cl.events = nil
	cl.ctl = int32(c.Init)
	if c.Fam != "ctl" {
		cl.ctl = 1
	}
	cl.own, cl.itemv, cl.bfault = map[int]int32{}, map[int]int{}, map[int32]string{}
	for _, p := range c.Own {
		cl.own[p[0]] = int32(p[1])
	}
	for _, p := range c.Itemv {
		cl.itemv[p[0]] = p[1]
	}
	for _, p := range c.Bfault {
		cl.bfault[int32(p[0].(float64))] = p[1].(string)
	}
	cl.mu.Unlock()

	var reset kv
	if c.Fam == "ctl" {
		script := c.Script
		if script == nil {
			script = [][]interface{}{}
		}
		reset = kv{"fam": "ctl", "src": c.Src, "op": c.Op, "kv": c.Kv, "max": c.Max, "init": c.Init, "pre": c.Pre, "script": script,
			"pred_att": c.Pred.Att, "pred_cls": c.Pred.Cls, "pred_code": c.Pred.Code}
	} else {
		bf := [][]interface{}{}
		for _, p := range c.Bfault {
			bf = append(bf, []interface{}{int(p[0].(float64)), p[1]})
		}
		reset = kv{"fam": "spread", "op": c.Op, "kv": c.Kv, "own": admPairs(c.Own), "itemv": admPairs(c.Itemv), "bfault": bf, "all": c.All, "gerr": c.Gerr}
	}

	conf := NewConfig()
	conf.ClientID = fmt.Sprintf("verif-c19-%d-%d", os.Getpid(), atomic.AddInt64(&admCaseSeq, 1))
	cl.mu.Lock()
	cl.clientID = conf.ClientID
	cl.mu.Unlock()
	conf.Version = admKafkaVersions[c.Kv]
	conf.Admin.Retry.Max = c.Max
	if c.Fam != "ctl" {
		conf.Admin.Retry.Max = 2
	}
	conf.Admin.Retry.Backoff = time.Millisecond
	conf.Admin.Timeout = time.Second
	conf.Metadata.Retry.Max = 1
	conf.Metadata.Retry.Backoff = time.Millisecond
	conf.Metadata.RefreshFrequency = 0
	conf.Net.DialTimeout = 2 * time.Second
	conf.Net.ReadTimeout = 2 * time.Second
	conf.Net.WriteTimeout = 2 * time.Second
	conf.Net.Proxy.Enable = true
	dialer := &admDialer{timeout: 2 * time.Second}
	conf.Net.Proxy.Dialer = dialer
	defer dialer.closeAll()
	seed := cl.brokers[int32((idx+int(vSeed()))%3)].Addr()

	var admin ClusterAdmin
	var setup admResult
	envTrouble := ""
	for try := 0; try < 4; try++ {
		setup = admGuard(func() (error, []int) {
			cl.mu.Lock()
			cl.noneLeft = 0
			cl.mu.Unlock()
			client, err := NewClient([]string{seed}, conf)
			if err != nil {
				return err, nil
			}
			a, err := NewClusterAdminFromClient(client)
			if err != nil {
				_ = client.Close()
				return err, nil
			}
			admin = a
			if c.Fam == "ctl" && (c.Pre == "empty" || c.Pre == "none") {
				// a metadata refresh during a controller election (what the background updater
				// does) wipes the cached controller before the operation starts
				cl.mu.Lock()
				cl.noneLeft = 1
				cl.mu.Unlock()
				if err := client.RefreshMetadata(); err != nil {
					return fmt.Errorf("harness: wiping refresh failed: %v", err), nil
				}
			}
			return nil, nil
		})
		if setup.status == "" && setup.err == nil {
			break
		}
		// is it the environment (loopback connect impossible) or the code under test?
		envTrouble = ""
		if c, err := net.DialTimeout("tcp", seed, 2*time.Second); err != nil {
			envTrouble = " [environment: plain dial to the seed broker fails: " + err.Error() + "]"
		} else {
			_ = c.Close()
		}
		if setup.status == "hang" {
			break
		}
		time.Sleep(50 * time.Millisecond)
	}
	broken := false
	var out admResult
	var filedMu sync.Mutex
	filed := [][]int{} // DescribeLogDirs: [key of the returned map, broker the dir came from]
	if setup.status != "" || setup.err != nil {
		// the admin could not be created: recorded as the operation's result
		out = admResult{status: "setup: " + setup.status + fmt.Sprint(setup.err) + envTrouble}
		broken = true
	} else {
		cl.mu.Lock()
		cl.events = nil // requests of the client bootstrap are not part of the operation
		cl.k = 0
		cl.noneLeft = 0
		if c.Fam == "ctl" && c.Pre == "none" {
			cl.noneLeft = 1 // the election is still going on when the operation looks the controller up
		}
		cl.mu.Unlock()
		out = admGuard(func() (error, []int) { return admInvoke(admin, c, &filedMu, &filed) })
		if out.status == "hang" {
			broken = true
		} else {
			cr := admGuard(func() (error, []int) { return admin.Close(), nil })
			if cr.status == "hang" {
				broken = true
			}
		}
	}

	cl.mu.Lock()
	cl.c = nil
	evs := cl.events
	n := cl.k
	cl.events = nil
	cl.mu.Unlock()

	cls, code, text := admClassify(out.err)
	if out.status != "" {
		cls, code, text = strings.SplitN(out.status, ":", 2)[0], 0, out.status
	}
	rep := out.reported
	if rep == nil {
		rep = []int{}
	}
	sort.Ints(rep)
	filedMu.Lock()
	filedCopy := append([][]int{}, filed...)
	filedMu.Unlock()
	evs = append(evs, admEvent{"ret", kv{"cls": cls, "code": code, "text": text, "n": n, "reported": rep, "filed": filedCopy}})
	return reset, evs, broken
}

func admInvoke(admin ClusterAdmin, c *admCase, filedMu *sync.Mutex, filed *[][]int) (error, []int) {
	items := []int{}
	for _, p := range c.Own {
		items = append(items, p[0])
	}
	switch c.Op {
	case "CreateTopic":
		return admin.CreateTopic(admTopic, &TopicDetail{NumPartitions: 1, ReplicationFactor: 1}, false), nil
	case "DeleteTopic":
		return admin.DeleteTopic(admTopic), nil
	case "CreatePartitions":
		return admin.CreatePartitions(admTopic, 3, nil, false), nil
	case "AlterPartitionReassignments":
		return admin.AlterPartitionReassignments(admTopic, [][]int32{{1, 2}, {2, 3}}), nil
	case "DeleteRecords":
		offs := map[int32]int64{}
		for _, i := range items {
			offs[int32(i)] = 10
		}
		return admin.DeleteRecords(admTopic, offs), nil
	case "DescribeConsumerGroups":
		var gs []string
		for _, i := range items {
			gs = append(gs, admGroupName(i))
		}
		descs, err := admin.DescribeConsumerGroups(gs)
		rep := []int{}
		for _, d := range descs {
			if d != nil && d.Err != ErrNoError {
				rep = append(rep, admGroupIndex(d.GroupId))
			}
		}
		return err, rep
	case "ListConsumerGroupOffsets":
		var ps []int32
		for _, i := range items {
			ps = append(ps, int32(i))
		}
		tps := map[string][]int32{admTopic: ps}
		if c.All {
			tps = nil // every partition the group has offsets for
		}
		resp, err := admin.ListConsumerGroupOffsets(admGroupName(0), tps)
		rep := []int{}
		if resp != nil {
			for _, i := range items {
				if b := resp.GetBlock(admTopic, int32(i)); resp.Err != ErrNoError || (b != nil && b.Err != ErrNoError) {
					rep = append(rep, i)
				}
			}
		}
		return err, rep
	case "DeleteConsumerGroup":
		return admin.DeleteConsumerGroup(admGroupName(0)), nil
	case "DescribeLogDirs":
		var ids []int32
		for _, i := range items {
			ids = append(ids, int32(i))
		}
		dirs, err := admin.DescribeLogDirs(ids)
		rep := []int{}
		var keys []int
		for k := range dirs {
			keys = append(keys, int(k))
		}
		sort.Ints(keys)
		filedMu.Lock()
		for _, k := range keys {
			for _, d := range dirs[int32(k)] {
				o := admLogDirOrigin(d.Path)
				*filed = append(*filed, []int{k, o})
				if d.ErrorCode != ErrNoError {
					rep = append(rep, o)
				}
			}
		}
		filedMu.Unlock()
		return err, rep
	}
	return fmt.Errorf("harness: unknown op %s", c.Op), nil
}

func TestVerifAdmin(t *testing.T) {
	lines := vReadLines(t, "VERIF_CASES")
	rec := vOpenRec(t, "trace.ndjson")
	defer rec.Close()
	rep := &admReporter{}

	cases := make([]*admCase, len(lines))
	for i, line := range lines {
		c := &admCase{}
		if err := json.Unmarshal([]byte(line), c); err != nil {
			t.Fatalf("bad case %q: %v", line, err)
		}
		cases[i] = c
	}

	// self-test of the brokers' strictness: a client with another client id is turned away and
	// leaves no event behind
	{
		cl, err := newAdmCluster(rep)
		if err != nil {
			t.Fatal(err)
		}
		cl.mu.Lock()
		cl.c, cl.clientID = &admCase{Fam: "ctl", Op: "CreateTopic"}, "verif-c19-selftest"
		cl.mu.Unlock()
		conf := NewConfig()
		conf.ClientID = "somebody-else"
		conf.Metadata.Retry.Max = 0
		conf.Net.DialTimeout, conf.Net.ReadTimeout = 2*time.Second, 2*time.Second
		if c, err := NewClient([]string{cl.brokers[0].Addr()}, conf); err == nil {
			_ = c.Close()
			t.Fatalf("harness self-test: a foreign client was served")
		}
		cl.mu.Lock()
		n := len(cl.events)
		cl.mu.Unlock()
		if n != 0 || atomic.LoadInt64(&admForeign) == 0 {
			t.Fatalf("harness self-test: foreign client left %d events, turned away %d", n, atomic.LoadInt64(&admForeign))
		}
		atomic.StoreInt64(&admForeign, 0)
		cl.close()
	}

	workers := vEnvInt("VERIF_ADMIN_WORKERS", 8)
	var flush sync.Mutex
	counts := map[string]int{}
	var samples []interface{}
	setupFailures := 0
	setupTexts := []string{}
	next := make(chan int, len(cases))
	for i := range cases {
		next <- i
	}
	close(next)
	var wg sync.WaitGroup
	for w := 0; w < workers; w++ {
		wg.Add(1)
		go func() {
			defer wg.Done()
			cl, err := newAdmCluster(rep)
			if err != nil {
				t.Errorf("%v", err)
				return
			}
			for i := range next {
				c := cases[i]
				reset, evs, broken := cl.runCase(c, i)
				flush.Lock()
				if last := evs[len(evs)-1]; last.f["cls"] == "setup" {
					// NewClusterAdmin itself failed: recorded as the operation's result (no request
					// reached a broker); the runner turns environment trouble into "inconclusive"
					setupFailures++
					setupTexts = append(setupTexts, fmt.Sprint(last.f["text"]))
				}
				rec.Reset(reset)
				for _, e := range evs {
					rec.Ev(e.ev, e.f)
				}
				counts[c.Fam+"/"+c.Op]++
				if len(samples) < 4 && len(evs) >= 3 && i%7 == 0 {
					s := []interface{}{reset}
					for _, e := range evs {
						s = append(s, kv{"ev": e.ev, "f": e.f})
					}
					samples = append(samples, s)
				}
				flush.Unlock()
				if broken {
					// leave the hung goroutines and their brokers behind, continue on fresh ones
					if cl, err = newAdmCluster(rep); err != nil {
						t.Errorf("%v", err)
						return
					}
				}
			}
			cl.close()
		}()
	}
	wg.Wait()
	vWriteJSON(t, "summary.json", kv{"cases": len(cases), "executed": counts, "setup_failures": setupFailures, "setup_texts": setupTexts,
		"mock_complaints": rep.msgs, "foreign_requests_turned_away": atomic.LoadInt64(&admForeign), "samples": samples})
}
