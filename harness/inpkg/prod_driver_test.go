//go:build verif
// +build verif

package sarama

// Producer scenario driver (bindings A and B of DESIGN.md): executes a scenario - configuration,
// per-request fault plans for the simulated cluster, a step list (submit / wait / release /
// leader move / close) and optional hook gates - against the REAL AsyncProducer or SyncProducer
// and records the observable events for spec/ProducerObsTrace.tla.

import (
	"encoding/json"
	"fmt"
	"os"
	"strings"
	"sync"
	"sync/atomic"
	"testing"
	"time"
)

type prodCfg struct {
	Idem         bool    `json:"idem"`
	RetryMax     int     `json:"retryMax"`
	FlushMsgs    int     `json:"flushMsgs"`
	FlushFreqMs  int     `json:"flushFreqMs"`
	FlushBytes   int     `json:"flushBytes"`
	FlushMaxMsgs int     `json:"flushMaxMsgs"`
	MaxMsgBytes  int     `json:"maxMsgBytes"`
	Leaders      []int32 `json:"leaders"` // partition -> broker id (1-based); 0 = leaderless
	NBrokers     int     `json:"nbrokers"`
	Version      string  `json:"version"`
	Acks         string  `json:"acks"` // "" or local, all, none
	Codec        int     `json:"codec"`
	LogAppend    bool    `json:"logAppend"` // the topic uses LogAppendTime: produce responses carry the broker's append time
	Partitioner  string  `json:"partitioner"`
	Interceptors int     `json:"interceptors"`
	ReadTimeout  int     `json:"readTimeoutMs"`
	BackoffMs    int     `json:"backoffMs"`
	Sync         bool    `json:"sync"`
	MaxReqSize   int     `json:"maxReqSize"`
	InitPidFault string  `json:"initPidFault"`
	IDBase0      bool    `json:"idBase0"` // broker ids start at 0 instead of 1
	GrowIc       int     `json:"growIc"`  // > 0: the first interceptor appends this many bytes to the value
	PanicIc      int     `json:"panicIc"` // 1-based index of an interceptor that panics after logging (0 = none)
	IcKind       string  `json:"icKind"`  // dynamic type of the interceptors: "" pointer (default), "value" struct value, "func" func adapter
}

type prodStep struct {
	Op     string `json:"op"`
	ID     int    `json:"id"`
	Part   int    `json:"part"`
	N      int    `json:"n"`
	To     int    `json:"to"`
	From   int    `json:"from"` // resubmit: id of the returned message whose OBJECT is submitted again (as message `id`)
	Name   string `json:"name"`
	Key    string `json:"key"`
	Size   int    `json:"size"`
	Ms     int    `json:"ms"`
	Hdrs   int    `json:"hdrs"`
	BadEnc bool   `json:"badenc"`
	NilVal bool   `json:"nilval"` // tombstone: nil Value, identity carried by the key
	Ts     int    `json:"ts"`     // > 0: the application supplies the timestamp simT0 + ts ms
}

type vBadEncoder struct{}

func (vBadEncoder) Encode() ([]byte, error) { return nil, fmt.Errorf("verif: encoder failure") }
func (vBadEncoder) Length() int             { return 5 }

type prodGate struct {
	Name    string `json:"name"`
	Point   string `json:"point"`
	Flags   string `json:"flags"`   // "", none, syn, fin
	Retries int    `json:"retries"` // -1 any
	Part    int    `json:"part"`    // -1 any
	Hwm     int    `json:"hwm"`     // -1 any, 0 = hwm 0, 1 = hwm > 0 (pp.recv only)
	Nth     int    `json:"nth"`     // fire on the n-th match (1 = first)
	MinArg  int    `json:"minArg"`  // hooks whose first argument is an int (rh.loop: queue length): fire when arg >= MinArg
}

type prodScenario struct {
	Name   string              `json:"name"`
	Family string              `json:"family"`
	Cfg    prodCfg             `json:"cfg"`
	Plans  map[string]*simPlan `json:"plans"`
	Steps  []prodStep          `json:"steps"`
	Gates  []prodGate          `json:"gates"`
	// conducted replay: every internal step of a behaviour of spec/Producer.tla, followed at the hook points by the
	// conductor (prod_driver_conduct_test.go) when the step list reaches op "conduct"
	Conduct []condStep `json:"conduct"`
	// conducted scenarios: a submission re-uses a message OBJECT the producer has already handed back on Successes()/Errors()
	// (when there is one): to the producer it must be a new message like any other
	Recycle bool `json:"recycle"`
}

type gateState struct {
	g       prodGate
	matches int
	arrived chan struct{}
	release chan struct{}
	fired   bool
}

const (
	vWait     = 4 * time.Second
	vGateOpen = 5 * time.Second
	vCloseMax = 8 * time.Second
)

func errClass(err error) string {
	if err == nil {
		return ""
	}
	if ke, ok := err.(KError); ok {
		return fmt.Sprintf("KError(%d)", int16(ke))
	}
	s := err.Error()
	if len(s) > 90 {
		s = s[:90]
	}
	return s
}

func msgID(m *ProducerMessage) int {
	if m == nil {
		return 0
	}
	if id, ok := m.Metadata.(int); ok {
		return id
	}
	return 0
}

type vInterceptor struct {
	rec    *vRec
	chain  int
	c      *simCluster
	hdr    bool
	panics bool
	grow   int
}

func (i *vInterceptor) OnSend(m *ProducerMessage) {
	id := msgID(m)
	i.rec.Ev("intercept", kv{"chain": i.chain, "id": id})
	if i.hdr && id > 0 {
		h := RecordHeader{Key: []byte(fmt.Sprintf("ic%d", i.chain)), Value: []byte("x")}
		m.Headers = append(m.Headers, h)
	}
	if i.grow > 0 && id > 0 {
		if b, err := m.Value.Encode(); err == nil {
			m.Value = StringEncoder(string(b) + strings.Repeat("g", i.grow))
		}
	}
	if i.panics {
		panic("verif: interceptor panic")
	}
}

// the same interceptor behind other dynamic types (a struct value with value receivers, a func adapter):
// the producer must treat an interceptor alike whatever its dynamic type is
type vValInterceptor struct{ p *vInterceptor }

func (i vValInterceptor) OnSend(m *ProducerMessage) { i.p.OnSend(m) }

type vFuncInterceptor func(*ProducerMessage)

func (f vFuncInterceptor) OnSend(m *ProducerMessage) { f(m) }

func vWrapIc(kind string, p *vInterceptor) ProducerInterceptor {
	switch kind {
	case "value":
		return vValInterceptor{p}
	case "func":
		return vFuncInterceptor(p.OnSend)
	}
	return p
}

type vPartitioner struct {
	inner   Partitioner
	rec     *vRec
	leaders []int32 // scenario's initial leaders (0 = leaderless); static in the routing families
}

// the partition a choice denotes: index into the list the producer offered - all partitions, or
// only the writable ones (those with a leader); -1 when it cannot be attributed
func (p *vPartitioner) partitionOf(choice, n int32) int {
	var all, writable []int
	for i, l := range p.leaders {
		all = append(all, i)
		if l > 0 {
			writable = append(writable, i)
		}
	}
	if choice < 0 || choice >= n {
		return -1
	}
	if int(n) == len(all) && int(n) == len(writable) {
		return all[choice]
	}
	if int(n) == len(writable) {
		return writable[choice]
	}
	if int(n) == len(all) {
		return all[choice]
	}
	return -1
}

func (p *vPartitioner) Partition(m *ProducerMessage, n int32) (int32, error) {
	c, err := p.inner.Partition(m, n)
	p.rec.Ev("chose", kv{"id": msgID(m), "choice": int(c), "n": int(n), "part": p.partitionOf(c, n), "err": errClass(err)})
	return c, err
}
func (p *vPartitioner) RequiresConsistency() bool { return p.inner.RequiresConsistency() }

// internal (hook-level) events go to a second file, validated softly against the
// implementation-shaped model of the partition worker (spec/PpConfTrace.tla)
var vInternalRec *vRec

func runProducerScenario(t testing.TB, rec *vRec, sc *prodScenario) {
	rec = rec.Sub()
	var irec *vRec
	if vInternalRec != nil {
		irec = vInternalRec.Sub()
		irec.Reset(kv{"name": sc.Name})
	} // scoped to this scenario: stragglers of an abandoned run cannot pollute later traces
	cfgv := sc.Cfg
	if cfgv.NBrokers == 0 {
		cfgv.NBrokers = 1
	}
	if cfgv.Version == "" {
		cfgv.Version = "0.11.0.0"
	}
	if cfgv.ReadTimeout == 0 {
		// a short read timeout only where the script needs the client to time out (a request that is
		// never answered); everywhere else it is long, so that a held request on a slow machine can
		// never turn into an unscripted connection-level failure
		cfgv.ReadTimeout = 8000
		for _, p := range sc.Plans {
			if p != nil && strings.HasPrefix(p.Conn, "silence") {
				cfgv.ReadTimeout = 250
			}
		}
		if cfgv.InitPidFault == "silence" {
			cfgv.ReadTimeout = 250
		}
	}
	if cfgv.Partitioner == "" {
		cfgv.Partitioner = "manual"
	}
	if cfgv.Acks == "" {
		cfgv.Acks = "local"
	}
	if cfgv.Idem {
		cfgv.Acks = "all"
	}
	maxMsgBytes := cfgv.MaxMsgBytes
	if maxMsgBytes == 0 {
		maxMsgBytes = 1000000
	}
	rec.Reset(kv{"name": sc.Name, "family": sc.Family, "idem": cfgv.Idem, "retryMax": cfgv.RetryMax, "flushMsgs": cfgv.FlushMsgs,
		"flushFreqMs": cfgv.FlushFreqMs, "flushMaxMsgs": cfgv.FlushMaxMsgs, "maxMsgBytes": maxMsgBytes, "nparts": len(cfgv.Leaders),
		"nbrokers": cfgv.NBrokers, "acks": cfgv.Acks, "codec": cfgv.Codec, "partitioner": cfgv.Partitioner,
		"interceptors": cfgv.Interceptors, "sync": cfgv.Sync, "maxReqSize": cfgv.MaxReqSize, "version": cfgv.Version})

	if len(sc.Conduct) > 0 {
		// quiescence detection of the conductor: bytes in flight on the loopback connections are counted
		condPairs.Range(func(k, v interface{}) bool { condPairs.Delete(k); return true })
		atomic.StoreInt32(&condTrack, 1)
		defer atomic.StoreInt32(&condTrack, 0)
	}
	c := newSimCluster(t, rec, cfgv.NBrokers, cfgv.Leaders)
	defer c.Close()
	if cfgv.IDBase0 {
		c.SetIDBase(0)
	}
	for k, p := range sc.Plans {
		var n int
		fmt.Sscanf(k, "%d", &n)
		c.plans[n] = p
	}
	c.initPidFault = cfgv.InitPidFault
	c.logAppend = cfgv.LogAppend

	// gates
	gates := map[string]*gateState{}
	var gmu sync.Mutex
	for _, g := range sc.Gates {
		if g.Nth == 0 {
			g.Nth = 1
		}
		gates[g.Name] = &gateState{g: g, arrived: make(chan struct{}), release: make(chan struct{})}
	}
	var hookCalls int64
	var cd *conductor
	if len(sc.Conduct) > 0 {
		cd = newConductor(rec, c, sc.Conduct, cfgv.IDBase0)
		defer cd.releaseAll()
	}
	if len(gates) > 0 || irec != nil || cd != nil {
		verifHook = func(point string, args ...interface{}) {
			atomic.AddInt64(&hookCalls, 1)
			if irec != nil {
				switch point {
				case "pp.recv":
					if m, ok := args[0].(*ProducerMessage); ok {
						h, _ := args[1].(int)
						irec.Ev("pp_recv", kv{"part": int(m.Partition), "id": msgID(m), "retries": m.retries, "fin": m.flags&fin != 0, "hwm": h})
					}
				case "bp.recv":
					if m, ok := args[0].(*ProducerMessage); ok && os.Getenv("VERIF_DEBUG_HOOKS") != "" {
						irec.Ev("bp_recv", kv{"part": int(m.Partition), "id": msgID(m), "retries": m.retries, "flags": int(m.flags)})
					}
				case "pp.flush":
					pt, _ := args[1].(int32)
					lv, _ := args[2].(int)
					irec.Ev("pp_flush", kv{"part": int(pt), "level": lv})
				}
			}
			if cd != nil {
				cd.hook(point, args...)
			}
			if len(gates) == 0 {
				return
			}
			var m *ProducerMessage
			hwm := -1
			if len(args) > 0 {
				m, _ = args[0].(*ProducerMessage)
			}
			if point == "pp.recv" && len(args) > 1 {
				hwm, _ = args[1].(int)
			}
			var hit *gateState
			gmu.Lock()
			for _, gs := range gates {
				g := gs.g
				if gs.fired || g.Point != point {
					continue
				}
				if m != nil {
					if g.Flags == "fin" && m.flags&fin == 0 || g.Flags == "syn" && m.flags&syn == 0 || g.Flags == "none" && m.flags != 0 {
						continue
					}
					if g.Retries >= 0 && m.retries != g.Retries {
						continue
					}
					if g.Part >= 0 && int(m.Partition) != g.Part {
						continue
					}
				}
				if g.Hwm == 0 && hwm != 0 || g.Hwm == 1 && hwm <= 0 {
					continue
				}
				if g.MinArg > 0 {
					if n, ok := args[0].(int); !ok || n < g.MinArg {
						continue
					}
				}
				gs.matches++
				if gs.matches == g.Nth {
					gs.fired = true
					hit = gs
					break
				}
			}
			gmu.Unlock()
			if hit != nil {
				rec.Ev("gate", kv{"name": hit.g.Name, "point": point})
				close(hit.arrived)
				select {
				case <-hit.release:
				case <-time.After(vGateOpen): // fail-open: a gate can delay, never hang, the system
					rec.Ev("gate_timeout", kv{"name": hit.g.Name})
				}
			}
		}
		defer func() { verifHook = nil }()
	}

	config := NewConfig()
	config.ClientID = c.clientID
	v, err := ParseKafkaVersion(cfgv.Version)
	if err != nil {
		t.Fatalf("bad version %q", cfgv.Version)
	}
	config.Version = v
	config.Producer.Return.Successes = true
	config.Producer.Return.Errors = true
	config.Producer.Retry.Max = cfgv.RetryMax
	config.Producer.Retry.Backoff = time.Duration(cfgv.BackoffMs) * time.Millisecond
	config.Producer.Flush.Messages = cfgv.FlushMsgs
	config.Producer.Flush.Bytes = cfgv.FlushBytes
	config.Producer.Flush.Frequency = time.Duration(cfgv.FlushFreqMs) * time.Millisecond
	config.Producer.Flush.MaxMessages = cfgv.FlushMaxMsgs
	config.Producer.MaxMessageBytes = maxMsgBytes
	config.Producer.Compression = CompressionCodec(cfgv.Codec)
	switch cfgv.Acks {
	case "none":
		config.Producer.RequiredAcks = NoResponse
	case "all":
		config.Producer.RequiredAcks = WaitForAll
	default:
		cfgv.Acks = "local"
		config.Producer.RequiredAcks = WaitForLocal
	}
	config.Net.ReadTimeout = time.Duration(cfgv.ReadTimeout) * time.Millisecond
	config.Net.DialTimeout = 500 * time.Millisecond
	config.Net.WriteTimeout = 500 * time.Millisecond
	config.Metadata.Retry.Max = 1
	config.Metadata.Retry.Backoff = 5 * time.Millisecond
	config.Metadata.RefreshFrequency = 0
	if cfgv.Idem {
		config.Producer.Idempotent = true
		config.Producer.RequiredAcks = WaitForAll
		config.Net.MaxOpenRequests = 1
	}
	switch cfgv.Partitioner {
	case "manual":
		config.Producer.Partitioner = NewManualPartitioner
	case "hash":
		config.Producer.Partitioner = func(topic string) Partitioner { return &vPartitioner{NewHashPartitioner(topic), rec, cfgv.Leaders} }
	case "rr":
		config.Producer.Partitioner = func(topic string) Partitioner {
			return &vPartitioner{NewRoundRobinPartitioner(topic), rec, cfgv.Leaders}
		}
	case "random":
		config.Producer.Partitioner = func(topic string) Partitioner { return &vPartitioner{NewRandomPartitioner(topic), rec, cfgv.Leaders} }
	}
	for i := 0; i < cfgv.Interceptors; i++ {
		config.Producer.Interceptors = append(config.Producer.Interceptors, vWrapIc(cfgv.IcKind, &vInterceptor{rec: rec, chain: i + 1, c: c, hdr: v.IsAtLeast(V0_11_0_0), panics: cfgv.PanicIc == i+1, grow: map[bool]int{true: cfgv.GrowIc}[i == 0]}))
	}
	if cfgv.MaxReqSize > 0 {
		old := MaxRequestSize
		MaxRequestSize = int32(cfgv.MaxReqSize)
		defer func() { MaxRequestSize = old }()
	}
	vUseDialer(config)
	if cd != nil {
		config.Net.Proxy.Dialer = condDialer{vDialer{timeout: config.Net.DialTimeout}}
	}
	if err := config.Validate(); err != nil {
		rec.Ev("skip", kv{"why": "config invalid: " + err.Error()})
		return
	}

	type newRes struct {
		p   AsyncProducer
		err error
	}
	nch := make(chan newRes, 1)
	go func() {
		defer func() {
			if r := recover(); r != nil {
				rec.Ev("panic", kv{"msg": fmt.Sprintf("NewAsyncProducer: %v", r), "stack": ""})
				nch <- newRes{nil, fmt.Errorf("panic")}
			}
		}()
		p, err := NewAsyncProducer(c.Addrs(), config)
		nch <- newRes{p, err}
	}()
	var prod AsyncProducer
	select {
	case r := <-nch:
		if r.err != nil {
			rec.Ev("skip", kv{"why": "producer not created: " + errClass(r.err)})
			return
		}
		prod = r.p
	case <-time.After(vCloseMax):
		rec.Ev("skip", kv{"why": "producer creation timed out"})
		return
	}

	var wg sync.WaitGroup
	var outcomes int64
	outcomeCh := make(chan struct{}, 1024)
	// the message objects sarama handed back (op resubmit sends such an object again)
	var retMu sync.Mutex
	returned := map[int]*ProducerMessage{}
	recycled := map[int]bool{}
	wg.Add(2)
	go func() {
		defer wg.Done()
		for m := range prod.Successes() {
			retMu.Lock()
			returned[msgID(m)] = m
			retMu.Unlock()
			rec.Ev("success", kv{"id": msgID(m), "part": int(m.Partition), "off": int(m.Offset)})
			atomic.AddInt64(&outcomes, 1)
			select {
			case outcomeCh <- struct{}{}:
			default:
			}
		}
		rec.Ev("succ_closed", nil)
	}()
	go func() {
		defer wg.Done()
		for e := range prod.Errors() {
			retMu.Lock()
			returned[msgID(e.Msg)] = e.Msg
			retMu.Unlock()
			rec.Ev("error", kv{"id": msgID(e.Msg), "err": errClass(e.Err)})
			atomic.AddInt64(&outcomes, 1)
			select {
			case outcomeCh <- struct{}{}:
			default:
			}
		}
		rec.Ev("err_closed", nil)
	}()

	closed := false
	doClose := func(async bool) {
		if closed {
			return
		}
		closed = true
		if cd != nil {
			// a conducted scenario parks goroutines at hooks and holds requests: all of that ends before Close is called
			cd.releaseAll()
			c.LiftHolds()
		}
		rec.Ev("close_call", kv{"async": async})
		done := make(chan struct{})
		go func() {
			if async {
				prod.AsyncClose()
				wg.Wait()
			} else {
				// the drainers keep servicing the channels; Close() itself also drains
				prod.AsyncClose()
				wg.Wait()
			}
			close(done)
		}()
		// Close was called mid-flight: the brokers now answer whatever they were holding (a held
		// request must not turn into a client-side read timeout)
		select {
		case <-done:
		case <-time.After(30 * time.Millisecond):
			for n := range sc.Plans {
				var k int
				fmt.Sscanf(n, "%d", &k)
				c.Release(k)
			}
			// ... and the harness lets go of every goroutine it is holding at a gate (a gate is the
			// harness blocking sarama, Close may rightly wait for it)
			for _, gs := range gates {
				select {
				case <-gs.release:
				default:
					close(gs.release)
				}
			}
		}
		if vAwait(done, vCloseMax) {
			rec.Ev("close_ret", nil)
		} else {
			rec.Ev("hang", kv{"what": "close"})
		}
	}

	stepWait := func(st prodStep) time.Duration {
		if st.Ms > 0 {
			return time.Duration(st.Ms) * time.Millisecond
		}
		return vWait
	}
	waitOutcomes := func(n int, d time.Duration) bool {
		deadline := time.After(d)
		for atomic.LoadInt64(&outcomes) < int64(n) {
			select {
			case <-outcomeCh:
			case <-time.After(20 * time.Millisecond):
			case <-deadline:
				return false
			}
		}
		return true
	}

	conducting := false
	var pendingSends []chan struct{}
	doSubmit := func(st prodStep) {
		size := st.Size
		val := fmt.Sprintf("v%d|", st.ID)
		if size > len(val) {
			val += strings.Repeat("x", size-len(val))
		}
		m := &ProducerMessage{Topic: simTopic, Partition: int32(st.Part), Value: StringEncoder(val), Metadata: st.ID}
		recycledFrom := 0
		if sc.Recycle {
			retMu.Lock()
			for from, old := range returned {
				if from > 0 && !recycled[from] && (recycledFrom == 0 || from < recycledFrom) && old != nil {
					recycledFrom = from
				}
			}
			if recycledFrom > 0 {
				recycled[recycledFrom] = true
				m = returned[recycledFrom]
				m.Metadata, m.Partition, m.Key, m.Headers, m.Value, m.Timestamp = st.ID, int32(st.Part), nil, nil, StringEncoder(val), time.Time{}
			}
			retMu.Unlock()
		}
		sub := &simSubmitted{value: []byte(val), tsMs: -1}
		if cfgv.GrowIc > 0 && cfgv.Interceptors > 0 {
			sub.value = []byte(val + strings.Repeat("g", cfgv.GrowIc))
		}
		if st.BadEnc {
			m.Value = vBadEncoder{}
		}
		if st.Ts > 0 && v.IsAtLeast(V0_10_0_0) {
			m.Timestamp = simT0.Add(time.Duration(st.Ts) * time.Millisecond)
			sub.tsMs = m.Timestamp.UnixNano() / int64(time.Millisecond)
		}
		if st.NilVal {
			m.Value = nil
			sub.value = nil
			st.Key = fmt.Sprintf("k%d", st.ID)
		}
		if st.Key != "" {
			m.Key = StringEncoder(st.Key)
			sub.key = []byte(st.Key)
		}
		for h := 0; h < st.Hdrs; h++ {
			hd := RecordHeader{Key: []byte(fmt.Sprintf("h%d", h)), Value: []byte(fmt.Sprintf("hv%d", st.ID))}
			m.Headers = append(m.Headers, hd)
			sub.hdrs = append(sub.hdrs, hd)
		}
		if v.IsAtLeast(V0_11_0_0) {
			for i := 0; i < cfgv.Interceptors; i++ {
				sub.hdrs = append(sub.hdrs, RecordHeader{Key: []byte(fmt.Sprintf("ic%d", i+1)), Value: []byte("x")})
			}
		}
		c.mu.Lock()
		c.submitted[st.ID] = sub
		c.mu.Unlock()
		if recycledFrom > 0 {
			rec.Ev("submit", kv{"id": st.ID, "part": st.Part, "keyed": st.Key != "", "size": len(val) + len(st.Key), "resubmitted_object_of": recycledFrom})
		} else {
			rec.Ev("submit", kv{"id": st.ID, "part": st.Part, "keyed": st.Key != "", "size": len(val) + len(st.Key)})
		}
		sent := make(chan struct{})
		go func() { prod.Input() <- m; close(sent) }()
		if conducting {
			// the conductor may be holding the dispatcher: acceptance is awaited after the conducted part
			pendingSends = append(pendingSends, sent)
			return
		}
		if !vAwait(sent, vWait) {
			rec.Ev("hang", kv{"what": "submit"})
		}
	}
	submittedIDs := map[int]bool{}
	if cd != nil {
		cd.submit = func(id, part int) {
			submittedIDs[id] = true
			doSubmit(prodStep{Op: "submit", ID: id, Part: part})
		}
	}
	freeRunning := false
	for _, st := range sc.Steps {
		switch st.Op {
		case "submit":
			doSubmit(st)
		case "resubmit":
			// the application sends an object it got back on Successes()/Errors() again, as a new message
			var m *ProducerMessage
			for k := 0; k < 150 && m == nil; k++ {
				retMu.Lock()
				m = returned[st.From]
				retMu.Unlock()
				if m == nil {
					time.Sleep(20 * time.Millisecond)
				}
			}
			if m == nil {
				rec.Ev("unsteered", kv{"what": fmt.Sprintf("resubmit %d: message %d was never returned", st.ID, st.From)})
				m = &ProducerMessage{Topic: simTopic}
			}
			val := fmt.Sprintf("v%d|", st.ID)
			if st.Size > len(val) { // the re-used object carries a payload of another size
				val += strings.Repeat("y", st.Size-len(val))
			}
			m.Metadata = st.ID
			m.Partition = int32(st.Part)
			m.Key = nil
			m.Headers = nil
			m.Value = StringEncoder(val)
			m.Timestamp = time.Time{}
			rsub := &simSubmitted{value: []byte(val), tsMs: -1}
			if v.IsAtLeast(V0_11_0_0) {
				for i := 0; i < cfgv.Interceptors; i++ {
					rsub.hdrs = append(rsub.hdrs, RecordHeader{Key: []byte(fmt.Sprintf("ic%d", i+1)), Value: []byte("x")})
				}
			}
			c.mu.Lock()
			c.submitted[st.ID] = rsub
			c.mu.Unlock()
			rec.Ev("submit", kv{"id": st.ID, "part": st.Part, "keyed": false, "size": len(val), "resubmitted_object_of": st.From})
			sent := make(chan struct{})
			go func() { prod.Input() <- m; close(sent) }()
			if !vAwait(sent, vWait) {
				rec.Ev("hang", kv{"what": "submit"})
			}
		case "wait_req":
			d := stepWait(st)
			if freeRunning {
				d = time.Millisecond
			}
			if !c.WaitReq(st.N, d) {
				if !freeRunning {
					rec.Ev("unsteered", kv{"what": fmt.Sprintf("wait_req %d", st.N)})
				}
				freeRunning = true // the real pipeline left the behaviour: open all gates, keep validating
			}
		case "must_outcomes":
			// "eventually, without further input": the verdict is only taken when the process is
			// fully blocked (vAwait), never from wall-clock time alone
			dn := make(chan struct{})
			go func(n int) { waitOutcomes(n, 100*time.Second); close(dn) }(st.N)
			if !vAwait(dn, stepWait(st)) {
				rec.Ev("noreq", kv{"n": st.N, "ms": st.Ms})
			}
		case "must_outcomes_by":
			// a latency claim of the property ("sent once the trigger fires, without waiting for further input") where the
			// code under test is NOT expected to go quiet (a retry back-off keeps running): the bound is load-aware -
			// it expires only when this process itself made progress for that long; a starved machine gives no verdict
			b := vNewBound(stepWait(st))
			for {
				if waitOutcomes(st.N, 25*time.Millisecond) {
					break
				}
				if exp, starved := b.state(); exp {
					if waitOutcomes(st.N, time.Millisecond) {
						break
					}
					if starved {
						rec.Ev("unsteered", kv{"what": fmt.Sprintf("must_outcomes_by %d: machine starved, no verdict", st.N)})
					} else {
						rec.Ev("noreq", kv{"n": st.N, "ms": st.Ms})
					}
					break
				}
			}
		case "must_req":
			dn := make(chan struct{})
			go func(n int) { c.WaitReq(n, 100*time.Second); close(dn) }(st.N)
			if !vAwait(dn, stepWait(st)) {
				rec.Ev("noreq", kv{"n": st.N, "ms": st.Ms})
			}
		case "release":
			c.Release(st.N)
		case "wait_outcomes":
			if !waitOutcomes(st.N, stepWait(st)) {
				rec.Ev("unsteered", kv{"what": fmt.Sprintf("wait_outcomes %d", st.N)})
			}
		case "move":
			c.MoveLeader(int32(st.Part), int32(st.To))
		case "meta_fail":
			c.mu.Lock()
			c.metaFail = st.N
			c.mu.Unlock()
		case "sleep":
			time.Sleep(time.Duration(st.Ms) * time.Millisecond)
		case "wait_gate":
			if gs := gates[st.Name]; gs != nil {
				select {
				case <-gs.arrived:
				case <-time.After(vWait):
					rec.Ev("unsteered", kv{"what": "wait_gate " + st.Name})
				}
			}
		case "release_gate":
			if gs := gates[st.Name]; gs != nil {
				select {
				case <-gs.release:
				default:
					close(gs.release)
				}
			}
		case "conduct":
			if cd != nil {
				conducting = true
				cd.run()
				conducting = false
				// nothing is parked or held any more: every submission made meanwhile must be accepted
				for _, sent := range pendingSends {
					if !vAwait(sent, vWait) {
						rec.Ev("hang", kv{"what": "submit"})
					}
				}
				pendingSends = nil
				// whatever the behaviour had not submitted yet when it was left is submitted now (free-running)
				for _, cs := range sc.Conduct {
					if cs.K == "submit" && !submittedIDs[cs.ID] {
						cd.submit(cs.ID, cs.Part)
					}
				}
			}
		case "close":
			doClose(false)
		case "async_close":
			doClose(true)
		}
	}
	// release everything still held, then close (if the scenario has not done so)
	for _, gs := range gates {
		select {
		case <-gs.release:
		default:
			close(gs.release)
		}
	}
	for n := range sc.Plans {
		var k int
		fmt.Sscanf(n, "%d", &k)
		c.Release(k)
	}
	doClose(false)
	var logs [][]interface{}
	for p := range cfgv.Leaders {
		ids := c.Log(int32(p))
		if ids == nil {
			ids = []int{}
		}
		logs = append(logs, []interface{}{p, ids})
	}
	rec.Ev("fin", kv{"logs": logs, "hooks": int(atomic.LoadInt64(&hookCalls))})
}

func TestVerifProducer(t *testing.T) {
	lines := vReadLines(t, "VERIF_CASES")
	rec := vOpenRec(t, "trace.ndjson")
	defer rec.Close()
	vInstallPanicHandler(rec)
	defer func() { PanicHandler = nil }()
	if os.Getenv("VERIF_INTERNAL") != "" {
		vInternalRec = vOpenRec(t, "internal.ndjson")
		defer func() { vInternalRec.Close(); vInternalRec = nil }()
	}
	n := 0
	var samples []string
	for _, line := range lines {
		var sc prodScenario
		if err := json.Unmarshal([]byte(line), &sc); err != nil {
			t.Fatalf("bad scenario %q: %v", line, err)
		}
		if sc.Cfg.Sync {
			runSyncScenario(t, rec, &sc)
		} else {
			runProducerScenario(t, rec, &sc)
		}
		n++
		if len(samples) < 2 {
			samples = append(samples, line)
		}
	}
	vWriteJSON(t, "summary.json", kv{"scenarios": n, "samples": samples})
}
