//go:build verif
// +build verif

package sarama

// Common pieces of the verification harness. These files live in /verif/harness/inpkg
// and are compiled INTO package sarama through `go test -overlay`; nothing is copied
// into /repo.

import (
	"bufio"
	"encoding/json"
	"fmt"
	"math/rand"
	"net"
	"os"
	"path/filepath"
	"runtime"
	"strconv"
	"strings"
	"sync"
	"sync/atomic"
	"testing"
	"time"
)

// ---------------------------------------------------------------- environment

func vSeed() int64 {
	s, err := strconv.ParseInt(os.Getenv("VERIF_SEED"), 10, 64)
	if err != nil {
		return 1
	}
	return s
}

func vThorough() bool { return os.Getenv("VERIF_TIER") == "thorough" }

func vOutDir(t testing.TB) string {
	d := os.Getenv("VERIF_OUT")
	if d == "" {
		d = t.TempDir()
	}
	return d
}

func vEnvInt(name string, def int) int {
	if v, err := strconv.Atoi(os.Getenv(name)); err == nil {
		return v
	}
	return def
}

func vRand(salt int64) *rand.Rand { return rand.New(rand.NewSource(vSeed()*1000003 + salt)) }

// ---------------------------------------------------------------- recorder

// vRec writes NDJSON traces: one JSON object per line with the trace number "t", the
// index inside the trace "i" (both assigned under one mutex, at the caller's
// linearization point) and the event name "ev". A file holds many traces; every
// trace starts with a "reset" event and the file ends with an "end" event.
type vRec struct {
	mu     sync.Mutex
	f      *os.File
	w      *bufio.Writer
	t, i   int
	events int
	closed bool
	// scoped view (Sub): events are written through parent and only while the parent is still
	// in the trace this view was opened for - stragglers of an abandoned (hung) scenario can
	// therefore never leak events into the traces of later scenarios
	parent *vRec
	scope  int
}

// Sub returns a view of r for ONE scenario: call Reset on it first.
func (r *vRec) Sub() *vRec { return &vRec{parent: r, scope: -1} }

func vOpenRec(t testing.TB, name string) *vRec {
	f, err := os.Create(filepath.Join(vOutDir(t), name))
	if err != nil {
		t.Fatal(err)
	}
	return &vRec{f: f, w: bufio.NewWriterSize(f, 1<<20)}
}

type kv map[string]interface{}

func (r *vRec) emitLocked(ev string, fields kv) {
	if r.closed {
		return
	}
	r.i++
	r.events++
	var sb strings.Builder
	sb.WriteString(`{"t":`)
	sb.WriteString(strconv.Itoa(r.t))
	sb.WriteString(`,"i":`)
	sb.WriteString(strconv.Itoa(r.i))
	sb.WriteString(`,"ev":`)
	sb.WriteString(strconv.Quote(ev))
	if len(fields) > 0 {
		b, err := json.Marshal(fields)
		if err != nil {
			panic(err)
		}
		sb.WriteString(",")
		sb.Write(b[1 : len(b)-1])
	}
	sb.WriteString("}\n")
	r.w.WriteString(sb.String())
}

// Reset starts a new trace.
func (r *vRec) Reset(fields kv) int {
	if r.parent != nil {
		r.scope = r.parent.Reset(fields)
		return r.scope
	}
	r.mu.Lock()
	defer r.mu.Unlock()
	r.t++
	r.i = 0
	r.emitLocked("reset", fields)
	return r.t
}

// Ev records one event of the current trace.
func (r *vRec) Ev(ev string, fields kv) {
	if p := r.parent; p != nil {
		p.mu.Lock()
		if p.t == r.scope {
			p.emitLocked(ev, fields)
		}
		p.mu.Unlock()
		return
	}
	r.mu.Lock()
	r.emitLocked(ev, fields)
	r.mu.Unlock()
}

// EvDo records an event and runs fn while the recorder mutex is held, so that the
// event and the action it describes are atomic with respect to other recorded events.
func (r *vRec) EvDo(ev string, fields kv, fn func()) {
	if p := r.parent; p != nil {
		p.mu.Lock()
		if p.t == r.scope {
			p.emitLocked(ev, fields)
		}
		if fn != nil {
			fn()
		}
		p.mu.Unlock()
		return
	}
	r.mu.Lock()
	r.emitLocked(ev, fields)
	if fn != nil {
		fn()
	}
	r.mu.Unlock()
}

func (r *vRec) Close() {
	r.mu.Lock()
	defer r.mu.Unlock()
	if r.closed {
		return
	}
	r.i = 0
	r.t++
	r.emitLocked("end", nil)
	r.closed = true
	r.w.Flush()
	r.f.Close()
}

// vWriteJSON writes a small summary file next to the traces (counts the runner copies
// into the evidence file).
func vWriteJSON(t testing.TB, name string, v interface{}) {
	b, err := json.MarshalIndent(v, "", " ")
	if err != nil {
		t.Fatal(err)
	}
	if err := os.WriteFile(filepath.Join(vOutDir(t), name), b, 0o644); err != nil {
		t.Fatal(err)
	}
}

// vReadLines reads an NDJSON / line oriented input file handed over by the runner.
func vReadLines(t testing.TB, envName string) []string {
	p := os.Getenv(envName)
	if p == "" {
		t.Fatalf("%s not set", envName)
	}
	f, err := os.Open(p)
	if err != nil {
		t.Fatal(err)
	}
	defer f.Close()
	var out []string
	sc := bufio.NewScanner(f)
	sc.Buffer(make([]byte, 1<<20), 1<<26)
	for sc.Scan() {
		if s := strings.TrimSpace(sc.Text()); s != "" {
			out = append(out, s)
		}
	}
	if err := sc.Err(); err != nil {
		t.Fatal(err)
	}
	return out
}

func vSprintf(format string, a ...interface{}) string { return fmt.Sprintf(format, a...) }

// vInstallPanicHandler records panics that sarama's withRecover catches as events (clause
// no_panic) instead of letting them kill the process; goroutines sarama starts without
// withRecover still crash the process, which the runner maps to the same clause.
func vInstallPanicHandler(rec *vRec) {
	PanicHandler = func(v interface{}) {
		buf := make([]byte, 4096)
		buf = buf[:runtime.Stack(buf, false)]
		rec.Ev("panic", kv{"msg": fmt.Sprintf("%v", v), "stack": string(buf)})
	}
}

// vGoroutineStates returns a fingerprint of all goroutines (id, state, top function) and whether
// any goroutine other than the pollers is running, runnable or sleeping.
func vGoroutineStates() (string, bool) {
	buf := make([]byte, 1<<20)
	buf = buf[:runtime.Stack(buf, true)]
	var fp strings.Builder
	active := false
	blocks := strings.Split(string(buf), "\n\n")
	for _, b := range blocks {
		lines := strings.Split(b, "\n")
		if len(lines) < 2 || !strings.HasPrefix(lines[0], "goroutine ") {
			continue
		}
		if strings.Contains(b, "vGoroutineStates") {
			continue
		}
		hdr := lines[0]
		st := ""
		if i := strings.Index(hdr, "["); i >= 0 {
			st = hdr[i+1:]
			if j := strings.IndexAny(st, ",]"); j >= 0 {
				st = st[:j]
			}
		}
		if st == "running" || st == "runnable" || st == "sleep" {
			active = true
		}
		fp.WriteString(hdr[:strings.Index(hdr+" [", " [")])
		fp.WriteString(st)
		fp.WriteString(lines[1])
		fp.WriteString(";")
	}
	return fp.String(), active
}

// vAwait waits for done. After d it does not give up while the process is still making progress
// (some goroutine is runnable / sleeping, or the goroutine picture keeps changing): a verdict
// "hang" is only returned when three samples 400 ms apart show the same fully blocked picture,
// or after the hard cap. This keeps the watchdogs sound on a heavily loaded machine.
func vAwait(done <-chan struct{}, d time.Duration) bool {
	select {
	case <-done:
		return true
	case <-time.After(d):
	}
	hard := time.Now().Add(90 * time.Second)
	same := 0
	last := ""
	for time.Now().Before(hard) {
		select {
		case <-done:
			return true
		case <-time.After(400 * time.Millisecond):
		}
		fp, active := vGoroutineStates()
		if !active && fp == last {
			same++
			if same >= 3 {
				return false
			}
		} else {
			same = 0
		}
		last = fp
	}
	select {
	case <-done:
		return true
	default:
		return false
	}
}

// ---------------------------------------------------------------- load-aware time bounds

// vTicks is advanced by a goroutine that sleeps 5 ms at a time: on a starved machine it advances more
// slowly than the wall clock, and so do the bounds built on it.
var (
	vTicks     int64
	vTicksOnce sync.Once
)

// vBound is a time bound that only expires when BOTH the wall clock and this process's own progress
// (heartbeat ticks at >= 60 % of the nominal rate) say that d has passed; after 8*d of wall time without
// that progress it reports "starved" (no verdict) instead of "expired".
type vBound struct {
	t0    time.Time
	tick0 int64
	d     time.Duration
}

func vNewBound(d time.Duration) *vBound {
	vTicksOnce.Do(func() {
		go func() {
			for {
				time.Sleep(5 * time.Millisecond)
				atomic.AddInt64(&vTicks, 1)
			}
		}()
	})
	return &vBound{t0: time.Now(), tick0: atomic.LoadInt64(&vTicks), d: d}
}

func (b *vBound) state() (expired, starved bool) {
	el := time.Since(b.t0)
	if el < b.d {
		return false, false
	}
	need := int64(float64(b.d/(5*time.Millisecond)) * 0.6)
	if atomic.LoadInt64(&vTicks)-b.tick0 >= need {
		return true, false
	}
	if el >= 8*b.d {
		return true, true
	}
	return false, false
}

// vDialer is sarama's default dialer plus SO_LINGER 0: client connections are reset on Close
// instead of lingering in TIME_WAIT, so that tens of thousands of short scenarios cannot exhaust
// the ephemeral ports.
type vDialer struct{ timeout time.Duration }

func (d vDialer) Dial(network, addr string) (net.Conn, error) {
	c, err := (&net.Dialer{Timeout: d.timeout}).Dial(network, addr)
	if err != nil {
		return c, err
	}
	if tc, ok := c.(*net.TCPConn); ok {
		_ = tc.SetLinger(0)
	}
	return c, nil
}

func vUseDialer(config *Config) {
	config.Net.Proxy.Enable = true
	config.Net.Proxy.Dialer = vDialer{timeout: config.Net.DialTimeout}
}
