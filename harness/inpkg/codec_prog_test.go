//go:build verif
// +build verif

package sarama

// C09 part 1 binding: programs (tapes of packetEncoder calls) emitted by TLC from
// spec/Codec.tla are executed on the REAL prepEncoder / realEncoder (through encode()) and
// realDecoder (through decode()) with the real lengthField / varintLengthField / crc32Field.
// Per call the harness records the sizing pass length, the writing pass offset and the bytes
// written, then the decoded values; spec/CodecTrace.tla compares with the functions of
// spec/CodecWire.tla. The harness interprets nothing: it logs what the code did.

import (
	"encoding/binary"
	"encoding/json"
	"fmt"
	"hash/crc32"
	"syscall"
	"testing"
)

type cdOp struct {
	K string   `json:"k"`
	N int      `json:"n"`
	V [][4]int `json:"v"`
}

type cdCase struct {
	Ops []cdOp `json:"ops"`
}

type cdCell struct {
	N   int      `json:"n"`
	V   [][4]int `json:"v"`
	B   []int    `json:"b"`
	Off int      `json:"off"`
	Err string   `json:"err"`
}

func cdU64(l [4]int) uint64 {
	return uint64(l[0])<<48 | uint64(l[1])<<32 | uint64(l[2])<<16 | uint64(l[3])
}

func cdLimbs(u uint64) [4]int {
	return [4]int{int(u >> 48 & 0xffff), int(u >> 32 & 0xffff), int(u >> 16 & 0xffff), int(u & 0xffff)}
}

// payload conventions shared with spec/CodecWire.tla (Raw, Chars)
func cdBlob(n int) []byte {
	if n < 0 {
		return nil
	}
	b := make([]byte, n)
	for i := 1; i <= n; i++ {
		b[i-1] = byte((i * 7) % 256)
	}
	return b
}

func cdChars(n int) string {
	b := make([]byte, n)
	for i := 1; i <= n; i++ {
		b[i-1] = byte(97 + i%26)
	}
	return string(b)
}

func cdInts(b []byte) []int {
	r := make([]int, len(b))
	for i, x := range b {
		r[i] = int(x)
	}
	return r
}

// cdProg runs one program; it is the `encoder` and the `decoder` handed to encode() / decode().
type cdProg struct {
	ops    []cdOp
	fields []pushEncoder // one field object per push op, alive across both passes like Record.length

	prep []int
	real []int
	wr   [][]int
	crc  [][]int
	dec  []cdCell
}

func newCdProg(ops []cdOp) *cdProg {
	p := &cdProg{ops: ops, fields: make([]pushEncoder, len(ops))}
	for i, op := range ops {
		switch op.K {
		case "push_len":
			p.fields[i] = &lengthField{}
		case "push_varlen":
			p.fields[i] = &varintLengthField{length: int64(op.N)} // stale length of an earlier encode
		case "push_crc_ieee":
			p.fields[i] = newCRC32Field(crcIEEE)
		case "push_crc_cast":
			p.fields[i] = newCRC32Field(crcCastagnoli)
		}
	}
	return p
}

func cdI32s(vs [][4]int, n int) []int32 {
	if n < 0 {
		return nil
	}
	r := make([]int32, len(vs))
	for i, l := range vs {
		r[i] = int32(cdU64(l))
	}
	return r
}

func (p *cdProg) put(pe packetEncoder, i int) error {
	op := p.ops[i]
	var v uint64
	if len(op.V) > 0 {
		v = cdU64(op.V[0])
	}
	switch op.K {
	case "i8":
		pe.putInt8(int8(v))
	case "i16":
		pe.putInt16(int16(v))
	case "i32":
		pe.putInt32(int32(v))
	case "i64":
		pe.putInt64(int64(v))
	case "var":
		pe.putVarint(int64(v))
	case "uvar":
		pe.putUVarint(v)
	case "arrlen":
		return pe.putArrayLength(op.N)
	case "carrlen":
		pe.putCompactArrayLength(op.N)
	case "bool":
		pe.putBool(op.N == 1)
	case "bytes":
		return pe.putBytes(cdBlob(op.N))
	case "varbytes":
		return pe.putVarintBytes(cdBlob(op.N))
	case "cbytes":
		return pe.putCompactBytes(cdBlob(op.N))
	case "raw":
		return pe.putRawBytes(cdBlob(op.N))
	case "str":
		return pe.putString(cdChars(op.N))
	case "nstr":
		if op.N < 0 {
			return pe.putNullableString(nil)
		}
		s := cdChars(op.N)
		return pe.putNullableString(&s)
	case "cstr":
		return pe.putCompactString(cdChars(op.N))
	case "ncstr":
		if op.N < 0 {
			return pe.putNullableCompactString(nil)
		}
		s := cdChars(op.N)
		return pe.putNullableCompactString(&s)
	case "strarr":
		var ss []string
		if op.N >= 0 {
			ss = make([]string, 0, len(op.V))
			for _, l := range op.V {
				ss = append(ss, cdChars(l[3]))
			}
		}
		return pe.putStringArray(ss)
	case "i32arr":
		return pe.putInt32Array(cdI32s(op.V, op.N))
	case "i64arr":
		var r []int64
		if op.N >= 0 {
			r = make([]int64, len(op.V))
			for j, l := range op.V {
				r[j] = int64(cdU64(l))
			}
		}
		return pe.putInt64Array(r)
	case "ci32arr":
		return pe.putCompactInt32Array(cdI32s(op.V, op.N))
	case "nci32arr":
		return pe.putNullableCompactInt32Array(cdI32s(op.V, op.N))
	case "tagged":
		pe.putEmptyTaggedFieldArray()
	default:
		return fmt.Errorf("harness: unknown op %q", op.K)
	}
	return nil
}

type cdOpen struct {
	site  int
	start int // writing pass offset at the push, tracked by the harness
}

func (p *cdProg) encode(pe packetEncoder) error {
	re, isReal := pe.(*realEncoder)
	var open []cdOpen
	for i, op := range p.ops {
		before := pe.offset()
		var err error
		var wrote []int
		var crcRow []int
		switch {
		case op.K == "pop":
			top := open[len(open)-1]
			open = open[:len(open)-1]
			err = pe.pop()
			if isReal && err == nil {
				f := p.fields[top.site]
				w := f.reserveLength()
				wrote = cdInts(re.raw[top.start : top.start+w])
				if cf, ok := f.(*crc32Field); ok {
					// independent checksum over the prescribed extent: the bytes between field and pop
					tab := crc32.IEEETable
					if cf.polynomial == crcCastagnoli {
						tab = crc32.MakeTable(crc32.Castagnoli)
					}
					var sum [4]byte
					binary.BigEndian.PutUint32(sum[:], crc32.Checksum(re.raw[top.start+4:before], tab))
					crcRow = append([]int{top.start + 4, before}, cdInts(sum[:])...)
				}
			}
		case p.fields[i] != nil:
			open = append(open, cdOpen{site: i, start: before})
			pe.push(p.fields[i])
		default:
			err = p.put(pe, i)
			if isReal && err == nil {
				wrote = cdInts(re.raw[before:re.off])
			}
		}
		if err != nil {
			return err
		}
		if isReal {
			p.real = append(p.real, pe.offset())
			if wrote == nil {
				wrote = []int{}
			}
			if crcRow == nil {
				crcRow = []int{}
			}
			p.wr = append(p.wr, wrote)
			p.crc = append(p.crc, crcRow)
		} else {
			p.prep = append(p.prep, pe.offset())
		}
	}
	return nil
}

func (p *cdProg) get(pd packetDecoder, i int) (c cdCell, err error) {
	op := p.ops[i]
	c.V = [][4]int{}
	c.B = []int{}
	one := func(x int64) { c.V = [][4]int{cdLimbs(uint64(x))} }
	blob := func(b []byte) {
		if b == nil {
			c.N = -1
		} else {
			c.N = len(b)
			c.B = cdInts(b)
		}
	}
	switch op.K {
	case "i8":
		var x int8
		x, err = pd.getInt8()
		one(int64(x))
	case "i16":
		var x int16
		x, err = pd.getInt16()
		one(int64(x))
	case "i32":
		var x int32
		x, err = pd.getInt32()
		one(int64(x))
	case "i64":
		var x int64
		x, err = pd.getInt64()
		one(x)
	case "var":
		var x int64
		x, err = pd.getVarint()
		one(x)
	case "uvar":
		var x uint64
		x, err = pd.getUVarint()
		c.V = [][4]int{cdLimbs(x)}
	case "arrlen":
		c.N, err = pd.getArrayLength()
	case "carrlen":
		c.N, err = pd.getCompactArrayLength()
	case "bool":
		var x bool
		x, err = pd.getBool()
		if x {
			c.N = 1
		}
	case "tagged":
		c.N, err = pd.getEmptyTaggedFieldArray()
	case "bytes":
		var b []byte
		b, err = pd.getBytes()
		blob(b)
	case "varbytes":
		var b []byte
		b, err = pd.getVarintBytes()
		blob(b)
	case "cbytes":
		var b []byte
		b, err = pd.getCompactBytes()
		blob(b)
	case "raw":
		var b []byte
		b, err = pd.getRawBytes(op.N)
		blob(b)
	case "str":
		var s string
		s, err = pd.getString()
		c.N, c.B = len(s), cdInts([]byte(s))
	case "nstr":
		var s *string
		s, err = pd.getNullableString()
		if s == nil {
			c.N = -1
		} else {
			c.N, c.B = len(*s), cdInts([]byte(*s))
		}
	case "cstr":
		var s string
		s, err = pd.getCompactString()
		c.N, c.B = len(s), cdInts([]byte(s))
	case "ncstr":
		var s *string
		s, err = pd.getCompactNullableString()
		if s == nil {
			c.N = -1
		} else {
			c.N, c.B = len(*s), cdInts([]byte(*s))
		}
	case "strarr":
		var ss []string
		if err = cdGuardCount(pd, false); err != nil {
			break
		}
		ss, err = pd.getStringArray()
		if ss == nil {
			c.N = -1
		} else {
			c.N = len(ss)
			for _, s := range ss {
				c.V = append(c.V, cdLimbs(uint64(len(s))))
				c.B = append(c.B, cdInts([]byte(s))...)
			}
		}
	case "i32arr", "ci32arr", "nci32arr":
		var xs []int32
		switch op.K {
		case "i32arr":
			xs, err = pd.getInt32Array()
		default:
			if err = cdGuardCount(pd, true); err != nil {
				break
			}
			xs, err = pd.getCompactInt32Array()
		}
		if xs == nil {
			c.N = -1
		} else {
			c.N = len(xs)
			for _, x := range xs {
				c.V = append(c.V, cdLimbs(uint64(int64(x))))
			}
		}
	case "i64arr":
		var xs []int64
		xs, err = pd.getInt64Array()
		if xs == nil {
			c.N = -1
		} else {
			c.N = len(xs)
			for _, x := range xs {
				c.V = append(c.V, cdLimbs(uint64(x)))
			}
		}
	case "push_len":
		err = pd.push(&lengthField{})
	case "push_varlen":
		err = pd.push(&varintLengthField{})
	case "push_crc_ieee":
		err = pd.push(newCRC32Field(crcIEEE))
	case "push_crc_cast":
		err = pd.push(newCRC32Field(crcCastagnoli))
	case "pop":
		err = pd.pop()
	default:
		err = fmt.Errorf("harness: unknown op %q", op.K)
	}
	return c, err
}

// The pinned realDecoder allocates for getStringArray / getCompactInt32Array whatever count the bytes claim (C10's
// subject). A valid encoding never claims more elements than bytes remain; on a damaged buffer the harness
// refuses the call instead of letting the test process allocate gigabytes (recorded as a decode error).
func cdGuardCount(pd packetDecoder, compact bool) error {
	rd := pd.(*realDecoder)
	rest := rd.raw[rd.off:]
	var n uint64
	if compact {
		v, k := binary.Uvarint(rest)
		if k <= 0 {
			return nil
		}
		n = v
	} else {
		if len(rest) < 4 {
			return nil
		}
		if int32(binary.BigEndian.Uint32(rest)) < 0 {
			return nil // null / negative counts are the decoder's own business
		}
		n = uint64(binary.BigEndian.Uint32(rest))
	}
	if n > uint64(len(rest))+1 {
		return fmt.Errorf("harness guard: element count %d exceeds the %d remaining bytes", n, len(rest))
	}
	return nil
}

// an address-space ceiling for the test process: a runaway allocation of the code under test must not take the machine down
func cdLimitMemory() {
	lim := syscall.Rlimit{Cur: 12 << 30, Max: 12 << 30}
	_ = syscall.Setrlimit(syscall.RLIMIT_AS, &lim)
}

// cdErrText names an error for the trace: the truncation error is recognised by identity (its wording is not
// part of the property), everything else by its text.
func cdErrText(err error) string {
	if err == ErrInsufficientData {
		return "insufficient"
	}
	if s := err.Error(); s != "" {
		return s
	}
	return "error without text" // "" means "no error" in the trace
}

func (p *cdProg) decode(pd packetDecoder) error {
	rd := pd.(*realDecoder)
	for i := range p.ops {
		c, err := p.get(pd, i)
		c.Off = rd.off
		if err != nil {
			c.Err = cdErrText(err)
			c.N, c.V, c.B = 0, [][4]int{}, []int{}
		}
		p.dec = append(p.dec, c)
		if err != nil {
			return err
		}
	}
	return nil
}

func cdSafe(fn func() error, panicked *bool) (err error) {
	defer func() {
		if r := recover(); r != nil {
			err = fmt.Errorf("panic: %v", r)
			if panicked != nil {
				*panicked = true
			}
		}
	}()
	return fn()
}

func cdRunProg(rec *vRec, line string) (encErr bool) {
	var c cdCase
	if err := json.Unmarshal([]byte(line), &c); err != nil {
		panic(err)
	}
	p := newCdProg(c.Ops)
	var raw []byte
	eerr := ""
	epanic := false
	if err := cdSafe(func() (e error) { raw, e = encode(p, nil); return }, &epanic); err != nil {
		eerr = cdErrText(err)
	}
	derr := ""
	dend := 0
	if eerr == "" {
		if err := cdSafe(func() error { return decode(raw, p) }, nil); err != nil {
			derr = cdErrText(err)
		}
		if n := len(p.dec); n > 0 {
			dend = p.dec[n-1].Off
		}
	} else {
		p.real, p.wr, p.crc, raw = nil, nil, nil, nil // what the sizing pass reported is kept
	}
	opsRaw, _ := json.Marshal(c.Ops)
	nz := func(x []int) []int {
		if x == nil {
			return []int{}
		}
		return x
	}
	if p.wr == nil {
		p.wr = [][]int{}
	}
	if p.crc == nil {
		p.crc = [][]int{}
	}
	if p.dec == nil {
		p.dec = []cdCell{}
	}
	rec.Ev("prog", kv{"ops": json.RawMessage(opsRaw), "eerr": eerr, "epanic": epanic, "prep": nz(p.prep), "real": nz(p.real),
		"wr": p.wr, "crc": p.crc, "raw": cdInts(raw), "dec": p.dec, "derr": derr, "dend": dend})
	return eerr != ""
}

func TestVerifCodecProg(t *testing.T) {
	cdLimitMemory()
	lines := vReadLines(t, "VERIF_CASES")
	rec := vOpenRec(t, "trace.ndjson")
	nerr := 0
	for i, line := range lines {
		if i%200 == 0 {
			rec.Reset(kv{"part": "prog"})
		}
		if cdRunProg(rec, line) {
			nerr++
		}
	}
	rec.Close()
	samples := lines
	if len(samples) > 3 {
		samples = []string{lines[0], lines[len(lines)/2], lines[len(lines)-1]}
	}
	vWriteJSON(t, "summary.json", kv{"programs": len(lines), "encode_errors": nerr, "samples": samples})
}
