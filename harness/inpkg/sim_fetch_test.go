//go:build verif
// +build verif

package sarama

// Consumer side of the simulated cluster: partition logs stored as BATCHES (the framing a
// consumer sees is the framing the log has), ListOffsets and Fetch handling with per-fetch
// fault plans, a faithful aborted-transaction index, and a fetch response whose record bytes
// are written raw so that the broker can cut a trailing batch at max_bytes like Kafka does.

import (
	"fmt"
	"sort"
	"time"
)

// one stored batch of a partition log
type simLogBatch struct {
	Fmt   string  `json:"fmt"`   // v2 | v0 | v1 | v0w | v1w  (w = compressed wrapper)
	Codec int     `json:"codec"` // compression codec (wrappers need != 0)
	Offs  []int64 `json:"offs"`  // absolute offsets of the records (gaps = compaction holes)
	Pid   int64   `json:"pid"`   // producer id (-1 none)
	Txn   bool    `json:"txn"`   // transactional
	Ctl   string  `json:"ctl"`   // "" | commit | abort   (control batch with one marker record)
	Hdrs  int     `json:"hdrs"`  // headers per record (v2 only)
	Lat   bool    `json:"lat"`   // LogAppendTime
	Epoch int16   `json:"epoch"` // producer epoch of the batch (a marker written by the coordinator after a time-out carries epoch+1)
}

func (b *simLogBatch) first() int64 { return b.Offs[0] }
func (b *simLogBatch) last() int64  { return b.Offs[len(b.Offs)-1] }

type simFetchPlan struct {
	Kind      string `json:"kind"` // ok | err | silence | drop | throttled | throttled_data | missing
	Code      int    `json:"code"` // KError for kind err
	MoveTo    int32  `json:"moveTo"`
	DelayMs   int    `json:"delayMs"`
	Hold      bool   `json:"hold"`
	LeaveData bool   `json:"leaveData"`
}

var simT0 = time.Unix(1600000000, 0)

func simRecTime(off int64) time.Time { return simT0.Add(time.Duration(off) * time.Millisecond) }
func simKey(off int64) []byte        { return []byte(fmt.Sprintf("k%d", off)) }
func simValue(off int64) []byte      { return []byte(fmt.Sprintf("v%d", off)) }
func simHdr(off int64, h int) RecordHeader {
	return RecordHeader{Key: []byte(fmt.Sprintf("h%d", h)), Value: []byte(fmt.Sprintf("hv%d", off))}
}

// encodeBatch produces the wire bytes of one stored batch
func (b *simLogBatch) encodeBytes() ([]byte, error) {
	switch b.Fmt {
	case "v2":
		rb := &RecordBatch{Version: 2, FirstOffset: b.first(), LastOffsetDelta: int32(b.last() - b.first()),
			FirstTimestamp: simRecTime(b.first()), MaxTimestamp: simRecTime(b.last()), ProducerID: b.Pid, ProducerEpoch: b.Epoch,
			FirstSequence: 0, IsTransactional: b.Txn, Codec: CompressionCodec(b.Codec), LogAppendTime: b.Lat}
		if b.Pid < 0 {
			rb.ProducerID, rb.ProducerEpoch, rb.FirstSequence = -1, -1, -1
		}
		if b.Ctl != "" {
			rb.Control = true
			typ := ControlRecordCommit
			if b.Ctl == "abort" {
				typ = ControlRecordAbort
			}
			kb := &realEncoder{raw: make([]byte, 4)}
			vb := &realEncoder{raw: make([]byte, 6)}
			(&ControlRecord{Version: 0, CoordinatorEpoch: 0, Type: typ}).encode(kb, vb)
			rb.Records = []*Record{{Key: kb.raw, Value: vb.raw, OffsetDelta: 0}}
		} else {
			for _, o := range b.Offs {
				r := &Record{Key: simKey(o), Value: simValue(o), OffsetDelta: o - b.first(), TimestampDelta: simRecTime(o).Sub(simRecTime(b.first()))}
				for h := 0; h < b.Hdrs; h++ {
					hd := simHdr(o, h)
					r.Headers = append(r.Headers, &hd)
				}
				rb.Records = append(rb.Records, r)
			}
		}
		return encode(rb, nil)
	case "v0", "v1":
		ver := int8(0)
		if b.Fmt == "v1" {
			ver = 1
		}
		ms := &MessageSet{}
		for _, o := range b.Offs {
			ms.Messages = append(ms.Messages, &MessageBlock{Offset: o, Msg: &Message{Version: ver, Key: simKey(o), Value: simValue(o), Timestamp: simRecTime(o)}})
		}
		return encode(ms, nil)
	case "v0w", "v1w":
		ver := int8(0)
		if b.Fmt == "v1w" {
			ver = 1
		}
		inner := &MessageSet{}
		for i, o := range b.Offs {
			io := o
			if ver == 1 {
				// relative inner offsets as the broker assigned them; a compacted wrapper keeps the surviving
				// records' relative offsets (sparse), the wrapper carries the absolute offset of the last one
				io = o - b.Offs[0]
				_ = i
			}
			inner.Messages = append(inner.Messages, &MessageBlock{Offset: io, Msg: &Message{Version: ver, Key: simKey(o), Value: simValue(o), Timestamp: simRecTime(o)}})
		}
		ib, err := encode(inner, nil)
		if err != nil {
			return nil, err
		}
		codec := CompressionCodec(b.Codec)
		if codec == CompressionNone {
			codec = CompressionGZIP
		}
		ms := &MessageSet{Messages: []*MessageBlock{{Offset: b.last(), Msg: &Message{Version: ver, Codec: codec, Value: ib, Timestamp: simRecTime(b.last()), LogAppendTime: b.Lat}}}}
		return encode(ms, nil)
	}
	return nil, fmt.Errorf("unknown batch format %q", b.Fmt)
}

// ---- aborted-transaction index (what a faithful broker keeps)
type simAborted struct {
	pid         int64
	first, last int64 // first data offset of the transaction, offset of its abort marker
}

func simAbortedIndex(batches []simLogBatch) []simAborted {
	open := map[int64]int64{} // pid -> first offset of the open transaction
	var out []simAborted
	for i := range batches {
		b := &batches[i]
		if b.Ctl != "" {
			if f, ok := open[b.Pid]; ok {
				if b.Ctl == "abort" {
					out = append(out, simAborted{b.Pid, f, b.first()})
				}
				delete(open, b.Pid)
			}
			continue
		}
		if b.Txn {
			if _, ok := open[b.Pid]; !ok {
				open[b.Pid] = b.first()
			}
		}
	}
	return out
}

// last stable offset: first offset of the earliest still-open transaction, else the log end
func simLSO(batches []simLogBatch, end int64) int64 {
	open := map[int64]int64{}
	for i := range batches {
		b := &batches[i]
		if b.Ctl != "" {
			delete(open, b.Pid)
		} else if b.Txn {
			if _, ok := open[b.Pid]; !ok {
				open[b.Pid] = b.first()
			}
		}
	}
	lso := end
	for _, f := range open {
		if f < lso {
			lso = f
		}
	}
	return lso
}

func (pt *simPart) logEnd() int64 {
	if len(pt.batches) == 0 {
		return pt.logStart
	}
	return pt.batches[len(pt.batches)-1].last() + 1
}

// raw fetch response (own wire writer for the data path)
type simFetchBlock struct {
	part    int32
	err     KError
	hwm     int64
	lso     int64
	start   int64
	aborted []simAborted
	raw     []byte
	// preferred read replica announced to the consumer (fetch v11+); -1 = none
	preferred int32
	hasPref   bool
}

type simFetchResponse struct {
	ver      int16
	throttle int32
	blocks   []simFetchBlock
}

func (r *simFetchResponse) encode(pe packetEncoder) error {
	if r.ver >= 1 {
		pe.putInt32(r.throttle)
	}
	if r.ver >= 7 {
		pe.putInt16(0)
		pe.putInt32(0)
	}
	ntopics := 1
	if len(r.blocks) == 0 {
		ntopics = 0
	}
	if err := pe.putArrayLength(ntopics); err != nil {
		return err
	}
	if ntopics == 0 {
		return nil
	}
	if err := pe.putString(simTopic); err != nil {
		return err
	}
	if err := pe.putArrayLength(len(r.blocks)); err != nil {
		return err
	}
	for _, b := range r.blocks {
		pe.putInt32(b.part)
		pe.putInt16(int16(b.err))
		pe.putInt64(b.hwm)
		if r.ver >= 4 {
			pe.putInt64(b.lso)
			if r.ver >= 5 {
				pe.putInt64(b.start)
			}
			if err := pe.putArrayLength(len(b.aborted)); err != nil {
				return err
			}
			for _, a := range b.aborted {
				pe.putInt64(a.pid)
				pe.putInt64(a.first)
			}
		}
		if r.ver >= 11 {
			if b.hasPref {
				pe.putInt32(b.preferred)
			} else {
				pe.putInt32(-1)
			}
		}
		raw := b.raw
		if raw == nil {
			raw = []byte{}
		}
		if err := pe.putBytes(raw); err != nil {
			return err
		}
	}
	return nil
}
func (r *simFetchResponse) decode(pd packetDecoder, version int16) error {
	return fmt.Errorf("not decodable")
}
func (r *simFetchResponse) key() int16                    { return 1 }
func (r *simFetchResponse) version() int16                { return r.ver }
func (r *simFetchResponse) headerVersion() int16          { return 0 }
func (r *simFetchResponse) requiredVersion() KafkaVersion { return MinVersion }

func (c *simCluster) handleOffsets(b *simBroker, r *OffsetRequest) encoderWithHeader {
	c.mu.Lock()
	defer c.mu.Unlock()
	resp := &OffsetResponse{Version: r.Version}
	for topic, parts := range r.blocks {
		for p, blk := range parts {
			pt := c.parts[p]
			if pt == nil || topic != simTopic {
				continue
			}
			off := pt.logEnd()
			if blk.time == OffsetOldest {
				off = pt.logStart
			}
			resp.AddTopicPartition(topic, p, off)
		}
	}
	return resp
}

func (c *simCluster) handleFetch(b *simBroker, r *FetchRequest) (encoderWithHeader, string) {
	c.mu.Lock()
	resp := &simFetchResponse{ver: r.Version}
	var ps []int
	for p := range r.blocks[simTopic] {
		ps = append(ps, int(p))
	}
	sort.Ints(ps)
	action := ""
	anyData := false
	maxDelay := 0
	var holds []chan struct{}
	type pending struct {
		part int32
		plan *simFetchPlan
		blk  *fetchRequestBlock
		n    int
	}
	var pend []pending
	for _, pi := range ps {
		p := int32(pi)
		pt := c.parts[p]
		if pt == nil {
			continue
		}
		pt.fetchN++
		plan := c.fetchPlans[fmt.Sprintf("%d:%d", p, pt.fetchN)]
		if plan == nil {
			plan = c.fetchPlans[fmt.Sprintf("%d:*", p)] // applies to every fetch of the partition without a plan of its own
		}
		if plan == nil {
			plan = &simFetchPlan{Kind: "ok"}
		}
		if plan.Hold {
			holds = append(holds, c.holdChan(1000+int(p)*100+pt.fetchN))
		}
		if plan.DelayMs > maxDelay {
			maxDelay = plan.DelayMs
		}
		pend = append(pend, pending{p, plan, r.blocks[simTopic][p], pt.fetchN})
	}
	c.mu.Unlock()
	for _, h := range holds {
		select {
		case <-h:
		case <-time.After(20 * time.Second):
		}
	}
	if maxDelay > 0 {
		time.Sleep(time.Duration(maxDelay) * time.Millisecond)
	}
	throttleData := false
	c.mu.Lock()
	for _, pd := range pend {
		p, plan, blk := pd.part, pd.plan, pd.blk
		pt := c.parts[p]
		ev := kv{"part": int(p), "off": int(blk.fetchOffset), "max": int(blk.maxBytes), "n": pd.n, "broker": int(b.idx), "kind": plan.Kind, "ver": int(r.Version)}
		if plan.Kind == "throttled_data" {
			// a broker enforcing a quota: the response carries a throttle time AND the data
			throttleData = true
			cp := *plan
			cp.Kind = "ok"
			plan = &cp
		}
		switch plan.Kind {
		case "silence":
			action = "silence"
		case "drop":
			action = "drop"
		case "throttled":
			action = "throttled"
		}
		if action != "" {
			c.rec.Ev("fetch", ev)
			continue
		}
		fb := simFetchBlock{part: p, hwm: pt.logEnd(), lso: simLSO(pt.batches, pt.logEnd()), start: pt.logStart}
		switch {
		case plan.Kind == "missing":
			c.rec.Ev("fetch", ev)
			if plan.MoveTo > 0 {
				pt.leader = plan.MoveTo
			}
			continue
		case plan.Kind == "err":
			fb.err = KError(plan.Code)
		case pt.leader == b.idx && pt.follower > 0 && pt.follower != b.idx && r.Version >= 11 && r.RackID != "":
			// follower fetching: the leader answers a rack-aware consumer with no records and the replica to read from
			fb.hasPref, fb.preferred = true, c.idOf(pt.follower)
			ev["kind"] = "preferred"
			ev["to"] = int(fb.preferred)
		case pt.leader != b.idx && !(pt.follower == b.idx && r.Version >= 11):
			fb.err = ErrNotLeaderForPartition
			ev["kind"] = "notleader"
		case blk.fetchOffset < pt.logStart || blk.fetchOffset > pt.logEnd():
			fb.err = ErrOffsetOutOfRange
			ev["kind"] = "outofrange"
		default:
			pt.lastFetchOff = blk.fetchOffset
			limit := pt.logEnd()
			if r.Isolation == ReadCommitted {
				limit = fb.lso
			}
			var lastOff int64 = -1
			firstIncluded := int64(-1)
			for i := range pt.batches {
				bt := &pt.batches[i]
				if bt.last() < blk.fetchOffset || bt.first() >= limit {
					continue
				}
				src := bt
				if (bt.Fmt == "v0" || bt.Fmt == "v1") && bt.first() < blk.fetchOffset {
					// uncompressed legacy messages are individually addressable: the log slice
					// starts at the message holding the requested offset, not at an earlier one
					trimmed := *bt
					trimmed.Offs = nil
					for _, o := range bt.Offs {
						if o >= blk.fetchOffset {
							trimmed.Offs = append(trimmed.Offs, o)
						}
					}
					src = &trimmed
				}
				enc, err := src.encodeBytes()
				if err != nil {
					c.rec.Ev("sim_error", kv{"what": "batch does not encode: " + err.Error()})
					continue
				}
				if firstIncluded < 0 {
					firstIncluded = bt.first()
				}
				room := int(blk.maxBytes) - len(fb.raw)
				if len(enc) <= room {
					fb.raw = append(fb.raw, enc...)
					lastOff = bt.last()
					continue
				}
				// does not fit: Kafka >= 0.10.1 (fetch v3+) always returns the first batch whole;
				// otherwise the log slice is simply cut at max_bytes (partial trailing batch)
				if len(fb.raw) == 0 && r.Version >= 3 {
					fb.raw = append(fb.raw, enc...)
					lastOff = bt.last()
				} else if room > 0 {
					fb.raw = append(fb.raw, enc[:room]...)
				}
				break
			}
			if r.Version >= 4 && lastOff >= 0 {
				for _, a := range simAbortedIndex(pt.batches) {
					if a.last >= blk.fetchOffset && a.first <= lastOff {
						fb.aborted = append(fb.aborted, a)
					}
				}
				if c.abortedReverse {
					for i, j := 0, len(fb.aborted)-1; i < j; i, j = i+1, j-1 {
						fb.aborted[i], fb.aborted[j] = fb.aborted[j], fb.aborted[i]
					}
				}
			}
			if len(fb.raw) > 0 {
				anyData = true
			}
			ev["bytes"] = len(fb.raw)
			ev["lastoff"] = int(lastOff)
		}
		if _, ok := ev["bytes"]; !ok {
			ev["bytes"] = 0
			ev["lastoff"] = -1
		}
		c.rec.Ev("fetch", ev)
		resp.blocks = append(resp.blocks, fb)
		if plan.MoveTo > 0 {
			pt.leader = plan.MoveTo
			c.rec.Ev("move", kv{"part": int(p), "to": int(plan.MoveTo)})
		}
	}
	c.mu.Unlock()
	switch action {
	case "silence":
		return nil, ""
	case "drop":
		return nil, "drop"
	case "throttled":
		return &simFetchResponse{ver: r.Version, throttle: 50}, ""
	}
	if throttleData {
		resp.throttle = 35
	}
	if !anyData {
		// long poll: nothing to return yet
		w := time.Duration(r.MaxWaitTime) * time.Millisecond
		if w > 15*time.Millisecond {
			w = 15 * time.Millisecond
		}
		time.Sleep(w)
	}
	return resp, ""
}
