//go:build verif
// +build verif

package sarama

// C07 configuration family "refresh0": Metadata.RefreshFrequency = 0 ("Set to 0 to disable", accepted by
// Config.Validate). Runs in its own test process because the code under test may crash the process from a
// goroutine that has no recover; events are therefore written unbuffered, and the runner (checks/c07.py)
// completes the trace with a `panic` event taken from the process output when the process died.

import (
	"context"
	"encoding/json"
	"os"
	"path/filepath"
	"sync"
	"testing"
	"time"
)

type grpRawRec struct {
	mu sync.Mutex
	f  *os.File
	i  int
}

func (r *grpRawRec) Ev(ev string, fields kv) {
	r.mu.Lock()
	defer r.mu.Unlock()
	r.i++
	m := kv{"t": 1, "i": r.i, "ev": ev}
	for k, v := range fields {
		m[k] = v
	}
	b, _ := json.Marshal(m)
	r.f.Write(append(b, '\n'))
	r.f.Sync()
}

type grpPlainHandler struct{ rec *grpRawRec }

func (h grpPlainHandler) Setup(s ConsumerGroupSession) error {
	h.rec.Ev("setup", kv{"c": "c1", "mid": s.MemberID(), "gen": int(s.GenerationID()), "claims": []int{0}})
	return nil
}
func (h grpPlainHandler) Cleanup(ConsumerGroupSession) error {
	h.rec.Ev("cleanup", kv{"c": "c1"})
	return nil
}
func (h grpPlainHandler) ConsumeClaim(s ConsumerGroupSession, c ConsumerGroupClaim) error {
	h.rec.Ev("claim_start", kv{"c": "c1", "p": int(c.Partition()), "init": c.InitialOffset()})
	for m := range c.Messages() {
		h.rec.Ev("msg", kv{"c": "c1", "p": int(m.Partition), "off": m.Offset})
	}
	h.rec.Ev("claim_ret", kv{"c": "c1", "p": int(c.Partition())})
	return nil
}

func TestVerifGroupRefresh0(t *testing.T) {
	f, err := os.Create(filepath.Join(vOutDir(t), "trace_r0.ndjson"))
	if err != nil {
		t.Fatal(err)
	}
	defer f.Close()
	raw := &grpRawRec{f: f}
	// the simulated cluster logs through a recorder of its own that is not part of this family's trace
	simrec := vOpenRec(t, "sim_r0.ndjson")
	defer simrec.Close()
	sc := &grpScenario{ID: "refresh0-0", Fam: "refresh0", NP: 1, LogLen: 2, Initial: -2, Auto: "slow", Strategy: "range", Committed: []int64{-1},
		Clients: []grpClientScript{{C: "c1", Start: "pre", NSess: 1}}}
	sim, err := newGrpSim(simrec, sc)
	if err != nil {
		t.Fatal(err)
	}
	defer sim.Close()
	conf := grpConfig(sc, sim.clientID("c1"))
	conf.Metadata.RefreshFrequency = 0
	if err := conf.Validate(); err != nil {
		t.Fatal(err)
	}
	g, err := NewConsumerGroup([]string{sim.addr(0)}, sim.group, conf)
	if err != nil {
		t.Fatal(err)
	}
	raw.Ev("reset", kv{"id": sc.ID, "fam": sc.Fam, "members": 1, "np": 1, "loglen": 2, "logstart": 0, "initial": -2, "auto": "slow",
		"hbretry": grpHbRetry, "strategy": "range", "committed": []int64{-1}})
	ctx, cancel := context.WithCancel(context.Background())
	go func() {
		time.Sleep(300 * time.Millisecond)
		raw.Ev("cancel", kv{"c": "c1"})
		cancel()
	}()
	raw.Ev("consume_call", kv{"c": "c1"})
	err = g.Consume(ctx, []string{grpTopic}, grpPlainHandler{raw})
	raw.Ev("consume_ret", kv{"c": "c1", "err": grpErrStr(err)})
	raw.Ev("close_call", kv{"c": "c1"})
	err = g.Close()
	raw.Ev("close_ret", kv{"c": "c1", "err": grpErrStr(err)})
	raw.Ev("done", kv{"c": "c1"})
}
