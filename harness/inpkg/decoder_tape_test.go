//go:build verif
// +build verif

package sarama

// C10 harness, part 2: the recording packetDecoder ("tape") and the deterministic structural
// mutations derived from it.

import (
	"encoding/binary"
	"fmt"
	"hash/crc32"
	"math"
	"math/rand"
	"runtime"
	"sort"
	"strings"
)

// ---------------------------------------------------------------- tape

type vdCell struct {
	Enc    string // encoding of the cell header: int8 int16 int32 int64 varint uvarint
	Prim   string // primitive that read it
	Off, W int    // absolute offset / width of the header in the whole buffer
	Rem    int    // bytes that remained in the reading decoder after the header
	Caller string // sarama function that called the primitive
	Length bool   // the primitive interprets the header as a length / count
	Val    int64  // value of the header in the valid encoding (uvarint cells: the raw number)
}

// vdExt: a byte extent handed out by getSubset / getRawBytes (its length came from a plain integer cell)
type vdExt struct {
	Kind       string // subset | raw
	Start, End int
	Caller     string
}

type vdPush struct {
	Kind               string // len32 | crc | varlen
	Start, HdrEnd, End int    // absolute; End = cursor at pop (-1 while open)
	DecEnd             int    // absolute end of the buffer of the decoder that read the field
	Poly               crcPolynomial
}

type vdTape struct {
	cells  []vdCell
	pushes []vdPush
	exts   []vdExt
}

func (tp *vdTape) hasCrc() bool {
	for _, p := range tp.pushes {
		if p.Kind == "crc" && p.End >= 0 {
			return true
		}
	}
	return false
}

func (tp *vdTape) signature() string {
	var sb strings.Builder
	for _, c := range tp.cells {
		sb.WriteString(c.Prim)
		sb.WriteByte('@')
		sb.WriteString(c.Caller)
		sb.WriteByte(';')
	}
	for _, p := range tp.pushes {
		sb.WriteString(p.Kind)
		sb.WriteByte(';')
	}
	return sb.String()
}

// vdTapeDec wraps a realDecoder; every primitive is forwarded to it and logged.
type vdTapeDec struct {
	rd    *realDecoder
	base  int
	tp    *vdTape // nil: do not record (peek copies)
	stack []int
}

func vdNewTapeDec(buf []byte, tp *vdTape) *vdTapeDec {
	return &vdTapeDec{rd: &realDecoder{raw: buf}, tp: tp}
}

func vdTrimFunc(fn string) string {
	if i := strings.LastIndex(fn, "/"); i >= 0 {
		fn = fn[i+1:]
	}
	return strings.TrimPrefix(fn, "sarama.")
}

func vdCaller() string {
	pcs := make([]uintptr, 24)
	n := runtime.Callers(3, pcs)
	fr := runtime.CallersFrames(pcs[:n])
	for {
		f, more := fr.Next()
		if !strings.Contains(f.Function, "vdTapeDec") {
			return vdTrimFunc(f.Function)
		}
		if !more {
			return "?"
		}
	}
}

func vdUvarintWidth(b []byte) int {
	for i, x := range b {
		if x < 0x80 {
			return i + 1
		}
	}
	return len(b)
}

func (d *vdTapeDec) log(enc, prim string, off0 int, length bool, err error) {
	if d.tp == nil || err != nil {
		return
	}
	w := 0
	switch enc {
	case "int8":
		w = 1
	case "int16":
		w = 2
	case "int32":
		w = 4
	case "int64":
		w = 8
	default:
		w = vdUvarintWidth(d.rd.raw[off0:])
	}
	if off0+w > len(d.rd.raw) {
		return
	}
	var val int64
	hb := d.rd.raw[off0 : off0+w]
	switch enc {
	case "int8":
		val = int64(int8(hb[0]))
	case "int16":
		val = int64(int16(binary.BigEndian.Uint16(hb)))
	case "int32":
		val = int64(int32(binary.BigEndian.Uint32(hb)))
	case "int64":
		val = int64(binary.BigEndian.Uint64(hb))
	case "varint":
		val, _ = binary.Varint(hb)
	case "uvarint":
		u, _ := binary.Uvarint(hb)
		val = int64(u)
	}
	d.tp.cells = append(d.tp.cells, vdCell{Enc: enc, Prim: prim, Off: d.base + off0, W: w,
		Rem: len(d.rd.raw) - off0 - w, Caller: vdCaller(), Length: length, Val: val})
}

func (d *vdTapeDec) getInt8() (int8, error) {
	o := d.rd.off
	v, err := d.rd.getInt8()
	d.log("int8", "getInt8", o, false, err)
	return v, err
}

func (d *vdTapeDec) getInt16() (int16, error) {
	o := d.rd.off
	v, err := d.rd.getInt16()
	d.log("int16", "getInt16", o, false, err)
	return v, err
}

func (d *vdTapeDec) getInt32() (int32, error) {
	o := d.rd.off
	v, err := d.rd.getInt32()
	d.log("int32", "getInt32", o, false, err)
	return v, err
}

func (d *vdTapeDec) getInt64() (int64, error) {
	o := d.rd.off
	v, err := d.rd.getInt64()
	d.log("int64", "getInt64", o, false, err)
	return v, err
}

func (d *vdTapeDec) getVarint() (int64, error) {
	o := d.rd.off
	v, err := d.rd.getVarint()
	d.log("varint", "getVarint", o, false, err)
	return v, err
}

func (d *vdTapeDec) getUVarint() (uint64, error) {
	o := d.rd.off
	v, err := d.rd.getUVarint()
	d.log("uvarint", "getUVarint", o, false, err)
	return v, err
}

func (d *vdTapeDec) getArrayLength() (int, error) {
	o := d.rd.off
	v, err := d.rd.getArrayLength()
	d.log("int32", "getArrayLength", o, true, err)
	return v, err
}

func (d *vdTapeDec) getCompactArrayLength() (int, error) {
	o := d.rd.off
	v, err := d.rd.getCompactArrayLength()
	d.log("uvarint", "getCompactArrayLength", o, true, err)
	return v, err
}

func (d *vdTapeDec) getBool() (bool, error) {
	o := d.rd.off
	v, err := d.rd.getBool()
	d.log("int8", "getBool", o, false, err)
	return v, err
}

func (d *vdTapeDec) getEmptyTaggedFieldArray() (int, error) {
	o := d.rd.off
	v, err := d.rd.getEmptyTaggedFieldArray()
	d.log("uvarint", "getEmptyTaggedFieldArray", o, true, err)
	return v, err
}

func (d *vdTapeDec) getBytes() ([]byte, error) {
	o := d.rd.off
	v, err := d.rd.getBytes()
	d.log("int32", "getBytes", o, true, err)
	return v, err
}

func (d *vdTapeDec) getVarintBytes() ([]byte, error) {
	o := d.rd.off
	v, err := d.rd.getVarintBytes()
	d.log("varint", "getVarintBytes", o, true, err)
	return v, err
}

func (d *vdTapeDec) getCompactBytes() ([]byte, error) {
	o := d.rd.off
	v, err := d.rd.getCompactBytes()
	d.log("uvarint", "getCompactBytes", o, true, err)
	return v, err
}

func (d *vdTapeDec) getRawBytes(length int) ([]byte, error) {
	o := d.rd.off
	v, err := d.rd.getRawBytes(length)
	if err == nil && d.tp != nil {
		d.tp.exts = append(d.tp.exts, vdExt{Kind: "raw", Start: d.base + o, End: d.base + d.rd.off, Caller: vdCaller()})
	}
	return v, err
}

func (d *vdTapeDec) getString() (string, error) {
	o := d.rd.off
	v, err := d.rd.getString()
	d.log("int16", "getString", o, true, err)
	return v, err
}

func (d *vdTapeDec) getNullableString() (*string, error) {
	o := d.rd.off
	v, err := d.rd.getNullableString()
	d.log("int16", "getNullableString", o, true, err)
	return v, err
}

func (d *vdTapeDec) getCompactString() (string, error) {
	o := d.rd.off
	v, err := d.rd.getCompactString()
	d.log("uvarint", "getCompactString", o, true, err)
	return v, err
}

func (d *vdTapeDec) getCompactNullableString() (*string, error) {
	o := d.rd.off
	v, err := d.rd.getCompactNullableString()
	d.log("uvarint", "getCompactNullableString", o, true, err)
	return v, err
}

func (d *vdTapeDec) getCompactInt32Array() ([]int32, error) {
	o := d.rd.off
	v, err := d.rd.getCompactInt32Array()
	d.log("uvarint", "getCompactInt32Array", o, true, err)
	return v, err
}

func (d *vdTapeDec) getInt32Array() ([]int32, error) {
	o := d.rd.off
	v, err := d.rd.getInt32Array()
	d.log("int32", "getInt32Array", o, true, err)
	return v, err
}

func (d *vdTapeDec) getInt64Array() ([]int64, error) {
	o := d.rd.off
	v, err := d.rd.getInt64Array()
	d.log("int32", "getInt64Array", o, true, err)
	return v, err
}

func (d *vdTapeDec) getStringArray() ([]string, error) {
	o := d.rd.off
	v, err := d.rd.getStringArray()
	d.log("int32", "getStringArray", o, true, err)
	return v, err
}

func (d *vdTapeDec) remaining() int { return d.rd.remaining() }

func (d *vdTapeDec) getSubset(length int) (packetDecoder, error) {
	o := d.rd.off
	sub, err := d.rd.getSubset(length)
	if err != nil {
		return nil, err
	}
	if d.tp != nil {
		d.tp.exts = append(d.tp.exts, vdExt{Kind: "subset", Start: d.base + o, End: d.base + d.rd.off, Caller: vdCaller()})
	}
	return &vdTapeDec{rd: sub.(*realDecoder), base: d.base + o, tp: d.tp}, nil
}

func (d *vdTapeDec) peek(offset, length int) (packetDecoder, error) {
	sub, err := d.rd.peek(offset, length)
	if err != nil {
		return nil, err
	}
	return &vdTapeDec{rd: sub.(*realDecoder), base: d.base + d.rd.off + offset}, nil
}

func (d *vdTapeDec) peekInt8(offset int) (int8, error) { return d.rd.peekInt8(offset) }

func (d *vdTapeDec) push(in pushDecoder) error {
	o := d.rd.off
	err := d.rd.push(in)
	if err != nil || d.tp == nil {
		return err
	}
	p := vdPush{Start: d.base + o, HdrEnd: d.base + d.rd.off, End: -1, DecEnd: d.base + len(d.rd.raw)}
	switch x := in.(type) {
	case *lengthField:
		p.Kind = "len32"
		// the extent a length field delimits is known from its own value (do not depend on the decoder under test
		// popping it: a decoder that forgets the pop is exactly what must be noticed)
		p.End = p.HdrEnd + int(x.length)
	case *crc32Field:
		p.Kind = "crc"
		p.Poly = x.polynomial
	case *varintLengthField:
		p.Kind = "varlen"
		p.End = p.HdrEnd + int(x.length)
	default:
		p.Kind = fmt.Sprintf("%T", in)
	}
	d.tp.pushes = append(d.tp.pushes, p)
	d.stack = append(d.stack, len(d.tp.pushes)-1)
	return nil
}

func (d *vdTapeDec) pop() error {
	err := d.rd.pop()
	if d.tp != nil && len(d.stack) > 0 {
		i := d.stack[len(d.stack)-1]
		d.stack = d.stack[:len(d.stack)-1]
		if err == nil && (d.tp.pushes[i].Kind == "crc" || d.tp.pushes[i].End < 0) {
			d.tp.pushes[i].End = d.base + d.rd.off
		}
	}
	return err
}

// ---------------------------------------------------------------- mutations

type vdCase struct {
	Kind     string `json:"kind"` // cell | flip | crcflip | trunc | rand | valid
	Trig     string `json:"trig"` // trigger class
	Prim     string `json:"prim"`
	Caller   string `json:"caller"`
	Fix      bool   `json:"fix"` // enclosing CRC / length fields recomputed (a consistent adversary)
	Pos      int    `json:"pos"`
	Dmg      bool   `json:"dmg"`      // alters a checksummed extent, or a length now disagrees with the data
	Strict   bool   `json:"strict"`   // everything is consistent (CRCs, enclosing lengths) except ONE length/count, or junk trails inside an extent
	MustFail bool   `json:"mustfail"` // a push/pop-verified length or CRC field is wrong (all else consistent): must be reported
	// the damaged length exceeds the bytes that remain in its decoder: the one situation the code documents as
	// "partial trailing message" (a message cut short at the end of the fetched bytes)
	TruncOK bool `json:"truncok"`
	RunVer  int  `json:"runver"` // >= 0: decode with this version instead of the one the bytes were written in
	inner   []byte
}

var vdOverflowVarint = []byte{0x80, 0x80, 0x80, 0x80, 0x80, 0x80, 0x80, 0x80, 0x80, 0x7f}

type vdVal struct {
	trig string
	enc  []byte
}

func vdI16(v int) []byte {
	b := make([]byte, 2)
	binary.BigEndian.PutUint16(b, uint16(int16(v)))
	return b
}
func vdI32(v int) []byte {
	b := make([]byte, 4)
	binary.BigEndian.PutUint32(b, uint32(int32(v)))
	return b
}
func vdVar(v int64) []byte {
	b := make([]byte, binary.MaxVarintLen64)
	return b[:binary.PutVarint(b, v)]
}
func vdUvar(v uint64) []byte {
	b := make([]byte, binary.MaxVarintLen64)
	return b[:binary.PutUvarint(b, v)]
}

// the adversarial values of one cell, by the LOGICAL length they denote
func vdCellValues(c vdCell) []vdVal {
	switch c.Enc {
	case "int16":
		vs := []vdVal{{"len=-2", vdI16(-2)}, {"len=-1", vdI16(-1)}, {"len=0", vdI16(0)}}
		if c.Rem+1 <= math.MaxInt16 {
			vs = append(vs, vdVal{"len=rem+1", vdI16(c.Rem + 1)})
		}
		return append(vs, vdVal{"len=max", vdI16(math.MaxInt16)})
	case "int32":
		return []vdVal{{"len=-2", vdI32(-2)}, {"len=-1", vdI32(-1)}, {"len=0", vdI32(0)},
			{"len=rem+1", vdI32(c.Rem + 1)}, {"len=big", vdI32(1 << 20)}, {"len=max", vdI32(math.MaxInt32)}}
	case "varint":
		return []vdVal{{"len=-2", vdVar(-2)}, {"len=-1", vdVar(-1)}, {"len=0", vdVar(0)},
			{"len=rem+1", vdVar(int64(c.Rem + 1))}, {"len=big", vdVar(1 << 20)}, {"len=max", vdVar(math.MaxInt32)},
			{"len=huge", vdVar(math.MaxInt64)}, {"varint-overflow", vdOverflowVarint}}
	case "uvarint": // compact encodings carry length+1; 0 is the null marker
		return []vdVal{{"len=-2", vdUvar(math.MaxUint64)}, {"len=-1", vdUvar(0)}, {"len=0", vdUvar(1)},
			{"len=rem+1", vdUvar(uint64(c.Rem + 2))}, {"len=big", vdUvar(1<<20 + 1)}, {"len=max", vdUvar(1 << 31)},
			{"len=huge", vdUvar(1 << 63)}, {"varint-overflow", vdOverflowVarint}}
	}
	return nil
}

func vdSplice(b []byte, off, w int, ins []byte) []byte {
	out := make([]byte, 0, len(b)-w+len(ins))
	out = append(out, b[:off]...)
	out = append(out, ins...)
	return append(out, b[off+w:]...)
}

func vdCrcOf(poly crcPolynomial, b []byte) uint32 {
	if poly == crcCastagnoli {
		return crc32.Checksum(b, castagnoliTable)
	}
	return crc32.ChecksumIEEE(b)
}

// vdFixup recomputes every push field (length / CRC) that encloses position pos after the
// bytes at pos grew by delta; innermost first.
func vdFixup(tp *vdTape, b []byte, pos, delta int) ([]byte, bool) {
	var enc []vdPush
	for _, p := range tp.pushes {
		if p.End >= 0 && p.HdrEnd <= pos && pos < p.End {
			enc = append(enc, p)
		}
	}
	if len(enc) == 0 {
		return b, false
	}
	sort.Slice(enc, func(i, j int) bool { return enc[i].Start > enc[j].Start })
	d := delta
	for _, p := range enc {
		end := p.End + d
		if end > len(b) || p.HdrEnd > end {
			return b, false
		}
		switch p.Kind {
		case "len32":
			binary.BigEndian.PutUint32(b[p.Start:], uint32(end-p.Start-4))
		case "crc":
			binary.BigEndian.PutUint32(b[p.Start:], vdCrcOf(p.Poly, b[p.Start+4:end]))
		case "varlen":
			nw := vdVar(int64(end - p.HdrEnd))
			ow := p.HdrEnd - p.Start
			b = vdSplice(b, p.Start, ow, nw)
			d += len(nw) - ow
		}
	}
	return b, true
}

func vdInsideCrc(tp *vdTape, pos int) bool {
	for _, p := range tp.pushes {
		if p.Kind == "crc" && p.End >= 0 && p.Start <= pos && pos < p.End {
			return true
		}
	}
	return false
}

// plain integer cells are mutated too: several decoders read a count with getInt32 / getVarint
func vdMutable(c vdCell) bool {
	if c.Length {
		return true
	}
	switch c.Prim {
	case "getInt32", "getVarint", "getUVarint":
		return true
	}
	return false
}

// ---------------------------------------------------------------- consistent damage: one length disagrees

// vdPlainLen: a plain integer cell (getInt32 / getVarint) that the calling decoder uses as a byte length or a
// count; returns the extent it delimits ([start,end), -1 when it is a count)
func vdPlainLen(tp *vdTape, i int) (isLen bool, start, end int) {
	c := tp.cells[i]
	switch {
	case c.Prim == "getInt32" && c.Val >= 0:
		// the length of a getSubset extent that starts right behind the cell (FetchResponseBlock.recordsSize)
		for _, e := range tp.exts {
			if e.Kind == "subset" && e.Start == c.Off+c.W && int64(e.End-e.Start) == c.Val {
				return true, e.Start, e.End
			}
		}
		// RecordBatch.decode: FirstOffset (int64), then the batch length
		if c.Caller == "(*RecordBatch).decode" && i > 0 && tp.cells[i-1].Prim == "getInt64" && tp.cells[i-1].Caller == c.Caller &&
			tp.cells[i-1].Off+8 == c.Off {
			return true, c.Off + c.W, c.Off + c.W + int(c.Val)
		}
	case c.Prim == "getVarint" && c.Caller == "(*Record).decode":
		// Record.decode: ... value (varint bytes), then the header count
		if i > 0 && tp.cells[i-1].Prim == "getVarintBytes" && tp.cells[i-1].Caller == c.Caller {
			if i < 2 || tp.cells[i-2].Prim == "getVarintBytes" && tp.cells[i-2].Caller == c.Caller {
				return true, -1, -1
			}
		}
	}
	return false, -1, -1
}

// vdRefit makes the encoding consistent again after the bytes at pos grew by delta: plain byte lengths whose
// extent contains pos are adjusted, then the push fields (lengths, CRCs), innermost first. skip: index of a
// cell that must keep its (deliberately wrong) value.
func vdRefit(tp *vdTape, b []byte, pos, delta, skip int) []byte {
	if delta != 0 {
		for i, c := range tp.cells {
			if i == skip || c.Enc != "int32" {
				continue
			}
			if ok, st, en := vdPlainLen(tp, i); ok && st >= 0 && st <= pos && pos < en && c.Off < pos {
				binary.BigEndian.PutUint32(b[c.Off:], uint32(int32(c.Val)+int32(delta)))
			}
		}
	}
	out, _ := vdFixup(tp, b, pos, delta)
	return out
}

func vdEncodeLike(c vdCell, v int64) []byte {
	switch c.Enc {
	case "int16":
		return vdI16(int(v))
	case "int32":
		return vdI32(int(v))
	case "varint":
		return vdVar(v)
	case "uvarint":
		return vdUvar(uint64(v))
	}
	return nil
}

// vdConsistentCases: (a) every length / count cell <- its value -1 / +1 with every CRC and every enclosing length
// recomputed, so that ONLY this cell disagrees with the data; the same for the push length fields themselves;
// (b) junk trailing inside every length-delimited extent (the extent's own length and everything around it
// adjusted), and behind the whole encoding.
func vdConsistentCases(s *vdSubject, tp *vdTape, add func(vdCase)) {
	valid := s.valid
	for i, c := range tp.cells {
		isLen := c.Length
		if !isLen {
			isLen, _, _ = vdPlainLen(tp, i)
		}
		if !isLen || c.Prim == "getEmptyTaggedFieldArray" {
			continue
		}
		for _, d := range []int64{-1, 1} {
			nv := c.Val + d
			if c.Enc == "uvarint" && nv < 1 { // 0 is the null marker of compact encodings: a different value, not an off-by-one
				continue
			}
			if nv < -1 || (c.Enc == "int16" && nv > math.MaxInt16) {
				continue
			}
			enc := vdEncodeLike(c, nv)
			if enc == nil {
				continue
			}
			b := vdSplice(valid, c.Off, c.W, enc)
			b = vdRefit(tp, b, c.Off, len(enc)-c.W, i)
			trig := "len=orig+1"
			if d < 0 {
				trig = "len=orig-1"
			}
			add(vdCase{Kind: "offby1", Trig: trig, Prim: c.Prim, Caller: c.Caller, Fix: true, Strict: true, Pos: c.Off, inner: b})
		}
	}
	// every push/pop-verified field (block length, record length, CRC), at every nesting level, is damaged on its
	// own while everything AROUND it is recomputed: the decoder must report it (MustFail) - the only tolerated
	// outcomes are the ones the code documents (ErrInsufficientData on a trailing block = flagged partial;
	// whole trailing batches of a fetch block dropped)
	for _, p := range tp.pushes {
		if p.End < 0 || p.End > len(valid) || p.End < p.HdrEnd {
			continue
		}
		w := p.HdrEnd - p.Start
		type dv struct {
			trig string
			enc  []byte
			v    int64
		}
		var vals []dv
		switch p.Kind {
		case "len32", "varlen":
			orig := int64(p.End - p.HdrEnd)
			cand := []struct {
				trig string
				v    int64
			}{{"len=orig-1", orig - 1}, {"len=orig+1", orig + 1}, {"len=0", 0}, {"len=-1", -1}, {"len=-2", -2}, {"len=minint32", math.MinInt32}, {"len=bit31", orig - (1 << 31)},
				{"len=orig/2", orig / 2}, {"len=orig*2", orig * 2}}
			for k, al := range s.altLens {
				cand = append(cand, struct {
					trig string
					v    int64
				}{fmt.Sprintf("len=alt%d", k), int64(al)})
			}
			for _, c := range cand {
				if c.v == orig {
					continue
				}
				if p.Kind == "len32" {
					vals = append(vals, dv{c.trig, vdI32(int(c.v)), c.v})
				} else {
					vals = append(vals, dv{c.trig, vdVar(c.v), c.v})
				}
			}
		case "crc":
			cur := binary.BigEndian.Uint32(valid[p.Start:])
			for _, c := range []struct {
				trig string
				v    uint32
			}{{"crc^1", cur ^ 1}, {"crc^msb", cur ^ 0x80000000}, {"crc=0", 0}, {"crc=other-poly", vdCrcOf(1-p.Poly, valid[p.Start+4:p.End])}} {
				if c.v != cur {
					e := make([]byte, 4)
					binary.BigEndian.PutUint32(e, c.v)
					vals = append(vals, dv{c.trig, e, 0})
				}
			}
		default:
			continue
		}
		for _, v := range vals {
			b := vdSplice(valid, p.Start, w, v.enc)
			b = vdRefit(tp, b, p.Start, len(v.enc)-w, -1)
			truncOK := p.Kind != "crc" && v.v > int64(p.DecEnd-p.Start-len(v.enc))
			add(vdCase{Kind: "pushdmg", Trig: v.trig, Prim: "push:" + p.Kind, Caller: "-", Fix: true, MustFail: true, TruncOK: truncOK, Pos: p.Start, inner: b})
		}
	}
	// (b) junk
	ends := map[int]bool{}
	for _, p := range tp.pushes {
		if p.End > p.HdrEnd {
			ends[p.End] = true
		}
	}
	for _, e := range tp.exts {
		if e.End > e.Start {
			ends[e.End] = true
		}
	}
	for i := range tp.cells {
		if ok, st, en := vdPlainLen(tp, i); ok && st >= 0 && en > st && en <= len(valid) {
			ends[en] = true
		}
	}
	var el []int
	for e := range ends {
		if e > 0 && e <= len(valid) {
			el = append(el, e)
		}
	}
	sort.Ints(el)
	for _, e := range el {
		for _, junk := range [][]byte{{0x00}, {0xff, 0x01, 0x7f}} {
			b := vdSplice(valid, e, 0, junk)
			b = vdRefit(tp, b, e-1, len(junk), -1)
			add(vdCase{Kind: "junk", Trig: "trailing-junk", Prim: "-", Caller: "-", Fix: true, Strict: true, Pos: e, inner: b})
		}
	}
	for _, junk := range [][]byte{{0x00}, {0xff, 0x01, 0x7f}} {
		add(vdCase{Kind: "junk", Trig: "trailing-junk", Prim: "-", Caller: "-", Fix: true, Strict: true, Pos: len(valid),
			inner: append(append([]byte(nil), valid...), junk...)})
	}
}

// vdCases enumerates the mutations of one subject in a fixed order; identical byte strings
// are kept once. thorough adds denser bit flips and, seeded, random damage.
func vdCases(s *vdSubject, tp *vdTape, thorough bool, rnd *rand.Rand) []vdCase {
	var out []vdCase
	seen := map[string]bool{string(s.valid): true}
	add := func(c vdCase) {
		c.RunVer = -1
		k := string(c.inner)
		if seen[k] {
			return
		}
		seen[k] = true
		out = append(out, c)
	}
	valid := s.valid
	// 1. every length / count cell <- adversarial values, raw and with enclosing fields fixed up
	for _, c := range tp.cells {
		if !vdMutable(c) {
			continue
		}
		for _, v := range vdCellValues(c) {
			raw := vdSplice(valid, c.Off, c.W, v.enc)
			add(vdCase{Kind: "cell", Trig: v.trig, Prim: c.Prim, Caller: c.Caller, Pos: c.Off, inner: raw,
				Dmg: c.Length || vdInsideCrc(tp, c.Off)})
			fx := append([]byte(nil), raw...)
			if fx, ok := vdFixup(tp, fx, c.Off, len(v.enc)-c.W); ok {
				add(vdCase{Kind: "cell", Trig: v.trig, Prim: c.Prim, Caller: c.Caller, Fix: true, Pos: c.Off, inner: fx})
			}
		}
	}
	// 2. truncation at every cell boundary, at every byte of the first 64, and one byte short
	cuts := map[int]bool{}
	for _, c := range tp.cells {
		cuts[c.Off] = true
		cuts[c.Off+c.W] = true
	}
	for i := 0; i < 64; i++ {
		cuts[i] = true
	}
	cuts[len(valid)-1] = true
	var cl []int
	for k := range cuts {
		if k >= 0 && k < len(valid) {
			cl = append(cl, k)
		}
	}
	sort.Ints(cl)
	for _, k := range cl {
		add(vdCase{Kind: "trunc", Trig: "truncate", Prim: "-", Caller: "-", Pos: k, Dmg: true, inner: append([]byte(nil), valid[:k]...)})
	}
	// 3. bit flips inside CRC-covered extents (and in the CRC field itself)
	for _, p := range tp.pushes {
		if p.Kind != "crc" || p.End < 0 {
			continue
		}
		n := p.End - p.Start
		step := 1
		if !thorough && n > 24 {
			step = (n + 23) / 24
		}
		for pos := p.Start; pos < p.End; pos += step {
			b := append([]byte(nil), valid...)
			b[pos] ^= 1 << uint(pos%8)
			add(vdCase{Kind: "crcflip", Trig: "bitflip", Prim: "-", Caller: "-", Pos: pos, Dmg: true, inner: b})
		}
		b := append([]byte(nil), valid...)
		b[p.End-1] ^= 0x80
		add(vdCase{Kind: "crcflip", Trig: "bitflip", Prim: "-", Caller: "-", Pos: p.End - 1, Dmg: true, inner: b})
	}
	// 4. bit flips in every cell header (sign bit of the first byte, low bit of the last)
	for _, c := range tp.cells {
		for _, f := range [][2]int{{c.Off, 0x80}, {c.Off + c.W - 1, 0x01}} {
			b := append([]byte(nil), valid...)
			b[f[0]] ^= byte(f[1])
			k := "flip"
			if vdInsideCrc(tp, f[0]) {
				k = "crcflip"
			}
			add(vdCase{Kind: k, Trig: "bitflip", Prim: c.Prim, Caller: c.Caller, Pos: f[0], Dmg: k == "crcflip", inner: b})
		}
	}
	// 4b. consistent damage: exactly one length / count is wrong, or junk trails inside an extent
	vdConsistentCases(s, tp, add)
	if s.extra != nil {
		for _, c := range s.extra(tp) {
			add(c)
		}
	}
	// 5. the unaltered bytes decoded as another version of the same message
	for _, v := range s.vers {
		if v != s.ver && s.runAt != nil {
			out = append(out, vdCase{Kind: "vermix", Trig: "version", Prim: "-", Caller: "-", Pos: int(v), RunVer: int(v), inner: valid})
		}
	}
	if !thorough {
		return out
	}
	for pos := 0; pos < len(valid); pos++ {
		b := append([]byte(nil), valid...)
		b[pos] ^= 1 << uint((pos+3)%8)
		k := "flip"
		if vdInsideCrc(tp, pos) {
			k = "crcflip"
		}
		add(vdCase{Kind: k, Trig: "bitflip", Prim: "-", Caller: "-", Pos: pos, Dmg: k == "crcflip", inner: b})
	}
	// 6. seeded random damage (thorough only; cannot be attributed to a trigger class)
	var mut []vdCell
	for _, c := range tp.cells {
		if vdMutable(c) {
			mut = append(mut, c)
		}
	}
	for k := 0; k < 120; k++ {
		var b []byte
		fix := false
		switch k % 4 {
		case 0, 1: // several cells at once (descending offsets keep the recorded offsets valid)
			if len(mut) == 0 {
				continue
			}
			b = append([]byte(nil), valid...)
			idx := rnd.Perm(len(mut))
			if len(idx) > 1+k%3 {
				idx = idx[:1+k%3]
			}
			sort.Sort(sort.Reverse(sort.IntSlice(idx)))
			same := true
			for _, i := range idx {
				c := mut[i]
				vs := vdCellValues(c)
				v := vs[rnd.Intn(len(vs))]
				if len(v.enc) != c.W {
					same = false
				}
				b = vdSplice(b, c.Off, c.W, v.enc)
			}
			if same && k%4 == 1 {
				c := mut[idx[len(idx)-1]]
				b, fix = vdFixup(tp, b, c.Off, 0)
			}
		case 2: // garbage spliced in
			b = append([]byte(nil), valid...)
			pos := rnd.Intn(len(b) + 1)
			g := make([]byte, 1+rnd.Intn(8))
			rnd.Read(g)
			w := rnd.Intn(4)
			if pos+w > len(b) {
				w = len(b) - pos
			}
			b = vdSplice(b, pos, w, g)
		default: // pure noise
			b = make([]byte, rnd.Intn(2*len(valid)+2))
			rnd.Read(b)
		}
		add(vdCase{Kind: "rand", Trig: "random", Prim: "-", Caller: "-", Fix: fix, Pos: k, inner: b})
	}
	return out
}
