#!/usr/bin/env python3
"""Shared runner library for the sarama TLA+ verification checks.

Pipeline pieces (DESIGN.md section 3): TLC in its four roles (exhaustive model checking,
behaviour/case generation, trace validation, oracle evaluation), the Go harness compiled
INTO package sarama from /repo's current working tree through `go test -overlay`,
known-finding classification, evidence writing, exit codes.

Exit codes of a check: 0 property held on everything explored (KNOWN-FINDING lines
allowed), 1 violation (a `VIOLATION property=<id> replay=<path>` line was printed),
2 inconclusive (build failure, TLC crash, timeout of the checker itself ...).
"""
import glob
import json
import os
import re
import shutil
import subprocess
import sys
import tempfile
import threading
import time

VERIF = os.path.dirname(os.path.dirname(os.path.abspath(__file__)))
REPO = os.environ.get("VERIF_REPO", "/repo")
# evidence/ and replays/ are written under /verif unless VERIF_OUTROOT redirects them (used when a
# check is run against a deliberately mutated copy of the repository: bin/mutant-try)
OUTROOT = os.environ.get("VERIF_OUTROOT", VERIF)
SPEC = os.path.join(VERIF, "spec")
HARNESS = os.path.join(VERIF, "harness")
TLA_CP = "/opt/veriftools/tla/tla2tools.jar:/opt/veriftools/tla/CommunityModules-deps.jar"

GOENV = {
    "GOFLAGS": "-mod=mod",
    "GOPROXY": "off",
    "GOSUMDB": "off",
    "GOTOOLCHAIN": "local",
}


class Inconclusive(Exception):
    pass


class TLCResult:
    def __init__(self, rc, out, wall):
        self.rc = rc
        self.out = out
        self.wall = wall
        self.generated = 0
        self.distinct = 0
        self.depth = 0
        self.violated = None       # name of violated invariant / property, if any
        self.error = None          # other TLC error text
        self.timed_out = False
        m = None
        for m in re.finditer(r"(\d+) states generated, (\d+) distinct states found", out):
            pass
        if m:
            self.generated = int(m.group(1))
            self.distinct = int(m.group(2))
        m = re.search(r"The depth of the complete state graph search is (\d+)", out)
        if m:
            self.depth = int(m.group(1))
        m = re.search(r"Invariant (\S+) is violated", out)
        if m:
            self.violated = m.group(1)
        m = re.search(r"Action property (\S+) is violated", out)
        if m and not self.violated:
            self.violated = m.group(1)
        if "Temporal properties were violated" in out and not self.violated:
            self.violated = "temporal"
        if rc != 0 and not self.violated:
            m = re.search(r"Error: (.*)", out)
            self.error = m.group(1) if m else "tlc exit %d" % rc
        self.finished = "Model checking completed" in out or "Finished computing initial states" in out and rc == 0

    def printed_raw(self, tag):
        """string literals printed by PrintT(<<tag, "...">>) (TLC may wrap the tuple over several lines)"""
        pat = re.compile(r'<<\s*"%s",\s*("(?:[^"\\]|\\.)*")\s*>>' % re.escape(tag), re.S)
        return [m.group(1) for m in pat.finditer(self.out)]

    def printed(self, tag):
        """values printed by PrintT(<<tag, ToJson(v)>>) -> list of decoded JSON values"""
        return [json.loads(tla_unquote(x)) for x in self.printed_raw(tag)]


def tla_unquote(s):
    """TLA+ string literal as printed by TLC -> python str"""
    assert s[0] == '"' and s[-1] == '"'
    body = s[1:-1]
    out = []
    i = 0
    while i < len(body):
        c = body[i]
        if c == "\\" and i + 1 < len(body):
            n = body[i + 1]
            out.append({"n": "\n", "t": "\t", "r": "\r", "f": "\f"}.get(n, n))
            i += 2
        else:
            out.append(c)
            i += 1
    return "".join(out)


class Ctx:
    def __init__(self, pid, tier, seed):
        self.pid = pid
        self.tier = tier
        self.seed = seed
        self.t0 = time.time()
        self.scratch = tempfile.mkdtemp(prefix="verif-run.%s." % pid, dir="/var/tmp")
        self.ntlc = 0
        self.lock = threading.Lock()
        self.log = []
        self.keep = bool(os.environ.get("VERIF_KEEP"))

    def say(self, *a):
        print(*a, flush=True)

    def cleanup(self):
        if not self.keep:
            shutil.rmtree(self.scratch, ignore_errors=True)

    # ------------------------------------------------------------------ TLC
    def tlc(self, module, cfg, workers="auto", timeout=600, extra=None, files=None,
            heap=None, simulate=None, depth=None, deadlock=False, seed=None, props=None,
            dfs=False, name=None):
        """Run TLC on spec/<module>.tla with spec/cfg/<cfg> in a private scratch dir.
        files: {name: path} extra files copied next to the spec (e.g. trace.ndjson)."""
        with self.lock:
            self.ntlc += 1
            d = os.path.join(self.scratch, "tlc%d-%s" % (self.ntlc, name or module))
        os.makedirs(d)
        for f in glob.glob(os.path.join(SPEC, "*.tla")):
            shutil.copy(f, d)
        cfgsrc = cfg if os.path.isabs(cfg) else os.path.join(SPEC, "cfg", cfg)
        shutil.copy(cfgsrc, os.path.join(d, module + ".cfg"))
        for k, v in (files or {}).items():
            dst = os.path.join(d, k)
            if os.path.abspath(v) != os.path.abspath(dst):
                try:
                    os.link(v, dst)
                except OSError:
                    shutil.copy(v, dst)
        jopts = []
        if not heap:
            # bounded heaps: many TLC processes run side by side (sharded trace validation, several checks)
            heap = "2g" if str(workers) == "1" else "6g"
        jopts.append("-Xmx%s" % heap)
        jopts.append("-Xss64m")
        if dfs:
            jopts.append("-Dtlc2.tool.queue.IStateQueue=StateDeque")
        for k, v in (props or {}).items():
            jopts.append("-D%s=%s" % (k, v))
        cmd = ["java", "-XX:+UseParallelGC"] + jopts + ["-cp", TLA_CP, "tlc2.TLC",
               "-workers", str(workers), "-metadir", os.path.join(d, "md"),
               "-config", module + ".cfg"]
        if not deadlock:
            cmd.append("-deadlock")   # -deadlock DISABLES deadlock checking
        if simulate:
            cmd += ["-simulate", simulate]
        if depth:
            cmd += ["-depth", str(depth)]
        if seed is not None:
            cmd += ["-seed", str(seed)]
        cmd += (extra or [])
        cmd.append(module + ".tla")
        t = time.time()
        try:
            p = subprocess.run(cmd, cwd=d, stdout=subprocess.PIPE, stderr=subprocess.STDOUT,
                               timeout=timeout, universal_newlines=True, errors="replace")
            rc, out = p.returncode, p.stdout
            to = False
        except subprocess.TimeoutExpired as e:
            rc, out, to = 124, (e.stdout or b"").decode("utf8", "replace") if isinstance(e.stdout, bytes) else (e.stdout or ""), True
            subprocess.call(["pkill", "-f", d])
        r = TLCResult(rc, out, time.time() - t)
        r.timed_out = to
        r.dir = d
        r.cmd = " ".join(cmd)
        with open(os.path.join(d, "tlc.out"), "w") as f:
            f.write(out)
        shutil.rmtree(os.path.join(d, "md"), ignore_errors=True)
        return r

    def need(self, r, what, allow_violation=False):
        """raise Inconclusive unless TLC run r finished cleanly"""
        if r.timed_out:
            raise Inconclusive("%s: TLC timed out after %.0fs" % (what, r.wall))
        if r.error:
            tail = "\n".join(r.out.splitlines()[-25:])
            raise Inconclusive("%s: TLC error: %s\n%s" % (what, r.error, tail))
        if r.violated and not allow_violation:
            tail = "\n".join(r.out.splitlines()[-40:])
            raise Inconclusive("%s: model-level violation of %s (the specification itself is "
                               "inconsistent with its properties; never a verdict about the code)\n%s"
                               % (what, r.violated, tail))
        return r

    def tlc_trace(self, module, cfg, trace, shards=1, timeout=1800, name="trace", dfs=False):
        """Role 3: validate an NDJSON trace file with a trace spec. The file holds many traces
        (each starts with a `reset` event, the file ends with an `end` event); with shards > 1
        whole traces are dealt out to that many TLC processes running in parallel.
        Returns the list of TLCResult (one per shard)."""
        import concurrent.futures
        if shards <= 1:
            return [self.tlc(module, cfg, workers=1, timeout=timeout, files={"trace.ndjson": trace}, name=name, dfs=dfs)]
        groups = []
        cur = []
        with open(trace) as f:
            for line in f:
                if '"ev":"reset"' in line and cur:
                    groups.append(cur)
                    cur = []
                if '"ev":"end"' in line:
                    continue
                cur.append(line)
        if cur:
            groups.append(cur)
        shards = max(1, min(shards, len(groups)))
        sizes = [0] * shards
        files = []
        outs = []
        for k in range(shards):
            pth = os.path.join(self.scratch, "%s.shard%d.ndjson" % (name, k))
            files.append(pth)
            outs.append(open(pth, "w"))
        for g in sorted(groups, key=len, reverse=True):
            k = sizes.index(min(sizes))
            outs[k].writelines(g)
            sizes[k] += len(g)
        for o in outs:
            o.write('{"t":0,"i":0,"ev":"end"}\n')
            o.close()
        with concurrent.futures.ThreadPoolExecutor(max_workers=shards) as ex:
            futs = [ex.submit(self.tlc, module, cfg, 1, timeout, None, {"trace.ndjson": files[k]}, None, None, None,
                              False, None, None, dfs, "%s%d" % (name, k)) for k in range(shards)]
            return [f.result() for f in futs]

    # ------------------------------------------------------------------ Go
    def overlay(self, only=None):
        """only: list of glob patterns (basenames) restricting which harness files are compiled in;
        vcommon*/vnothing* are always included. Default: every file (what `bin/check --setup` builds)."""
        import fnmatch
        only = only or os.environ.get("VERIF_HARNESS_ONLY", "").split() or None

        def want(b):
            return (not only) or b.startswith("vcommon") or b.startswith("vnothing") or any(fnmatch.fnmatch(b, p) for p in only)
        ov = {}
        for f in sorted(glob.glob(os.path.join(HARNESS, "inpkg", "*.go"))):
            b = os.path.basename(f)
            if not want(b):
                continue
            if not b.endswith("_test.go"):
                b = b[:-3] + "_test.go"
            ov[os.path.join(REPO, "zz_verif_" + b)] = f
        for f in sorted(glob.glob(os.path.join(HARNESS, "mocks", "*.go"))):
            b = os.path.basename(f)
            if not want(b):
                continue
            if not b.endswith("_test.go"):
                b = b[:-3] + "_test.go"
            ov[os.path.join(REPO, "mocks", "zz_verif_" + b)] = f
        import hashlib
        body = json.dumps({"Replace": ov}, sort_keys=True)
        p = os.path.join(self.scratch, "overlay-%s.json" % hashlib.sha1(body.encode()).hexdigest()[:10])
        if not os.path.exists(p):
            with open(p + ".tmp%d" % os.getpid(), "w") as f:
                f.write(body)
            os.replace(p + ".tmp%d" % os.getpid(), p)
        return p

    def go_test(self, run, pkg=".", env=None, timeout=300, name=None, race=False, only=None):
        """go test -run <run> of the harness compiled into package sarama from REPO's
        current working tree (hooks enabled through -tags verif). Returns (rc, output)."""
        outdir = os.path.join(self.scratch, name or ("go-" + re.sub(r"\W+", "_", run)))
        os.makedirs(outdir, exist_ok=True)
        e = dict(os.environ)
        e.update(GOENV)
        e["VERIF_OUT"] = outdir
        e["VERIF_SEED"] = str(self.seed)
        e["VERIF_TIER"] = self.tier
        e.update({k: str(v) for k, v in (env or {}).items()})
        cmd = ["go", "test", "-overlay", self.overlay(only), "-tags", "verif", "-vet=off",
               "-run", run, "-count=1", "-timeout", "%ds" % timeout]
        if race:
            cmd.append("-race")
        cmd.append(pkg if pkg.startswith(".") else "./" + pkg)
        t = time.time()
        for attempt in (1, 2):
            try:
                p = subprocess.run(cmd, cwd=REPO, env=e, stdout=subprocess.PIPE, stderr=subprocess.STDOUT,
                                   timeout=timeout + 120, universal_newlines=True, errors="replace")
                rc, out = p.returncode, p.stdout
            except subprocess.TimeoutExpired as ex:
                rc, out = 124, "go test: runner timeout\n" + str(ex.stdout or "")
            # the test process was killed from outside (SIGTERM / SIGKILL, e.g. the OOM killer or an
            # unrelated pkill): says nothing about the code, run it once more
            if attempt == 1 and rc != 0 and re.search(r"^signal: (terminated|killed)", out, re.M) and "panic:" not in out:
                self.log.append("go test %s: killed by a signal, retried" % run)
                continue
            break
        with open(os.path.join(outdir, "go.out"), "w") as f:
            f.write(out)
        self.log.append("go test %s: rc=%d %.1fs" % (run, rc, time.time() - t))
        return rc, out, outdir

    def go_test_parallel(self, run, cases, nproc=8, pkg=".", env=None, timeout=600, name="par", only=None, extra_files=None):
        """Build the harness test binary once (go test -c), deal the lines of the case file `cases`
        to nproc processes, run them in parallel, and merge their trace.ndjson files into one
        (trace numbers re-based). Returns (rc, output, merged trace path, [summary dicts])."""
        import concurrent.futures
        outdir = os.path.join(self.scratch, "go-" + name)
        os.makedirs(outdir, exist_ok=True)
        e = dict(os.environ)
        e.update(GOENV)
        binp = os.path.join(outdir, "harness.test")
        cmd = ["go", "test", "-c", "-o", binp, "-overlay", self.overlay(only), "-tags", "verif", "-vet=off",
               pkg if pkg.startswith(".") else "./" + pkg]
        p = subprocess.run(cmd, cwd=REPO, env=e, stdout=subprocess.PIPE, stderr=subprocess.STDOUT, universal_newlines=True)
        if p.returncode != 0 or not os.path.exists(binp):
            return 1, "[build failed]\n" + p.stdout, None, []
        with open(cases) as f:
            lines = [x for x in f if x.strip()]
        nproc = max(1, min(nproc, len(lines)))
        chunks = [lines[k::nproc] for k in range(nproc)]

        def one(k):
            d = os.path.join(outdir, "p%d" % k)
            os.makedirs(d, exist_ok=True)
            cf = os.path.join(d, "cases.ndjson")
            with open(cf, "w") as f:
                f.writelines(chunks[k])
            ee = dict(e)
            ee.update({"VERIF_OUT": d, "VERIF_SEED": str(self.seed), "VERIF_TIER": self.tier, "VERIF_CASES": cf})
            ee.update({kk: str(v) for kk, v in (env or {}).items()})
            for attempt in (1, 2):
                try:
                    q = subprocess.run([binp, "-test.run", run, "-test.count=1", "-test.timeout", "%ds" % timeout],
                                       cwd=os.path.join(REPO, pkg) if pkg != "." else REPO, env=ee, stdout=subprocess.PIPE,
                                       stderr=subprocess.STDOUT, timeout=timeout + 60, universal_newlines=True, errors="replace")
                except subprocess.TimeoutExpired as ex:
                    return 124, "runner timeout\n" + str(ex.stdout or ""), d
                # killed from outside by SIGTERM / SIGKILL (no Go panic, no test output of a failure): once more
                if attempt == 1 and q.returncode in (-15, -9) and "panic:" not in q.stdout:
                    self.log.append("worker %d of %s: killed by signal %d, retried" % (k, run, -q.returncode))
                    continue
                return q.returncode, q.stdout, d
        with concurrent.futures.ThreadPoolExecutor(max_workers=nproc) as ex:
            res = list(ex.map(one, range(nproc)))
        rc = max(r[0] for r in res)
        out = "\n".join(r[1][-4000:] for r in res if r[0] != 0) or "ok"
        def merge(fname):
            merged_p = os.path.join(outdir, fname)
            base = 0
            with open(merged_p, "w") as mf:
                for _, _, d in res:
                    tp = os.path.join(d, fname)
                    if not os.path.exists(tp):
                        continue
                    mx = 0
                    with open(tp) as f:
                        for line in f:
                            if '"ev":"end"' in line[:40]:
                                continue
                            m = re.match(r'\{"t":(\d+),', line)
                            if m is None:
                                if not line.strip():
                                    continue
                                raise Inconclusive("%s: torn trace line in %s: %r" % (run, tp, line[:120]))
                            t = int(m.group(1))
                            mx = max(mx, t)
                            mf.write('{"t":%d,' % (t + base) + line[m.end():])
                    base += mx
                mf.write('{"t":%d,"i":1,"ev":"end"}\n' % (base + 1))
            return merged_p
        merged = merge("trace.ndjson")
        self.extra_traces = {fn: merge(fn) for fn in (extra_files or [])}
        sums = []
        for _, _, d in res:
            sp = os.path.join(d, "summary.json")
            if os.path.exists(sp):
                sums.append(json.load(open(sp)))
        try:
            os.remove(binp)
        except OSError:
            pass
        return rc, out, merged, sums

    def need_go(self, rc, out, what):
        if rc != 0:
            tail = "\n".join(out.splitlines()[-60:])
            if "[build failed]" in out or "[setup failed]" in out:
                raise Inconclusive("%s: harness does not build against the current tree\n%s" % (what, tail))
            raise Inconclusive("%s: harness driver failed (rc=%d)\n%s" % (what, rc, tail))


# ---------------------------------------------------------------------- findings
def load_known():
    p = os.path.join(VERIF, "known_findings.json")
    if not os.path.exists(p):
        return []
    with open(p) as f:
        return json.load(f)["findings"]


def match_known(pid, viol, known):
    """viol: dict with 'clause' and 'features' (dict). An entry matches when property,
    clause and every key of its 'match' dict agree (value, list of allowed values, or
    {'re': pattern})."""
    for k in known:
        if k.get("status") != "known":
            continue
        if pid not in ([k["property"]] + k.get("also", [])):
            continue
        kc = k["clause"]
        if viol["clause"] not in (kc if isinstance(kc, list) else [kc]):
            continue
        ok = True
        for fk, fv in k.get("match", {}).items():
            v = viol.get("features", {}).get(fk)
            if isinstance(fv, dict) and "re" in fv:
                if v is None or not re.search(fv["re"], str(v)):
                    ok = False
            elif isinstance(fv, dict) and "not" in fv:
                if v in fv["not"]:
                    ok = False
            elif isinstance(fv, list):
                if v not in fv:
                    ok = False
            elif v != fv:
                ok = False
        if ok:
            return k
    return None


def finish(ctx, level, coverage, viols, assumptions, save=None, extra_lines=None):
    """Classify violations, print verdict lines, write evidence, return exit code.
    viols: list of dicts {clause, features, trace, index, detail}. save: {name: path or str}
    files copied to the replay dir when something is reported."""
    known = load_known()
    fresh, seen_known = [], {}
    for v in viols:
        k = match_known(ctx.pid, v, known)
        if k:
            seen_known.setdefault(k["id"], (k, []))[1].append(v)
        else:
            fresh.append(v)
    for kid, (k, vs) in sorted(seen_known.items()):
        ctx.say("KNOWN-FINDING: property=%s %s [%s; %d occurrence(s) this run]" % (ctx.pid, k["what"], kid, len(vs)))
    rc = 0
    replay = None
    if fresh or seen_known:
        replay = os.path.join(OUTROOT, "replays", ctx.pid, "%s-%d" % (ctx.tier, ctx.seed))
        shutil.rmtree(replay, ignore_errors=True)
        os.makedirs(replay)
        with open(os.path.join(replay, "info.json"), "w") as f:
            json.dump({"property": ctx.pid, "tier": ctx.tier, "seed": ctx.seed,
                       "violations": fresh[:200],
                       "known": {kid: vs[:20] for kid, (k, vs) in seen_known.items()}}, f, indent=1, default=str)
        for name, src in (save or {}).items():
            try:
                if os.path.exists(src):
                    if os.path.getsize(src) < 20_000_000:
                        shutil.copy(src, os.path.join(replay, name))
            except (OSError, TypeError):
                pass
    if fresh:
        rc = 1
        byclause = {}
        for v in fresh:
            byclause.setdefault(v["clause"], []).append(v)
        for c, vs in sorted(byclause.items()):
            v = vs[0]
            ctx.say("violated clause %s (%d occurrence(s)); first: trace=%s index=%s %s" % (
                c, len(vs), v.get("trace"), v.get("index"), json.dumps(v.get("features", {}), default=str)[:600]))
        ctx.say("VIOLATION property=%s replay=%s" % (ctx.pid, replay))
    for l in (extra_lines or []):
        ctx.say(l)
    wall = time.time() - ctx.t0
    coverage = dict(coverage)
    coverage["known_findings_seen"] = sorted(seen_known.keys())
    ev = {
        "property_id": ctx.pid,
        "tier": ctx.tier,
        "seed": ctx.seed,
        "level": level,
        "coverage": coverage,
        "assumptions": assumptions,
        "wall_s": round(wall, 2),
        "violations": len(fresh),
    }
    os.makedirs(os.path.join(OUTROOT, "evidence"), exist_ok=True)
    with open(os.path.join(OUTROOT, "evidence", ctx.pid + ".json"), "w") as f:
        json.dump(ev, f, indent=1, default=str)
    ctx.say("%s %s seed=%d: %s in %.1fs (violations=%d, known findings seen=%d)" % (
        ctx.pid, ctx.tier, ctx.seed, "FAIL" if rc else "ok", wall, len(fresh), len(seen_known)))
    return rc


def crash_violations(out):
    """A harness process that died from a Go panic: if the panic comes out of sarama code (first
    non-runtime frame is not a harness file) it is a violation of the no_panic clause, otherwise
    (harness bug) None is returned and the caller must treat the run as inconclusive."""
    res = []
    for m in re.finditer(r"^(panic: .*|fatal error: .*)$", out, re.M):
        tail = out[m.end():m.end() + 6000]
        frames = re.findall(r"^(\S[^\n]*)\n\t(\S+):(\d+)", tail, re.M)
        site = None
        for fn, path, line in frames:
            if "/runtime/" in path or fn.startswith("panic(") or fn.startswith("runtime."):
                continue
            site = (fn, path, line)
            break
        if site is None:
            continue
        if "zz_verif_" in site[1] or "/verif/harness/" in site[1]:
            return None
        res.append({"clause": "no_panic", "trace": 0, "index": 0,
                    "features": {"panic": m.group(1)[:200], "site": re.sub(r"\(.*", "", site[0]), "file": os.path.basename(site[1]), "line": int(site[2])}})
        break
    return res


def read_ndjson(path):
    res = []
    with open(path) as f:
        for line in f:
            line = line.strip()
            if line:
                res.append(json.loads(line))
    return res


def trace_viols(r, tag="VIOL"):
    """collect [[trace, index, clause], ...] lists printed by a total observer spec"""
    out = []
    for lst in r.printed(tag):
        for t in lst:
            out.append({"trace": t[0], "index": t[1], "clause": t[2]})
    return out
