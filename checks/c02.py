import producer_common as pc

META = dict(
    level="model_checking",
    engine="Producer",
    technique='spec/Producer.tla model-checked by TLC (OrderOK over all interleavings of fresh, bounced and fin-marker messages); behaviours and fault families replayed on the real producer; TLC validates log_order / success_offset_order on the recorded traces (spec/ProducerObsTrace.tla)',
    text='Payloads are numbered in submission order by the single submitting goroutine; the simulated brokers log every append with the ids it carries. TLC checks on every recorded execution that the first copies of any two messages of a partition appear in submission order and that success offsets are monotone in submission order - across retries at depth 1..3, leader moves, connection drops before/after the append, fresh input injected while a request is held or while the fin marker is parked at a hook gate, Retry.Max 0/1/3, several flush settings, one or two partitions per broker. The model-level invariant OrderOK is checked exhaustively on the pipeline model.',
    note='conducted replay: TLC behaviours in hook normal form (every internal action recorded) are followed step by step by the real goroutines, parked at the hook points by a conductor that fails open (followed/diverged counts in the evidence); bounded model; real executions are a finite steered sample; non-idempotent duplicates are legal (clauses speak about first copies and about messages both reported successful); simulated cluster trusted',
    design_ref="6/C02",
)


def run(ctx):
    n = 80 if ctx.tier == "quick" else 3000
    nc = 40 if ctx.tier == "quick" else 400     # conducted replay: behaviours per model instance
    fams = [("conduct", "conduct.p1", nc), ("conduct", "conduct.p2b1", nc), ("conduct", "conduct.p2", nc),
            ("gen", "gen.p1", n), ("gen", "gen.p2", n), ("gen", "gen.p2b1", n), ("gen", "gen.idem1", n),
            lambda: pc.family_faults(False, ctx.seed), lambda: pc.family_faults(True, ctx.seed),
            lambda: pc.family_gates(False), lambda: pc.family_gates(True), lambda: pc.family_gates_metafail(False), pc.family_sibling_syn, pc.family_level_jump, lambda: pc.family_resubmit(False), pc.family_retry0, lambda: [x for x in pc.family_matrix() if x["name"].endswith("-n3-lat")], lambda: pc.family_overflow(False), lambda: pc.family_overflow(True)]
    mc = ["MCProducer.small.cfg"] if ctx.tier == "quick" else ["MCProducer.quick.cfg", "MCProducer.p2.cfg"]
    # the model itself exhibits the known Retry.Max=0 finding: that run must violate OrderOK
    return pc.check(ctx, "C02", fams, mc, extra_mc=[("MCProducer", "MCProducer.retry0.cfg", "OrderOK")])
