"""C10: malformed or corrupted input yields an error, never a crash or wrong data (restricted form).

spec/Decoder.tla is the realDecoder primitive contract as a state machine over (buffer length,
cursor, push stack) with an adversary writing the cell under the cursor; TLC explores every
program of primitive calls up to a bound (exhaustively, pinned semantics and the semantics of
the proposed bounds-check fix) and emits every maximal program. The Go harness replays each
program call by call on the REAL realDecoder, and - the bulk - mutates a valid encoding of
every response type x version, record batch, legacy message set, group member metadata /
assignment / sticky user data and response header structurally (every length cell <- -2, -1,
0, remainder+1, 2^31-1, huge / overlong varint, raw and with enclosing CRC / length fields
recomputed; truncation at every cell boundary; bit flips inside CRC extents and in every cell;
every length / count off by one and junk trailing inside every length-delimited extent with all CRCs and
enclosing lengths recomputed; mutated payloads under valid compressed wrappers; other protocol versions; whole
mutated FRAMES pushed through a real Broker connection) and decodes each
through the real entry point inside a memory-capped worker process under a watchdog.
spec/DecoderTrace.tla (TLC, trace validation) judges every recorded outcome."""
import concurrent.futures
import json
import os
import vlib

META = dict(
    level="exploration",
    engine="Decoder",
    technique="TLA+ state machine of the realDecoder primitives (spec/Decoder.tla: cursor, remaining bytes, push stack, "
              "adversarial cells relative to the remainder) model-checked exhaustively by TLC for the primitive contract "
              "(pinned semantics and proposed-fix semantics); every maximal program TLC emits is replayed on the real "
              "realDecoder; deterministic structural mutation (recorded primitive tape) of valid encodings of every "
              "response type x version / record format / group payload decoded by the real entry points in memory-capped "
              "worker subprocesses (watchdog, recover, TotalAlloc); TLC validates all recorded outcomes against the "
              "observer spec/DecoderTrace.tla",
    text="Exhaustive in the model: all programs of <= 2 primitive calls (thorough: 3, nesting 2) over 28 primitives x the "
         "boundary classes {-2,-1/null,0,remainder,remainder+1,2^31-1,int-wrapping,overlong varint} x buffer lengths "
         "{0,2,5,12,24}; invariants cursor-in-bounds, stack sanity, and (fix semantics) no panic / no allocation before "
         "the remainder is checked / handed-out lengths within the remainder. On the real code: every one of those "
         "programs, plus for ~130 (type, version) subjects (37 response types with every distinct version layout the tree "
         "has, FetchResponse v0-v11 with legacy sets / record batches / control batches / compressed wrappers, RecordBatch "
         "and its records under 5 codecs, MessageSet/Message v0/v1 under 4 codecs incl. mutated inner sets under valid "
         "wrappers, Record, response header v0/v1, ConsumerGroupMemberMetadata/Assignment, sticky user data V0/V1 via "
         "deserializeTopicPartitionAssignment, JoinGroup/SyncGroup helpers) every length/count cell x 5-7 adversarial values "
         "(raw and CRC/length-consistent), every cell-boundary truncation and the first 64 byte truncations, bit flips in "
         "CRC extents and cell headers, cross-version decodes; consistent damage (one length/count +-1 or trailing junk in an "
         "extent, every CRC and enclosing length recomputed: must fail, return exactly the original records, or be flagged "
         "partial by the decoder); every push/pop-verified length and CRC field at every nesting level (message blocks incl. first/middle/last "
         "compressed wrapper blocks per codec, records in batches, through Fetch v0-v3 framing) set to len-1, len+1, 0, -1, "
         "MinInt32, len/2, 2*len, the inner-set length / CRC^1, CRC^msb, 0, other polynomial with everything around it "
         "recomputed: must be reported as an error unless the decoder flags a partial tail or a fetch block drops whole "
         "trailing batches; after every successful decode of a Records / record batch / message set / fetch block the accessors a consumer "
         "calls (numRecords, isPartial, isOverflow, isControl, getControlRecord, LastOffset, getAbortedTransactions) run under "
         "the same guard; control and data batches re-encoded with 0 / 1 records (length and CRC right) through "
         "Records.decode; mutated frames (length field 0..9, 2^31-1, around MaxResponseSize, truncated headers, wrong "
         "correlation id) through a real Broker over loopback for a v0- and a v1-header request; thorough adds every-byte bit flips and seeded random damage. "
         "Clauses no_panic, no_hang, alloc_proportional, crc_or_length_damage_is_error and the primitive contract are "
         "evaluated by TLC on every recorded outcome.",
    note="exploration, not proof: the mutation space is structural and bounded (one cell at a time in the deterministic "
         "part); request decoders (server side) are out of scope; allocation is measured as TotalAlloc per decode against "
         "64 KiB + 200 x input (+16 MiB when a compressed payload is involved); an address-space limit turns multi-GB "
         "allocations into observed worker deaths; the per-body layouts are not modelled in TLA+ (only the primitives are); "
         "harness + TLC trusted",
    design_ref="6/C10",
)

BODY_CLAUSES = ["no_panic", "no_hang", "alloc_proportional", "crc_or_length_damage_is_error"]
PRIM_CLAUSES = ["prim_no_panic", "prim_no_hang", "prim_alloc_proportional", "prim_cursor_in_bounds", "prim_length_within_remainder"]


def run_models(ctx):
    """role 1 + 2. Returns (program lines, stats list, asis result)."""
    # default: the primitives with the bounds checks of the 'fix:' commit in /repo (1cf4b00);
    # VERIF_C10_MODEL=pinned predicts with the semantics of the pinned tree
    gencfg = "Decoder.gen.cfg" if os.environ.get("VERIF_C10_MODEL") == "pinned" else "Decoder.genfixed.cfg"
    runs = [("gen", gencfg, "gen"), ("fixed", "Decoder.fixed.cfg", "mc"), ("asis", "Decoder.asis.cfg", "asis")]
    if ctx.tier == "thorough":
        runs += [("gen3", "Decoder.gen3.cfg" if os.environ.get("VERIF_C10_MODEL") == "pinned" else "Decoder.gen3fixed.cfg", "gen"),
                 ("fixed3", "Decoder.fixed3.cfg", "mc")]

    def one(run):
        name, cfg, kind = run
        return ctx.tlc("Decoder", cfg, workers=4, timeout=1500, name=name, heap="4g")

    with concurrent.futures.ThreadPoolExecutor(max_workers=3) as ex:
        results = list(ex.map(one, runs))
    progs, stats = [], []
    seen = set()
    confirms = False
    for (name, cfg, kind), r in zip(runs, results):
        if kind == "asis":
            if r.timed_out or r.error:
                ctx.need(r, "model " + cfg)
            confirms = (r.violated == "NoBreach")
            stats.append({"cfg": cfg, "expected_violation": "NoBreach", "violated": r.violated, "states": r.distinct})
            continue
        ctx.need(r, "model " + cfg)
        k = 0
        if kind == "gen":
            for raw in r.printed_raw("CASE"):
                line = vlib.tla_unquote(raw)
                if line in seen:
                    continue
                seen.add(line)
                progs.append(line)
                k += 1
            if k == 0:
                raise vlib.Inconclusive("no programs emitted by " + cfg)
        stats.append({"cfg": cfg, "states": r.distinct, "generated": r.generated, "depth": r.depth, "programs": k,
                      "semantics": "proposed fix" if kind == "mc" else "pinned", "exhaustive": True})
    return progs, stats, confirms


def features(e, clause):
    f = features0(e)
    if clause in ("alloc_proportional", "prim_alloc_proportional"):
        # one cause whether the attempt died (address-space limit) or went through
        f["cause"] = "unbounded_alloc"
        if f["fam"] == "body":
            f["panic_site"] = f["site"]
            f["site"] = e.get("asite") if e.get("asite") not in (None, "-") else f["site"]
    return f


def features0(e):
    if e.get("ev") == "pstep":
        f = {"fam": "prog", "prim": e["op"], "cls": e["cls"], "res": e["res"], "cause": e["cause"] if e["cause"] != "-" else e["res"],
             "site": e["site"], "len": e["len"], "off0": e["off0"], "off": e["off"], "ret": e["ret"], "retc": e["retc"],
             "alloc_kib": e["alloc"], "v": e["v"], "model": {"res": e["mres"], "off": e["moff"], "retc": e["mretc"]}, "err": e["err"]}
        if e["res"] == "ok" and e["retc"] in ("neg", "beyond"):
            f["cause"] = "length_" + e["retc"]
        return f
    return {"fam": "body", "type": e.get("type"), "ver": e.get("ver"), "kind": e.get("kind"), "trig": e.get("trig"),
            "prim": e.get("prim"), "caller": e.get("caller"), "fix": e.get("fix"), "pos": e.get("pos"), "runver": e.get("runver"), "strict": e.get("strict"), "mustfail": e.get("mustfail"), "truncok": e.get("truncok"), "partial": e.get("partial"),
            "res": e.get("res"), "site": e.get("site"),
            "cause": e.get("cause") if e.get("cause") not in ("-", None) else e.get("res"),
            "err": e.get("err"), "alloc_kib": e.get("alloc"), "inlen": e.get("inlen"), "got": e.get("got"), "hex": e.get("hex")}


def run(ctx):
    import time
    t0 = time.time()
    progs, mstats, confirms = run_models(ctx)
    ctx.say("C10: models checked (%d states), %d programs emitted (%.1fs)" % (
        sum(s.get("states", 0) for s in mstats), len(progs), time.time() - t0))
    cases = os.path.join(ctx.scratch, "programs.ndjson")
    with open(cases, "w") as f:
        for p in progs:
            f.write(p + "\n")
    t0 = time.time()
    rc, out, outdir = ctx.go_test("^TestVerifDecoder$", env={"VERIF_CASES": cases}, timeout=1500 if ctx.tier == "thorough" else 600,
                                  only=["decoder_*"])
    ctx.need_go(rc, out, "decoder harness")
    trace = os.path.join(outdir, "trace.ndjson")
    detail = os.path.join(outdir, "detail.ndjson")
    summary = json.load(open(os.path.join(outdir, "summary.json")))
    ctx.say("C10: %d decodes of mutated encodings over %d subjects, %d program steps on the real code (%.1fs)" % (
        summary["decodes"], summary["subjects"], summary["prog"].get("steps_executed", 0), time.time() - t0))
    t0 = time.time()
    rs = ctx.tlc_trace("DecoderTrace", "DecoderTrace.cfg", trace, shards=12)
    allv, drift = [], []
    ndec = nstep = 0
    for r in rs:
        ctx.need(r, "trace validation")
        allv += vlib.trace_viols(r)
        drift += vlib.trace_viols(r, "DRIFT")
        st = r.printed("STATS")
        if not st:
            raise vlib.Inconclusive("trace validation did not reach the end of a shard")
        ndec += st[0]["decodes"]
        nstep += st[0]["steps"]
    ctx.say("C10: TLC judged %d decodes and %d primitive calls (%.1fs)" % (ndec, nstep, time.time() - t0))
    if ndec != summary["decodes"] or nstep != summary["prog"].get("steps_executed", 0):
        raise vlib.Inconclusive("trace validation evaluated %d decodes / %d steps, harness recorded %d / %d" % (
            ndec, nstep, summary["decodes"], summary["prog"].get("steps_executed", 0)))
    if ndec == 0 or nstep == 0:
        raise vlib.Inconclusive("nothing was validated")
    events = None
    if allv or drift:
        events = {(e["t"], e["i"]): e for e in vlib.read_ndjson(detail)}
    viols = []
    per_clause = {}
    for v in allv:
        e = events.get((v["trace"], v["index"]), {})
        if v["clause"] == "unclassified_result":
            raise vlib.Inconclusive("harness recorded a result the observer does not know: %s" % json.dumps(e)[:400])
        v["features"] = features(e, v["clause"])
        per_clause[v["clause"]] = per_clause.get(v["clause"], 0) + 1
        viols.append(v)
    vfile = os.path.join(ctx.scratch, "violations.ndjson")
    with open(vfile, "w") as f:
        for v in viols:
            f.write(json.dumps({"clause": v["clause"], "features": {k: x for k, x in v["features"].items() if k != "hex"}}) + "\n")
    extra = []
    if drift:
        seen = set()
        for d in drift:
            e = events.get((d["trace"], d["index"]), {})
            key = (e.get("op"), e.get("cls"), e.get("res"), e.get("mres"))
            if key in seen:
                continue
            seen.add(key)
            if len(seen) <= 12:
                extra.append("DRIFT: spec/Decoder.tla (pinned semantics) predicted %s/off=%s/%s for %s(%s) at len=%s off=%s, the code did %s/off=%s/%s "
                             "[soft: the model differs from the tree, not a verdict]" % (
                                 e.get("mres"), e.get("moff"), e.get("mretc"), e.get("op"), e.get("cls"), e.get("len"), e.get("off0"),
                                 e.get("res"), e.get("off"), e.get("retc")))
        extra.append("DRIFT: %d primitive calls differ from the model's prediction" % len(drift))
    if not confirms:
        extra.append("DRIFT: the as-is model no longer violates NoBreach (spec/cfg/Decoder.asis.cfg)")
    cov = {
        "evaluations": ndec + nstep,
        "distinct_nontrivial": summary["distinct_behaviours"],
        "rule": "one evaluation = one decode of one mutated encoding through the real entry point (or one primitive call of a "
                "TLC-generated program on the real realDecoder), judged by TLC; distinct non-trivial = distinct (type, version, "
                "mutation kind, trigger class, primitive, calling function, result, error class, panic site) tuples among the "
                "decodes - the unmutated encodings are not counted",
        "samples": summary.get("samples", [])[:4] + [json.loads(p) for p in progs[:2]],
        "states": sum(s.get("states", 0) for s in mstats),
        "transitions": sum(s.get("generated", 0) for s in mstats),
        "traces_validated_against_impl": ndec + summary["prog"].get("programs", 0),
        "exhaustive": False,
        "subjects": summary["subjects"],
        "decodes": ndec,
        "decodes_by_mutation_kind": summary["by_kind"],
        "decodes_by_result": summary["by_result"],
        "programs_replayed": summary["prog"].get("programs", 0),
        "primitive_calls_replayed": nstep,
        "primitive_calls_by_result": summary["prog"].get("by_result", {}),
        "model_drift_calls": len(drift),
        "as_is_model_shows_defect": confirms,
        "models": mstats,
        "worker_processes_spawned": summary["worker_spawns"] + summary["prog"].get("worker_spawns", 0),
        "types_without_valid_encoding": summary.get("skipped", [])[:40],
        "violations_by_clause_before_classification": per_clause,
        "clauses": BODY_CLAUSES + PRIM_CLAUSES,
        "explanation": "structural, deterministic mutation of valid encodings (quick tier identical for every seed); the seed only "
                       "drives the random-damage family of the thorough tier; the TLC model is exhaustive for the primitive "
                       "programs, the bodies are explored, not exhausted",
    }
    return vlib.finish(ctx, "exploration", cov, viols,
                       ["decoding happens on a buffer whose capacity equals its length (as broker.go allocates it)",
                        "allocation bound: 64 KiB + 200 x len(input), + 16 MiB when the subject carries a compressed payload",
                        "a surfaced record counts as 'different' when its checksummed content is not that of an original record; "
                        "dropping a partial trailing message/batch is the documented behaviour",
                        "CRC/length-consistent adversarial VALUES (-2, -1, 0, huge ...) are only judged for panic/hang/allocation; consistent "
                        "off-by-one lengths / trailing junk must give an error, exactly the original records, a decoder-flagged partial "
                        "result, or (fetch block) whole trailing batches dropped after one complete batch",
                        "frames through a real Broker: allocation up to MaxResponseSize is the documented cap and not judged",
                        "worker subprocess with RLIMIT_AS = current + 1 GiB; hang watchdog 10 s per decode"],
                       save={"trace.ndjson": trace, "detail.ndjson": detail, "programs.ndjson": cases, "violations.ndjson": vfile}, extra_lines=extra)
