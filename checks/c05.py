import producer_common as pc

META = dict(
    level="model_checking",
    engine="Producer",
    technique="spec/Producer.tla with the idempotent path (transaction manager, retryBatch goroutine, broker epoch/sequence/5-batch-window rules) model-checked by TLC (NoDoubleAppend, SuccessInLog); behaviours and fault families replayed on the real idempotent producer against simulated brokers enforcing Kafka's checkSequence rules; TLC validates no_duplicate_append / success_in_log_exactly_once / sequence_contiguous / resend_identical on the recorded traces; conducted replay of model behaviours (conduct.idem*); the real transaction manager's numbering per (topic, partition) validated by spec/SeqKeysTrace.tla",
    text='The simulated brokers enforce producer id / epoch / sequence rules (in-window duplicate => success with the original offset, older => DUPLICATE_SEQUENCE_NUMBER, gap => OUT_OF_ORDER, lower epoch => fenced) and log every batch with pid, epoch, first sequence and ids. TLC checks on each recorded execution that no id is appended twice, every success is in the log exactly once, batches of one epoch are sequence-contiguous and a resent batch is identical. Faults: retriable before/after append, ack lost, drops, silence, leader move, fatal on the other partition, budget exhaustion; fresh input injected into the retry window through hook gates.',
    note='conducted replay: TLC behaviours in hook normal form (every internal action recorded) are followed step by step by the real goroutines, parked at the hook points by a conductor that fails open (followed/diverged counts in the evidence); valid idempotent configurations only (MaxOpenRequests=1, acks=all, Retry.Max>=1, >=0.11); known finding F-C05-idem-fault-resend covers the connection-failure / epoch-bump-with-in-flight family, so in that family only other clauses can alarm; bounded model',
    design_ref="6/C05",
)


def run(ctx):
    n = 100 if ctx.tier == "quick" else 6000
    nc = 40 if ctx.tier == "quick" else 400     # conducted replay: behaviours per model instance
    fams = [("conduct", "conduct.idem", nc), ("conduct", "conduct.idem1", nc),
            ("gen", "gen.idem", n), ("gen", "gen.idem1", n), lambda: pc.family_faults(True, ctx.seed), lambda: pc.family_gates(True), pc.family_idem_clean, lambda: pc.family_resubmit(True), lambda: pc.family_overflow(True), lambda: pc.family_codeapp(True), lambda: pc.family_error_codes(True),
            pc.family_idem_extra]
    mc = ["MCProducer.idem.cfg"] if ctx.tier == "quick" else ["MCProducer.idem.cfg", "MCProducer.liveidem.cfg"]
    # numbering per (topic, partition) on the real transaction manager (names that run into each other when concatenated)
    rc, out, outdir = ctx.go_test("^TestVerifSeqKeys$", timeout=300, name="seqkeys", only=["sim_cluster*", "sim_fetch*", "prod_driver*", "prod_sync*", "seqkeys*"])
    ctx.need_go(rc, out, "sequence key harness")
    import os
    import vlib
    rs = ctx.tlc_trace("SeqKeysTrace", "SeqKeysTrace.cfg", os.path.join(outdir, "trace.ndjson"), shards=1, name="seqkeys-trace")
    kviols, kstats = [], {}
    for r in rs:
        ctx.need(r, "sequence key trace validation")
        kviols += vlib.trace_viols(r)
        for d in r.printed("STATS")[:1]:
            kstats = d
    if not kstats.get("calls"):
        raise vlib.Inconclusive("sequence key harness recorded no call")
    for v in kviols:
        v["features"] = {"scenario": "seqkeys", "family": "seqkeys", "idem": True, "cause": "none"}
    pc.EXTRA = dict(viols=kviols, cov={"sequence_key_calls": kstats.get("calls"), "sequence_key_pairs": kstats.get("pairs"),
                                      "sequence_key_epoch_bumps": kstats.get("bumps")})
    pc.CLAUSES["C05"] = set(pc.CLAUSES["C05"]) | {"sequence_per_partition", "epoch_changes_only_by_bump"}
    # the model itself exhibits the known duplicate-after-connection-loss finding: that run must violate NoDoubleAppend
    return pc.check(ctx, "C05", fams, mc, extra_mc=[("MCProducer", "MCProducer.idemdup.cfg", "NoDoubleAppend")])
