import producer_common as pc

META = dict(
    level="model_checking",
    engine="Producer",
    technique='broker-worker batching rules (wouldOverflow / waitForSpace / readyToFlush / frequency timer) modelled in spec/Batching.tla and model-checked by TLC over every assignment of sizes and partitions to 4-5 messages (limits as invariants on every request, flush-without-further-input as a liveness property under weak fairness, with a non-vacuity run of the seeded timer variant); size/count/latency families executed on the real producer; TLC validates max_messages / max_message_bytes / max_request_size / oversize_rejected_not_sent / flush_without_more_input on the produce requests the simulated brokers received',
    text='The simulated brokers log for every produce request the wire size, the number of messages and the key+value bytes per partition batch. Families: Flush.MaxMessages 1..3 with a slow broker so batches accumulate, message sizes straddling MaxMessageBytes (limit-40..limit+40) for both overhead estimates (0.10 / 0.11), lowered MaxRequestSize, a lone message with each single trigger (none, Flush.Messages, Flush.Bytes, Flush.Frequency) which must reach a broker without further input.',
    note="the timing clause only separates 'sent without further input' (within 2.5 s) from 'never sent'; configurations that set Flush.Messages/Bytes without Flush.Frequency and never reach the threshold are outside the domain (Config.Validate warns); bounded model",
    design_ref="6/C16",
)


def run(ctx):
    fams = [pc.family_limits, pc.family_resubmit_size, pc.family_timer, pc.family_grow, lambda: pc.family_overflow(False), lambda: pc.family_faults(False, ctx.seed)[:60]]
    mc = ["MCProducer.small.cfg"] if ctx.tier == "quick" else ["MCProducer.quick.cfg"]
    q = ctx.tier == "quick"
    extra = [("MCBatching", "MCBatching.limits4.cfg" if q else "MCBatching.limits.cfg", None),
             ("MCBatching", "MCBatching.live.cfg", None),
             ("MCBatching", "MCBatching.livebug.cfg", "EventuallySent"),
             ("MCBatching", "MCBatching.nolimit4.cfg" if q else "MCBatching.nolimit.cfg", None)]
    return pc.check(ctx, "C16", fams, mc, extra_mc=extra)
