"""C06: committed offsets are marked offsets, and no mark is lost (offset_manager.go).

role 1  spec/OffsetManager.tla model-checked exhaustively (marks interleaved with every step of a
        commit: per-partition snapshot, coordinator answer, per-partition response handling, Close
        with its final attempts); the clauses of the property are its invariants; a deliberately
        broken variant (dirty cleared unconditionally) must violate them (non-vacuity).
role 2  the same machine emits behaviours: every sequential behaviour and every behaviour with marks
        inside the commit window of small instances, plus seeded simulation of longer ones.
role 3  harness/inpkg/offsetmgr_test.go steps the behaviours through the REAL offsetManager against a
        simulated coordinator (two MockBrokers, one offset store); spec/OffsetManagerTrace.tla
        evaluates the clauses on what the code did. thorough adds the free-running ticker family."""
import concurrent.futures
import json
import os
import time
import vlib

META = dict(
    level="model_checking",
    engine="OffsetManager",
    technique="TLA+ state machine of the offset manager (spec/OffsetManager.tla) model-checked by TLC with the property's "
              "clauses as invariants; TLC-generated behaviours (sequential, and with marks placed inside the commit window by a "
              "coordinator that withholds its answer) replayed on the real offsetManager against a simulated coordinator with a "
              "real offset store; TLC evaluates the clauses on the recorded executions (spec/OffsetManagerTrace.tla)",
    text="TLC explores every interleaving of MarkOffset/ResetOffset with the steps of a commit (one snapshot step per partition, "
         "coordinator result per partition: accept / redispatch / report / load-in-progress / default class / missing block, "
         "connection failure before or after applying, one response-handling step per partition) and with Close and its final "
         "attempts 0..Retry.Max, for 2 partitions, offsets 0..2, 2 metadata values, 3 application calls; invariants: "
         "CommittedWasMarked, StoreBackwardsOnlyAfterReset, MarkNeverLowers, ResetNeverRaises, NextOffsetIsPendingOrInitial, "
         "CleanMeansStored (no lost mark), DirtyClearedOnlyWhenEqual, ClosedAndAccepted, ClosedOnlyAfterExhausted (a mark is given up at "
         "Close only after Retry.Max+1 final requests carried that partition and were refused for it). Every behaviour of the small machines "
         "(sequential; marks inside the commit window incl. ABA and metadata-only changes) and seeded simulations over 3 partitions on "
         "2 topics are executed on the real code (public API only) and every clause is evaluated by TLC on the recorded "
         "requests, coordinator store and NextOffset results; the coordinator also injects connection faults per commit (FIN or RST after "
         "reading the request, before/after applying it, or on the idle connection; afterwards the same coordinator stays or it moves) at manual "
         "commits, ticker commits and the final attempts of Close with Retry.Max 0/1/3, and answers commits with every error code -1..90 "
         "(whole response / one partition) after which the coordinator stays or moves to the other broker while the old one keeps answering "
         "that code (model: coordinator location, cached coordinator, NeverTalksToOldCoordinator); thorough adds ticker-driven auto-commit with 2-3 marking goroutines.",
    note="bounded model; marks between two partitions' snapshots and between two partitions' response handling are explored "
         "exhaustively in the model but reached on the real code only by the free-running ticker family (thorough); a pending "
         "position that differs from the stored one must be carried by the NEXT commit request; coordinator simulated "
         "(MockBroker transport + own store); harness + TLC trusted",
    design_ref="6/C06",
)

CLAUSES = {"committed_was_marked", "store_backwards_only_after_reset", "mark_never_lowers", "reset_never_raises",
           "next_offset_is_pending_or_initial", "mark_during_flight_is_recommitted", "pending_mark_is_sent_by_next_commit",
           "closed_and_accepted_implies_store_equals_last_mark", "close_gives_up_only_after_retry_max_refusals"}
SHUTDOWN_CLAUSES = {"close_hang", "close_panic", "errors_closed_after_close"}
ONLY = ["offsetmgr*"]


def model_check(ctx):
    thorough = ctx.tier == "thorough"
    cfg = "OffsetManager.mc.thorough.cfg" if thorough else "OffsetManager.mc.quick.cfg"
    mc = ctx.need(ctx.tlc("OffsetManager", cfg, workers=12 if thorough else 8, timeout=2400 if thorough else 400, name="mc"),
                  "model checking " + cfg)
    if not mc.finished or mc.distinct < 1000:
        raise vlib.Inconclusive("model checking did not complete")
    bug = ctx.tlc("OffsetManager", "OffsetManager.bug.cfg", workers=1, timeout=300, name="bug")
    if bug.timed_out or bug.error or not bug.violated:
        raise vlib.Inconclusive("non-vacuity self-test: the variant that clears dirty unconditionally did not violate the invariants")
    bug2 = ctx.tlc("OffsetManager", "OffsetManager.bug2.cfg", workers=1, timeout=300, name="bug2")
    if bug2.timed_out or bug2.error or bug2.violated != "ClosedOnlyAfterExhausted":
        raise vlib.Inconclusive("non-vacuity self-test: the variant whose Close loop stops when one topic is clean did not violate "
                                "ClosedOnlyAfterExhausted")
    bug3 = ctx.tlc("OffsetManager", "OffsetManager.bug3.cfg", workers=1, timeout=300, name="bug3")
    if bug3.timed_out or bug3.error or bug3.violated != "ClosedOnlyAfterExhausted":
        raise vlib.Inconclusive("non-vacuity self-test: the variant that keeps the cached coordinator on the redispatch classes did not "
                                "violate ClosedOnlyAfterExhausted")
    bug.second = bug2.violated
    return mc, bug


def gen_one(ctx, cfg, sim, seed):
    if sim:
        r = ctx.tlc("OffsetManager", cfg, workers=1, timeout=900, simulate="num=%d" % sim, depth=400, seed=seed, name="gen")
        if r.timed_out or (r.error and "CASE" not in r.out) or r.violated:
            ctx.need(r, "behaviour generation " + cfg)
            raise vlib.Inconclusive("behaviour generation %s failed" % cfg)
    else:
        r = ctx.need(ctx.tlc("OffsetManager", cfg, workers=4, timeout=900, name="gen"), "behaviour generation " + cfg)
    cases = [vlib.tla_unquote(raw) for raw in r.printed_raw("CASE")]
    return cfg, sim, r, cases


def gen_cases(ctx, out):
    thorough = ctx.tier == "thorough"
    plan = [("OffsetManager.gen.seq.cfg", 0), ("OffsetManager.gen.win.cfg", 0), ("OffsetManager.gen.win3.cfg", 0),
            ("OffsetManager.gen.close.cfg", 0), ("OffsetManager.gen.conn.cfg", 0), ("OffsetManager.gen.conn2.cfg", 0),
            ("OffsetManager.gen.codes.all.cfg" if thorough else "OffsetManager.gen.codes.cfg", 0),
            ("OffsetManager.sim.seq.cfg", 6000 if thorough else 300), ("OffsetManager.sim.win.cfg", 9000 if thorough else 400)]
    stats = []
    n = 0
    with concurrent.futures.ThreadPoolExecutor(max_workers=9) as ex:
        futs = [ex.submit(gen_one, ctx, cfg, sim, ctx.seed) for cfg, sim in plan]
        res = [f.result() for f in futs]
    with open(out, "w") as f:
        for cfg, sim, r, cases in res:
            if not cases:
                raise vlib.Inconclusive("no behaviours generated by " + cfg)
            # exhaustive enumerations come out of a multi-threaded TLC run in arbitrary order: sort for determinism
            if not sim:
                cases.sort()
            for c in cases:
                f.write(c + "\n")
            n += len(cases)
            stats.append({"cfg": cfg, "behaviours": len(cases), "exhaustive": not sim, "states": r.distinct, "generated": r.generated})
        ticks = 0
        if thorough:
            ticks = 1500
            for k in range(ticks):
                f.write('{"tick":%d}\n' % (k + 1))
    return n, ticks, stats


def run(ctx):
    thorough = ctx.tier == "thorough"
    with concurrent.futures.ThreadPoolExecutor(max_workers=1) as ex:
        mcf = ex.submit(model_check, ctx)
        cases = os.path.join(ctx.scratch, "cases.ndjson")
        t0 = time.time()
        ncases, nticks, gstats = gen_cases(ctx, cases)
        t1 = time.time()
        try:
            rc, out, trace, sums = ctx.go_test_parallel("^TestVerifOffsetManager$", cases, nproc=8, timeout=1500 if thorough else 900,
                                                        name="om", only=ONLY)
        except AttributeError as e:   # a worker died in the middle of a line: its trace cannot be merged
            raise vlib.Inconclusive("a harness worker process died and left a truncated trace (%s)" % e)
        ctx.need_go(rc, out, "offset manager replay")
        t2 = time.time()
        if not trace or not os.path.exists(trace):
            raise vlib.Inconclusive("harness produced no trace")
        hangs = [h for s in sums for h in s.get("hangs", [])]
        fails = [h for s in sums for h in s.get("setup_failures", [])]
        if hangs:
            raise vlib.Inconclusive("the code under test hung or panicked (not a C06 verdict; see C12): %s" % hangs[:2])
        if fails:
            raise vlib.Inconclusive("scenario setup failed: %s" % fails[:2])
        executed = {}
        for s in sums:
            for k, v in s.get("cases", {}).items():
                executed[k] = executed.get(k, 0) + v
        if sum(executed.values()) != ncases + nticks:
            raise vlib.Inconclusive("harness executed %d of %d behaviours" % (sum(executed.values()), ncases + nticks))
        rs = ctx.tlc_trace("OffsetManagerTrace", "OffsetManagerTrace.cfg", trace, shards=10, timeout=1500)
        t3 = time.time()
        mc, bug = mcf.result()
        ctx.say("C06 phases: generation %.1fs (%d behaviours), replay on real code %.1fs, trace validation %.1fs, model checking %.1fs "
                "(%d states, ran concurrently)" % (t1 - t0, ncases, t2 - t1, t3 - t2, mc.wall, mc.distinct))
    allv = []
    stats = {}
    for r in rs:
        ctx.need(r, "trace validation")
        st = r.printed("STATS")
        if len(st) != 1 or len(r.printed("VIOL")) != 1:
            raise vlib.Inconclusive("trace validation did not reach the end of a shard (no STATS/VIOL line)")
        for k, v in st[0].items():
            stats[k] = stats.get(k, 0) + v
        allv += vlib.trace_viols(r)
    if stats.get("traces", 0) != ncases + nticks:
        raise vlib.Inconclusive("trace validation evaluated %d executions, harness recorded %d" % (stats.get("traces", 0), ncases + nticks))
    if stats.get("closes_unsteered") or stats.get("commits_unsteered"):
        ctx.say("C06: unsteered (not judged): %d Close, %d Commit calls saw client-side failures the coordinator did not script"
                % (stats.get("closes_unsteered", 0), stats.get("commits_unsteered", 0)))
    harness_bad = [v for v in allv if v["clause"] not in CLAUSES]
    if harness_bad:
        raise vlib.Inconclusive("a panic of the code under test (C12's clause, not a C06 verdict) or a simulated coordinator "
                                "inconsistent with its own log: %s" % harness_bad[:3])
    viols = []
    if allv:
        events = {}
        want = {v["trace"] for v in allv}
        for e in vlib.read_ndjson(trace):
            if e["t"] in want:
                events.setdefault(e["t"], []).append(e)
        for v in allv:
            evs = events.get(v["trace"], [])
            head = evs[0] if evs else {}
            e = next((x for x in evs if x["i"] == v["index"]), {})
            v["features"] = {"mode": head.get("mode"), "auto": head.get("auto"), "retry": head.get("retry"),
                             "event": e.get("ev"), "conn": e.get("conn"), "ks": e.get("ks"), "blocks": e.get("blocks"),
                             "p": e.get("p"), "off": e.get("off"), "aoff": e.get("aoff"), "boff": e.get("boff"),
                             "history": [{k: x[k] for k in x if k not in ("t",)} for x in evs if x["i"] <= v["index"]][-12:]}
            viols.append(v)
    samples = []
    for s in sums:
        samples += s.get("samples", [])
    if not samples:
        with open(cases) as f:
            samples = [json.loads(f.readline())]
    cov = {
        "states": mc.distinct + bug.distinct + sum(g["states"] for g in gstats),
        "transitions": mc.generated + bug.generated + sum(g["generated"] for g in gstats),
        "traces_validated_against_impl": stats["traces"],
        "samples": samples[:3],
        "model_states": mc.distinct,
        "model_depth": mc.depth,
        "nonvacuity_selftest": "variant clearing dirty unconditionally violates %s; variant whose Close loop stops when one topic is clean "
                               "violates %s" % (bug.violated, bug.second),
        "behaviours": gstats,
        "executions_by_family": executed,
        "observer_stats": stats,
        "clauses": sorted(CLAUSES),
        "exhaustive": True,
        "explanation": "exhaustive TLC run of the offset-manager machine with the clauses as invariants; every behaviour of the small "
                       "sequential / commit-window machines plus seeded simulations%s executed on the real offsetManager; TLC evaluated "
                       "the clauses on %d recorded executions (%d marks, %d of them inside a commit window of which %d had to be and were "
                       "re-sent by the next commit; %d commit requests, %d not fully accepted; %d Close calls with the accepting premise, %d Close calls that had to retry after a "
                       "partial refusal and stored everything, %d that really exhausted Retry.Max+1 attempts for a partition; %d errors delivered on "
                       "Errors() channels; unsteered (client-side failure the coordinator did not see, no verdict): %d Close, %d Commit)"
                       % (" and the free-running ticker family" if thorough else "", stats["traces"], stats["marks"], stats["flight_marks"],
                          stats["flight_recommitted"], stats["requests"], stats["faulty_requests"], stats["closes_premise"],
                          stats["closes_retried_partial_refusal"], stats["closes_exhausted"], stats["errors_delivered"],
                          stats["closes_unsteered"], stats["commits_unsteered"]),
    }
    return vlib.finish(ctx, "model_checking", cov, viols,
                       ["one committer at a time (manual Commit calls are sequential; the ticker is the only committer in the ticker family)",
                        "marks are issued only on partitions of an open offset manager (no MarkOffset after Close began, except in the "
                        "racing ticker scenarios where only the safety clauses apply)",
                        "a pending position that differs from the stored one must be carried by the next commit request "
                        "(reading of 'sent by a later commit')",
                        "Close / Commit verdicts about unsent or lost marks: every flush must either reach the coordinator or run into a "
                        "connection fault the coordinator side injected (graceful close / reset after reading the request, or of the idle "
                        "connection; each is an event of the trace and counts as one refusal). All errors delivered on the Errors() channels are "
                        "recorded with their class; a call is unsteered (counted, not judged) when a dial / coordinator-lookup / timeout / "
                        "unclassified error was delivered to the partition concerned or the coordinator side saw a connection event it did not "
                        "script. A flush that fails with EOF / reset / broken pipe although the coordinator side did nothing to the connection "
                        "(client failing locally on a dead connection object while the coordinator is reachable and unchanged) is NOT excused: "
                        "it neither counts as a refusal nor un-steers",
                        "error codes: every KError code -1..90 is answered (whole response / one partition; thorough: every code, quick: the codes "
                        "of every class and its boundaries incl. 5, 6, 12, 14, 15, 16, 28, plus class-wise rotation over all codes in the other "
                        "families); the class of a code is taken from handleResponse as it is: 5/6/15/16 drop the cached coordinator silently, "
                        "12/28 report only, 14 does nothing, every other code reports and drops the coordinator. The group coordinator MOVES to the "
                        "other broker (the old one keeps answering the same code) only together with an answer of a class after which the client "
                        "is supposed to resolve the coordinator again (5/6/15/16 and the default class) or with a connection fault; after codes "
                        "for which the code keeps the cached coordinator by design (0, 12, 28, 14, missing block) a move is outside what the "
                        "property promises and is not generated. Refusals are counted only from the broker that is the coordinator when the "
                        "request arrives",
                        "the coordinator is simulated: MockBroker transport, own offset store, answers scripted by the TLC behaviour",
                        "model bounds: 2 partitions, offsets 0..2, 2 metadata values, 3 calls, <=2 commits + final attempts, 1 fault (exhaustive); "
                        "3 partitions, offsets 0..4, 8-10 calls, 4 commits, 5 faults (simulation)"],
                       save={"trace.ndjson": trace, "cases.ndjson": cases})


# ---------------------------------------------------------------------- shutdown family (used by checks/c12.py)
def shutdown_scenarios():
    """deterministic corpus: Close/AsyncClose of the partition offset managers and Close of the offset manager
    idle, mid-request, while every commit is answered with a retriable error, while the coordinator is unreachable or
    silent, with marks racing with Close, twice; auto-commit on and off"""
    scs = []

    def add(kind, auto, retry=0, pom="async", dirty=True, answer=""):
        scs.append({"shutdown": "%s/%s/auto=%d/retry=%d/pom=%s/dirty=%d" % (kind, answer or "-", auto, retry, pom, dirty),
                    "kind": kind, "auto": bool(auto), "retry": retry, "pom": pom, "dirty": bool(dirty), "answer": answer})
    for auto in (1, 0):
        for pom in ("async", "close"):
            for dirty in (1, 0):
                add("idle", auto, 1, pom, dirty)
            add("midreq", auto, 1, pom)
            add("twice", auto, 0, pom)
        for retry in (0, 3):
            for answer in ("redispatch", "load", "unknown"):
                add("retriable", auto, retry, "async", 1, answer)
            add("unreachable", auto, retry)
            add("race", auto, retry)
        add("silent", auto, 3 if auto else 0)
        add("retriable", auto, 3, "close", 1, "redispatch")
    add("silent", 1, 0)
    add("pomclose", 1, 1, "close", 1)
    add("pomclose", 1, 1, "close", 0)
    return scs


def shutdown_family(ctx):
    """for C12 (shutdown always completes): the shutdown corpus on the real offsetManager, judged by
    spec/OffsetManagerTrace.tla. Returns (violations restricted to the hang / panic / errors-channel clauses with
    their features, stats dict, trace path)."""
    scs = shutdown_scenarios()
    cases = os.path.join(ctx.scratch, "c06_shutdown_cases.ndjson")
    with open(cases, "w") as f:
        for sc in scs:
            f.write(json.dumps(sc, separators=(",", ":")) + "\n")
    rc, out, trace, sums = ctx.go_test_parallel("^TestVerifOffsetManager$", cases, nproc=6, timeout=600, name="omsd", only=ONLY)
    crashed = []
    if rc != 0:
        if "[build failed]" in out or "[setup failed]" in out:
            ctx.need_go(rc, out, "offset manager shutdown family")
        crashed = vlib.crash_violations(out)
        if not crashed:   # None (harness bug) or no panic found
            ctx.need_go(rc, out, "offset manager shutdown family")
        for v in crashed:
            v["clause"] = "close_panic"
            v["features"]["event"] = "process crashed"
    if not trace or not os.path.exists(trace):
        raise vlib.Inconclusive("shutdown family produced no trace")
    fails = [h for s in sums for h in s.get("setup_failures", [])]
    if fails:
        raise vlib.Inconclusive("shutdown scenario setup failed: %s" % fails[:2])
    executed = sum(s.get("cases", {}).get("shutdown", 0) for s in sums)
    skipped = sum(s.get("cases", {}).get("shutdown_skipped", 0) for s in sums)   # after a hang in that worker
    if executed + skipped != len(scs) and not crashed:
        raise vlib.Inconclusive("harness executed %d of %d shutdown scenarios" % (executed, len(scs)))
    rs = ctx.tlc_trace("OffsetManagerTrace", "OffsetManagerTrace.cfg", trace, shards=2, timeout=300, name="omsdtrace")
    allv, stats = [], {}
    for r in rs:
        ctx.need(r, "shutdown trace validation")
        st = r.printed("STATS")
        if len(st) != 1 or len(r.printed("VIOL")) != 1:
            raise vlib.Inconclusive("shutdown trace validation did not reach the end of a shard")
        for k, v in st[0].items():
            stats[k] = stats.get(k, 0) + v
        allv += vlib.trace_viols(r)
    evs = vlib.read_ndjson(trace)
    if stats.get("traces", 0) != sum(1 for e in evs if e["ev"] == "reset"):
        raise vlib.Inconclusive("shutdown trace validation evaluated %d of the recorded executions" % stats.get("traces", 0))
    bytrace = {}
    for e in evs:
        bytrace.setdefault(e["t"], []).append(e)
    viols = list(crashed)
    for v in allv:
        if v["clause"] not in SHUTDOWN_CLAUSES:
            continue
        mine = bytrace.get(v["trace"], [])
        head = mine[0] if mine else {}
        e = next((x for x in mine if x["i"] == v["index"]), {})
        v["features"] = {"scenario": head.get("id"), "kind": head.get("kind"), "auto": head.get("auto"), "retry": head.get("retry"),
                         "pom": head.get("pom"), "event": e.get("ev"), "who": e.get("who"), "p": e.get("p"),
                         "panic": (e.get("panic") or e.get("msg") or "")[:200], "stack": (e.get("stack") or "")[:600],
                         "history": [{k: x[k] for k in x if k not in ("t", "stack")} for x in mine
                                     if x["i"] <= v["index"] and x["ev"] not in ("mark", "resetoff")][-12:]}
        viols.append(v)
    if skipped and not any(v["clause"] == "close_hang" for v in allv):
        raise vlib.Inconclusive("shutdown scenarios were skipped without a recorded hang")
    out_stats = {"scenarios": len(scs), "executed": executed, "skipped_after_hang": skipped, "traces": stats.get("traces", 0),
                 "close_calls": sum(1 for e in evs if e["ev"] == "close_call"),
                 "close_returns": sum(1 for e in evs if e["ev"] == "close_ret"),
                 "awaited_calls_returned": stats.get("sd_returns", 0), "hangs": stats.get("sd_hangs", 0),
                 "panics": stats.get("sd_panics", 0) + len(crashed),
                 "errors_channels_closed": stats.get("sd_errors_channels_closed", 0),
                 "commit_requests": stats.get("requests", 0), "commit_requests_not_accepted": stats.get("faulty_requests", 0),
                 "racing_marks": sum(1 for e in evs if e["ev"] in ("mark", "resetoff")),
                 "by_kind": {k: sum(1 for sc in scs if sc["kind"] == k) for k in sorted({sc["kind"] for sc in scs})},
                 "scenario_ids": [sc["shutdown"] for sc in scs]}
    return viols, out_stats, trace
