import random
import vlib
import producer_common as pc
import consumer_common as cc

META = dict(
    level="model_checking",
    engine="Producer+Consumer",
    technique="Close/AsyncClose enabled in every state of the implementation-shaped TLA+ models (spec/Producer.tla QuiescentDone + liveness Drains under weak fairness, "
              "spec/Consumer.tla NoPanic + ClosedWhenStuck) model-checked by TLC; crash-point enumeration on the real code: every scenario "
              "of the producer/consumer fault corpora re-run with Close called after its k-th step; traces validated by the observer specs "
              "(close_returns, channels_closed, no_panic, deliver_after_close)",
    text="Producer: every scenario of the fault / retry-window (hook-gated) corpora is re-run with Close or AsyncClose invoked after the k-th "
         "step (a stride of k in quick, every k in thorough) while requests are held, retried, dropped or unanswered; the application keeps "
         "draining both channels. Consumer: AsyncClose/Close of the partition consumer after the k-th delivery for every k, combined with "
         "fetch faults (silence, leader error) and a slow reader; the partition consumer and the consumer are closed twice. TLC checks that "
         "Close returns (watchdog 8 s), that the output channels are closed, that nothing is delivered after the close, and that no panic "
         "occurred (PanicHandler events and process crashes are both mapped to no_panic). Consumer group: Close/cancel at join, sync, setup, claim, cleanup, idle, with an empty assignment, during a rebalance, with an unreachable coordinator, LeaveGroup failing, double Close (C07's simulated coordinator; clauses consume_hang, close_hang, consume_panic). Offset manager: 43 scenarios (idle, mid-request, coordinator failing or unreachable, marks racing with Close, Close twice; C06's simulated coordinator; clauses close_hang, close_panic, errors_closed_after_close). Broker connection shutdown (Close racing with calls) is exercised by the check of C14.",
    note="documented close order is followed; the application always services the output channels; crash points are 'after the k-th "
         "scenario step', not after every internal event; bounded models",
    design_ref="6/C12",
)


def run(ctx):
    rnd = random.Random(ctx.seed)
    quick = ctx.tier == "quick"
    # ---- producer crash points
    base = pc.family_faults(False, ctx.seed) + pc.family_faults(True, ctx.seed) + pc.family_gates(False) + pc.family_gates(True) + \
        pc.family_overflow(False) + pc.family_retry0()
    if quick:
        # quick: every scenario of the small families (exhausted budgets, gates, overflow, Retry.Max=0 - plain and idempotent)
        # and a seeded sample of the fault matrix, instead of a prefix of the list
        small = [x for x in base if x["family"] not in ("faults1", "faults2")]
        big = [x for x in base if x["family"] in ("faults1", "faults2")]
        rnd.shuffle(big)
        base = small + big[:max(0, 260 - len(small))]
    cps = pc.close_points(base, 4 if quick else 1, rnd) + pc.family_create_unreachable()
    pst, ptr, pdet = pc.model_check(ctx, ["MCProducer.small.cfg", "MCProducer.idem.cfg", "MCProducer.live.cfg", "MCProducer.liveidem.cfg"] if quick
                                   else ["MCProducer.quick.cfg", "MCProducer.idem.cfg", "MCProducer.live.cfg", "MCProducer.liveidem.cfg"])
    pviols, pstats, ptrace, pcases = pc.run_scenarios(ctx, cps, name="c12prod")
    # ---- consumer crash points
    plain, r1 = cc.gen_logs(ctx, "ConsumerLog.plain.cfg")
    rnd.shuffle(plain)
    ccs = cc.close_scenarios(plain, rnd, 12 if quick else 80)
    slow = cc.slow_reader_scenarios(plain, rnd, 2 if quick else 12)
    for s in slow:   # close while the slow path is active
        s["family"] = "slow-close"
        s["expectAll"] = {"0": False, "1": False}
        s["steps"] = [{"op": "sleep", "ms": rnd.choice([5, 25, 45, 70])}, {"op": "async_close_pc", "part": 0}, {"op": "close_pc_again", "part": 0}]
    slow += cc.leaderless_scenarios(plain, rnd, 6 if quick else 40)
    mr = ctx.need(ctx.tlc("Consumer", "Consumer.quick.cfg" if quick else "Consumer.thorough.cfg", timeout=1500, name="consumer-mc"),
                  "consumer pipeline model")
    cviols, cstats, ctrace, ccases = cc.run_scenarios(ctx, ccs + slow, name="c12cons")
    # ---- consumer group shutdown corpus (built with C07's machinery: simulated coordinator, spec/GroupTrace.tla)
    import c07
    gviols, gstats, gtrace = c07.shutdown_family(ctx)
    # ---- offset manager shutdown corpus (C06's machinery: simulated coordinator, spec/OffsetManagerTrace.tla)
    import c06
    oviols, ostats, otrace = c06.shutdown_family(ctx)
    mine = [v for v in pviols if v["clause"] in pc.CLAUSES["C12"]] + [v for v in cviols if v["clause"] in cc.CLAUSES["C12"]] + gviols + oviols
    cov = {
        "states": pst + mr.distinct + r1.distinct, "transitions": ptr + mr.generated + r1.generated,
        "model_runs": pdet + [{"module": "Consumer", "distinct_states": mr.distinct, "states_generated": mr.generated}],
        "traces_validated_against_impl": pstats.get("traces", 0) + cstats.get("traces", 0) + (gstats.get("scenarios") or 0),
        "samples": [cps[0], ccs[0]],
        "producer_close_point_scenarios": len(cps), "consumer_close_point_scenarios": len(ccs) + len(slow),
        "producer_run_counts": {k: pstats.get(k, 0) for k in ("successes", "errors", "requests", "retried", "gates", "unsteered")},
        "consumer_run_counts": {k: cstats.get(k, 0) for k in ("delivered", "fetches", "faults", "stalls")},
        "offset_manager_shutdown": {k: v for k, v in ostats.items() if isinstance(v, (int, float, str))},
        "group_shutdown": {k: gstats.get(k) for k in ("scenarios", "close_calls", "close_returns", "consume_returns", "cancels")},
        "clauses": sorted(pc.CLAUSES["C12"] | cc.CLAUSES["C12"] | {"consume_hang", "close_hang", "consume_panic", "channels_closed_after_close", "close_panic", "errors_closed_after_close"}),
        "explanation": "crash-point enumeration: Close/AsyncClose after the k-th step of every corpus scenario, on the real producer and consumer",
    }
    return vlib.finish(ctx, "model_checking", cov, mine,
                       ["documented close order; the application keeps draining Successes/Errors/Messages/Errors",
                        "a Close that has not returned after 8 s is a hang (all sarama timeouts are <= 250 ms in the scenarios)",
                        "simulated cluster trusted"],
                       save={"producer.trace.ndjson": ptrace, "consumer.trace.ndjson": ctrace, "producer.cases.ndjson": pcases, "consumer.cases.ndjson": ccases})
