"""Trace validation of the REPOSITORY'S OWN tests: the pinned suite is run once with the hooks on
(-tags verif, harness/inpkg/reposuite_test.go installs a recording hook from init()), the hook events
are regrouped by emitting goroutine (= one partitionProducer / one responseFeeder instance) and every
instance is validated against the implementation-shaped conformance specs PpConfTrace.tla /
FeederConfTrace.tla. The result is soft (DRIFT lines, coverage numbers): it shows that the model
explains the executions the repository's own tests produce, not only the ones our drivers produce."""
import json
import os
import vlib


def _regroup(raw, out):
    """one trace per goroutine, events in recording order; returns (instances, events)"""
    by = {}
    order = []
    with open(raw) as f:
        for line in f:
            line = line.strip()
            if not line:
                continue
            try:
                e = json.loads(line)
            except ValueError:
                continue          # a line cut short by the process exiting
            g = e.pop("g")
            e.pop("seq", None)
            if g not in by:
                by[g] = []
                order.append(g)
            by[g].append(e)
    n = 0
    with open(out, "w") as f:
        for t, g in enumerate(order, 1):
            f.write(json.dumps({"t": t, "i": 1, "ev": "reset", "name": "goroutine-%d" % g}) + "\n")
            for i, e in enumerate(by[g], 2):
                e = dict(e, t=t, i=i, part=0)
                f.write(json.dumps(e) + "\n")
                n += 1
        f.write(json.dumps({"t": len(order) + 1, "i": 1, "ev": "end"}) + "\n")
    return len(order), n


def run(ctx, which, run_pattern=None, timeout=900):
    """which: subset of {"pp", "pc"}. Returns a dict for the evidence file; prints DRIFT lines. Never raises."""
    res = {}
    try:
        d = os.path.join(ctx.scratch, "reposuite")
        os.makedirs(d, exist_ok=True)
        e = dict(os.environ)
        e.update(vlib.GOENV)
        e["VERIF_REPOSUITE"] = d
        import subprocess
        cmd = ["go", "test", "-overlay", ctx.overlay(["reposuite_*", "vcommon_*", "prod_driver_*", "cons_driver_*", "sim_*", "prod_sync_*"]),
               "-tags", "verif", "-vet=off", "-count=1", "-skip", "^TestVerif", "-timeout", "%ds" % timeout]
        if run_pattern:
            cmd += ["-run", run_pattern]
        cmd.append(".")
        p = subprocess.run(cmd, cwd=vlib.REPO, env=e, stdout=subprocess.PIPE, stderr=subprocess.STDOUT, universal_newlines=True,
                           errors="replace", timeout=timeout + 120)
        res["suite_exit"] = p.returncode
        res["suite_tail"] = p.stdout.strip().splitlines()[-1:] if p.stdout else []
        for key, raw, module in (("pp", "pp.raw.ndjson", "PpConfTrace"), ("pc", "pc.raw.ndjson", "FeederConfTrace")):
            if key not in which:
                continue
            rawp = os.path.join(d, raw)
            if not os.path.exists(rawp) or os.path.getsize(rawp) == 0:
                res[key] = {"instances": 0, "events": 0}
                continue
            tr = os.path.join(d, key + ".trace.ndjson")
            ninst, nev = _regroup(rawp, tr)
            rs = ctx.tlc_trace(module, module + ".cfg", tr, shards=4, name="reposuite-" + key)
            nd, st, first, ok = 0, {}, None, True
            for r in rs:
                if r.error or r.timed_out or r.violated:
                    ok = False
                for lst in r.printed("DRIFT")[:1]:      # (TLC may evaluate the final PrintT more than once)
                    nd += len(lst)
                    first = first or (lst[0] if lst else None)
                for dd in r.printed("STATS")[:1]:
                    for k, v in dd.items():
                        st[k] = st.get(k, 0) + v
            res[key] = dict(st, instances=ninst, events=nev, drift_events=nd, validated=ok)
            if nd:
                ctx.say("DRIFT spec=%s on the repository's own tests: %d hook events are not explained by the model, first %s "
                        "(soft; verdict unaffected)" % (module, nd, first))
    except Exception as ex:   # soft: never fail a check
        res["error"] = str(ex)[:300]
    return res
