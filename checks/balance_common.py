"""C08 / C13: TLC-generated rebalance chains replayed on the real strategies, plans
evaluated by the BalanceOracle predicates in TLC (spec/BalanceTrace.tla)."""
import json
import os
import vlib

C08 = {"plan_error", "no_duplicate_entries", "only_subscribers", "only_existing", "exactly_once"}
C13 = {"range_shape", "roundrobin_fair", "sticky_balanced", "sticky_fixed_point",
       "sticky_keep_on_leave", "sticky_no_shuffle_on_join", "sticky_no_pairwise_swap"}


def gen_cases(ctx, out):
    """role 2: chains from the Balance chain machine. quick: exhaustive length-2 chains over
    3 members x 2 topics x <=2 partitions plus seeded simulation of longer chains over a
    larger universe; thorough adds exhaustive length-1 chains with <=3 partitions and more
    simulation."""
    n = 0
    stats = []
    with open(out, "w") as f:
        runs = [("Balance.gen2.cfg", None), ("Balance.ident1.cfg", None), ("Balance.ident2.cfg", None), ("Balance.sub3.cfg", None)]
        if ctx.tier == "thorough":
            runs.append(("Balance.gen3p.cfg", None))
            runs.append(("Balance.sim.cfg", "num=%d" % 5000))
        else:
            runs.append(("Balance.sim.cfg", "num=%d" % 60))
        for cfg, sim in runs:
            if sim:
                r = ctx.tlc("Balance", cfg, workers=1, timeout=900, simulate=sim, depth=9, seed=ctx.seed, name="gen")
                if r.error and "CASE" not in r.out:
                    ctx.need(r, "case generation " + cfg)
            else:
                r = ctx.need(ctx.tlc("Balance", cfg, timeout=900, name="gen"), "case generation " + cfg)
            k = 0
            raws = r.printed_raw("CASE")
            if cfg == "Balance.sub3.cfg" and ctx.tier == "quick":
                # quick runs a seeded third of this family (thorough: all of it)
                import random as _r
                raws = sorted(raws)
                _r.Random(ctx.seed).shuffle(raws)
                raws = raws[:len(raws) // 3]
            for raw in raws:
                f.write(vlib.tla_unquote(raw) + "\n")
                k += 1
            n += k
            stats.append({"cfg": cfg, "cases": k, "states": r.distinct, "generated": r.generated})
    if n == 0:
        raise vlib.Inconclusive("no cases generated")
    return n, stats


def run(ctx, pid, clauses):
    # role 1/4: the oracle is satisfiable on the enumerated space (never demands the impossible)
    sat = ctx.need(ctx.tlc("Balance", "Balance.sat.cfg", timeout=600, name="sat"), "oracle satisfiability")
    ssat = ctx.need(ctx.tlc("Balance", "Balance.stickysat.cfg", timeout=600, name="stickysat"), "stickiness satisfiability")
    cases = os.path.join(ctx.scratch, "cases.ndjson")
    ncases, gstats = gen_cases(ctx, cases)
    rc, out, outdir = ctx.go_test("^TestVerifBalance$", env={"VERIF_CASES": cases}, timeout=900, only=["balance_*"])
    ctx.need_go(rc, out, "balance replay")
    trace = os.path.join(outdir, "trace.ndjson")
    summary = json.load(open(os.path.join(outdir, "summary.json")))
    rs = ctx.tlc_trace("BalanceTrace", "BalanceTrace.cfg", trace, shards=16)
    allv = []
    nplans = 0
    for r in rs:
        ctx.need(r, "trace validation")
        allv += vlib.trace_viols(r)
        st = r.printed("STATS")
        if not st:
            raise vlib.Inconclusive("trace validation did not reach the end of a shard")
        nplans += st[0]["plans"]
    events = None
    viols = []
    for v in allv:
        if v["clause"] not in clauses:
            continue
        if events is None:
            events = {(e["t"], e["i"]): e for e in vlib.read_ndjson(trace)}
        e = events.get((v["trace"], v["index"]), {})
        v["features"] = {k: e.get(k) for k in ("strat", "kind", "mem", "sub", "np", "plan", "prev", "err", "chain")}
        viols.append(v)
    if nplans != sum(summary["plans"].values()):
        raise vlib.Inconclusive("trace validation evaluated %d plans, harness recorded %d" % (nplans, sum(summary["plans"].values())))
    if nplans == 0:
        raise vlib.Inconclusive("trace validation evaluated no plan")
    group = None
    if pid == "C08":
        # the plan as the members receive it: the real consumer group leader against the simulated coordinator
        # (C07's machinery, spec/GroupTrace.tla clause sync_plan_complete), with a leaderless partition in the metadata
        import c07
        gviols, group, gtrace = c07.plan_family(ctx)
        if not group.get("sync_plans_checked"):
            raise vlib.Inconclusive("group plan family: no SyncGroup plan was observed")
        viols += gviols
    cov = {
        "states": sat.distinct + ssat.distinct + sum(g["states"] for g in gstats),
        "transitions": sat.generated + ssat.generated + sum(g["generated"] for g in gstats),
        "traces_validated_against_impl": nplans,
        "samples": summary.get("samples", [])[:3],
        "chains_replayed": ncases,
        "plans_by_strategy": summary["plans"],
        "distinct_shapes": summary["distinct_shapes"],
        "distinct_sticky_chain_prefixes": summary["distinct_sticky_prefixes"],
        "generation": gstats,
        "oracle_satisfiable_states": sat.distinct,
        "stickiness_satisfiable_states": ssat.distinct,
        "clauses": sorted(clauses) + (["sync_plan_complete"] if group else []),
        "group_level_plans": group,
        "exhaustive": True,
        "explanation": "every chain emitted by TLC from spec/Balance.tla is executed on the real range/roundrobin/sticky "
                       "Plan (sticky with real AssignmentData user data fed back, generations increasing, leavers keep "
                       "stale data); TLC evaluates the BalanceOracle clauses on every computed plan",
    }
    return vlib.finish(ctx, "model_checking", cov, viols,
                       ["topics handed to Plan are exactly the existing topics somebody subscribes to (what consumerGroup.balance builds)",
                        "stickiness clauses only under their stated premises (identical subscriptions; previous plan produced by the strategy itself)",
                        "TLC's bounded enumeration: 3 members, 2 topics, <=3 partitions exhaustively; larger shapes by seeded simulation"],
                       save={"trace.ndjson": trace, "cases.ndjson": cases})
