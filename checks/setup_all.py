"""bin/check --setup: parse every specification with SANY, warm the Go build cache by compiling
the harness into package sarama once. Fails (exit 2) if a spec does not parse or the harness does not build."""
import glob
import os
import subprocess
import sys
import vlib


def main():
    rc = 0
    ctx = vlib.Ctx("setup", "quick", 1)
    try:
        d = os.path.join(ctx.scratch, "sany")
        os.makedirs(d)
        for f in glob.glob(os.path.join(vlib.SPEC, "*.tla")):
            subprocess.call(["cp", f, d])
        for f in sorted(glob.glob(os.path.join(d, "*.tla"))):
            p = subprocess.run(["java", "-cp", vlib.TLA_CP, "tla2sany.SANY", os.path.basename(f)], cwd=d,
                               stdout=subprocess.PIPE, stderr=subprocess.STDOUT, universal_newlines=True)
            ok = p.returncode == 0 and "*** Errors" not in p.stdout and "Fatal errors" not in p.stdout
            print("SANY %-28s %s" % (os.path.basename(f), "ok" if ok else "FAILED"))
            if not ok:
                print(p.stdout[-2000:])
                rc = 2
        r, out, _ = ctx.go_test("^TestVerifNothing$", timeout=600)
        print("harness build (package sarama): %s" % ("ok" if r == 0 else "FAILED"))
        if r != 0:
            print(out[-3000:])
            rc = 2
        if glob.glob(os.path.join(vlib.HARNESS, "mocks", "*.go")):
            r, out, _ = ctx.go_test("^TestVerifNothing$", pkg="mocks", timeout=600)
            print("harness build (package mocks): %s" % ("ok" if r == 0 else "FAILED"))
            if r != 0:
                print(out[-3000:])
                rc = 2
    finally:
        ctx.cleanup()
    return rc
