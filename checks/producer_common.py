"""Producer properties (C01 C02 C04 C05 C16 C18 and the producer part of C12/C17): scenario
generation (TLC behaviours of spec/Producer.tla + deterministic families), execution on the real
AsyncProducer against the simulated cluster, trace validation by spec/ProducerObsTrace.tla."""
import copy
import itertools
import json
import os
import random
import vlib

CLAUSES = {
    "C01": {"outcome_for_unknown", "outcome_twice", "outcome_missing_at_close", "close_returns", "channels_closed",
            "input_accepts", "no_panic", "sync_return_matches"},
    "C12": {"close_returns", "channels_closed", "input_accepts", "no_panic"},
    "C02": {"log_order", "success_offset_order"},
    "C04": {"success_offset_holds_message", "success_partition_is_chosen", "nothing_foreign_appended",
            "wire_content_equals_submitted", "wire_request_decodes"},
    "C05": {"no_duplicate_append", "success_in_log_exactly_once", "sequence_contiguous", "resend_identical",
            "nothing_foreign_appended"},
    "C16": {"max_messages", "max_message_bytes", "max_request_size", "oversize_rejected_not_sent", "within_limits_is_sent",
            "flush_without_more_input"},
    "C18": {"intercept_once", "intercept_unknown_message", "intercept_chain_order", "intercept_missing", "no_panic"},
}

PIDX = {"p1": 0, "p2": 1}
BIDX = {"b1": 1, "b2": 2}

# behaviour-generation instances of spec/Producer.tla: (TLC cfg, driver configuration)
GEN = {
    "gen.p1": ("MCProducer.gen.p1.cfg", dict(idem=False, retryMax=2, leaders=[1], nbrokers=1)),
    "gen.p2": ("MCProducer.gen.p2.cfg", dict(idem=False, retryMax=1, leaders=[1, 2], nbrokers=2)),
    "gen.p2b1": ("MCProducer.gen.p2b1.cfg", dict(idem=False, retryMax=1, leaders=[1, 1], nbrokers=1)),
    "gen.idem": ("MCProducer.gen.idem.cfg", dict(idem=True, retryMax=1, leaders=[1, 1], nbrokers=1)),
    "gen.idem1": ("MCProducer.gen.idem1.cfg", dict(idem=True, retryMax=2, leaders=[1], nbrokers=1)),
}


def behaviours(ctx, key, num, depth=160):
    """role 2: simulate the pipeline model, collect the distinct environment behaviours it prints at
    quiescent states, turn each into a driver scenario (every produce request is held by the
    simulated broker until the behaviour's `handle` step, so submissions keep the model's order
    relative to the broker's decisions)."""
    cfgname, dcfg = GEN[key]
    r = ctx.tlc("MCProducer", cfgname, workers=1, timeout=600, simulate="num=%d" % num, depth=depth,
                seed=ctx.seed, name=key)
    if r.error and "CASE" not in r.out:
        ctx.need(r, "behaviour generation " + key)
    seen = set()
    out = []
    for raw in r.printed_raw("CASE"):
        js = vlib.tla_unquote(raw)
        if js in seen:
            continue
        seen.add(js)
        hist = json.loads(js)
        steps, plans, k, nsub = [], {}, 0, 0
        for h in hist:
            if h["a"] == "submit":
                steps.append({"op": "submit", "id": h["id"], "part": PIDX[h["part"]]})
                nsub += 1
            elif h["a"] == "handle":
                k += 1
                plan = {"hold": True, "part": {}}
                if h["conn"] != "ok":
                    plan["conn"] = h["conn"]
                for p, kind in h["kinds"]:
                    if kind in ("ok", "retry", "retryapp", "fatal"):
                        plan["part"][str(PIDX[p])] = kind
                plans[str(k)] = plan
                steps.append({"op": "wait_req", "n": k, "ms": 250})
                steps.append({"op": "release", "n": k})
            elif h["a"] == "move":
                steps.append({"op": "move", "part": PIDX[h["part"]], "to": BIDX[h["to"]]})
        steps.append({"op": "wait_outcomes", "n": nsub, "ms": 1500})
        steps.append({"op": "close"})
        out.append({"name": "%s#%d" % (key, len(out) + 1), "family": key, "cfg": dict(dcfg), "plans": plans, "steps": steps})
    return out, r


# ------------------------------------------------------------------ conducted replay
# instances of spec/Producer.tla in hook normal form (spec/MCProducer.tla, ConductSpec) that record EVERY action
CONDUCT = {
    "conduct.p1": ("MCProducer.conduct.p1.cfg", dict(idem=False, retryMax=2, leaders=[1], nbrokers=1), 4, (0, 2)),
    "conduct.p2b1": ("MCProducer.conduct.p2b1.cfg", dict(idem=False, retryMax=2, leaders=[1, 1], nbrokers=1), 4, (0, 2)),
    "conduct.p2": ("MCProducer.conduct.p2.cfg", dict(idem=False, retryMax=2, leaders=[1, 2], nbrokers=2), 4, (0, 2)),
    "conduct.idem": ("MCProducer.conduct.idem.cfg", dict(idem=True, retryMax=1, leaders=[1, 1], nbrokers=1), 4, (0, 3)),
    "conduct.idem1": ("MCProducer.conduct.idem1.cfg", dict(idem=True, retryMax=2, leaders=[1], nbrokers=1), 4, (0, 3)),
}     # last: submission windows simulated (0 = the application submits whenever it can, k = at most k messages without outcome)


def conduct_steps(hist):
    """one behaviour (every action of the model, in order) -> (conductor steps, broker plans, features).
    Steps without a hook (partition worker start-up and its queued sub-steps, second visit of a worker to a message
    after an epoch roll-over) are dropped: the real goroutines take them by themselves as soon as they can, which
    is where the hook normal form of the generator puts them."""
    steps, plans = [], {}
    nreq = 0
    outstanding = {}      # model broker-worker index -> number of its request at the cluster
    skip_recv = set()     # (bp, id, part, retries, flag): the same message again after a roll-over
    last_flush = {}
    feat = dict(bounces=0, parked=0, late_fin=0, jumps=0, maxhwm=0, faults=0, conn=0, parts=set(), sends=0, multi=0, mixed=0)
    parked_levels = {}    # partition -> retry levels of the messages parked in the current retry phase, in arrival order
    for h in hist:
        a = h["a"]
        if a == "submit":
            steps.append({"k": "submit", "id": h["id"], "part": PIDX[h["part"]]})
            feat["parts"].add(h["part"])
        elif a in ("disp", "rhdeq", "pprecv"):
            st = {"k": a, "id": h["id"], "part": PIDX[h["part"]], "retries": h["retries"], "flag": h["flag"]}
            steps.append(st)
            if a == "pprecv":
                last_flush.pop(h["part"], None)
                hw = h["hwm"]
                feat["maxhwm"] = max(feat["maxhwm"], hw, h["retries"])
                if hw == 0:
                    parked_levels[h["part"]] = []
                if h["retries"] < hw:
                    feat["late_fin" if h["flag"] == "fin" else "parked"] += 1
                    if h["flag"] != "fin":
                        lv = parked_levels.setdefault(h["part"], [])
                        if lv and h["retries"] > min(lv):
                            feat["mixed"] += 1      # a message of a higher level is parked after one of a lower level
                        lv.append(h["retries"])
                if h["retries"] > hw + 1:
                    feat["jumps"] += 1
        elif a == "ppstep":
            if h["op"] == "flush":
                if last_flush.get(h["part"]) != h["level"]:       # (a level is visited twice when a worker must be found first)
                    steps.append({"k": "ppflush", "part": PIDX[h["part"]], "level": h["level"]})
                last_flush[h["part"]] = h["level"]
        elif a == "bprecv":
            key = (h["bp"], h["id"], h["part"], h["retries"], h["flag"])
            if key in skip_recv:
                skip_recv.discard(key)
                continue
            steps.append({"k": "bprecv", "id": h["id"], "part": PIDX[h["part"]], "retries": h["retries"], "flag": h["flag"],
                          "broker": BIDX[h["broker"]]})
            if h["roll"]:
                # the worker forces its buffer out and then takes the message: one hook, one more request
                nreq += 1
                outstanding[h["bp"]] = nreq
                steps.append({"k": "bpsend", "broker": BIDX[h["broker"]], "req": nreq,
                              "ids": {str(PIDX[p]): v for p, v in h["ids"].items() if v}})
                skip_recv.add(key)
        elif a in ("bpsend", "rbsend"):
            nreq += 1
            outstanding[h["bp"]] = nreq
            ids = {str(PIDX[p]): v for p, v in h["ids"].items() if v}
            steps.append({"k": "bpsend", "broker": BIDX[h["broker"]], "req": nreq, "ids": ids})
            feat["sends"] += 1
            if sum(len(v) for v in ids.values()) > 1:
                feat["multi"] += 1
        elif a == "handle":
            n = outstanding.get(h["bp"], 0)
            plan = {"hold": True, "part": {}}
            if h["conn"] != "ok":
                plan["conn"] = h["conn"]
                feat["faults"] += 1
                feat["conn"] += 1
            for p, kind in h["kinds"].items():
                if kind in ("ok", "retry", "retryapp", "fatal"):
                    plan["part"][str(PIDX[p])] = kind
                    if kind != "ok":
                        feat["faults"] += 1
            plans[str(n)] = plan
            steps.append({"k": "handle", "req": n})
        elif a == "bpresp":
            steps.append({"k": "bpresp", "broker": BIDX[h["broker"]], "err": h["err"]})
        elif a == "rbstart":
            steps.append({"k": "rbstart", "part": PIDX[h["part"]]})
        elif a == "move":
            steps.append({"k": "move", "part": PIDX[h["part"]], "to": BIDX[h["to"]]})
    feat["bounces"] = sum(1 for s_ in steps if s_["k"] == "rhdeq")
    feat["parts"] = len(feat["parts"])
    return steps, plans, feat


def conducted(ctx, key, num, pool=None, depth=400):
    """role 2 for conducted replay: simulate the model in hook normal form, keep `num` behaviours (those with retry
    levels, parked messages, late chasers and level jumps first, then at random), and turn each into a scenario
    whose internal steps the conductor of the Go driver follows at the hook points."""
    import concurrent.futures
    cfgname, dcfg, nmsgs, windows = CONDUCT[key]
    pool = pool or max(15 * num, 600)       # behaviours simulated per submission window

    def simulate(w):
        cfgp = cfgname
        if w:
            # a derived instance: the same constants plus a submission window
            with open(os.path.join(vlib.SPEC, "cfg", cfgname)) as f:
                txt = f.read().replace("  Record <- RecordOn", "  Record <- RecordOn\n  SubmitWindow <- W%d" % w)
            cfgp = os.path.join(ctx.scratch, "%s.w%d.cfg" % (key, w))
            with open(cfgp, "w") as f:
                f.write(txt)
        r_ = ctx.tlc("MCProducer", cfgp, workers=2, timeout=600, simulate="num=%d" % (pool // 2), depth=depth, seed=ctx.seed,
                     name="%s.w%d" % (key, w), heap="1g")
        if r_.error and "CONDUCT" not in r_.out:
            ctx.need(r_, "behaviour generation %s (window %d)" % (key, w))
        return r_
    with concurrent.futures.ThreadPoolExecutor(max_workers=len(windows)) as ex:
        rs = list(ex.map(simulate, windows))
    r = rs[0]
    seen = {}
    for k_, r_ in enumerate(rs):
        for raw in r_.printed_raw("CONDUCT"):
            js = vlib.tla_unquote(raw)
            if js not in seen:
                seen[js] = (windows[k_], json.loads(js))
    cands = []
    for js, (win, hist) in sorted(seen.items()):      # (TLC's simulation workers print in any order)
        if sum(1 for h in hist if h["a"] == "submit") < nmsgs:
            continue
        steps, plans, feat = conduct_steps(hist)
        if feat["bounces"] == 0:
            continue
        if dcfg["idem"] and feat["conn"] and ctx.tier == "quick":
            # what the idempotent producer does after a connection-level failure is the territory of the recorded findings
            # (known_findings.json; free-running families cover it): the quick tier conducts the other behaviours
            continue
        score = 4 * min(feat["late_fin"], 2) + 2 * min(feat["jumps"], 2) + 2 * min(feat["parked"], 3) + 6 * min(feat["mixed"], 2) + 2 * (feat["maxhwm"] >= 2) + \
            (feat["parts"] >= 2) + (feat["multi"] > 0)
        if dcfg["idem"]:
            # what the idempotent producer does after a connection-level failure is the territory of the recorded findings
            # (known_findings.json): behaviours without one say more
            score -= 100 * feat["conn"]
        cands.append((score, steps, plans, feat, win))
    rnd = random.Random(ctx.seed * 7919 + len(key))
    rnd.shuffle(cands)
    # half of the behaviours: the best-scored ones of every window in turn; the other half at random
    byw = {w: sorted([c_ for c_ in cands if c_[4] == w], key=lambda c_: -c_[0]) for w in windows}
    top = []
    while len(top) < (num + 1) // 2 and any(byw.values()):
        for w in windows:
            if byw[w] and len(top) < (num + 1) // 2:
                top.append(byw[w].pop(0))
    rest = [c_ for w in windows for c_ in byw[w]]
    rnd.shuffle(rest)
    out = []
    for score, steps, plans, feat, win in top + rest[:num - len(top)]:
        tail = [{"op": "conduct"}, {"op": "wait_outcomes", "n": nmsgs, "ms": 3000}]
        # epilogue (free-running): the partitions must be back to normal - fresh messages flow and Close returns
        extra = [(nmsgs + 1 + p_, p_) for p_ in range(len(dcfg["leaders"]))]
        tail += submits(extra) + [{"op": "wait_outcomes", "n": nmsgs + len(extra), "ms": 3000}, {"op": "close"}]
        # (requests are held by the broker across many conducted steps: the client must never time out on its own)
        s_ = {"name": "%s#%d%s" % (key, len(out) + 1, "w%d" % win if win else ""), "family": key, "cfg": dict(dcfg, readTimeoutMs=60000), "plans": plans, "steps": tail,
              "conduct": steps, "gates": []}
        if len(out) % 2 == 1 or dcfg["idem"]:
            # every other behaviour: a submission re-uses a message object the producer has already handed back (if there is
            # one by then); to the producer that is a new message like any other
            s_["recycle"] = True
        out.append(s_)
    return out, r, {"model": key, "simulated": len(seen), "with_retries": len(cands), "behaviours": len(out)}


def conduct_stats(trace):
    """soft numbers of the conducted replay (never part of a verdict): per family how many behaviours were handed to the
    conductor, how many the real goroutines followed to the end, how many left the behaviour (`unsteered`, free-running
    from there), steps followed, and the most frequent reasons for leaving"""
    import re
    fam, per, whys = {}, {}, {}
    with open(trace) as f:
        for line in f:
            if '"ev":"reset"' in line[:40]:
                e = json.loads(line)
                fam[e["t"]] = e.get("family", "-")
            elif '"ev":"conduct"' in line[:40]:
                e = json.loads(line)
                d = per.setdefault(fam.get(e["t"], "-"), dict(conducted=0, followed=0, diverged=0, steps=0, steps_followed=0, ms=0, forced_rh=0))
                d["conducted"] += 1
                d["followed" if e["followed"] else "diverged"] += 1
                d["steps"] += e["steps"]
                d["steps_followed"] += e["done"]
                d["ms"] += e["ms"]
                d["forced_rh"] += e.get("forced", 0)
                if not e["followed"]:
                    w = re.sub(r"\d+", "N", e["why"].split(";")[0])[:80]
                    whys[w] = whys.get(w, 0) + 1
    for d in per.values():
        d["avg_ms"] = round(d.pop("ms") / max(1, d["conducted"]), 1)
    return {"families": per, "left_because": dict(sorted(whys.items(), key=lambda kv_: -kv_[1])[:8])}


# ------------------------------------------------------------------ deterministic families
def sc(name, family, cfg, steps, plans=None, gates=None):
    return {"name": name, "family": family, "cfg": cfg, "plans": plans or {}, "steps": steps, "gates": gates or []}


def submits(ids_parts, **kw):
    return [dict({"op": "submit", "id": i, "part": p}, **kw) for i, p in ids_parts]


FAULT_KINDS = [
    ("retry", {"part": {"0": "retry"}}),
    ("retryapp", {"part": {"0": "retryapp"}}),
    ("fatal", {"part": {"0": "fatal"}}),
    ("missing", {"part": {"0": "missing"}}),
    ("drop_before", {"conn": "drop_before"}),
    ("drop_after", {"conn": "drop_after"}),
    ("silence_before", {"conn": "silence_before"}),
    ("silence_after", {"conn": "silence_after"}),
    ("notleader_move", {"part": {"0": "retry"}, "moveAfter": {"0": 2}}),
]


def family_faults(idem, seed):
    """P2/P3: single and double fault scripts on requests 1..3, retry budgets 0,1,3, flush settings,
    one or two partitions, fresh input submitted while request k is held."""
    out = []
    rnd = random.Random(seed)
    flushes = [dict(), dict(flushMsgs=2, flushFreqMs=30), dict(flushFreqMs=15)]
    for rmax in ([1, 3] if idem else [0, 1, 3]):
        for (fname, plan) in FAULT_KINDS:
            for k in (1, 2):
                for fl in flushes:
                    nb = 2 if "moveAfter" in plan else 1
                    cfg = dict(idem=idem, retryMax=rmax, leaders=[1, 1] if nb == 1 else [1, 2], nbrokers=nb, **fl)
                    p = copy.deepcopy(plan)
                    p["hold"] = True
                    steps = submits([(1, 0), (2, 0), (3, 1)])
                    steps += [{"op": "wait_req", "n": k, "ms": 800}]
                    steps += submits([(4, 0), (5, 1)])
                    steps += [{"op": "release", "n": k}, {"op": "wait_outcomes", "n": 5, "ms": 3000}]
                    steps += submits([(6, 0)])
                    steps += [{"op": "wait_outcomes", "n": 6, "ms": 3000}, {"op": "close"}]
                    out.append(sc("f1-%s-r%d-k%d-%s" % (fname, rmax, k, "".join(sorted(fl))), "faults1", cfg, steps, {str(k): p}))
    # double faults on requests (1,2): every ordered pair, retryMax 1 and 2
    for rmax in (1, 2):
        for (f1, p1), (f2, p2) in itertools.product(FAULT_KINDS[:6], FAULT_KINDS[:6]):
            cfg = dict(idem=idem, retryMax=rmax, leaders=[1, 1], nbrokers=1)
            pl = {"1": dict(copy.deepcopy(p1), hold=True), "2": copy.deepcopy(p2)}
            steps = submits([(1, 0), (2, 1)]) + [{"op": "wait_req", "n": 1, "ms": 800}] + submits([(3, 0), (4, 1)])
            steps += [{"op": "release", "n": 1}, {"op": "wait_outcomes", "n": 4, "ms": 3000}, {"op": "close"}]
            out.append(sc("f2-%s-%s-r%d" % (f1, f2, rmax), "faults2", cfg, steps, pl))
    # budget exhaustion: Retry.Max consecutive retriable answers, batch sizes 1 and 2
    for rmax in (1, 2):
        for bs in (1, 2):
            cfg = dict(idem=idem, retryMax=rmax, leaders=[1], nbrokers=1, flushMsgs=bs, flushFreqMs=20)
            pl = {str(i): {"part": {"0": "retry"}} for i in range(1, rmax + 2)}
            steps = submits([(i, 0) for i in range(1, bs + 1)]) + [{"op": "wait_outcomes", "n": bs, "ms": 3000}]
            steps += submits([(bs + 1, 0)]) + [{"op": "wait_outcomes", "n": bs + 1, "ms": 3000}, {"op": "close"}]
            out.append(sc("exhaust-r%d-b%d" % (rmax, bs), "exhaust", cfg, steps, pl))
    rnd.shuffle(out)
    return out


def vt(v):
    return tuple(int(x) for x in v.split("."))


def family_matrix():
    """P1: fault-free wire matrix (C04): version generation x codec x acks x batching x payload shapes."""
    out = []
    versions = ["0.8.2.0", "0.9.0.0", "0.10.0.0", "0.10.2.0", "0.11.0.0", "1.0.0", "2.1.0", "2.8.0"]
    for v in versions:
        for codec in (0, 1, 2, 3, 4):
            if codec == 3 and vt(v) < (0, 10):
                continue
            if codec == 4 and vt(v) < (2, 1):
                continue
            for acks in ("local", "all", "none"):
                for nmsg in (1, 3):
                    cfg = dict(version=v, codec=codec, acks=acks, retryMax=1, leaders=[1, 1], nbrokers=1,
                               flushMsgs=nmsg * 2, flushFreqMs=25)
                    steps = []
                    i = 0
                    for part in (0, 1):
                        for j in range(nmsg):
                            i += 1
                            st = {"op": "submit", "id": i, "part": part}
                            if j % 2 == 0:
                                st["key"] = "k%d" % i
                            if j == 1:
                                st["size"] = 4096
                            if j != 0:
                                st["ts"] = 1000 * i + 7
                            if vt(v) >= (0, 11) and j != 1:
                                st["hdrs"] = (i % 3)
                            steps.append(st)
                    if acks == "none":
                        steps += [{"op": "wait_outcomes", "n": i, "ms": 2000}, {"op": "sleep", "ms": 60}, {"op": "close"}]
                    else:
                        steps += [{"op": "wait_outcomes", "n": i, "ms": 2000}, {"op": "close"}]
                    out.append(sc("m-%s-c%d-%s-n%d" % (v, codec, acks, nmsg), "matrix", cfg, steps))
                    if codec in (0, 2) and acks != "none" and vt(v) >= (0, 10):
                        # the topic uses LogAppendTime: responses carry the broker's append time (offsets are reported as always)
                        cfg2 = dict(cfg, logAppend=True)
                        st2 = [dict(x) for x in steps]
                        for x in st2:
                            x.pop("ts", None)
                        out.append(sc("m-%s-c%d-%s-n%d-lat" % (v, codec, acks, nmsg), "matrix", cfg2, st2))
    return out


def family_retry0():
    """P5: Retry.Max = 0 with two partitions on one broker (abandoned broker worker)."""
    out = []
    for kind in ("retry", "fatal"):
        cfg = dict(retryMax=0, leaders=[1, 1], nbrokers=1, flushMsgs=2, flushFreqMs=300)
        pl = {"1": {"hold": True, "part": {"1": kind}}}
        steps = submits([(1, 0), (2, 1)]) + [{"op": "wait_req", "n": 1, "ms": 800}] + submits([(3, 0)])
        steps += [{"op": "sleep", "ms": 30}, {"op": "release", "n": 1}, {"op": "wait_outcomes", "n": 2, "ms": 2000}]
        steps += submits([(4, 0), (5, 0)]) + [{"op": "wait_outcomes", "n": 5, "ms": 3000}, {"op": "close"}]
        out.append(sc("retry0-" + kind, "retry0", cfg, steps, pl))
    # one partition, retries disabled, batching: request 1 (messages 1,2) is refused while message 3 already waits in the
    # worker's next, incomplete batch; the partition moves on to a fresh worker with 4,5 - 3 must not be overtaken
    for kind in ("retry", "fatal"):
        for freq in (400, 1500):
            cfg = dict(retryMax=0, leaders=[1], nbrokers=1, flushMsgs=2, flushFreqMs=freq, backoffMs=30)
            pl = {"1": {"hold": True, "part": {"0": kind}}}
            steps = submits([(1, 0), (2, 0)]) + [{"op": "wait_req", "n": 1, "ms": 1500}] + submits([(3, 0)])
            steps += [{"op": "sleep", "ms": 40}, {"op": "release", "n": 1}, {"op": "wait_outcomes", "n": 2, "ms": 2000}]
            steps += submits([(4, 0), (5, 0)]) + [{"op": "must_outcomes", "n": 5, "ms": 4000}, {"op": "close"}]
            out.append(sc("retry0-single-%s-f%d" % (kind, freq), "retry0", cfg, steps, pl))
    return out


def family_gates(idem):
    """P4: fresh input injected inside the retry window with hook gates (binding B)."""
    out = []
    for fname, plan in (("silence", {"conn": "silence_before"}), ("retry", {"part": {"0": "retry"}}), ("drop_after", {"conn": "drop_after"})):
        for rmax in (1, 3):
            cfg = dict(idem=idem, retryMax=rmax, leaders=[1], nbrokers=1)
            gates = [{"name": "fin_at_bp", "point": "bp.recv", "flags": "fin", "retries": -1, "part": -1, "hwm": -1},
                     {"name": "parked", "point": "pp.recv", "flags": "none", "retries": 0, "part": -1, "hwm": 1}]
            steps = submits([(1, 0)]) + [{"op": "wait_gate", "name": "fin_at_bp"}] + submits([(2, 0)])
            steps += [{"op": "wait_gate", "name": "parked"}, {"op": "release_gate", "name": "parked"},
                      {"op": "release_gate", "name": "fin_at_bp"}, {"op": "wait_outcomes", "n": 2, "ms": 3000}]
            steps += submits([(3, 0)]) + [{"op": "wait_outcomes", "n": 3, "ms": 3000}, {"op": "close"}]
            out.append(sc("gate-parked-%s-r%d" % (fname, rmax), "gates", cfg, steps, {"1": plan}, gates))
    return out


def family_interceptors():
    """P8: interceptor chains over fault-free, retried and exhausted messages."""
    out = []
    for n in (1, 2, 3):
        for fname, plan in (("none", None), ("retry", {"part": {"0": "retry"}}), ("drop_after", {"conn": "drop_after"})):
            for v in ("0.10.0.0", "0.11.0.0"):
                cfg = dict(interceptors=n, retryMax=2, leaders=[1], nbrokers=1, version=v, icKind=("", "value", "func")[(n + len(fname)) % 3])
                steps = submits([(1, 0), (2, 0)]) + [{"op": "wait_outcomes", "n": 2, "ms": 3000}] + submits([(3, 0)])
                steps += [{"op": "wait_outcomes", "n": 3, "ms": 3000}, {"op": "close"}]
                out.append(sc("ic%d-%s-%s" % (n, fname, v), "interceptors", cfg, steps, {"1": plan} if plan else {}))
    # messages the producer itself rejects (too large; headers on a pre-0.11 version) were submitted too: the chain runs for them
    for n in (1, 2):
        for v in ("0.10.0.0", "0.11.0.0"):
            cfg = dict(interceptors=n, retryMax=1, leaders=[1], nbrokers=1, version=v, maxMsgBytes=300)
            steps = [{"op": "submit", "id": 1, "part": 0, "size": 40}, {"op": "submit", "id": 2, "part": 0, "size": 900},
                     {"op": "submit", "id": 3, "part": 0, "size": 40}, {"op": "wait_outcomes", "n": 3, "ms": 3000}, {"op": "close"}]
            out.append(sc("ic%d-reject-oversize-%s" % (n, v), "interceptors", cfg, steps))
        cfg = dict(interceptors=n, retryMax=1, leaders=[1], nbrokers=1, version="0.10.0.0")
        steps = [{"op": "submit", "id": 1, "part": 0}, {"op": "submit", "id": 2, "part": 0, "hdrs": 2},
                 {"op": "submit", "id": 3, "part": 0}, {"op": "wait_outcomes", "n": 3, "ms": 3000}, {"op": "close"}]
        out.append(sc("ic%d-reject-headers" % n, "interceptors", cfg, steps))
    return out


def family_routing():
    """P7: non-manual partitioners over topics with leaderless partitions (C04 success partition, C17 routing)"""
    out = []
    for part in ("rr", "random", "hash"):
        for leaders in ([1, 1, 1], [0, 1, 1], [1, 0, 1], [0, 0, 1], [0, 1, 0, 1]):
            for keyed in (False, True):
                if keyed and part != "hash":
                    continue
                cfg = dict(partitioner=part, retryMax=1, leaders=leaders, nbrokers=1)
                steps = [dict({"op": "submit", "id": i, "part": 0}, **({"key": "key%d" % i} if keyed else {})) for i in range(1, 9)]
                steps += [{"op": "wait_outcomes", "n": 8, "ms": 3000}, {"op": "close"}]
                out.append(sc("route-%s-%s-%s" % (part, "".join(map(str, leaders)), "k" if keyed else "nk"), "routing", cfg, steps))
    return out


def family_sync(idem):
    """SyncProducer: SendMessage from several goroutines and SendMessages batches over the fault kinds"""
    out = []
    for fname, plan in FAULT_KINDS[:8] + [("ok", {})]:
        for rmax in ((1, 3) if idem else (0, 1, 3)):
            cfg = dict(sync=True, idem=idem, retryMax=rmax, leaders=[1, 1], nbrokers=1)
            p = dict(copy.deepcopy(plan), hold=True)
            steps = [{"op": "submit", "id": 1, "part": 0}, {"op": "submit", "id": 2, "part": 1}, {"op": "wait_req", "n": 1, "ms": 800},
                     {"op": "submit", "id": 3, "part": 0}, {"op": "release", "n": 1}, {"op": "wait_outcomes", "n": 3, "ms": 3000},
                     {"op": "batch_add", "id": 4, "part": 0}, {"op": "batch_add", "id": 5, "part": 1}, {"op": "batch_add", "id": 6, "part": 0},
                     {"op": "batch_send"}, {"op": "wait_outcomes", "n": 6, "ms": 3000}]
            out.append(sc("sync-%s-r%d" % (fname, rmax), "sync", cfg, steps, {"1": p, "3": copy.deepcopy(plan)}))
    return out


def family_create_unreachable():
    """creating an idempotent producer while the cluster does not answer InitProducerID must fail with an
    error (or succeed later), never panic or hang"""
    out = []
    for fault in ("drop", "silence", "err"):
        for nb in (1, 2):
            cfg = dict(idem=True, retryMax=1, leaders=[1], nbrokers=nb, initPidFault=fault, readTimeoutMs=100)
            out.append(sc("create-%s-b%d" % (fault, nb), "create", cfg, [{"op": "close"}]))
    return out


def family_error_codes(idem):
    """every broker error code in place of success for one partition of a two-partition request (inputs quantifier):
    each message must still get exactly one outcome and Close must return"""
    out = []
    for code in list(range(-1, 60)) + [72, 74, 87]:
        if code in (0, 46):
            continue   # 46 = DUPLICATE_SEQUENCE_NUMBER: a faithful broker only sends it for a batch that IS in the log
        cfg = dict(idem=idem, retryMax=2, leaders=[1, 1], nbrokers=1, flushMsgs=3, flushFreqMs=20)
        pl = {"1": {"part": {"0": "code:%d" % code}}}
        steps = submits([(1, 0), (2, 1), (3, 0)]) + [{"op": "wait_outcomes", "n": 3, "ms": 2500}] + submits([(4, 0)])
        steps += [{"op": "wait_outcomes", "n": 4, "ms": 2500}, {"op": "close"}]
        out.append(sc("code%d-%s" % (code, "idem" if idem else "plain"), "errorcodes", cfg, steps, pl))
    return out


def family_gates_metafail(idem):
    """P4b: the leader lookup fails both when the bounced message is to be forwarded and when the parked level is
    flushed (all of them are failed with an error), then the partition recovers and bounces a second time: nothing
    that was failed may come back"""
    out = []
    for rmax in (2, 3):
        cfg = dict(idem=idem, retryMax=rmax, leaders=[1], nbrokers=1)
        gates = [{"name": "fin_at_bp", "point": "bp.recv", "flags": "fin", "retries": -1, "part": -1, "hwm": -1},
                 {"name": "parked", "point": "pp.recv", "flags": "none", "retries": 0, "part": -1, "hwm": 1}]
        pl = {"1": {"hold": True, "part": {"0": "retry"}}, "2": {"part": {"0": "retry"}}}
        steps = submits([(1, 0)]) + [{"op": "wait_req", "n": 1, "ms": 1500}, {"op": "meta_fail", "n": 50}, {"op": "release", "n": 1},
                                     {"op": "wait_gate", "name": "fin_at_bp"}, {"op": "wait_outcomes", "n": 1, "ms": 2000}]
        steps += submits([(2, 0), (3, 0)])
        steps += [{"op": "wait_gate", "name": "parked"}, {"op": "release_gate", "name": "parked"}, {"op": "sleep", "ms": 15},
                  {"op": "release_gate", "name": "fin_at_bp"}, {"op": "wait_outcomes", "n": 3, "ms": 3000}, {"op": "meta_fail", "n": 0}]
        steps += submits([(4, 0), (5, 0)]) + [{"op": "wait_outcomes", "n": 5, "ms": 3000}] + submits([(6, 0)])
        steps += [{"op": "wait_outcomes", "n": 6, "ms": 3000}, {"op": "close"}]
        out.append(sc("gate-metafail-r%d" % rmax, "gates", cfg, steps, pl, gates))
    return out


def family_sibling_syn():
    """the bounced message of partition 0 is held in the retry handler while partition 1 on the same broker
    starts up (its syn reaches the shared broker worker) and a fresh partition-0 message arrives: the fresh
    message must be bounced behind the retried one, not produced ahead of it"""
    out = []
    for rmax in (1, 3):
        for flush in (dict(), dict(flushMsgs=2, flushFreqMs=20)):
            cfg = dict(retryMax=rmax, leaders=[1, 1], nbrokers=1, **flush)
            gates = [{"name": "rh_hold", "point": "rh.loop", "flags": "", "retries": -1, "part": -1, "hwm": -1, "minArg": 1}]
            pl = {"1": {"part": {"0": "retry"}}}
            steps = submits([(1, 0)]) + [{"op": "wait_gate", "name": "rh_hold"}, {"op": "submit", "id": 2, "part": 1},
                                         {"op": "wait_outcomes", "n": 1, "ms": 1500}, {"op": "submit", "id": 3, "part": 0},
                                         {"op": "sleep", "ms": 40}, {"op": "release_gate", "name": "rh_hold"},
                                         {"op": "wait_outcomes", "n": 3, "ms": 3000}]
            steps += submits([(4, 0), (5, 1)]) + [{"op": "wait_outcomes", "n": 5, "ms": 3000}, {"op": "close"}]
            out.append(sc("sibling-syn-r%d-%s" % (rmax, "".join(sorted(flush)) or "imm"), "gates", cfg, steps, pl, gates))
    return out


def family_codeapp(idem):
    """a retriable error code answered AFTER the append (REQUEST_TIMED_OUT, NOT_ENOUGH_REPLICAS[_AFTER_APPEND]) while further
    messages of the partition wait behind the request in flight: the resend must be the same batch (idempotent: deduplicated,
    identical sequence range), the followers must come after it, everything is reported where it was written"""
    out = []
    fam = "idem_clean" if idem else "codeapp"
    for code in (7, 19, 20):
        for nf in (1, 2):
            # (a linger makes the first request carry both messages and lets a per-message resend re-batch with the followers)
            cfg = dict(idem=idem, retryMax=3, leaders=[1], nbrokers=1, backoffMs=20, flushFreqMs=120)
            pl = {"1": {"hold": True, "part": {"0": "codeapp:%d" % code}}}
            steps = submits([(1, 0), (2, 0)]) + [{"op": "wait_req", "n": 1, "ms": 2000}] + submits([(3 + k, 0) for k in range(nf)])
            steps += [{"op": "sleep", "ms": 40}, {"op": "release", "n": 1}, {"op": "wait_outcomes", "n": 2 + nf, "ms": 4000}]
            steps += submits([(3 + nf, 0)]) + [{"op": "must_outcomes", "n": 3 + nf, "ms": 3000}, {"op": "close"}]
            out.append(sc("codeapp%d-f%d-%s" % (code, nf, "idem" if idem else "plain"), fam, cfg, steps, pl))
    return out


def family_level_jump():
    """the partition worker jumps from retry level 0 straight to level 2 (a message fails on A and again on B, the
    level-1 chaser is long back), while a once-bounced message is still held in the retry handler and a fresh message
    arrives in between: the parked levels must be flushed oldest first (bounced before fresh)"""
    out = []
    for rmax in (2, 3):
        for extra in (0, 1):
            cfg = dict(retryMax=rmax, leaders=[1], nbrokers=3, backoffMs=10)
            gates = [{"name": "rh_hold", "point": "rh.deq", "flags": "", "retries": -1, "part": -1, "hwm": -1, "nth": 3},
                     {"name": "parked", "point": "pp.recv", "flags": "none", "retries": 0, "part": -1, "hwm": 1}]
            pl = {"1": {"hold": True, "part": {"0": "retry"}}, "2": {"hold": True, "part": {"0": "retry"}}}
            steps = submits([(1, 0)]) + [{"op": "wait_req", "n": 1, "ms": 1500}, {"op": "move", "part": 0, "to": 2}, {"op": "release", "n": 1},
                                         {"op": "wait_req", "n": 2, "ms": 2000}, {"op": "sleep", "ms": 60}]
            # fresh messages join the buffer of B's worker behind the held request (level 0)
            steps += submits([(2 + k, 0) for k in range(1 + extra)]) + [{"op": "sleep", "ms": 40}, {"op": "move", "part": 0, "to": 3},
                                                                         {"op": "release", "n": 2}, {"op": "wait_gate", "name": "rh_hold"}]
            f = 3 + extra
            steps += submits([(f, 0)]) + [{"op": "wait_gate", "name": "parked"}, {"op": "release_gate", "name": "parked"}, {"op": "sleep", "ms": 20},
                                          {"op": "release_gate", "name": "rh_hold"}, {"op": "wait_outcomes", "n": f, "ms": 4000}]
            steps += submits([(f + 1, 0)]) + [{"op": "wait_outcomes", "n": f + 1, "ms": 3000}, {"op": "close"}]
            out.append(sc("level-jump-r%d-x%d" % (rmax, extra), "gates", cfg, steps, pl, gates))
        # the level-1 chaser is held at the OLD broker worker until the worker is already on level 2, and comes back
        # before the level-2 chaser: afterwards the partition must be back to normal (new input flows, Close returns)
        cfg = dict(retryMax=rmax, leaders=[1], nbrokers=3, backoffMs=10)
        gates = [{"name": "fin0", "point": "bp.recv", "flags": "fin", "retries": 0, "part": -1, "hwm": -1},
                 {"name": "fin1", "point": "bp.recv", "flags": "fin", "retries": 1, "part": -1, "hwm": -1}]
        pl = {"1": {"hold": True, "part": {"0": "retry"}}, "2": {"hold": True, "part": {"0": "retry"}}}
        steps = submits([(1, 0)]) + [{"op": "wait_req", "n": 1, "ms": 1500}, {"op": "move", "part": 0, "to": 2}, {"op": "release", "n": 1},
                                     {"op": "wait_gate", "name": "fin0"}, {"op": "wait_req", "n": 2, "ms": 2000},
                                     {"op": "move", "part": 0, "to": 3}, {"op": "release", "n": 2}, {"op": "wait_gate", "name": "fin1"},
                                     {"op": "release_gate", "name": "fin0"}, {"op": "sleep", "ms": 60}, {"op": "release_gate", "name": "fin1"},
                                     {"op": "wait_outcomes", "n": 1, "ms": 3000}]
        steps += submits([(2, 0), (3, 0)]) + [{"op": "must_outcomes", "n": 3, "ms": 3000}, {"op": "close"}]
        out.append(sc("late-fin-r%d" % rmax, "gates", cfg, steps, pl, gates))
    return out


def family_resubmit_size():
    """returned message objects submitted again with payloads of ANOTHER size: the size limits apply to what the object
    carries now (an oversized one is rejected, batches stay within MaxMessageBytes)"""
    out = []
    for v in ("0.10.2.0", "0.11.0.0"):
        cfg = dict(version=v, retryMax=1, leaders=[1], nbrokers=1, maxMsgBytes=1000, flushFreqMs=20)
        pl = {"7": {"delayMs": 120}}
        steps = submits([(i, 0) for i in range(1, 7)], size=40) + [{"op": "wait_outcomes", "n": 6, "ms": 3000}]
        # 7: opens a request that stays in flight; 8..13: six re-used objects now carrying 400 bytes each accumulate behind it
        steps += [{"op": "submit", "id": 7, "part": 0, "size": 40}, {"op": "sleep", "ms": 40}]
        steps += [{"op": "resubmit", "id": 7 + k, "from": k, "part": 0, "size": 400} for k in range(1, 7)]
        steps += [{"op": "wait_outcomes", "n": 13, "ms": 5000}]
        # 14: a re-used object that is now far too large
        steps += [{"op": "resubmit", "id": 14, "from": 7, "part": 0, "size": 5000}, {"op": "wait_outcomes", "n": 14, "ms": 3000}, {"op": "close"}]
        out.append(sc("resubmit-size-%s" % v, "limits", cfg, steps, pl))
    return out


def family_resubmit_ic():
    """re-submission of returned message objects with an interceptor chain configured: a re-submitted object is a new
    message - the chain runs for it once more (and only once)"""
    out = []
    for s_ in family_resubmit(False):
        for n in (1, 2):
            for v in ("0.10.0.0", "0.11.0.0"):
                t = copy.deepcopy(s_)
                t["cfg"].update(interceptors=n, version=v)
                t["name"] = "%s-ic%d-%s" % (s_["name"], n, v)
                t["family"] = "resubmit_ic"
                out.append(t)
    return out


def family_resubmit(idem):
    """the application sends a message OBJECT it got back on Errors()/Successes() again (as a new message), while its
    partition is idle or in a retry phase (parked, then released by flushRetryBuffers): it must be treated like any new
    message (sequenced afresh, full retry budget, exactly one outcome, written once)"""
    out = []
    fam = "idem_clean" if idem else "resubmit"
    for first in ("fatal", "ok", "exhaust"):
        rmax = 2
        cfg = dict(idem=idem, retryMax=rmax, leaders=[1], nbrokers=1, backoffMs=10)
        gates = [{"name": "fin_at_bp", "point": "bp.recv", "flags": "fin", "retries": -1, "part": -1, "hwm": -1,
                  "nth": 1 + (rmax if first == "exhaust" else 0)},
                 {"name": "parked", "point": "pp.recv", "flags": "none", "retries": 0, "part": -1, "hwm": 1}]
        if first == "exhaust" and idem:
            continue     # (an exhausted idempotent batch is the territory of the recorded idempotent findings)
        n1 = {"fatal": 1, "ok": 1, "exhaust": rmax + 1}[first]
        pl = {}
        for k in range(1, n1 + 1):
            pl[str(k)] = {"part": {"0": "fatal" if first == "fatal" else "retry"}} if first != "ok" else {}
        pl[str(n1 + 1)] = {"hold": True, "part": {"0": "retry"}}
        # message 3 waits in the broker worker's buffer behind the held request: when that request is refused, 3 is bounced
        # through the partition worker (also by the idempotent producer, which re-sends the refused batch 2 directly)
        steps = submits([(1, 0)]) + [{"op": "wait_outcomes", "n": 1, "ms": 3000}] + submits([(2, 0)])
        steps += [{"op": "wait_req", "n": n1 + 1, "ms": 2000}] + submits([(3, 0)]) + [{"op": "sleep", "ms": 30}]
        steps += [{"op": "release", "n": n1 + 1}, {"op": "wait_gate", "name": "fin_at_bp"},
                  {"op": "resubmit", "id": 4, "from": 1, "part": 0}, {"op": "wait_gate", "name": "parked"},
                  {"op": "release_gate", "name": "parked"}, {"op": "sleep", "ms": 15}, {"op": "release_gate", "name": "fin_at_bp"},
                  {"op": "wait_outcomes", "n": 4, "ms": 3000}]
        steps += [{"op": "resubmit", "id": 5, "from": 2, "part": 0}, {"op": "wait_outcomes", "n": 5, "ms": 3000}]
        steps += submits([(6, 0)]) + [{"op": "must_outcomes", "n": 6, "ms": 3000}, {"op": "close"}]
        out.append(sc("resubmit-%s-%s" % (first, "idem" if idem else "plain"), fam, cfg, steps, pl, gates))
    return out


def family_idem_clean():
    """idempotent scenarios with a connection-level fault or an epoch bump in which the pinned tree behaves
    correctly (one batch in flight, nothing else sequenced): violations here are NOT covered by the
    idempotent known findings (their signatures exclude this family)"""
    out = []
    for fault in ("drop_after", "silence_after", "drop_before"):
        # ack of the only in-flight batch lost; a message is rejected locally (too large, never sequenced) meanwhile
        cfg = dict(idem=True, retryMax=3, leaders=[1], nbrokers=1, maxMsgBytes=400, backoffMs=40, readTimeoutMs=120)
        pl = {"1": {"hold": True, "conn": fault}}
        steps = submits([(1, 0)]) + [{"op": "wait_req", "n": 1, "ms": 1500}, {"op": "release", "n": 1}, {"op": "sleep", "ms": 15},
                                     {"op": "submit", "id": 2, "part": 0, "size": 2000}, {"op": "wait_outcomes", "n": 2, "ms": 3000}]
        steps += submits([(3, 0)]) + [{"op": "wait_outcomes", "n": 3, "ms": 3000}, {"op": "close"}]
        out.append(sc("idemclean-%s-oversize" % fault, "idem_clean", cfg, steps, pl))
    # epoch bump (encode failure of a sequenced message) while another partition's message is parked in the buffer and a
    # request is in flight; the next message of the bumped partition arrives before the in-flight response
    cfg = dict(idem=True, retryMax=2, leaders=[1, 1], nbrokers=1)
    pl = {"1": {"hold": True}}
    gates = [{"name": "m4_at_bp", "point": "bp.recv", "flags": "none", "retries": 0, "part": 0, "hwm": -1, "nth": 3},
             {"name": "m2_at_bp", "point": "bp.recv", "flags": "none", "retries": 0, "part": 1, "hwm": -1, "nth": 1}]
    steps = submits([(1, 0)]) + [{"op": "wait_req", "n": 1, "ms": 1500}, {"op": "submit", "id": 2, "part": 1},
                                 {"op": "wait_gate", "name": "m2_at_bp"}, {"op": "release_gate", "name": "m2_at_bp"}, {"op": "sleep", "ms": 30},
                                 {"op": "submit", "id": 3, "part": 0, "badenc": True}, {"op": "wait_outcomes", "n": 1, "ms": 1500},
                                 {"op": "submit", "id": 4, "part": 0}, {"op": "wait_gate", "name": "m4_at_bp"},
                                 {"op": "release_gate", "name": "m4_at_bp"}, {"op": "sleep", "ms": 60}, {"op": "release", "n": 1},
                                 {"op": "wait_outcomes", "n": 4, "ms": 3000}]
    steps += submits([(5, 0), (6, 1)]) + [{"op": "wait_outcomes", "n": 6, "ms": 3000}, {"op": "close"}]
    out.append(sc("idemclean-bump-parked", "idem_clean", cfg, steps, pl, gates))
    # a fresh message is parked during a retry phase (so it is sequenced when the retry buffer is flushed, not on arrival)
    # and then fails on its own (its encoder fails): the failure of a sequenced message must restart the numbering, the
    # following messages must be accepted
    cfg = dict(idem=True, retryMax=2, leaders=[1], nbrokers=1, backoffMs=10)
    gates = [{"name": "fin_at_bp", "point": "bp.recv", "flags": "fin", "retries": -1, "part": -1, "hwm": -1},
             {"name": "parked", "point": "pp.recv", "flags": "none", "retries": 0, "part": -1, "hwm": 1}]
    pl = {"1": {"hold": True, "part": {"0": "retry"}}}
    steps = submits([(1, 0)]) + [{"op": "wait_req", "n": 1, "ms": 2000}] + submits([(2, 0)]) + [{"op": "sleep", "ms": 30}]
    steps += [{"op": "release", "n": 1}, {"op": "wait_gate", "name": "fin_at_bp"},
              {"op": "submit", "id": 3, "part": 0, "badenc": True}, {"op": "wait_gate", "name": "parked"},
              {"op": "release_gate", "name": "parked"}, {"op": "sleep", "ms": 15}, {"op": "release_gate", "name": "fin_at_bp"},
              {"op": "wait_outcomes", "n": 3, "ms": 3000}]
    steps += submits([(4, 0)]) + [{"op": "wait_outcomes", "n": 4, "ms": 3000}] + submits([(5, 0)]) + [{"op": "must_outcomes", "n": 5, "ms": 3000}, {"op": "close"}]
    out.append(sc("idemclean-parked-badenc", "idem_clean", cfg, steps, pl, gates))
    return out


def family_overflow(idem):
    """a message waits for space (Flush.MaxMessages / request size reached while a request is in flight)
    and the in-flight request then fails: the waiting message must not overtake the bounced ones"""
    out = []
    for fname, plan in FAULT_KINDS[:6] + [("ok", {})]:
        for nparts in (1, 2):
            for rmax in (1, 3):
                cfg = dict(idem=idem, retryMax=rmax, leaders=[1] * nparts, nbrokers=1, flushMaxMsgs=2, flushFreqMs=10)
                p = dict(copy.deepcopy(plan), hold=True)
                steps = submits([(1, 0), (2, 0)]) + [{"op": "wait_req", "n": 1, "ms": 800}]
                steps += submits([(3, 0), (4, nparts - 1), (5, 0), (6, nparts - 1)]) + [{"op": "sleep", "ms": 30}, {"op": "release", "n": 1}]
                steps += [{"op": "wait_outcomes", "n": 6, "ms": 3000}] + submits([(7, 0)]) + [{"op": "wait_outcomes", "n": 7, "ms": 3000}, {"op": "close"}]
                out.append(sc("ovf-%s-p%d-r%d" % (fname, nparts, rmax), "overflow", cfg, steps, {"1": p}))
    return out


def family_faults_ic(seed):
    """fault scripts with a 2-interceptor chain (C18 over C01's retry corpus)"""
    out = []
    for s_ in family_faults(False, seed)[:120]:
        t = copy.deepcopy(s_)
        t["cfg"]["interceptors"] = 2
        t["family"] = "faults_ic"
        out.append(t)
    return out


def family_idem_extra():
    """idempotent producer: encode failure between good messages (epoch bump with nothing in flight),
    retriable error on one partition while the other gets a fatal error in the same response"""
    out = []
    cfg = dict(idem=True, retryMax=2, leaders=[1], nbrokers=1)
    steps = submits([(1, 0)]) + [{"op": "wait_outcomes", "n": 1, "ms": 2000}, {"op": "submit", "id": 2, "part": 0, "badenc": True},
                                 {"op": "wait_outcomes", "n": 2, "ms": 2000}] + submits([(3, 0)]) + [{"op": "wait_outcomes", "n": 3, "ms": 2000}]
    steps += submits([(4, 0), (5, 0)]) + [{"op": "wait_outcomes", "n": 5, "ms": 2000}, {"op": "close"}]
    out.append(sc("idem-badenc", "idem_clean", cfg, steps))
    for k1, k2 in (("retryapp", "fatal"), ("retry", "fatal"), ("retryapp", "ok"), ("fatal", "retryapp")):
        cfg = dict(idem=True, retryMax=2, leaders=[1, 1], nbrokers=1, flushMsgs=4, flushFreqMs=40)
        pl = {"1": {"part": {"0": k1, "1": k2}}}
        steps = submits([(1, 0), (2, 1), (3, 0), (4, 1)]) + [{"op": "wait_outcomes", "n": 4, "ms": 3000}] + submits([(5, 0), (6, 1)])
        steps += [{"op": "wait_outcomes", "n": 6, "ms": 3000}, {"op": "close"}]
        out.append(sc("idem-mixed-%s-%s" % (k1, k2), "idem_clean", cfg, steps, pl))
    return out


def family_ic_panic():
    """P8b: a panicking interceptor in the chain, with ordinary and nil-Value (tombstone) messages"""
    out = []
    for n in (2, 3):
        for pidx in range(1, n + 1):
            for v in ("0.10.0.0", "0.11.0.0"):
                for kind in ("", "value", "func"):     # dynamic type of the interceptors: pointer, struct value, func adapter
                    cfg = dict(interceptors=n, panicIc=pidx, retryMax=1, leaders=[1], nbrokers=1, version=v, icKind=kind)
                    steps = [{"op": "submit", "id": 1, "part": 0}, {"op": "submit", "id": 2, "part": 0, "nilval": True},
                             {"op": "submit", "id": 3, "part": 0, "key": "kk"}, {"op": "wait_outcomes", "n": 3, "ms": 3000}, {"op": "close"}]
                    out.append(sc("icpanic%d-%d-%s%s" % (n, pidx, v, "-" + kind if kind else ""), "ic_panic", cfg, steps))
    return out


def family_grow():
    """an interceptor enlarges the message: the size limit applies to what would be sent"""
    out = []
    for v in ("0.10.0.0", "0.11.0.0"):
        for size, grow in ((120, 150), (150, 100), (60, 30)):
            cfg = dict(version=v, retryMax=1, leaders=[1], nbrokers=1, maxMsgBytes=200, interceptors=1, growIc=grow)
            steps = [{"op": "submit", "id": 1, "part": 0, "size": size}, {"op": "submit", "id": 2, "part": 0, "size": 20},
                     {"op": "wait_outcomes", "n": 2, "ms": 3000}, {"op": "close"}]
            out.append(sc("grow-%d+%d-%s" % (size, grow, v), "grow", cfg, steps))
    return out


def family_timer():
    """P6b: Flush.Frequency is the only trigger and a burst ends one message past a limit: the message that
    started the fresh buffer must still go out when the timer fires, without further input"""
    out = []
    for v in ("0.10.0.0", "0.11.0.0"):
        for maxmsgs in (2, 3):
            cfg = dict(version=v, retryMax=1, leaders=[1], nbrokers=1, flushMaxMsgs=maxmsgs, flushFreqMs=60)
            steps = submits([(i, 0) for i in range(1, maxmsgs + 2)]) + [{"op": "must_outcomes", "n": maxmsgs + 1, "ms": 2500}, {"op": "close"}]
            out.append(sc("timer-maxmsgs%d-%s" % (maxmsgs, v), "timer", cfg, steps))
        cfg = dict(version=v, retryMax=1, leaders=[1], nbrokers=1, maxMsgBytes=1000, flushFreqMs=60)
        steps = [{"op": "submit", "id": i, "part": 0, "size": 400} for i in (1, 2, 3)] + [{"op": "must_outcomes", "n": 3, "ms": 2500}, {"op": "close"}]
        out.append(sc("timer-bytes-%s" % v, "timer", cfg, steps))
        cfg = dict(version=v, retryMax=1, leaders=[1, 1], nbrokers=1, maxReqSize=900, maxMsgBytes=500, flushFreqMs=60)
        steps = [{"op": "submit", "id": i, "part": i % 2, "size": 300} for i in (1, 2, 3, 4)] + [{"op": "must_outcomes", "n": 4, "ms": 2500}, {"op": "close"}]
        out.append(sc("timer-reqsize-%s" % v, "timer", cfg, steps))
        # the same bursts while a request is in flight on a slow broker: the full buffer cannot leave before the message
        # one past the limit arrives, so the overflow path (waitForSpace / rollOver) is taken deterministically
        pl = {"1": {"delayMs": 150}}
        for maxmsgs in (2, 3):
            cfg = dict(version=v, retryMax=1, leaders=[1], nbrokers=1, flushMaxMsgs=maxmsgs, flushFreqMs=40)
            steps = submits([(1, 0)]) + [{"op": "must_req", "n": 1, "ms": 2500}] + submits([(i, 0) for i in range(2, maxmsgs + 3)]) + \
                [{"op": "must_outcomes", "n": maxmsgs + 2, "ms": 3000}, {"op": "close"}]
            out.append(sc("timer-inflight-maxmsgs%d-%s" % (maxmsgs, v), "timer", cfg, steps, pl))
        cfg = dict(version=v, retryMax=1, leaders=[1], nbrokers=1, maxMsgBytes=1000, flushFreqMs=40)
        steps = [{"op": "submit", "id": 1, "part": 0, "size": 50}, {"op": "must_req", "n": 1, "ms": 2500}] + \
            [{"op": "submit", "id": i, "part": 0, "size": 400} for i in (2, 3, 4)] + [{"op": "must_outcomes", "n": 4, "ms": 3000}, {"op": "close"}]
        out.append(sc("timer-inflight-bytes-%s" % v, "timer", cfg, steps, pl))
        # the first message of a fresh buffer already satisfies Flush.Bytes (no further trigger needed for IT), then its
        # partition is bounced out of the buffer by the in-flight response: the small message of the other partition that
        # stays behind must still leave when Flush.Frequency elapses, not when the bounced ones return after the back-off
        cfg = dict(version=v, retryMax=2, leaders=[1, 1], nbrokers=1, flushBytes=1000, flushFreqMs=150, backoffMs=7000)
        pl2 = {"1": {"hold": True, "part": {"0": "retry"}}}
        steps = [{"op": "submit", "id": 1, "part": 0, "size": 1500}, {"op": "wait_req", "n": 1, "ms": 2500},
                 {"op": "submit", "id": 2, "part": 0, "size": 1200}, {"op": "sleep", "ms": 300}, {"op": "submit", "id": 3, "part": 1, "size": 50}, {"op": "sleep", "ms": 300},
                 {"op": "release", "n": 1}, {"op": "must_outcomes_by", "n": 1, "ms": 3000}, {"op": "wait_outcomes", "n": 3, "ms": 12000}, {"op": "close"}]
        out.append(sc("timer-ready-then-dropped-%s" % v, "timer", cfg, steps, pl2))
        # broker latency longer than Flush.Frequency: the pending buffer's timer fires while a request is in flight; the late
        # response bounces every partition of the pending buffer (the buffer is emptied); a second partition keeps the broker
        # worker alive - the messages that come back after the back-off must still be flushed by a (new) timer
        cfg = dict(version=v, retryMax=2, leaders=[1, 1], nbrokers=1, flushFreqMs=100, flushMsgs=50, backoffMs=300)
        pl3 = {"1": {"hold": True, "part": {"0": "retry"}}}
        steps = [{"op": "submit", "id": 1, "part": 0}, {"op": "submit", "id": 2, "part": 1}, {"op": "wait_req", "n": 1, "ms": 2500},
                 {"op": "submit", "id": 3, "part": 0}, {"op": "sleep", "ms": 400}, {"op": "release", "n": 1},
                 {"op": "must_outcomes_by", "n": 3, "ms": 4000}, {"op": "close"}]
        out.append(sc("timer-spent-after-bounce-%s" % v, "timer", cfg, steps, pl3))
    return out


def family_limits():
    """P6: sizes straddling the limits, Flush.MaxMessages, lowered MaxRequestSize, lone message per trigger."""
    out = []
    for v in ("0.10.0.0", "0.11.0.0"):
        for maxmsgs in (1, 2, 3):
            cfg = dict(version=v, retryMax=1, leaders=[1, 1], nbrokers=1, flushMaxMsgs=maxmsgs, flushFreqMs=20)
            pl = {"1": {"delayMs": 60}}
            steps = submits([(i, i % 2) for i in range(1, 8)]) + [{"op": "wait_outcomes", "n": 7, "ms": 4000}, {"op": "close"}]
            out.append(sc("lim-maxmsgs%d-%s" % (maxmsgs, v), "limits", cfg, steps, pl))
        for limit in (200, 300):
            for d in (-40, -1, 0, 1, 40):
                cfg = dict(version=v, retryMax=1, leaders=[1], nbrokers=1, maxMsgBytes=limit, flushFreqMs=20)
                pl = {"1": {"delayMs": 50}}
                steps = [{"op": "submit", "id": 1, "part": 0, "size": 20}, {"op": "submit", "id": 2, "part": 0, "size": limit + d},
                         {"op": "submit", "id": 3, "part": 0, "size": limit // 2}, {"op": "submit", "id": 4, "part": 0, "size": limit // 2},
                         {"op": "submit", "id": 5, "part": 0, "size": limit // 2 + d},
                         {"op": "wait_outcomes", "n": 5, "ms": 4000}, {"op": "close"}]
                out.append(sc("lim-bytes%d%+d-%s" % (limit, d, v), "limits", cfg, steps, pl))
        if v == "0.11.0.0":
            # record headers: their bytes belong to the size of a record too (accumulation while a request is in flight)
            for hd in (1, 3):
                cfg = dict(version=v, retryMax=1, leaders=[1], nbrokers=1, maxMsgBytes=1000, flushFreqMs=20)
                pl = {"1": {"delayMs": 80}}
                steps = [{"op": "submit", "id": i, "part": 0, "size": 200, "hdrs": hd} for i in range(1, 15)]
                steps += [{"op": "wait_outcomes", "n": 14, "ms": 5000}, {"op": "close"}]
                out.append(sc("lim-bytes-hdrs%d-%s" % (hd, v), "limits", cfg, steps, pl))
                cfg = dict(version=v, retryMax=1, leaders=[1], nbrokers=1, flushBytes=1000, flushFreqMs=3000)
                steps = [{"op": "submit", "id": i, "part": 0, "size": 200, "hdrs": hd} for i in range(1, 8)]
                steps += [{"op": "must_outcomes_by", "n": 4, "ms": 2000}, {"op": "wait_outcomes", "n": 7, "ms": 6000}, {"op": "close"}]
                out.append(sc("lim-flushbytes-hdrs%d-%s" % (hd, v), "limits", cfg, steps))
        for trig in (dict(), dict(flushMsgs=1), dict(flushBytes=1), dict(flushFreqMs=40), dict(flushMaxMsgs=5)):
            cfg = dict(version=v, retryMax=1, leaders=[1], nbrokers=1, **trig)
            steps = submits([(1, 0)]) + [{"op": "must_req", "n": 1, "ms": 2500}, {"op": "wait_outcomes", "n": 1, "ms": 2000}, {"op": "close"}]
            out.append(sc("lone-%s-%s" % ("".join(sorted(trig)) or "none", v), "lone", cfg, steps))
        cfg = dict(version=v, retryMax=1, leaders=[1, 1], nbrokers=1, maxReqSize=1200, maxMsgBytes=500, flushFreqMs=30)
        pl = {"1": {"delayMs": 80}}
        steps = [{"op": "submit", "id": i, "part": i % 2, "size": 150 + 10 * i} for i in range(1, 13)]
        steps += [{"op": "wait_outcomes", "n": 12, "ms": 5000}, {"op": "close"}]
        out.append(sc("lim-reqsize-%s" % v, "limits", cfg, steps, pl))
        # MaxRequestSize lowered by the application, four partitions on the broker: what accumulates while a request is in flight
        # would exceed the request limit although every batch is within MaxMessageBytes - it must be cut into several requests
        cfg = dict(version=v, retryMax=1, leaders=[1, 1, 1, 1], nbrokers=1, maxReqSize=1500, maxMsgBytes=600, flushFreqMs=30)
        pl = {"1": {"delayMs": 120}}
        steps = [{"op": "submit", "id": i, "part": i % 4, "size": 300} for i in range(1, 14)]
        steps += [{"op": "wait_outcomes", "n": 13, "ms": 6000}, {"op": "close"}]
        out.append(sc("lim-reqsize4-%s" % v, "limits", cfg, steps, pl))
    return out


def close_points(scs, stride, rnd):
    """P9: the same scenarios with Close called after the k-th step (crash points)."""
    out = []
    for s in scs:
        n = len(s["steps"])
        ks = list(range(1, n - 1))
        if stride > 1:
            ks = [k for k in ks if (k + rnd.randrange(stride)) % stride == 0]
        for k in ks:
            t = copy.deepcopy(s)
            t["name"] = s["name"] + "@close%d" % k
            t["family"] = "closepoints"
            op = "async_close" if k % 2 else "close"
            rest = [st for st in t["steps"][k:] if st["op"] in ("release", "release_gate")]
            t["steps"] = t["steps"][:k] + [{"op": op}] + rest
            out.append(t)
    return out


# ------------------------------------------------------------------ execution + validation
def run_scenarios(ctx, scenarios, name="prod", shards=8, timeout=1500):
    only = set(filter(None, os.environ.get("VERIF_ONLY_SCENARIOS", "").split("\n")))
    if only and any(s_["name"] in only for s_ in scenarios):
        scenarios = [s_ for s_ in scenarios if s_["name"] in only]     # --replay: just the reported scenarios
    for k_, s_ in enumerate(scenarios):
        # every other scenario numbers its brokers from 0 (a valid broker id code must not confuse with "unset")
        if k_ % 2 == 1 and "idBase0" not in s_["cfg"]:
            s_["cfg"]["idBase0"] = True
    cases = os.path.join(ctx.scratch, name + ".cases.ndjson")
    with open(cases, "w") as f:
        for s in scenarios:
            f.write(json.dumps(s) + "\n")
    rc, out, trace, sums = ctx.go_test_parallel("^TestVerifProducer$", cases, nproc=12, timeout=timeout, name=name,
                                                only=["sim_cluster*", "sim_fetch*", "prod_driver*", "prod_sync*"],
                                                env={"VERIF_INTERNAL": "1"}, extra_files=["internal.ndjson"])
    crash = []
    if rc != 0 and ("panic: " in out or "fatal error: " in out):
        crash = vlib.crash_violations(out)
        if crash is None:
            ctx.need_go(rc, out, "producer scenarios (%s)" % name)
    elif rc != 0:
        ctx.need_go(rc, out, "producer scenarios (%s)" % name)
    rs = ctx.tlc_trace("ProducerObsTrace", "ProducerObsTrace.cfg", trace, shards=shards, name="trace-" + name)
    viols, stats = [], {}
    for r in rs:
        ctx.need(r, "trace validation (%s)" % name)
        st = r.printed("STATS")
        if not st:
            raise vlib.Inconclusive("trace validation did not reach the end of a shard (%s)" % name)
        for k, v in st[0].items():
            stats[k] = stats.get(k, 0) + v
        viols += vlib.trace_viols(r)
    if stats.get("simerr", 0) > 0:
        raise vlib.Inconclusive("simulated cluster reported an internal error (sim_error event) in %s" % name)
    if stats.get("traces", 0) != len(scenarios) and not crash:
        raise vlib.Inconclusive("validated %d traces, ran %d scenarios" % (stats.get("traces", 0), len(scenarios)))
    # attach features: scenario configuration, the violating event, and the cause-level
    # features the known-finding signatures speak about (computed from the trace itself)
    if viols:
        if any(x["clause"] in ("sim_inconsistent", "sim_broker_rules") for x in viols):
            raise vlib.Inconclusive("simulated cluster disagrees with the environment part of the specification "
                                    "(append base / Kafka sequence rules): %s" % [x for x in viols if x["clause"].startswith("sim_")][:2])
        events = vlib.read_ndjson(trace)
        bytrace = {}
        for e in events:
            bytrace.setdefault(e["t"], []).append(e)
        for v in viols:
            tr = bytrace.get(v["trace"], [])
            cfg = tr[0] if tr else {}
            e = next((x for x in tr if x["i"] == v["index"]), {})
            v["features"] = {"scenario": cfg.get("name"), "family": cfg.get("family"), "idem": cfg.get("idem"),
                             "retryMax": cfg.get("retryMax"), "nparts": cfg.get("nparts"), "nbrokers": cfg.get("nbrokers"),
                             "cause": cause_of(tr, v["index"]), "err": e.get("err", ""), "event": e}
    # soft conformance of the partition worker's retry state machine (never decides a property)
    try:
        itrace = ctx.extra_traces.get("internal.ndjson")
        if itrace and os.path.getsize(itrace) > 100:
            drs = ctx.tlc_trace("PpConfTrace", "PpConfTrace.cfg", itrace, shards=4, name="ppconf-" + name)
            nd, pst = 0, {}
            for r in drs:
                for lst in r.printed("DRIFT")[:1]:
                    nd += len(lst)
                for d in r.printed("STATS")[:1]:
                    for k, v in d.items():
                        pst[k] = pst.get(k, 0) + v
            stats["ppconf"] = dict(pst, drift_events=nd)
            if nd:
                ctx.say("DRIFT spec=Producer.tla/PpRecv: %d hook events of the partition worker are not explained by the model (soft; verdict unaffected)" % nd)
    except Exception as e:   # soft: never fail the check
        stats["ppconf"] = {"error": str(e)[:200]}
    return viols + crash, stats, trace, cases


def cause_of(tr, index):
    """Cause-level classification of what happened in a trace before event `index`:
    conn_fault_retry  - a connection-level failure (request dropped / never answered) hit a produce
                        request, so its messages went through the per-message retry path;
    epoch_bump_with_inflight - some message failed (which bumps the idempotent producer's epoch and
                        zeroes its sequence counters) while other submitted messages had no outcome yet;
    none              - neither."""
    pending = set()
    cause = "none"
    # the epoch bump happens inside the producer BEFORE the failed message shows up on Errors(): a request carrying the
    # bumped epoch may therefore be recorded by the broker before the application records the error event. When the
    # event under judgement itself shows a bumped epoch, error events recorded after it count as well.
    ev0 = next((e for e in tr if e["i"] == index), {})
    bumped = any((b.get("epoch") or 0) > 0 for b in (ev0.get("batches") or [])) or (ev0.get("epoch") or 0) > 0
    for e in tr:
        late = e["i"] >= index
        if late and (not bumped or cause != "none"):
            break
        ev = e["ev"]
        if ev == "submit":
            pending.add(e["id"])
        elif ev == "success":
            pending.discard(e["id"])
        elif ev == "error":
            pending.discard(e["id"])
            if pending and cause == "none":
                cause = "epoch_bump_with_inflight"
            if late:
                break        # only the first error recorded after the judged event can be the one that bumped
        elif ev == "drop" and not late:
            return "conn_fault_retry"
    return cause


REPEAT_THOROUGH = {"C02": 3, "C04": 3, "C05": 4, "C16": 4, "C18": 3}

EXTRA = None   # set by c18: violations + coverage of the consumer part, merged into the verdict


def check(ctx, pid, families, mc_cfgs, level="model_checking", extra_assumptions=None, close_stride=0, extra_mc=None):
    """Common body of the producer checks: role 1 model checking, role 2 behaviours + deterministic
    families, execution on the real producer, role 3 validation; verdict from the property's clauses."""
    clauses = CLAUSES[pid]
    # conducted replay: the behaviours are generated (TLC -simulate) while the model checking below runs
    import concurrent.futures
    only_conduct = bool(os.environ.get("VERIF_CONDUCT_ONLY"))      # demonstration runs: the conducted families alone
    if only_conduct:
        families = [f for f in families if isinstance(f, tuple) and f[0] == "conduct"]
        mc_cfgs, extra_mc, close_stride = [], [], 0
    if os.environ.get("VERIF_CONDUCT_OFF"):                        # timing comparisons: the check as it was without them
        families = [f for f in families if not (isinstance(f, tuple) and f[0] == "conduct")]
    pool = concurrent.futures.ThreadPoolExecutor(max_workers=4)
    pending = {f: pool.submit(conducted, ctx, f[1], f[2]) for f in families if isinstance(f, tuple) and f[0] == "conduct"}
    try:
        st, tr, det = model_check(ctx, mc_cfgs)
    except BaseException:
        pool.shutdown(wait=True)
        raise
    for module, cfg, expect in (extra_mc or []):
        r = ctx.tlc(module, cfg, timeout=1500, name=cfg.replace(".cfg", ""), deadlock=False)
        if expect:
            # non-vacuity run: the seeded variant of the model MUST violate the named property
            if r.violated != expect and not (expect in r.out and "violated" in r.out):
                raise vlib.Inconclusive("non-vacuity run %s did not violate %s" % (cfg, expect))
        else:
            ctx.need(r, "model checking " + cfg)
        st += r.distinct
        tr += r.generated
        det.append({"module": module, "cfg": cfg, "distinct_states": r.distinct, "states_generated": r.generated,
                    "expected_violation": expect or None})
    scenarios = []
    fam_counts = {}
    gen_stats = []
    for f in families:
        if isinstance(f, tuple) and f[0] == "gen":
            scs, r = behaviours(ctx, f[1], f[2])
            gen_stats.append({"model": f[1], "behaviours": len(scs)})
        elif isinstance(f, tuple) and f[0] == "conduct":
            scs, r, gst = pending[f].result()
            gen_stats.append(gst)
        else:
            scs = f()
            if ctx.tier == "thorough" and REPEAT_THOROUGH.get(pid, 1) > 1:
                # a real execution is one sample of the scheduler's choices: the thorough tier runs every scenario of the
                # deterministic families several times
                rep = []
                for k in range(REPEAT_THOROUGH[pid]):
                    for s_ in scs:
                        t_ = copy.deepcopy(s_)
                        if k:
                            t_["name"] = "%s~%d" % (s_["name"], k)
                        rep.append(t_)
                scs = rep
        for s_ in scs:
            fam_counts[s_["family"]] = fam_counts.get(s_["family"], 0) + 1
        scenarios += scs
    pool.shutdown(wait=False)
    if close_stride:
        import random as _r
        cp = close_points([s_ for s_ in scenarios if s_["family"] in ("faults1", "faults2", "exhaust", "gates")], close_stride, _r.Random(ctx.seed))
        fam_counts["closepoints"] = len(cp)
        scenarios += cp
    viols, stats, trace, cases = run_scenarios(ctx, scenarios, name=pid.lower())
    mine = [v for v in viols if v["clause"] in clauses]
    other = sorted({v["clause"] for v in viols if v["clause"] not in clauses})
    cstats = {}
    if any(k.startswith("conduct.") for k in fam_counts):
        try:
            cstats = conduct_stats(trace)
            for k, d in sorted(cstats["families"].items()):
                ctx.say("CONDUCT family=%s behaviours=%d followed=%d diverged=%d steps=%d/%d avg=%.0fms (soft; a behaviour that is left "
                        "free-runs and is validated like any other execution)" % (k, d["conducted"], d["followed"], d["diverged"],
                                                                                  d["steps_followed"], d["steps"], d["avg_ms"]))
        except Exception as e:   # soft: never fail the check
            cstats = {"error": str(e)[:200]}
    extra_cov = {}
    if EXTRA:
        mine += EXTRA["viols"]
        extra_cov = EXTRA["cov"]
        st += extra_cov.get("consumer_model_states", 0)
        tr += extra_cov.get("consumer_model_transitions", 0)
    with open(cases) as f:
        samples = [json.loads(x) for x in f.readlines()[:2]]
    cov = {
        "states": st, "transitions": tr, "model_runs": det,
        "traces_validated_against_impl": stats.get("traces", 0) + extra_cov.get("consumer_traces", 0),
        "events_validated": stats.get("events", 0),
        "consumer_part": extra_cov,
        "samples": samples,
        "scenarios_by_family": fam_counts,
        "behaviours_from_model": gen_stats,
        "partition_worker_conformance": stats.get("ppconf", {}),
        "conducted_replay": cstats,
        "real_run_counts": {k: stats.get(k, 0) for k in ("successes", "errors", "appends", "requests", "retried", "gates", "unsteered", "skipped")},
        "clauses": sorted(clauses),
        "clauses_violated_for_other_properties": other,
        "explanation": "scenarios (TLC behaviours of spec/Producer.tla projected on environment actions + deterministic fault/"
                       "configuration families) executed on the real AsyncProducer against the simulated cluster; every recorded "
                       "event consumed by the total observer spec/ProducerObsTrace.tla",
    }
    if pid == "C01" and ctx.tier == "thorough":
        # the repository's own tests, run with the hooks on: every partition worker they create must be explained by the
        # model's retry state machine (spec/PpConfTrace.tla); soft
        import reposuite
        cov["repo_suite_partition_worker_conformance"] = reposuite.run(ctx, {"pp"}, run_pattern="Producer")
    assumptions = ["simulated cluster (harness/inpkg/sim_cluster_test.go) is a faithful Kafka broker for produce/metadata/init-producer-id "
                   "(it decodes requests with sarama's own codec)",
                   "one submitting goroutine per scenario; Return.Successes and Return.Errors enabled; channels always drained",
                   "bounded model checking constants as stated in spec/cfg/MCProducer.*.cfg",
                   vlib_assume()] + (extra_assumptions or [])
    return vlib.finish(ctx, level, cov, mine, assumptions, save={"trace.ndjson": trace, "cases.ndjson": cases})


def vlib_assume():
    return "TLC 1.8.0 and the CommunityModules Json module are trusted"


def model_check(ctx, cfgs):
    """role 1: exhaustive TLC runs of the pipeline model; returns (states, transitions, details)"""
    st = tr = 0
    det = []
    for c in cfgs:
        r = ctx.need(ctx.tlc("MCProducer", c, timeout=1500, name=c.replace(".cfg", "")), "model checking " + c)
        st += r.distinct
        tr += r.generated
        det.append({"cfg": c, "distinct_states": r.distinct, "states_generated": r.generated, "depth": r.depth})
    return st, tr, det
