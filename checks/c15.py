"""C15: client metadata answers reflect the latest cluster metadata.
spec/Metadata.tla (cache + candidate iteration + simulated cluster) model-checked by TLC;
its behaviours replayed on a real Client against MockBrokers (harness/inpkg/metadata*_test.go);
spec/MetadataTrace.tla folds the responses that were really served and compares every read."""
import concurrent.futures
import random
import json
import os
import vlib

META = dict(
    level="model_checking",
    engine="Metadata",
    technique="TLA+ state machine of the client's metadata cache, candidate iteration and the simulated cluster "
              "(spec/Metadata.tla) model-checked exhaustively by TLC with the clauses as invariants; TLC-generated "
              "behaviours (world mutation, requested topics, per refresh the candidates that do not answer and how each of them "
              "misbehaves) replayed on a real "
              "sarama Client against MockBrokers; TLC (spec/MetadataTrace.tla) folds the metadata responses the mocks "
              "really served into the reference view (spec/MetadataView.tla) and compares the result of every read API "
              "after every step, and of concurrent readers during refreshes",
    text="TLC explores every sequence of 2 (thorough: 3) refreshes after client creation over the full mutation alphabet "
         "of a cluster with 2 topics x <=2 partitions, 3 brokers (one re-addressable) + 2 seeds: topics appearing / "
         "vanishing / erroring per class, partitions added / removed, leaders moving / unavailable / unknown broker id, "
         "replica sets changing, brokers added / removed / re-addressed, controller moving, full vs per-topic refreshes, "
         "and every unreachable subset of the candidates in every order the client may try them. All 2-step behaviours "
         "(quick: 1-step exhaustively + seeded simulation of 2- and 3-step ones) are executed on the real client "
         "(request versions v5, v1, v0; a candidate that does not answer refuses the connection / breaks mid-request / takes "
         "the request and closes (EOF) / answers non-Kafka bytes / answers a well-framed response with a wrong correlation id / "
         "answers a well-framed body with trailing bytes / stays silent until Net.ReadTimeout - for NewClient and for "
         "RefreshMetadata on a running client); after every step Topics, "
         "Partitions, WritablePartitions, Leader, Replicas, InSyncReplicas, OfflineReplicas, Brokers and Controller are "
         "read for every topic/partition and TLC compares them with the fold of the served responses. In the concurrent "
         "family 4 reader goroutines hammer the read APIs while one refresher runs; each read must equal the view before "
         "or after that refresh. A full refresh is asked for with no argument, with a nil slice and with an empty non-nil slice; the "
         "responder answers the raw request bytes the way Kafka does (v1+: null topics array = all topics, empty array = none; "
         "v0: empty = all). Concurrent refreshers (spec/MetadataRefreshers.tla, every interleaving model-checked): 2 and 3 "
         "goroutines call RefreshMetadata at once with Metadata.Retry.Max 0 and 1 over every failing subset of the candidates; "
         "the failure of the head candidate is released only when all callers have a request in flight on it; every caller "
         "must succeed when a live seed or registered broker answers.",
    note="bounded universe; reads during the sequential families happen with every endpoint reachable; "
         "Metadata.Retry.Max=1 (with 0 a dead seed is not retried in the same refresh); unreachability is injected at the "
         "Net.Proxy.Dialer boundary (refused dial, reset mid-write, EOF, garbage bytes, wrong correlation id, trailing bytes) and by "
         "silent mock handlers; the order in which the real client tries the candidates is its own (seed shuffle, map order): every "
         "order is explored in the model, the replay covers them by repetition; MockBroker, harness and TLC trusted",
    design_ref="6/C15",
)

CLAUSES = ["partitions_sorted_exact", "writable_exact", "leader_exact_or_unavailable", "replicas_isr_offline_exact",
           "topic_error_class", "brokers_reconciled", "read_is_before_or_after", "refresh_succeeds_if_any_answers",
           "full_refresh_asks_for_all_topics", "no_hang_no_panic"]


def _cases(r):
    out, seen = [], set()
    for raw in r.printed_raw("CASE"):
        s = vlib.tla_unquote(raw)
        if s not in seen:
            seen.add(s)
            out.append(s)
    return out


def run(ctx):
    thorough = ctx.tier == "thorough"
    # ---- role 1 (exhaustive model checking) and role 2 (generation) run side by side
    mc = [("Metadata.mc.content3.cfg" if thorough else "Metadata.mc.content2.cfg", "content"),
          ("Metadata.mc.reach3.cfg" if thorough else "Metadata.mc.reach2.cfg", "reach"),
          ("Metadata.mc.conc3.cfg" if thorough else "Metadata.mc.conc2.cfg", "conc")]
    # (cfg, simulate, depth, keep at most): exhaustive enumerations larger than `keep` are sampled with the seed
    if thorough:
        gens = [("Metadata.gen.content2.cfg", None, None, 30000),
                ("Metadata.gen.reach1.cfg", None, None, 12000),
                ("Metadata.gen.silent1.cfg", None, None, 40),
                ("Metadata.gen.content3.cfg", "num=8000", 40, 8000),
                ("Metadata.gen.reach3.cfg", "num=4000", 60, 4000),
                ("Metadata.gen.conc.cfg", "num=300", 40, 300)]
    else:
        gens = [("Metadata.gen.content1.cfg", None, None, None),
                ("Metadata.gen.reach1.cfg", None, None, 1500),
                ("Metadata.gen.silent1.cfg", None, None, 6),
                ("Metadata.gen.content2.cfg", None, None, 2500),
                ("Metadata.gen.content3.cfg", "num=400", 40, 400),
                ("Metadata.gen.reach3.cfg", "num=250", 60, 250),
                ("Metadata.gen.conc.cfg", "num=30", 40, 30)]

    # concurrent refreshers (spec/MetadataRefreshers.tla): 2 and 3 callers, Metadata.Retry.Max 0 and 1
    # (the 3-caller interleavings are exhausted in the thorough tier only: up to 9.8M states)
    for tag in ("n2r0", "n2r1", "n3r0", "n3r1"):
        if thorough or tag.startswith("n2"):
            mc.append(("MetadataRefreshers.mc.%s.cfg" % tag, "cref-" + tag))
        gens.append(("MetadataRefreshers.gen.%s.cfg" % tag, None, None, None))

    def do_mc(item):
        cfg, fam = item
        return fam, cfg, ctx.tlc(cfg.split(".")[0], cfg, workers=4, timeout=2400, name="mc-" + fam)

    def do_gen(item):
        cfg, sim, depth, cap = item
        if sim:
            r = ctx.tlc(cfg.split(".")[0], cfg, workers=1, timeout=900, simulate=sim, depth=depth, seed=ctx.seed, name="gen")
            if r.error and "CASE" not in r.out:
                ctx.need(r, "case generation " + cfg)
        else:
            r = ctx.need(ctx.tlc(cfg.split(".")[0], cfg, workers=2, timeout=900, name="gen"), "case generation " + cfg)
        cs = _cases(r)
        total = len(cs)
        if cap and len(cs) > cap:
            if sim:
                cs = cs[:cap]
            else:
                cs = sorted(cs)
                random.Random(ctx.seed).shuffle(cs)
                cs = cs[:cap]
        return cfg, sim, r, cs, total

    with concurrent.futures.ThreadPoolExecutor(max_workers=18) as ex:
        fm = [ex.submit(do_mc, m) for m in mc]
        # known finding F-C15-open-window: the model of the code as it is must exhibit it
        ffind = ex.submit(ctx.tlc, "MetadataRefreshers", "MetadataRefreshers.finding.cfg", 2, 600, None, None, None, None, None,
                          False, None, None, False, "finding")
        fg = [ex.submit(do_gen, g) for g in gens]
        gen_res = [f.result() for f in fg]
        cases = os.path.join(ctx.scratch, "cases.ndjson")
        gstats = []
        seen = set()
        ncases = 0
        with open(cases, "w") as f:
            for cfg, sim, r, cs, total in gen_res:
                k = 0
                for s in cs:
                    if s in seen:
                        continue
                    seen.add(s)
                    f.write(s + "\n")
                    k += 1
                ncases += k
                gstats.append({"cfg": cfg, "mode": "simulate " + sim if sim else ("exhaustive" if total == len(cs) else "exhaustive enumeration of %d, seeded sample replayed" % total), "cases": k,
                               "states": r.distinct, "generated": r.generated})
            # the model's counterexample for F-C15-open-window, steered on the real client (deterministic in every tier)
            for s0 in list(seen):
                if '"fam":"cref"' not in s0 or '"nref":2' not in s0 or '"retry":0' not in s0:
                    continue
                c0 = json.loads(s0)
                st1 = c0["steps"][1]
                if st1["down"] == ["s1", "b1a", "b2a"] and set(st1["modes"]) == {"refuse"} and st1["req"] == []:
                    c0["steer"] = "openwin"
                    f.write(json.dumps(c0, separators=(",", ":")) + "\n")
                    ncases += 1
                    gstats.append({"cfg": "MetadataRefreshers.finding.cfg", "mode": "counterexample of the model, steered", "cases": 1,
                                   "states": 0, "generated": 0})
                    break
        if ncases == 0:
            raise vlib.Inconclusive("no cases generated")
        # ---- replay on the real client while the exhaustive runs finish
        rc, out, outdir = ctx.go_test("^TestVerifMetadata$", env={"VERIF_CASES": cases}, timeout=900,
                                      only=["metadata*"])
        mc_res = [f.result() for f in fm]
    ctx.need_go(rc, out, "metadata replay")
    rfind = ffind.result()
    ctx.need(rfind, "known finding in the model", allow_violation=True)
    if rfind.violated != "RefreshSucceedsStrict":
        raise vlib.Inconclusive("spec/MetadataRefreshers.tla no longer exhibits known finding F-C15-open-window "
                                "(expected RefreshSucceedsStrict violated, got %r)" % rfind.violated)
    mstats = []
    for fam, cfg, r in mc_res:
        ctx.need(r, "exhaustive model checking " + cfg)
        if not r.finished:
            raise vlib.Inconclusive("model checking %s did not complete" % cfg)
        mstats.append({"cfg": cfg, "family": fam, "states": r.distinct, "transitions": r.generated, "depth": r.depth})
    trace = os.path.join(outdir, "trace.ndjson")
    summary = json.load(open(os.path.join(outdir, "summary.json")))
    # ---- role 3: TLC evaluates the clauses on what the real client answered
    rs = ctx.tlc_trace("MetadataTrace", "MetadataTrace.cfg", trace, shards=14)
    allv = []
    tot = {"steps": 0, "reads": 0, "conc": 0, "traces": 0}
    for r in rs:
        ctx.need(r, "trace validation")
        allv += vlib.trace_viols(r)
        st = r.printed("STATS")
        if len(r.printed("VIOL")) != 1:
            raise vlib.Inconclusive("trace validation: the violation set of a shard could not be read")
        if not st:
            raise vlib.Inconclusive("trace validation did not reach the end of a shard")
        for k in tot:
            tot[k] += st[0][k]
    if tot["traces"] != summary["cases"] or tot["steps"] != summary["steps"] or tot["reads"] != summary["reads"] \
            or tot["conc"] != summary["conc_reads_kept"]:
        raise vlib.Inconclusive("trace validation evaluated %s, harness recorded cases=%d steps=%d reads=%d conc=%d" % (
            tot, summary["cases"], summary["steps"], summary["reads"], summary["conc_reads_kept"]))
    if tot["reads"] == 0:
        raise vlib.Inconclusive("no read was validated")
    viols = []
    if allv:
        events = {}
        heads = {}
        for line in open(trace):
            e = json.loads(line)
            if e["ev"] == "reset":
                heads[e["t"]] = e
            events[(e["t"], e["i"])] = e
        for v in allv:
            e = events.get((v["trace"], v["index"]), {})
            h = heads.get(v["trace"], {})
            v["features"] = {"family": h.get("fam"), "version": h.get("ver"), "case": h.get("idx"), "step": e.get("k"),
                             "mutation": e.get("mut"), "request": e.get("req"), "asked_how": e.get("how"), "down": e.get("down"),
                             "modes": e.get("modes"), "result": e.get("result"), "what": e.get("what"),
                             "callers": e.get("nref"), "retry_max": e.get("retry"), "steered": e.get("steer") or "",
                             # cause level: some caller got ErrNotConnected from a candidate that answers
                             # (a request issued inside Broker.Open's window, harness/inpkg mdLogger)
                             "notconn_on_answering_candidate": any(x not in (e.get("down") or []) for x in (e.get("notconn") or []))}
            viols.append(v)
    byclause = {c: 0 for c in CLAUSES}
    for v in viols:
        byclause[v["clause"]] = byclause.get(v["clause"], 0) + 1
    cov = {
        "states": sum(m["states"] for m in mstats),
        "transitions": sum(m["transitions"] for m in mstats),
        "traces_validated_against_impl": tot["traces"],
        "samples": summary.get("samples", [])[:3],
        "exhaustive": True,
        "model_checking": mstats,
        "generation": gstats,
        "behaviours_replayed": ncases,
        "refresh_steps_validated": tot["steps"],
        "sequential_reads_validated": tot["reads"],
        "concurrent_reads_made": summary["conc_reads"],
        "concurrent_reads_validated": tot["conc"],
        "harness": {k: summary[k] for k in summary if k != "samples"},
        "model_exhibits_known_finding": {"cfg": "MetadataRefreshers.finding.cfg", "violated": rfind.violated,
                                         "states": rfind.distinct},
        "clauses": CLAUSES,
        "violations_by_clause": byclause,
        "explanation": "role 1: TLC exhausts spec/Metadata.tla (families content / reach / conc) with the clauses of C15 as "
                       "invariants of the modelled cache vs the fold of the served responses, every candidate try order "
                       "included; role 2: the same machine emits behaviours (exhaustively for the short ones, seeded "
                       "simulation for the longer ones); role 3: each behaviour is executed on a real sarama Client and TLC "
                       "evaluates the clauses on every recorded read",
    }
    return vlib.finish(ctx, "model_checking", cov, viols,
                       ["every mock endpoint that is reachable answers with the current cluster state restricted to the requested topics "
                        "(unknown topics answered with UNKNOWN_TOPIC_OR_PARTITION), encoded in the request's version",
                        "at most one refresher at a time; in the concurrent family the worlds are such that no read can miss, so readers never refresh",
                        "Metadata.Retry.Max=1, Retry.Backoff=0, RefreshFrequency=0, Metadata.Full=true; creation against a healthy initial cluster",
                        "after a refresh nobody answered, Brokers() may be a subset of the newest response's brokers (failed candidates are set aside)",
                        "bounded universe: 2 topics x 2 partitions, broker ids 1-3 (+ an id that is never a broker), 6 endpoints"],
                       save={"trace.ndjson": trace, "cases.ndjson": cases})
