import producer_common as pc

META = dict(
    level="model_checking",
    engine="Producer",
    technique='observer counters per (interceptor, message) in spec/ProducerObsTrace.tla / spec/ConsumerObsTrace.tla validated by TLC on traces of the real producer (retry and marker passes) and consumer (slow-reader path)',
    text='Producer: chains of 1-3 logging, header-adding interceptors over fault-free, retried (retriable error, connection drop) and exhausted messages; TLC checks each (interceptor, message) pair is invoked exactly once, in chain order, never for internal markers, and that the header added once is what reaches the broker. Consumer part: see evidence.',
    note='producer part and consumer part are validated by separate observer specs; panicking interceptors are exercised by the consumer/producer drivers with recover-logging; bounded',
    design_ref="6/C18",
)


def run(ctx):
    fams = [pc.family_interceptors, lambda: pc.family_faults_ic(ctx.seed)]
    mc = ["MCProducer.small.cfg"]
    return pc.check(ctx, "C18", fams, mc)
