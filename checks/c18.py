import producer_common as pc

META = dict(
    level="model_checking",
    engine="Producer",
    technique='observer counters per (interceptor, message) in spec/ProducerObsTrace.tla / spec/ConsumerObsTrace.tla validated by TLC on traces of the real producer (retry and marker passes) and consumer (slow-reader path)',
    text='Producer: chains of 1-3 logging, header-adding interceptors over fault-free, retried (retriable error, connection drop) and exhausted messages; TLC checks each (interceptor, message) pair is invoked exactly once, in chain order, never for internal markers, and that the header added once is what reaches the broker. Consumer part: see evidence.',
    note='producer part and consumer part are validated by separate observer specs; panicking interceptors are exercised by the consumer/producer drivers with recover-logging; bounded',
    design_ref="6/C18",
)


def run(ctx):
    import random
    import consumer_common as cc
    # consumer part: slow-reader corpus with interceptor chains, validated by spec/ConsumerObsTrace.tla
    rnd = random.Random(ctx.seed)
    plain, r1 = cc.gen_logs(ctx, "ConsumerLog.plain.cfg")
    rnd.shuffle(plain)
    quick = ctx.tier == "quick"
    scs = cc.slow_reader_scenarios(plain, rnd, 6 if quick else 60, interceptors=2, family="slow-ic")
    lay = cc.layout_scenarios(plain[:150 if quick else 2000], rnd, 1, "layout-ic", ["ru"])
    for k_, s_ in enumerate(lay):
        s_["cfg"]["interceptors"] = 1 + rnd.randrange(3)
        if k_ % 3 == 0:      # a panicking interceptor at every position of chains of 2 and 3
            s_["cfg"]["interceptors"] = 2 + (k_ // 3) % 2
            s_["cfg"]["panicIc"] = 1 + (k_ // 6) % s_["cfg"]["interceptors"]
            s_["family"] = "layout-ic-panic"
        s_["cfg"]["icKind"] = ("", "value", "func")[k_ % 5 % 3]      # dynamic type of the interceptors
    cviols, cstats, ctrace, ccases = cc.run_scenarios(ctx, scs + lay, name="c18cons")
    cmine = [v for v in cviols if v["clause"] in cc.CLAUSES["C18"]]
    mr = ctx.need(ctx.tlc("Consumer", "Consumer.quick.cfg", timeout=900, name="consumer-mc"), "consumer pipeline model (InterceptOnce)")
    pc.EXTRA = dict(viols=cmine, cov={"consumer_traces": cstats.get("traces", 0), "consumer_deliveries": cstats.get("delivered", 0),
                                      "consumer_stalls": cstats.get("stalls", 0), "consumer_model_states": mr.distinct,
                                      "consumer_model_transitions": mr.generated})
    fams = [pc.family_interceptors, pc.family_ic_panic, pc.family_resubmit_ic, lambda: pc.family_faults_ic(ctx.seed)]
    mc = ["MCProducer.small.cfg"]
    return pc.check(ctx, "C18", fams, mc)
