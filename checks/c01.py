import producer_common as pc

META = dict(
    level="model_checking",
    engine="Producer",
    technique="implementation-shaped TLA+ model of the producer pipeline (spec/Producer.tla) model-checked by TLC; its behaviours "
              "and deterministic fault families replayed on the real AsyncProducer against a simulated cluster; recorded traces "
              "validated by TLC against the total observer spec/ProducerObsTrace.tla (clauses outcome_*, close_returns)",
    text="TLC explores every interleaving of dispatcher, partition workers, broker workers, retry handler, retryBatch and broker "
         "decisions for small instances (3 messages on one partition, retry budget 1 or 2, 2 faults: 74k / 560k states; 3 messages over 2 partitions and 2 brokers with a leader move in the thorough tier) and checks exactly-one-outcome, "
         "no-marker-outcome and quiescent-implies-all-outcomes; environment behaviours generated from the same model, single/"
         "double fault scripts over every fault kind (retriable with/without append, fatal, missing block, drop before/after append, "
         "silence, leader move), retry budgets 0/1/3, flush settings, idempotent on/off, hook-gated injections of fresh input into the "
         "retry window and Close at intermediate steps are executed on the real producer; TLC validates every recorded trace: each "
         "submitted message gets exactly one terminal event, no event for anything not submitted, Close returns and both channels close.",
    note="conducted replay: TLC behaviours in hook normal form (every internal action recorded) are followed step by step by the real goroutines, parked at the hook points by a conductor that fails open (followed/diverged counts in the evidence); bounded model; real executions are a finite sample of schedules (steered by broker holds and hook gates); simulated "
         "cluster + driver trusted; SyncProducer: SendMessage from concurrent goroutines and SendMessages batches over the fault kinds (return values validated as outcomes)",
    design_ref="6/C01",
)


def run(ctx):
    n = 80 if ctx.tier == "quick" else 1500
    nc = 40 if ctx.tier == "quick" else 400     # conducted replay: behaviours per model instance
    fams = [("conduct", "conduct.p1", nc), ("conduct", "conduct.p2b1", nc), ("conduct", "conduct.p2", nc),
            ("gen", "gen.p1", n), ("gen", "gen.p2", n), ("gen", "gen.p2b1", n), ("gen", "gen.idem", n),
            lambda: pc.family_faults(False, ctx.seed), lambda: pc.family_faults(True, ctx.seed),
            lambda: pc.family_gates(False), lambda: pc.family_gates(True), lambda: pc.family_gates_metafail(False), pc.family_sibling_syn, pc.family_level_jump, lambda: pc.family_resubmit(False), lambda: pc.family_resubmit(True), lambda: pc.family_error_codes(False), lambda: pc.family_error_codes(True), pc.family_idem_clean, pc.family_retry0, lambda: pc.family_sync(False), lambda: pc.family_sync(True), lambda: pc.family_overflow(False), lambda: pc.family_overflow(True)]
    mc = ["MCProducer.small.cfg", "MCProducer.idem.cfg"] if ctx.tier == "quick" else ["MCProducer.quick.cfg", "MCProducer.idem.cfg", "MCProducer.p2.cfg"]
    return pc.check(ctx, "C01", fams, mc, close_stride=12 if ctx.tier == "quick" else 1)
