import producer_common as pc

META = dict(
    level="model_checking",
    engine="Producer",
    technique='simulated brokers decode every produce request and compare each record with the submission table; TLC validates on the recorded traces that every reported (partition, offset) holds exactly that message and nothing foreign was appended (spec/ProducerObsTrace.tla); pipeline model (success = base offset + index over retried/deduplicated batches) model-checked by TLC',
    text='Wire matrix: Kafka 0.8.2 / 0.10 / 0.11 / 2.1 (message v0, v1, record batch v2, produce v7) x none/gzip/snappy/lz4/zstd x acks none/local/all x 1 or 3 messages per partition x two partitions per request, nil/short/4 KiB keys and values, 0-2 headers; plus the fault families of C01 (offset arithmetic for retried and deduplicated batches). Every success event is checked by TLC against the simulated partition log: log[partition][offset] is that message, key/value/headers equal what was submitted, no record that was not submitted.',
    note="byte-level decoding is done by the simulated broker with sarama's own request decoder (a mutation of that decoder could blind this check; C09 covers the codec); timestamps are compared only when supplied; bounded model",
    design_ref="6/C04",
)


def run(ctx):
    n = 60 if ctx.tier == "quick" else 3000
    fams = [pc.family_matrix, pc.family_routing, ("gen", "gen.p2b1", n), ("gen", "gen.idem", n),
            lambda: pc.family_faults(False, ctx.seed), lambda: pc.family_faults(True, ctx.seed),
            lambda: pc.family_gates(True), pc.family_idem_clean, pc.family_retry0, lambda: pc.family_resubmit(False), lambda: pc.family_resubmit(True), lambda: pc.family_codeapp(False), lambda: pc.family_codeapp(True)]
    mc = ["MCProducer.small.cfg", "MCProducer.idem.cfg"] if ctx.tier == "quick" else ["MCProducer.quick.cfg", "MCProducer.idem.cfg"]
    return pc.check(ctx, "C04", fams, mc)
