"""C17: partitioners keep their contract and the producer honours their choice.

spec/Partitioner.tla (one partitioner instance as a state machine: constructor/options, round-robin
cursor, hasher content, int32 arithmetic of both hash variants) and spec/PartitionerRouting.tla
(topicProducer.partitionMessage + partition worker over a topic with leaderless partitions) are
model-checked exhaustively by TLC with the property's clauses as invariants; every behaviour /
terminal scenario they have is emitted as a case, replayed on the real constructors resp. on a real
AsyncProducer against a MockBroker, and what the code did is judged by TLC (spec/PartitionerTrace.tla)."""
import concurrent.futures
import json
import os
import re
import vlib

META = dict(
    level="model_checking",
    engine="Partitioner",
    technique="TLA+ state machines of a partitioner instance (spec/Partitioner.tla) and of the producer's routing of one "
              "topic (spec/PartitionerRouting.tla), model-checked exhaustively by TLC with the clauses as invariants; all "
              "behaviours emitted by TLC are replayed on the real partitioner constructors (custom hash.Hash32 returning the "
              "enumerated corner hashes; crash-prone behaviours in a subprocess) and on a real AsyncProducer against a "
              "MockBroker; TLC validates the recorded traces against the observer spec/PartitionerTrace.tla",
    text="TLC enumerates every constructor and option combination (manual, random, round-robin, hash, reference hash, "
         "NewCustomHashPartitioner, NewCustomPartitioner with every subset of WithAbsFirst / WithCustomHashFunction / "
         "WithCustomFallbackPartitioner) x every corner int32 hash {-2^31, -2^31+1, -n-1..n+1, multiples of n +-1 up to the "
         "int32 limits, 2^31-2, 2^31-1} and FNV keys, nil keys and keys without bytes in each spelling (ByteEncoder{}, "
         "StringEncoder(\"\"), ByteEncoder(nil)) x n in 1..16, all 3-call behaviours over a small key "
         "set, all round-robin call sequences of length 6 with n in 1..4 changing freely, round-robin behaviours from preset cursors "
         "(n-1, n, n+1 of the current count; MaxInt32-2..MaxInt32 standing for ~2^31 earlier calls; thorough also makes the 2^31 "
         "calls for real and records the tail), seeded long behaviours, and every "
         "interleaving of the calls (split into Reset+Write / Sum32) of two instances handed out by one constructor value; for the "
         "producer every topic with 1..3 partitions (thorough: 4) x every leaderless subset x 9 partitioner kinds (built-in, "
         "custom static/dynamic consistency, scripted out-of-range/negative/error returns) x every 2-message input (hash kinds: "
         "keys hashing to every index, keyless, and the three spellings of a key without bytes), plus recovery "
         "scenarios (all partitions leaderless for 3/4 (thorough 6) messages, then leaders back for every smaller leaderless "
         "set, then 2 messages; circuit breakers of topic and partition workers modelled). Range, "
         "equal-keys, hashed-message-requires-consistency, Java-reference arithmetic, legacy arithmetic, manual, round-robin cycling, offered-list rule, "
         "sent-to-chosen, invalid/no-partition => error-and-unsent and available-partitions-are-offered (also after a recovery) "
         "are invariants of the models and clauses of the observer "
         "evaluated by TLC on what the real code did.",
    note="bounded enumeration (n <= 16, <= 4 partitions per topic, 2-3 messages per scenario); the model of the Java client is "
         "toPositive(h) % n on the same 32-bit hash (murmur2 itself is out of scope); the legacy variant's documented formula "
         "|int32(h) % n| is checked as a clause (it is what keeps key->partition stable across instances and versions); "
         "harness + MockBroker + TLC trusted",
    design_ref="6/C17",
)

PART_CLAUSES = ["in_range", "hashed_message_requires_consistency", "manual_returns_own", "reference_matches_java", "legacy_abs_of_remainder",
                "equal_keys_equal_partitions", "roundrobin_cycles"]
PROD_CLAUSES = ["keyed_consistent_offered_all", "others_offered_writable_only", "no_partition_fails_unsent",
                "invalid_choice_fails_unsent", "sent_to_chosen_partition", "available_partitions_are_offered"]


def model_runs(ctx):
    """(name, module, cfg, kind) kind: 'gen-part' | 'gen-prod' | 'mc' | 'sim' | 'expect:<invariant>' (a model of a
    defective variant: TLC must report that invariant violated)"""
    runs = [("arith", "Partitioner", "Partitioner.arith.cfg", "gen-part"),
            ("seq", "Partitioner", "Partitioner.seq.cfg", "gen-part"),
            ("rr", "Partitioner", "Partitioner.rr.cfg", "gen-part"),
            ("rrpreset", "Partitioner", "Partitioner.rrpreset.cfg", "gen-part"),
            ("rrpresetfree", "Partitioner", "Partitioner.rrpresetfree.cfg", "gen-part"),
            ("rrmodulo", "Partitioner", "Partitioner.rrmodulo.cfg", "expect:InRange"),
            ("sim", "Partitioner", "Partitioner.sim.cfg", "sim"),
            ("asis", "Partitioner", "Partitioner.asis.cfg", "expect:NoCrash"),
            ("emptykey", "Partitioner", "Partitioner.emptykey.cfg", "expect:HashedRequiresConsistency"),
            ("pair", "PartitionerPair", "PartitionerPair.quick.cfg", "gen-part"),
            ("pair-shared", "PartitionerPair", "PartitionerPair.shared.cfg", "expect:OwnKeyDecides"),
            ("routing", "PartitionerRouting", "PartitionerRouting.quick.cfg", "gen-prod"),
            ("routing-dyn", "PartitionerRouting", "PartitionerRouting.dyn.cfg", "gen-prod"),
            ("routing-countempty", "PartitionerRouting", "PartitionerRouting.countempty.cfg", "expect:RecoveredRouted")]
    if ctx.tier == "thorough":
        runs += [("seqbig", "Partitioner", "Partitioner.seqbig.cfg", "gen-part"),
                 ("rrbig", "Partitioner", "Partitioner.rrbig.cfg", "gen-part"),
                 ("pairs", "Partitioner", "Partitioner.pairs.cfg", "mc"),
                 ("pair-big", "PartitionerPair", "PartitionerPair.big.cfg", "gen-part"),
                 ("routing-dynbig", "PartitionerRouting", "PartitionerRouting.dynbig.cfg", "gen-prod"),
                 ("routing-np4", "PartitionerRouting", "PartitionerRouting.np4.cfg", "gen-prod"),
                 ("routing-m3", "PartitionerRouting", "PartitionerRouting.m3.cfg", "gen-prod")]
    return runs


def run_models(ctx):
    runs = model_runs(ctx)
    nsim = 400 if ctx.tier == "thorough" else 40

    def one(run):
        name, module, cfg, kind = run
        if kind == "sim":
            return ctx.tlc(module, cfg, workers=1, timeout=900, simulate="num=%d" % nsim, depth=41, seed=ctx.seed, name=name)
        return ctx.tlc(module, cfg, workers=4, timeout=1500, name=name)

    with concurrent.futures.ThreadPoolExecutor(max_workers=5) as ex:
        results = list(ex.map(one, runs))
    part_cases, prod_cases, stats = [], [], []
    seen = set()
    model_confirms_defect = {}
    for (name, module, cfg, kind), r in zip(runs, results):
        if kind.startswith("expect:"):
            # models of defective variants (WithCustomFallbackPartitioner assigning hp.random = hp; instances sharing
            # one hasher; the empty writable list charged to the topic breaker) must violate the named invariant
            inv = kind.split(":", 1)[1]
            if r.timed_out or r.error:
                ctx.need(r, "model " + cfg)
            model_confirms_defect[name] = (r.violated == inv)
            if r.violated != inv:
                raise vlib.Inconclusive("model %s was expected to violate %s, TLC reported %s" % (cfg, inv, r.violated))
            stats.append({"cfg": cfg, "expected_violation": inv, "violated": r.violated, "states": r.distinct})
            continue
        if kind == "sim":
            if r.timed_out or (r.error and "CASE" not in r.out) or r.violated:
                ctx.need(r, "simulation " + cfg)
        else:
            ctx.need(r, "model " + cfg)
        k = 0
        for raw in r.printed_raw("CASE"):
            line = vlib.tla_unquote(raw)
            if line in seen:
                continue
            seen.add(line)
            k += 1
            (prod_cases if kind == "gen-prod" else part_cases).append(line)
        if kind != "mc" and k == 0:
            raise vlib.Inconclusive("no cases generated by " + cfg)
        stats.append({"cfg": cfg, "cases": k, "states": 0 if kind == "sim" else r.distinct,
                      "generated": 0 if kind == "sim" else r.generated, "exhaustive": kind != "sim"})
    return part_cases, prod_cases, stats, model_confirms_defect


def merge_traces(paths, out):
    """concatenate trace files, renumbering the trace ids so that they stay unique"""
    off = 0
    n = 0
    pat = re.compile(r'^\{"t":(\d+),')
    with open(out, "w") as o:
        for p in paths:
            mx = 0
            with open(p) as f:
                for line in f:
                    if '"ev":"end"' in line:
                        continue
                    m = pat.match(line)
                    if not m:
                        raise vlib.Inconclusive("malformed trace line in %s" % p)
                    t = int(m.group(1))
                    mx = max(mx, t)
                    o.write('{"t":%d,' % (t + off) + line[m.end():])
                    n += 1
            off += mx
        o.write('{"t":0,"i":0,"ev":"end"}\n')
    return n


def features_for(v, events, resets, bytrace):
    rs = resets.get(v["trace"], {})
    e = events.get((v["trace"], v["index"]), {})
    f = {k: rs.get(k) for k in ("fam", "ctor", "abs", "hashfn", "fb", "np", "leaderless", "pk", "static", "dyn") if k in rs}
    for k, val in e.items():
        if k not in ("t", "i", "ev"):
            f[k] = val
    if rs.get("fam") == "prod":
        f["events"] = bytrace.get(v["trace"], [])[:30]
    return f


def run(ctx):
    import time
    t0 = time.time()
    part_cases, prod_cases, gstats, model_confirms = run_models(ctx)
    ctx.say("C17: models checked, %d behaviours + %d scenarios emitted (%.1fs)" % (len(part_cases), len(prod_cases), time.time() - t0))
    t0 = time.time()
    cases1 = os.path.join(ctx.scratch, "cases.part.ndjson")
    cases2 = os.path.join(ctx.scratch, "cases.prod.ndjson")
    with open(cases1, "w") as f:
        f.write("\n".join(part_cases) + "\n")
    with open(cases2, "w") as f:
        f.write("\n".join(prod_cases) + "\n")

    rc, out, outdir = ctx.go_test("^TestVerifPartitioner(Producer)?$", env={"VERIF_CASES": cases1, "VERIF_CASES2": cases2},
                                  timeout=1500)
    ctx.need_go(rc, out, "partitioner replay")
    ctx.say("C17: replayed on the real code (%.1fs)" % (time.time() - t0))
    t0 = time.time()
    s1 = json.load(open(os.path.join(outdir, "part.summary.json")))
    s2 = json.load(open(os.path.join(outdir, "prod.summary.json")))
    trace = os.path.join(ctx.scratch, "trace.ndjson")
    nlines = merge_traces([os.path.join(outdir, "part.ndjson"), os.path.join(outdir, "prod.ndjson")], trace)

    rs = ctx.tlc_trace("PartitionerTrace", "PartitionerTrace.cfg", trace, shards=12)
    ctx.say("C17: traces validated by TLC (%.1fs)" % (time.time() - t0))
    allv = []
    st = {}
    for r in rs:
        ctx.need(r, "trace validation")
        allv += vlib.trace_viols(r)
        p = r.printed("STATS")
        if not p:
            raise vlib.Inconclusive("trace validation did not reach the end of a shard")
        for k, v in p[0].items():
            st[k] = st.get(k, 0) + v
    if st.get("calls") != s1["calls"] or st.get("insts") != s1["behaviours"]:
        raise vlib.Inconclusive("trace validation evaluated %s calls of %s instances, harness recorded %d of %d"
                                % (st.get("calls"), st.get("insts"), s1["calls"], s1["behaviours"]))
    if st.get("scen") != s2["scenarios"] or st.get("msgs") != s2["messages"]:
        raise vlib.Inconclusive("trace validation evaluated %s messages of %s scenarios, harness recorded %d of %d"
                                % (st.get("msgs"), st.get("scen"), s2["messages"], s2["scenarios"]))
    if st.get("flips") != s2.get("recovery_scenarios"):
        raise vlib.Inconclusive("trace validation saw %s recoveries, harness recorded %s" % (st.get("flips"), s2.get("recovery_scenarios")))
    if s2.get("transport_errors", 0) * 50 > s2["messages"]:
        raise vlib.Inconclusive("%d of %d messages failed with connection errors between client and mock broker"
                                % (s2["transport_errors"], s2["messages"]))
    if s1["calls"] == 0 or s2["messages"] == 0:
        raise vlib.Inconclusive("nothing was replayed")
    if s1["behaviours"] - s1.get("roundrobin_long_runs", 0) + s1["identical_crash_prefix_not_rerun"] != len(part_cases) or s2["scenarios"] != len(prod_cases):
        raise vlib.Inconclusive("harness replayed %d+%d of %d behaviours, %d of %d scenarios" % (
            s1["behaviours"], s1["identical_crash_prefix_not_rerun"], len(part_cases), s2["scenarios"], len(prod_cases)))

    viols = []
    if allv:
        events, resets, bytrace = {}, {}, {}
        need = {v["trace"] for v in allv}
        for e in vlib.read_ndjson(trace):
            if e["t"] not in need:
                continue
            if e["ev"] == "reset":
                resets[e["t"]] = e
            events[(e["t"], e["i"])] = e
            bytrace.setdefault(e["t"], []).append(e)
        for v in allv:
            v["features"] = features_for(v, events, resets, bytrace)
            viols.append(v)
    byclause = {}
    for v in viols:
        byclause[v["clause"]] = byclause.get(v["clause"], 0) + 1

    extra = []
    if st.get("drift"):
        extra.append("DRIFT property=C17: %d recorded result(s) differ from what the model computed for the same case "
                     "(soft; the verdict comes from the clauses)" % st["drift"])
    exh = [g for g in gstats if g.get("exhaustive")]
    cov = {
        "states": sum(g.get("states", 0) for g in gstats),
        "transitions": sum(g.get("generated", 0) for g in gstats),
        "traces_validated_against_impl": s1["behaviours"] + s2["scenarios"],
        "samples": (s1.get("samples", [])[:2] + s1.get("samples", [])[-1:] + s2.get("samples", [])[:2]) or part_cases[:2],
        "exhaustive": True,
        "partitioner_behaviours_replayed": s1["behaviours"],
        "partition_calls_judged": st["calls"],
        "distinct_partition_calls": s1["distinct_calls"],
        "behaviours_by_constructor": s1["by_constructor"],
        "behaviours_in_subprocess": s1["in_subprocess"],
        "subprocess_crashes_observed": s1["crashes"],
        "behaviours_not_rerun_identical_crash_prefix": s1["identical_crash_prefix_not_rerun"],
        "roundrobin_preset_cursor_behaviours": s1.get("roundrobin_preset_cursor_behaviours", 0),
        "roundrobin_unrecorded_calls_before_recorded_tail": s1.get("roundrobin_unrecorded_calls_before_tail", 0),
        "pair_schedules_replayed": s1.get("pair_schedules", 0),
        "pair_calls_judged": s1.get("pair_calls", 0),
        "pair_calls_overlapping_another": s1.get("pair_calls_overlapping", 0),
        "producer_scenarios_replayed": s2["scenarios"],
        "producer_recovery_scenarios_replayed": s2.get("recovery_scenarios", 0),
        "producer_breaker_open_errors_seen": s2.get("breaker_open_errors", 0),
        "producer_messages_judged": st["msgs"],
        "producer_scenarios_by_partitioner": s2["by_partitioner"],
        "producer_batches_with_hang": s2["batches_with_hang"],
        "producer_transport_errors_excused": s2.get("transport_errors", 0),
        "producer_goroutine_panics": (s2.get("panics") or [])[:3],
        "trace_events_validated": nlines,
        "model_drift": st.get("drift", 0),
        "models_of_defective_variants_violate_as_expected": model_confirms,
        "generation": gstats,
        "clauses": PART_CLAUSES + PROD_CLAUSES,
        "violations_by_clause": byclause,
        "explanation": "all behaviours of spec/Partitioner.tla under the listed bounds (plus %d-call seeded simulations) are "
                       "executed on instances built with the real constructors; all terminal scenarios of "
                       "spec/PartitionerRouting.tla are executed as topics of real AsyncProducers against MockBrokers; TLC "
                       "evaluates the clauses of spec/PartitionerTrace.tla on every recorded call / message" % 40,
    }
    return vlib.finish(ctx, "model_checking", cov, viols,
                       ["Kafka's Java client is modelled as toPositive(hash) % numPartitions on the same 32-bit hash",
                        "a partitioner whose RequiresConsistency() is true and which is not a DynamicConsistencyPartitioner "
                        "is offered all partitions for every message (Partitioner interface contract)",
                        "the simulated broker is healthy: a message whose chosen partition has a leader must reach the wire "
                        "in that partition and be acknowledged",
                        "a circuit breaker may only be open after real errors: three failed leader look-ups of the same partition "
                        "(partition worker) or connection trouble; an empty writable list is a valid answer, not an error",
                        "the leaders come back while the producer is idle (all earlier messages have their outcome)",
                        "a round-robin cursor preset through the unexported field stands for the state after that many calls",
                        "bounds: n in 1..16, <= 4 partitions per topic, 2-3 messages per scenario (recovery: 5-8), Retry.Max = 0"],
                       save={"trace.ndjson": trace, "cases.part.ndjson": cases1, "cases.prod.ndjson": cases2},
                       extra_lines=extra)
