import random
import consumer_common as cc

META = dict(
    level="model_checking",
    engine="Consumer",
    technique="TLC enumerates every partition-log layout within bounds (spec/ConsumerLog.tla) and model-checks the consumer goroutine "
              "pipeline (spec/Consumer.tla: InOrderOnce, NoPanic, acks barrier); the layouts are stored as batches in a simulated broker "
              "and consumed over the real wire by a real PartitionConsumer; TLC validates the delivered stream against the Visible oracle "
              "(spec/ConsumerObsTrace.tla + spec/ConsumerOracle.tla)",
    text="Every log of <= 6 offsets cut into <= 3 batches over record batch v2, legacy v0/v1 and gzip/snappy wrappers with absolute (v0) and "
         "relative (v1) inner offsets, with compaction holes inside and between batches, is served to a real partition consumer from literal / "
         "oldest / newest start offsets, with fetch sizes that force partial trailing data and batches that start before the start offset, "
         "protocol versions 0.8.2 .. 2.3, channel buffers 0/1/256; per-fetch faults (redispatch classes, report class, out-of-range, silence, "
         "drop, throttled-empty, missing block, leader move), a slow reader stalling 1 or >= 2 MaxProcessingTime ticks at each message, two "
         "partitions on one broker worker, data appended while consuming from newest. TLC checks each delivery is the next visible offset "
         "(nothing skipped, duplicated, reordered, below start), carries the stored key/value/headers/timestamp, and that everything visible "
         "is delivered while the partition stays reachable.",
    note="bounded enumeration; the quick tier samples the enumerated layouts (seeded), thorough runs all of them; simulated broker is "
         "faithful by construction (see assumptions in evidence); timing: completeness waits up to 3 s",
    design_ref="6/C03",
)


def run(ctx):
    rnd = random.Random(ctx.seed)
    plain, r1 = cc.gen_logs(ctx, "ConsumerLog.plain.cfg")
    txn, r2 = cc.gen_logs(ctx, "ConsumerLog.txn.cfg")
    gen = [{"cfg": "ConsumerLog.plain.cfg", "logs": len(plain), "states": r1.distinct, "generated": r1.generated},
           {"cfg": "ConsumerLog.txn.cfg", "logs": len(txn), "states": r2.distinct, "generated": r2.generated}]
    rnd.shuffle(plain)
    rnd.shuffle(txn)
    quick = ctx.tier == "quick"
    scs = cc.layout_scenarios(plain if not quick else plain[:700], rnd, 1 if not quick else 2, "layout", ["ru"])
    scs += cc.layout_scenarios(txn[:300] if quick else txn[:4000], rnd, 1, "txn-ru", ["ru"])
    # log start offset above 0 (retention / DeleteRecords), also inside a batch: oldest = log start, nothing below is delivered
    ls = cc.layout_scenarios(plain[700:850] if quick else plain[:1500], rnd, 1, "logstart", ["ru"])
    for s_ in ls:
        end = cc.log_end(s_["logs"]["0"])
        if end < 2:
            continue
        st = rnd.randrange(1, end)
        s_["logStart"] = {"0": st}
        s_["consume"] = [{"part": 0, "start": rnd.choice([-2, -2, st, rnd.randrange(st, end + 1)])}]
        scs.append(s_)
    scs += cc.fault_scenarios(plain, rnd, 6 if quick else 40)
    scs += cc.error_code_scenarios(plain[:40], rnd)
    scs += cc.quota_scenarios(plain[40:], rnd, 12 if quick else 80)
    v2only = [l for l in plain if all(b["fmt"] == "v2" for b in l)]
    scs += cc.follower_scenarios(v2only, rnd, 6 if quick else 40)
    scs += cc.slow_reader_scenarios(plain, rnd, 5 if quick else 40)
    scs += cc.newest_scenarios(plain + txn, rnd, 40 if quick else 400)
    scs += cc.close_scenarios(plain, rnd, 4 if quick else 30)
    scs += cc.leaderless_scenarios(plain, rnd, 4 if quick else 30)
    mc = [("Consumer", "Consumer.quick.cfg")] if quick else [("Consumer", "Consumer.quick.cfg"), ("Consumer", "Consumer.thorough.cfg")]
    return cc.check(ctx, "C03", cc.CLAUSES["C03"], scs, mc, gen)
