"""C19: admin operations reach the right broker and report its verdict.

spec/Admin.tla (controller-bound operation: retry loop, cached vs. true controller, environment) and
spec/AdminSpread.tla (leader-/coordinator-bound operations, per-broker split) are model-checked by TLC
against the clauses of spec/AdminOracle.tla; every complete behaviour / initial state they have is emitted
as a case, executed on a real ClusterAdmin against three scripted MockBrokers
(harness/inpkg/admin_test.go), and TLC evaluates the same clauses on what the real code did
(spec/AdminTrace.tla)."""
import concurrent.futures
import json
import os
import random
import re
import vlib

META = dict(
    level="model_checking",
    engine="Admin",
    technique="TLA+ state machines of the controller-bound retry loop (spec/Admin.tla) and of the per-leader/per-coordinator "
              "split (spec/AdminSpread.tla) model-checked by TLC against the clauses of spec/AdminOracle.tla; every behaviour "
              "TLC finds is replayed on a real ClusterAdmin against three scripted MockBrokers; TLC evaluates the same clauses "
              "on the recorded requests and return values (spec/AdminTrace.tla)",
    text="TLC enumerates, for CreateTopic/DeleteTopic/CreatePartitions/AlterPartitionReassignments, every Admin.Retry.Max in 0..3, "
         "every initial controller among broker ids {0,1,2} (id 0 is an ordinary broker) and every script of per-attempt broker behaviour (acknowledge, NOT_CONTROLLER with the controller "
         "moving to either other broker, every KError code in place of success, answer without the topic entry, dropped connection; "
         "0..Max+1 controller moves; a move may come with an election during which the next 1 or 2 metadata answers name NO controller, "
         "and the client may start with its cached controller wiped) for every Kafka release that changes the request version; and for DeleteRecords/"
         "DescribeConsumerGroups/ListConsumerGroupOffsets/DeleteConsumerGroup/DescribeLogDirs every spread of 3 partitions/groups over 3 brokers with "
         "every per-item verdict and one broker failing. Each case is executed on the real admin.go/client.go; the brokers log who "
         "received which request (type, version, items), the driver logs the returned value; TLC decides the clauses "
         "(routing to the then-current controller / owner, retry exactly on NOT_CONTROLLER, success iff acknowledged, errors "
         "returned with the broker's code, each broker's answer filed under that broker, request version supported by the configured release).",
    note="bounded: 3 brokers, Retry.Max <= 3, 3 items; metadata and coordinator look-ups always succeed and tell the truth (a metadata "
         "answer may truthfully name no controller during an election; giving up with ErrControllerNotAvailable is excused only when the "
         "look-up of the NEW attempt found nobody, which is what the code does when an election outlasts two metadata answers); "
         "retrying after a dropped connection is tolerated (the statement's 'other error' is read as an error answer); "
         "the three defects this check found on the pinned tree (Retry.Max=0 reported success without sending; "
         "AlterPartitionReassignments never retried NOT_CONTROLLER and treated top-level UNKNOWN(-1) as success) are fixed in /repo "
         "(known_findings F-C19-*, status fixed; a regression is a fresh violation); MockBroker, harness and TLC trusted",
    design_ref="6/C19",
)

ENV_TROUBLE = re.compile(r"environment:|too many open files|cannot assign requested address")

CTL_FEATURES = ("op", "kv", "max", "init", "script")


def gen(ctx):
    """roles 1+2 in one pass per cfg: exhaustive model checking (clauses as invariants) that also
    emits every complete behaviour as a case. Returns (cases, stats)."""
    thorough = ctx.tier == "thorough"
    runs = [
        ("Admin", "Admin.ref.thorough.cfg" if thorough else "Admin.ref.cfg", "ref", False),
        ("Admin", "Admin.none.thorough.cfg" if thorough else "Admin.none.cfg", "none", False),
        ("Admin", "Admin.codes.cfg", "codes", False),
        ("Admin", "Admin.legacy.cfg", "legacy", False),
        ("AdminSpread", "AdminSpread.thorough.cfg" if thorough else "AdminSpread.cfg", "spread", False),
        ("Admin", "Admin.norefresh.cfg", "norefresh", True),
    ]

    def one(r):
        mod, cfg, name, negative = r
        return r, ctx.tlc(mod, cfg, workers=4, timeout=1500, name=name)

    with concurrent.futures.ThreadPoolExecutor(max_workers=len(runs)) as ex:
        results = list(ex.map(one, runs))
    cases, stats = [], []
    for (mod, cfg, name, negative), r in results:
        if negative:
            # negative control of the clauses at model level: the mutant model (no controller refresh) must be rejected
            if r.timed_out or r.error or r.violated != "ReqClauses":
                raise vlib.Inconclusive("model-level negative control %s: expected a violation of ReqClauses, got violated=%s error=%s"
                                        % (cfg, r.violated, r.error))
            stats.append({"cfg": cfg, "role": "negative control (mutant model rejected by ReqClauses)", "states": r.distinct,
                          "generated": r.generated, "cases": 0})
            continue
        ctx.need(r, "model checking " + cfg)
        if not r.finished:
            raise vlib.Inconclusive("model checking %s did not finish" % cfg)
        k = 0
        for raw in r.printed_raw("CASE"):
            cases.append(vlib.tla_unquote(raw))
            k += 1
        if k == 0 or k != sum(1 for ln in r.out.splitlines() if '"CASE"' in ln):
            raise vlib.Inconclusive("case emission of %s garbled or empty (%d parsed)" % (cfg, k))
        stats.append({"cfg": cfg, "role": "exhaustive model checking + case emission", "states": r.distinct,
                      "generated": r.generated, "depth": r.depth, "cases": k})
    return cases, stats


def features(evs, reset):
    reqs = [e for e in evs if e["ev"] in ("req", "sreq")]
    ret = evs[-1] if evs and evs[-1]["ev"] == "ret" else {}
    f = {"fam": reset.get("fam"), "op": reset.get("op"), "kv": reset.get("kv"),
         "attempts": len(reqs), "result": ret.get("cls"), "result_code": ret.get("code"), "result_text": ret.get("text")}
    if reset.get("fam") == "ctl":
        script = reset.get("script", [])
        f.update({"max": reset.get("max"), "init": reset.get("init"), "script": json.dumps(script),
                  "answers": ",".join(e["ans"] for e in reqs), "brokers": [e["b"] for e in reqs],
                  "first_answer": reqs[0]["ans"] if reqs else "-",
                  "last_answer": reqs[-1]["ans"] if reqs else "-",
                  "last_code": reqs[-1]["code"] if reqs else 0,
                  "last_place": (script[len(reqs) - 1][2] if reqs and len(reqs) <= len(script) else "-")})
    else:
        f.update({"own": reset.get("own"), "itemv": reset.get("itemv"), "bfault": reset.get("bfault"),
                  "requests": [[e["b"], e["items"], e["ans"]] for e in reqs], "reported": ret.get("reported"), "filed": ret.get("filed"), "all": reset.get("all"), "gerr": reset.get("gerr")})
    return f


def run(ctx):
    lines, gstats = gen(ctx)
    lines = sorted(set(lines))
    random.Random(ctx.seed).shuffle(lines)     # the seed permutes the order (and, in the harness, the seed broker)
    cases = os.path.join(ctx.scratch, "cases.ndjson")
    with open(cases, "w") as f:
        f.write("\n".join(lines) + "\n")
    rc, out, outdir = ctx.go_test("^TestVerifAdmin$", env={"VERIF_CASES": cases}, timeout=900,
                                  only=["admin_test.go"])
    ctx.need_go(rc, out, "admin replay")
    trace = os.path.join(outdir, "trace.ndjson")
    summary = json.load(open(os.path.join(outdir, "summary.json")))
    for m in summary.get("setup_texts") or []:
        if ENV_TROUBLE.search(m):
            raise vlib.Inconclusive("environment trouble while creating clients: " + m)
    executed = sum(summary["executed"].values())
    if executed != len(lines):
        raise vlib.Inconclusive("harness executed %d of %d cases" % (executed, len(lines)))

    rs = ctx.tlc_trace("AdminTrace", "AdminTrace.cfg", trace, shards=8)
    allv, nops, nreq, drift, vdrift = [], 0, 0, 0, 0
    for r in rs:
        ctx.need(r, "trace validation")
        st = r.printed("STATS")
        if not st:
            raise vlib.Inconclusive("trace validation did not reach the end of a shard")
        allv += vlib.trace_viols(r)
        nops += st[0]["ops"]
        nreq += st[0]["reqs"]
        drift += st[0]["drift"]
        vdrift += st[0].get("vdrift", 0)
    if drift:
        ctx.say("DRIFT spec=Admin traces=%d (the real code did not do what the reference model predicts; soft, not a verdict)" % drift)
    if vdrift:
        ctx.say("DRIFT spec=AdminOracle.ExpectedVer requests=%d (request version differs from the one admin.go in /repo selects for the "
                "configured Kafka release; soft, not a verdict)" % vdrift)
    if nops != executed:
        raise vlib.Inconclusive("trace validation evaluated %d operations, harness recorded %d" % (nops, executed))

    viols = []
    if allv:
        by_trace = {}
        for e in vlib.read_ndjson(trace):
            by_trace.setdefault(e["t"], []).append(e)
        for v in allv:
            evs = by_trace.get(v["trace"], [])
            v["features"] = features(evs, evs[0] if evs else {})
            viols.append(v)

    fams = {}
    for ln in lines:
        c = json.loads(ln)
        fams[c["fam"] + "/" + c["op"]] = fams.get(c["fam"] + "/" + c["op"], 0) + 1
    cov = {
        "states": sum(g["states"] for g in gstats),
        "transitions": sum(g["generated"] for g in gstats),
        "traces_validated_against_impl": nops,
        "samples": (summary.get("samples") or [])[:3] or [json.loads(lines[0])],
        "exhaustive": True,
        "model_runs": gstats,
        "cases_by_operation": fams,
        "admin_requests_observed": nreq,
        "foreign_requests_turned_away": summary.get("foreign_requests_turned_away", 0),
        "drift_traces": drift,
        "request_version_drift": vdrift,
        "drift_note": "controller-bound operations (cases emitted by the reference variants of spec/Admin.tla) on which the real code did not "
                      "do what the implementation-shaped model predicted (attempt count, result class, code); soft, never a verdict",
        "explanation": "every complete behaviour of spec/Admin.tla (reference variant = admin.go as it is: all scripts of up to Max+1 answers for "
                       "Retry.Max 0..3, broker ids {0,1,2}; codes variant: every KError code; legacy variant: the machine with the fixed defects, "
                       "scripts stopping at the old budget) and every initial state of "
                       "spec/AdminSpread.tla is one execution of the real ClusterAdmin against three scripted MockBrokers; "
                       "TLC (spec/AdminTrace.tla) evaluates the AdminOracle clauses on the recorded requests and return values; "
                       "the same clauses are invariants of the models (checked exhaustively: on the reference variant without exception, on the "
                       "legacy variant modulo the three fixed causes; a mutant model without controller refresh is rejected)",
    }
    return vlib.finish(ctx, "model_checking", cov, viols,
                       ["metadata and FindCoordinator look-ups succeed and report the true controller / leaders / coordinators (or, during a scripted "
                        "election, no controller for 1 or 2 consecutive answers)",
                        "an operation that ends with retry budget left is excused only if the controller look-up of the new attempt (the second "
                        "metadata answer after a NOT_CONTROLLER, the first one at the start) named nobody; the code in /repo gives up there",
                        "the retry budget is read weakly: success is demanded only when an attempt with index <= Admin.Retry.Max is acknowledged "
                        "(both 'Max attempts' and 'Max retries' implementations satisfy the clauses)",
                        "a retry after a dropped connection is tolerated; after an error answer or an incomplete answer it is not",
                        "DescribeConsumerGroups / ListConsumerGroupOffsets report per-item errors inside the returned value; that counts as reporting",
                        "the simulated brokers serve only the client id of the case being run (pid + sequence number); requests of other clients "
                        "(other processes, stragglers) are dropped unrecorded",
                        "MockBroker transport, harness classification of the returned error (errors.As) and TLC are trusted",
                        "bounds: 3 brokers, Retry.Max <= 3, 3 partitions/groups, at most one broker failing a whole request"],
                       save={"trace.ndjson": trace, "cases.ndjson": cases})
