"""Consumer properties (C03 C11, consumer parts of C18/C12): log layouts enumerated by TLC
(spec/ConsumerLog.tla), served by the simulated cluster to a real PartitionConsumer; the recorded
application view is validated by spec/ConsumerObsTrace.tla against the Visible oracle."""
import copy
import json
import os
import random
import vlib

CLAUSES = {
    "C03": {"deliver_once", "deliver_in_order", "deliver_nothing_below_start", "deliver_unknown_offset", "no_skip",
            "deliver_content_equals_log", "all_visible_delivered", "deliver_after_close", "no_panic"},
    "C11": {"control_never_delivered", "no_aborted_delivered", "all_committed_and_plain_delivered",
            "deliver_beyond_stable_offset", "no_skip", "all_visible_delivered"},
    "C18": {"consumer_intercept_once", "consumer_intercept_chain_order", "consumer_intercept_before_delivery", "no_panic"},
    "C12": {"close_returns", "channels_closed", "deliver_after_close", "no_panic"},
}

V2_VERSIONS = ["0.11.0.0", "1.0.0", "1.1.0", "2.0.0", "2.1.0", "2.3.0", "2.4.0", "2.6.0", "2.8.0"]
LEGACY_VERSIONS = ["0.8.2.0", "0.9.0.0", "0.10.0.0", "0.10.1.0", "0.10.2.0", "0.11.0.0", "1.1.0", "2.1.0", "2.8.0"]


def gen_logs(ctx, cfg):
    r = ctx.need(ctx.tlc("ConsumerLog", cfg, timeout=900, name=cfg.replace(".cfg", "")), "log enumeration " + cfg)
    logs = sorted(set(vlib.tla_unquote(x) for x in r.printed_raw("CASE")))
    return [json.loads(x) for x in logs], r


def log_end(log):
    return log[-1]["offs"][-1] + 1


def pick_version(log, rnd):
    fm = {b["fmt"] for b in log}
    if "v2" in fm:
        return rnd.choice(V2_VERSIONS)
    if fm & {"v1", "v1w"}:
        return rnd.choice(LEGACY_VERSIONS[2:])
    return rnd.choice(LEGACY_VERSIONS)


def add_codec(log, rnd, coord=None):
    out = []
    # producer epochs: in about half of the logs every abort is a coordinator-side abort (transaction time-out, or InitProducerId
    # while a transaction is open): Kafka bumps the epoch and writes the ABORT marker with epoch+1; the producer's later
    # transactions carry the new epoch. In the other logs the marker carries the epoch of the data it ends.
    if coord is None:
        coord = rnd.random() < 0.5
    epochs = {}
    for b in log:
        b = dict(b)
        if b.get("pid", -1) >= 0 and b["fmt"] == "v2":
            e = epochs.get(b["pid"], 0)
            if b["ctl"] == "abort" and coord:
                e += 1
                epochs[b["pid"]] = e
            b["epoch"] = e
        if b["fmt"] in ("v0w", "v1w"):
            b["codec"] = rnd.choice([1, 2])          # gzip, snappy
        elif b["fmt"] == "v2" and not b["ctl"]:
            b["codec"] = rnd.choice([0, 0, 1, 2, 3])
            b["hdrs"] = rnd.choice([0, 0, 1, 2])
        out.append(b)
    return out


def layout_scenarios(logs, rnd, per_log, family, isos):
    out = []
    for i, log in enumerate(logs):
        end = log_end(log)
        for k in range(per_log):
            lg = add_codec(log, rnd)
            start = rnd.randrange(0, end + 1)
            if (i + k) % 9 == 0:
                start = -2
            cfg = dict(version=pick_version(log, rnd), iso=rnd.choice(isos), fetchDefault=rnd.choice([70, 130, 260, 1 << 20]),
                       chanBuf=rnd.choice([0, 1, 256]), leaders=[1], nbrokers=1, abortedReverse=rnd.random() < 0.5)
            out.append({"name": "%s-%d-%d" % (family, i, k), "family": family, "cfg": cfg, "logs": {"0": lg},
                        "consume": [{"part": 0, "start": start}], "expectAll": {"0": True}, "steps": []})
    return out


FAULTS = [("notleader", {"kind": "err", "code": 6}), ("lna", {"kind": "err", "code": 5}), ("unknown", {"kind": "err", "code": 3}),
          ("replica", {"kind": "err", "code": 9}), ("corrupt", {"kind": "err", "code": 2}), ("outofrange", {"kind": "err", "code": 1}),
          ("silence", {"kind": "silence"}), ("drop", {"kind": "drop"}), ("throttled", {"kind": "throttled"}),
          ("missing", {"kind": "missing"}), ("move", {"kind": "ok", "moveTo": 2}), ("throttled_data", {"kind": "throttled_data"})]


def follower_scenarios(logs, rnd, nlogs, family="follower"):
    """follower fetching (Kafka >= 2.3, Config.RackID set): the leader answers with no records and a preferred read replica, which
    holds the log; the replica may be broker id 0"""
    out = []
    for i, log in enumerate(logs[:nlogs]):
        for leader, follower in ((2, 1), (1, 2)):
            for base0 in (True, False):
                lg = add_codec(log, rnd)
                cfg = dict(version=rnd.choice(["2.3.0", "2.4.0", "2.6.0", "2.8.0"]), iso="ru", fetchDefault=rnd.choice([130, 1 << 20]), chanBuf=rnd.choice([0, 1]),
                           leaders=[leader], followers=[follower], rack="r1", nbrokers=2, idBase0=base0)
                out.append({"name": "%s-%d-l%d-%s" % (family, i, leader, "id0" if base0 else "id1"), "family": family, "cfg": cfg, "logs": {"0": lg},
                            "consume": [{"part": 0, "start": rnd.choice([0, -2])}], "expectAll": {"0": True}, "steps": []})
    return out


def quota_scenarios(logs, rnd, nlogs, family="quota"):
    """a broker that enforces a quota: EVERY fetch response of partition 0 carries a throttle time together with its data"""
    out = []
    for i, log in enumerate(logs[:nlogs]):
        lg = add_codec(log, rnd)
        ver = pick_version(log, rnd)
        if ver == "0.8.2.0":
            ver = "0.10.0.0" if not ({b["fmt"] for b in log} & {"v2"}) else ver
        cfg = dict(version=ver, iso="ru", fetchDefault=rnd.choice([90, 260, 1 << 20]), chanBuf=rnd.choice([0, 1]), leaders=[1, 1], nbrokers=1)
        out.append({"name": "%s-%d" % (family, i), "family": family, "cfg": cfg, "logs": {"0": lg, "1": add_codec(log, rnd)},
                    "fetchPlans": {"0:*": {"kind": "throttled_data"}},
                    "consume": [{"part": 0, "start": 0}, {"part": 1, "start": 0}], "expectAll": {"0": True, "1": True}, "steps": []})
    return out


def error_code_scenarios(logs, rnd, family="fetch-errorcodes"):
    """every Kafka error code in a fetch block (inputs quantifier): only OFFSET_OUT_OF_RANGE ends the partition consumer; after any
    other code - silently redispatched or reported to the application - the rest of the log must still be delivered"""
    out = []
    codes = [c for c in list(range(-1, 90)) if c not in (0, 1)]
    for j, code in enumerate(codes):
        log = logs[j % len(logs)]
        lg = add_codec(log, rnd)
        # (the error comes with the first or - with a small fetch size - the second fetch: part of the log is still to be delivered)
        k = 1 + j % 2
        cfg = dict(version=pick_version(log, rnd), iso="ru", fetchDefault=70 if k == 2 else rnd.choice([90, 1 << 20]), chanBuf=rnd.choice([0, 1]),
                   leaders=[1, 1], nbrokers=2, readTimeoutMs=120)
        out.append({"name": "%s-%d" % (family, code), "family": family, "cfg": cfg, "logs": {"0": lg, "1": add_codec(log, rnd)},
                    "fetchPlans": {"0:%d" % k: {"kind": "err", "code": code}},
                    "consume": [{"part": 0, "start": 0}, {"part": 1, "start": 0}], "expectAll": {"0": True, "1": True}, "steps": []})
    return out


def fault_scenarios(logs, rnd, nlogs, family="faults"):
    out = []
    for i, log in enumerate(logs[:nlogs]):
        for fname, plan in FAULTS:
            for k in (1, 2):
                lg = add_codec(log, rnd)
                ver = pick_version(log, rnd)
                if fname in ("throttled", "throttled_data") and ver == "0.8.2.0":
                    ver = "0.10.0.0" if not ({b["fmt"] for b in log} & {"v2"}) else ver
                cfg = dict(version=ver, iso="ru", fetchDefault=rnd.choice([90, 1 << 20]), chanBuf=rnd.choice([0, 1]),
                           leaders=[1, 1], nbrokers=2, readTimeoutMs=120)
                sc = {"name": "%s-%s-k%d-%d" % (family, fname, k, i), "family": family, "cfg": cfg,
                      "logs": {"0": lg, "1": add_codec(log, rnd)},
                      "fetchPlans": {"0:%d" % k: plan},
                      "consume": [{"part": 0, "start": 0}, {"part": 1, "start": 0}],
                      "expectAll": {"0": fname != "outofrange", "1": True}, "steps": []}
                out.append(sc)
    return out


def slow_reader_scenarios(logs, rnd, nlogs, interceptors=0, family="slow"):
    out = []
    for i, log in enumerate(logs[:nlogs]):
        n = sum(len(b["offs"]) for b in log if not b["ctl"])
        for stall_ms in (35, 75):
            for at in range(0, min(n, 4)):
                for buf in (0, 1):
                    lg = add_codec(log, rnd)
                    # (a small fetch size cuts the log into several responses: the slow path is followed by further responses)
                    cfg = dict(version=pick_version(log, rnd), iso="ru", fetchDefault=(1 << 20) if (at + buf) % 2 else rnd.choice([70, 130]),
                               chanBuf=buf, maxProcMs=20,
                               leaders=[1, 1], nbrokers=1, interceptors=interceptors)
                    out.append({"name": "%s-%d-at%d-%dms-b%d" % (family, i, at, stall_ms, buf), "family": family, "cfg": cfg,
                                "logs": {"0": lg, "1": add_codec(log, rnd)},
                                "consume": [{"part": 0, "start": 0}, {"part": 1, "start": 0}],
                                "reader": {"0": [{"at": at, "ms": stall_ms}]},
                                "expectAll": {"0": True, "1": True}, "steps": []})
    return out


def newest_scenarios(logs, rnd, nlogs):
    out = []
    for i, log in enumerate(logs[:nlogs]):
        if len(log) < 2:
            continue
        cut = rnd.randrange(1, len(log))
        lg = add_codec(log, rnd)
        # transactions must not straddle the cut in a way that changes visibility of the old part: irrelevant, start = newest
        cfg = dict(version=pick_version(log, rnd), iso="ru", fetchDefault=1 << 20, chanBuf=1, leaders=[1], nbrokers=1)
        out.append({"name": "newest-%d" % i, "family": "newest", "cfg": cfg, "logs": {"0": lg[:cut]},
                    "consume": [{"part": 0, "start": -1}], "expectAll": {"0": True},
                    "steps": [{"op": "sleep", "ms": 25}, {"op": "append", "part": 0, "batches": lg[cut:]}]})
    return out


def close_scenarios(logs, rnd, nlogs):
    out = []
    for i, log in enumerate(logs[:nlogs]):
        n = sum(len(b["offs"]) for b in log if not b["ctl"])
        for k in range(0, n + 1):
            for fname, plan in (("none", None), ("silence", {"kind": "silence"}), ("notleader", {"kind": "err", "code": 6})):
                lg = add_codec(log, rnd)
                cfg = dict(version=pick_version(log, rnd), iso="ru", fetchDefault=rnd.choice([80, 1 << 20]), chanBuf=rnd.choice([0, 1]),
                           leaders=[1], nbrokers=1, maxProcMs=20, readTimeoutMs=100)
                sc = {"name": "close-%d-k%d-%s" % (i, k, fname), "family": "closepoints", "cfg": cfg, "logs": {"0": lg},
                      "consume": [{"part": 0, "start": 0}], "expectAll": {"0": False},
                      "steps": [{"op": "wait_delivered", "part": 0, "n": k, "ms": 1500}, {"op": "async_close_pc" if k % 2 else "close_pc", "part": 0},
                                {"op": "close_pc_again", "part": 0}]}
                sc["cfg"]["doubleClose"] = True
                if plan:
                    sc["fetchPlans"] = {"0:%d" % (1 + k % 2): plan}
                out.append(sc)
    return out


def leaderless_scenarios(logs, rnd, nlogs):
    """two partition consumers on one broker; one partition loses its leader and stays leaderless for several
    redispatch attempts; meanwhile the healthy sibling is closed (or keeps consuming); then the leader returns"""
    out = []
    for i, log in enumerate(logs[:nlogs]):
        for close_sibling in (True, False):
            for ms in (20, 60):
                lg0, lg1 = add_codec(log, rnd), add_codec(log, rnd)
                cfg = dict(version=pick_version(log, rnd), iso="ru", fetchDefault=1 << 20, chanBuf=1, leaders=[1, 1], nbrokers=1, readTimeoutMs=120)
                steps = [{"op": "sleep", "ms": 10}, {"op": "move", "part": 0, "to": 0}, {"op": "sleep", "ms": ms}]
                if close_sibling:
                    steps += [{"op": "close_pc", "part": 1}, {"op": "close_pc_again", "part": 1}]
                steps += [{"op": "move", "part": 0, "to": 1}]
                # data produced after the election: the sibling (if still open) and the recovered partition must deliver it
                end = log_end(log)
                fmt = log[-1]["fmt"].rstrip("w")
                more = [{"fmt": fmt, "offs": [end, end + 1], "pid": -1, "txn": False, "ctl": ""}]
                steps += [{"op": "sleep", "ms": 15}, {"op": "append", "part": 0, "batches": more}]
                if not close_sibling:
                    steps += [{"op": "append", "part": 1, "batches": more}]
                out.append({"name": "leaderless-%d-%s-%dms" % (i, "closesib" if close_sibling else "keep", ms), "family": "leaderless",
                            "cfg": cfg, "logs": {"0": lg0, "1": lg1},
                            "fetchPlans": {"0:2": {"kind": "err", "code": 6}, "0:3": {"kind": "err", "code": 6}},
                            "consume": [{"part": 0, "start": 0}, {"part": 1, "start": 0}],
                            "expectAll": {"0": True, "1": not close_sibling}, "steps": steps})
    return out


def run_scenarios(ctx, scenarios, name="cons", shards=8, timeout=1500):
    only = set(filter(None, os.environ.get("VERIF_ONLY_SCENARIOS", "").split("\n")))
    if only and any(s_["name"] in only for s_ in scenarios):
        scenarios = [s_ for s_ in scenarios if s_["name"] in only]     # --replay: just the reported scenarios
    for k_, s_ in enumerate(scenarios):
        # every other scenario numbers its brokers from 0 (a valid broker id code must not confuse with "unset")
        if k_ % 2 == 1 and "idBase0" not in s_["cfg"]:
            s_["cfg"]["idBase0"] = True
    cases = os.path.join(ctx.scratch, name + ".cases.ndjson")
    with open(cases, "w") as f:
        for s in scenarios:
            f.write(json.dumps(s) + "\n")
    rc, out, trace, sums = ctx.go_test_parallel("^TestVerifConsumer$", cases, nproc=12, timeout=timeout, name=name,
                                                only=["sim_cluster*", "sim_fetch*", "prod_driver*", "prod_sync*", "cons_driver*"],
                                                env={"VERIF_INTERNAL": "1"}, extra_files=["internal.ndjson"])
    crash = []
    if rc != 0 and ("panic: " in out or "fatal error: " in out):
        crash = vlib.crash_violations(out)
        if crash is None:
            ctx.need_go(rc, out, "consumer scenarios (%s)" % name)
    elif rc != 0:
        ctx.need_go(rc, out, "consumer scenarios (%s)" % name)
    rs = ctx.tlc_trace("ConsumerObsTrace", "ConsumerObsTrace.cfg", trace, shards=shards, name="trace-" + name)
    viols, stats = [], {}
    for r in rs:
        ctx.need(r, "trace validation (%s)" % name)
        st = r.printed("STATS")
        if not st:
            raise vlib.Inconclusive("trace validation did not reach the end of a shard (%s)" % name)
        for k, v in st[0].items():
            stats[k] = stats.get(k, 0) + v
        viols += vlib.trace_viols(r)
    if stats.get("simerr", 0) > 0:
        raise vlib.Inconclusive("simulated cluster reported an internal error (sim_error event) in %s" % name)
    if stats.get("traces", 0) != len(scenarios) and not crash:
        raise vlib.Inconclusive("validated %d traces, ran %d scenarios" % (stats.get("traces", 0), len(scenarios)))
    if viols:
        events = vlib.read_ndjson(trace)
        bytrace = {}
        for e in events:
            bytrace.setdefault(e["t"], []).append(e)
        for v in viols:
            tr = bytrace.get(v["trace"], [])
            cfg = tr[0] if tr else {}
            e = next((x for x in tr if x["i"] == v["index"]), {})
            stalled = any(x["ev"] == "stall" for x in tr)
            v["features"] = {"scenario": cfg.get("name"), "family": cfg.get("family"), "iso": cfg.get("iso"),
                             "version": cfg.get("version"), "slow_reader": stalled, "event": e,
                             "log": next((x.get("batches") for x in tr if x["ev"] == "logdef" and x.get("part") == e.get("part")), None)}
    # soft conformance of the responseFeeder state machine (never decides a property)
    try:
        itrace = ctx.extra_traces.get("internal.ndjson")
        if itrace and os.path.getsize(itrace) > 100:
            drs = ctx.tlc_trace("FeederConfTrace", "FeederConfTrace.cfg", itrace, shards=4, name="feederconf-" + name)
            nd, fst, first = 0, {}, None
            for r in drs:
                for lst in r.printed("DRIFT")[:1]:
                    nd += len(lst)
                    first = first or (lst[0] if lst else None)
                for d in r.printed("STATS")[:1]:
                    for k, v in d.items():
                        fst[k] = fst.get(k, 0) + v
            stats["feederconf"] = dict(fst, drift_events=nd)
            if nd:
                ctx.say("DRIFT spec=Consumer.tla/responseFeeder: %d hook events are not explained by the model, first %s (soft; verdict unaffected)" % (nd, first))
    except Exception as e:   # soft: never fail the check
        stats["feederconf"] = {"error": str(e)[:200]}
    return viols + crash, stats, trace, cases


def check(ctx, pid, clauses, scenarios, mc_runs, gen_stats, extra_viols=None, extra_cov=None):
    st = tr = 0
    det = []
    for module, cfg in mc_runs:
        r = ctx.need(ctx.tlc(module, cfg, timeout=1500, name=cfg.replace(".cfg", "")), "model checking " + cfg)
        st += r.distinct
        tr += r.generated
        det.append({"module": module, "cfg": cfg, "distinct_states": r.distinct, "states_generated": r.generated, "depth": r.depth})
    for g in gen_stats:
        st += g["states"]
        tr += g["generated"]
    viols, stats, trace, cases = run_scenarios(ctx, scenarios, name=pid.lower())
    mine = [v for v in viols if v["clause"] in clauses] + (extra_viols or [])
    fam = {}
    for s in scenarios:
        fam[s["family"]] = fam.get(s["family"], 0) + 1
    with open(cases) as f:
        samples = [json.loads(x) for x in f.readlines()[:2]]
    cov = {"states": st, "transitions": tr, "model_runs": det, "log_enumeration": gen_stats,
           "traces_validated_against_impl": stats.get("traces", 0) + (extra_cov or {}).get("traces", 0),
           "events_validated": stats.get("events", 0),
           "samples": samples, "scenarios_by_family": fam,
           "real_run_counts": {k: stats.get(k, 0) for k in ("delivered", "fetches", "faults", "errors", "stalls", "complete", "unsteered", "skipped")},
           "feeder_conformance": stats.get("feederconf", {}),
           "clauses": sorted(clauses),
           "clauses_violated_for_other_properties": sorted({v["clause"] for v in viols if v["clause"] not in clauses}),
           "explanation": "partition logs enumerated by TLC from spec/ConsumerLog.tla (every layout within the bounds), stored as batches in the "
                          "simulated cluster and served over the real wire (own fetch-response writer, trailing batch cut at max_bytes) to a real "
                          "PartitionConsumer; the application view is validated by TLC against the Visible oracle (spec/ConsumerObsTrace.tla)"}
    if extra_cov:
        cov["producer_part"] = extra_cov
    if pid == "C03" and ctx.tier == "thorough":
        # the repository's own consumer tests, run with the hooks on: every responseFeeder they start must be explained by
        # the model's feeder state machine (spec/FeederConfTrace.tla); soft
        import reposuite
        cov["repo_suite_feeder_conformance"] = reposuite.run(ctx, {"pc"}, run_pattern="Consumer")
    return vlib.finish(ctx, "model_checking", cov, mine,
                       ["the simulated broker is faithful: a response starts with the batch containing the requested offset, never skips, "
                        "high-water mark = log end, aborted index = all aborted transactions overlapping the returned range (either order), "
                        "read-committed fetches stop at the last stable offset",
                        "legacy formats only with fetch versions that can carry them; record batches only with Kafka >= 0.11",
                        "record batches are encoded with sarama's own RecordBatch/MessageSet encoders (C09 covers the codec); the fetch response "
                        "framing is written by the harness",
                        "bounded enumeration: <= 6-7 offsets, <= 3-5 batches per log"],
                       save={"trace.ndjson": trace, "cases.ndjson": cases})
