"""C07: consumer-group sessions follow the documented life-cycle and resume from commits (consumer_group.go).

role 1  spec/Group.tla (coordinator group state machine + member life-cycle + scripted environment) composed
        with the observer spec/GroupObs.tla is model-checked exhaustively: the invariant NoViolation says that no
        behaviour of the model violates a clause of the property; pc-based invariants restate the life-cycle.
        Deliberately broken variants (Bug = ...) must violate NoViolation (non-vacuity).
role 2  the same machine emits scenario scripts (the environment's choices: coordinator answer per request,
        handler behaviour, cancel / Close / heartbeat verdict at a steering point, membership): every scenario of
        small families exhaustively, larger ones by seeded simulation; a stratified seeded sample is replayed.
role 3  harness/inpkg/group_test.go runs each script on REAL ConsumerGroups (NewConsumerGroup) against a simulated
        cluster with a real group coordinator (join/sync barriers, fencing, offset store) and a numbered log;
        spec/GroupTrace.tla folds GroupObs!ObsStep over what the code did: the verdict."""
import concurrent.futures
import json
import os
import random
import re
import time

import vlib

META = dict(
    level="model_checking",
    engine="Group",
    technique="TLA+ model of the consumer-group member life-cycle and of the group coordinator (spec/Group.tla) composed with "
              "an observer step function (spec/GroupObs.tla) and model-checked by TLC; TLC-generated scenario scripts replayed "
              "on real ConsumerGroups against a simulated coordinator with real join/sync barriers, generation fencing and an "
              "offset store; TLC folds the same observer over the recorded handler calls, driver calls and group requests "
              "(spec/GroupTrace.tla)",
    text="TLC explores every interleaving of one or two members (Consume call, join with its error classes, join barrier, "
         "leader plan, sync barrier, session start, Setup, one claim goroutine per partition with the quick exit, deliveries, "
         "marks, auto-commit, handler return, heartbeat verdicts, context cancel, Close, release, Cleanup, final commit, "
         "heartbeat stop, LeaveGroup) with a scripted coordinator (ok / REBALANCE_IN_PROGRESS / UNKNOWN_MEMBER_ID with "
         "eviction / ILLEGAL_GENERATION / NOT_COORDINATOR / connection loss on join, sync, heartbeat, commit, leave), handler "
         "behaviours (returns early after n, drains until closed, blocks until the session context is done; marks a prefix), "
         "cancel / Close at every steering point (before Consume, during join, during sync, in Setup, inside ConsumeClaim, in "
         "Cleanup, between sessions), committed offsets none / in range / out of range, initial oldest / newest, and checks "
         "NoViolation (all clauses of the observer) plus CleanupAfterClaims, QuickExitOnlyWhenEnding, ValidOwnersDisjoint, "
         "StoreNotAhead, SessionIdentityIssued, HeartbeatStoppedOutside. The scenario scripts TLC emits from the same model "
         "are executed on real consumer groups (1 or 2 members, range / round-robin / sticky, auto-commit fast / final-only); "
         "TLC evaluates on every recorded execution: setup_once_before_claims, at_most_one_claim_per_partition, "
         "exactly_one_claim_unless_ending, claim_starts_at_committed_or_initial, cleanup_once_after_claims_returned, "
         "final_commit_after_cleanup, consume_returns_last, requests_carry_issued_identity, fenced_member_rejoins_fresh, "
         "no_skip_across_sessions, consume_hang.",
    note="bounded model (<=2 members, <=2 partitions in the exhaustive runs, <=3 in simulation, <=2-3 Consume calls, fault and "
         "trigger budgets 1-2); the real executions are steered from outside (coordinator answers, handler callbacks, driver "
         "calls): interleavings inside consumer_group.go are exercised by real goroutine races but not forced; data plane "
         "healthy; join rounds complete on 'all known members joined', member ids abandoned by a client expire at its next "
         "fresh join; coordinator simulated (own TCP server speaking sarama's codecs); harness + TLC trusted",
    design_ref="6/C07",
)

CLAUSES = {"setup_once_before_claims", "at_most_one_claim_per_partition", "exactly_one_claim_unless_ending",
           "claim_starts_at_committed_or_initial", "cleanup_once_after_claims_returned", "final_commit_after_cleanup",
           "consume_returns_last", "requests_carry_issued_identity", "fenced_member_rejoins_fresh",
           "no_skip_across_sessions", "consume_hang", "close_hang", "consume_panic", "channels_closed_after_close",
           "identity_kept_unless_fenced", "leave_on_close", "heartbeats_until_final_commit", "setup_within_retry_budget", "rebalance_within_retry_budget",
           "sync_plan_complete"}   # sync_plan_complete decides part of C08 (assignments as sent through SyncGroup); vlib reports under C07
SHUTDOWN_CLAUSES = {"consume_hang", "close_hang", "consume_panic", "channels_closed_after_close", "setup_within_retry_budget",
                    "rebalance_within_retry_budget"}
ONLY = ["group_*"]
STRATEGIES = ["range", "roundrobin", "sticky"]

# non-vacuity: broken variants of the model and the clause family each one has to violate
BUGS_QUICK = ["fence_keeps_id_without_budget", "final_commit_one_short", "commit_keeps_stale_coordinator", "setup_fail_blocks_release",
              "hb_stops_before_cleanup", "lookup_loop_ignores_close", "leave_skips_lock", "sync_rebalance_rejoins_at_once"]
BUG_EXPECT = {"claim_fail_no_cancel": "ClaimFailEndsSession", "setup_fail_blocks_release": "SetupFailureReturns",
              "lookup_loop_ignores_close": "SetupFailureReturns"}   # default: NoViolation
BUG_BASE = {"fence_keeps_id_without_budget": "Group.mc.retry.cfg", "final_commit_one_short": "Group.mc.retry.cfg",
            "claim_fail_no_cancel": "Group.mc.retry.cfg", "commit_keeps_stale_coordinator": "Group.mc.retry.cfg",
            "setup_fail_blocks_release": "Group.mc.retry.cfg", "lookup_loop_ignores_close": "Group.mc.retry.cfg",
            "sync_rebalance_rejoins_at_once": "Group.mc.retry.cfg"}   # default: Group.bug.cfg
BUGS_ALL = BUGS_QUICK + ["skip_cleanup", "claim_fail_no_cancel", "keep_member_id", "claim_at_initial", "stale_hb_identity", "skip_setup", "no_final_commit", "cleanup_early", "stale_commit_identity"]


def bug_cfg(ctx, bug):
    src = open(os.path.join(vlib.SPEC, "cfg", BUG_BASE.get(bug, "Group.bug.cfg"))).read()
    p = os.path.join(ctx.scratch, "Group.bug.%s.cfg" % bug)
    with open(p, "w") as f:
        f.write(src.replace('Bug = "none"', 'Bug = "%s"' % bug))
    return p


def oor_cfg(ctx):
    """the constants of Group.oor.cfg with NoViolation as the invariant: has to FAIL (the model reproduces the finding)"""
    src = open(os.path.join(vlib.SPEC, "cfg", "Group.oor.cfg")).read()
    p = os.path.join(ctx.scratch, "Group.oor.noviol.cfg")
    with open(p, "w") as f:
        f.write("\n".join("INVARIANTS NoViolation" if l.startswith("INVARIANTS") else l for l in src.splitlines()) + "\n")
    return p


def model_check(ctx):
    thorough = ctx.tier == "thorough"
    plan = [("Group.mc.one.cfg", 8, 2400), ("Group.mc.two.cfg", 8, 2400), ("Group.oor.cfg", 3, 600),
            ("Group.mc.retry.cfg", 3, 600)] if thorough else \
           [("Group.mc.quick1.cfg", 6, 400), ("Group.mc.quick2.cfg", 3, 400), ("Group.oor.cfg", 3, 400), ("Group.mc.retry.cfg", 3, 400)]
    bugs = BUGS_ALL if thorough else BUGS_QUICK
    with concurrent.futures.ThreadPoolExecutor(max_workers=5) as ex:
        mcf = [ex.submit(ctx.tlc, "Group", cfg, w, tmo, None, None, None, None, None, False, None, None, False, "mc") for cfg, w, tmo in plan]
        bgf = [(b, ex.submit(ctx.tlc, "Group", bug_cfg(ctx, b), 2, 400, None, None, None, None, None, False, None, None, False, "bug")) for b in bugs]
        bgf.append(("committed_out_of_range(known finding)", ex.submit(ctx.tlc, "Group", oor_cfg(ctx), 2, 400, None, None, None, None, None, False, None, None, False, "oor")))
        mcs = [(plan[i][0], f.result()) for i, f in enumerate(mcf)]
        bgs = [(b, f.result()) for b, f in bgf]
    for cfg, r in mcs:
        ctx.need(r, "model checking " + cfg)
        if not r.finished or r.distinct < 1000:
            raise vlib.Inconclusive("model checking %s did not complete" % cfg)
    for b, r in bgs:
        want = BUG_EXPECT.get(b, "NoViolation")
        if r.timed_out or r.error or r.violated != want:
            raise vlib.Inconclusive("non-vacuity self-test: model variant %s did not violate %s (%s)" % (b, want, r.error or r.violated))
    return mcs, bgs


def gen_one(ctx, cfg, workers, sim, seed):
    if sim:
        r = ctx.tlc("Group", cfg, workers=1, timeout=900, simulate="num=%d" % sim, depth=150, seed=seed, name="gen")
        if r.timed_out or (r.error and "CASE" not in r.out) or r.violated:
            ctx.need(r, "scenario generation " + cfg)
            raise vlib.Inconclusive("scenario generation %s failed" % cfg)
    else:
        r = ctx.need(ctx.tlc("Group", cfg, workers=workers, timeout=1200, name="gen"), "scenario generation " + cfg)
    cases = sorted(set(vlib.tla_unquote(raw) for raw in r.printed_raw("CASE")))
    return cases, r


def classes(sc, fine):
    """coverage classes of a scenario: what the stratified sample has to hit"""
    out = set()
    out.add("members=%d" % len(sc["clients"]))
    out.add("rretry=%s/oretry=%s" % (sc.get("rretry"), sc.get("oretry")))
    out.add("init=%d/committed=%s" % (sc["initial"], ",".join("none" if x < 0 else "oor" if x > sc["loglen"] else "in" for x in sc["committed"])))
    for c in sc["clients"]:
        if c["pre"] != "none":
            out.add("pre=" + c["pre"])
        if c["lf"] != "ok":
            out.add("leave=" + c["lf"])
        if c["c"] != "c1":
            out.add("start=" + c["start"])
        for s in c["sess"]:
            t = s["trig"]
            if t["kind"] != "none":
                out.add("trig=%s@%s" % (t["kind"], t["at"]))
                if fine:
                    out.add("trig=%s@%s/%s" % (t["kind"], t["at"], s["h"]["mode"]))
            for name in ("jf", "sf", "cf"):
                for k in s[name]:
                    if k != "ok":
                        out.add("%s=%s" % (name, k))
            if s.get("df", -1) >= 0:
                out.add("df=%d/%s" % (s["df"], s["h"]["mode"]))
            if fine:
                out.add("h=%s/%d/%d" % (s["h"]["mode"], s["h"]["n"], s["h"]["mark"]))
            else:
                out.add("h=%s" % s["h"]["mode"])
    return out


def stratified(cases, rng, per_class, extra, fine):
    """deterministic coverage, seeded representatives: per coverage class `per_class` scenarios, then `extra` more"""
    parsed = [(c, classes(json.loads(c), fine)) for c in cases]
    rng.shuffle(parsed)
    need = {}
    for _, cl in parsed:
        for k in cl:
            need[k] = per_class
    chosen, rest = [], []
    for c, cl in parsed:
        if any(need[k] > 0 for k in cl):
            chosen.append(c)
            for k in cl:
                need[k] -= 1
        else:
            rest.append(c)
    chosen += rest[:extra]
    return chosen


def gen_cases(ctx, out):
    thorough = ctx.tier == "thorough"
    # (cfg, family, TLC workers, simulate num, per-class quota, extra)
    plan = [("Group.gen.life1.cfg", "life1", 4, 0, 1, 8), ("Group.gen.life2.cfg", "life2", 3, 0, 1, 6),
            ("Group.gen.faults.cfg", "faults", 3, 0, 2, 4), ("Group.gen.resume.cfg", "resume", 2, 0, 1, 6),
            ("Group.gen.dfault.cfg", "dfault", 2, 0, 1, 2)]
    if thorough:
        plan = [("Group.gen.life1.cfg", "life1", 4, 0, 6, 300), ("Group.gen.life2.cfg", "life2", 3, 0, 6, 200),
                ("Group.gen.faults.cfg", "faults", 3, 0, 6, 400), ("Group.gen.resume.cfg", "resume", 2, 0, 6, 250),
                ("Group.gen.two.cfg", "two", 8, 0, 6, 700), ("Group.sim.big.cfg", "simbig", 1, 6000, 3, 700),
                ("Group.gen.dfault.cfg", "dfault", 2, 0, 6, 60), ("Group.gen.empty.cfg", "empty", 3, 0, 6, 150)]
    else:
        # (quick leaves the simulated big configuration and the generated empty-assignment family to thorough; the fixed
        # shutdown corpus keeps empty assignments in quick)
        plan += [("Group.gen.twoq.cfg", "two", 6, 0, 1, 10)]
    with concurrent.futures.ThreadPoolExecutor(max_workers=8) as ex:
        futs = [ex.submit(gen_one, ctx, cfg, w, sim, ctx.seed) for cfg, _, w, sim, _, _ in plan]
        res = [f.result() for f in futs]
    rng = random.Random(ctx.seed)
    stats = []
    n = 0
    with open(out, "w") as f:
        for (cfg, fam, _, sim, quota, extra), (cases, r) in zip(plan, res):
            if not cases:
                raise vlib.Inconclusive("no scenarios generated by " + cfg)
            cases = [c for c in cases if '"start":"other"' not in c]
            chosen = stratified(list(cases), rng, quota, extra, thorough)
            for k, c in enumerate(chosen):
                sc = json.loads(c)
                sc["fam"] = fam
                sc["id"] = "%s-%d" % (fam, k)
                sc["strategy"] = STRATEGIES[rng.randrange(3)]
                sc["growat"] = ""
                if fam == "dfault":
                    sc["dfkind"] = ["notleader", "conn"][k % 2]
                f.write(json.dumps(sc, separators=(",", ":")) + "\n")
            n += len(chosen)
            stats.append({"cfg": cfg, "family": fam, "scenarios_generated": len(cases), "replayed": len(chosen),
                          "exhaustive": not sim, "states": r.distinct, "generated": r.generated})
        # fixed reproducer of finding F-C07-stale-commit-blocks-marks (committed offset out of range, marks below it)
        for k, (initial, auto) in enumerate([(-2, "slow"), (-1, "fast")]):
            sc = {"id": "oor-%d" % k, "fam": "oor", "np": 1, "loglen": 2, "logstart": 0, "initial": initial, "auto": auto,
                  "strategy": "range", "committed": [9], "growat": "",
                  "clients": [{"c": "c1", "start": "pre", "pre": "none", "nsess": 2, "lf": "ok",
                               "sess": [{"jf": [], "sf": [], "cf": [], "h": {"mode": "early", "n": 2, "mark": 2}, "trig": {"kind": "none", "at": "pre"}},
                                        {"jf": [], "sf": [], "cf": [], "h": {"mode": "early", "n": 1, "mark": 1}, "trig": {"kind": "none", "at": "pre"}}]}]}
            f.write(json.dumps(sc, separators=(",", ":")) + "\n")
            n += 1
        # close / cancel at every life-cycle point, empty assignment, rebalance, unreachable coordinator, double Close
        for sc in shutdown_scenarios():
            f.write(json.dumps(sc, separators=(",", ":")) + "\n")
            n += 1
        # one partition of the subscribed topic is leaderless in the metadata when the leader balances (C08 on the wire:
        # it still has to be assigned; its claim then fails to start and ends the session - code behaviour, accepted)
        for sc in leaderless_scenarios() + npchange_scenarios() + retry_scenarios() + move_scenarios() + hbkeep_scenarios():
            f.write(json.dumps(sc, separators=(",", ":")) + "\n")
            n += 1
        # partition-count change while a session runs (configuration family, not a model action)
        for k, mode in enumerate(["drain", "ctxwait"]):
            sc = {"id": "grow-%d" % k, "fam": "grow", "np": 1 + k, "loglen": 2, "logstart": 0, "initial": -2, "auto": "slow",
                  "strategy": STRATEGIES[k], "committed": [-1] * (1 + k), "growat": "claim",
                  "clients": [{"c": "c1", "start": "pre", "pre": "none", "nsess": 2, "lf": "ok",
                               "sess": [{"jf": [], "sf": [], "cf": [], "h": {"mode": mode, "n": 1, "mark": 1}, "trig": {"kind": "none", "at": "pre"}},
                                        {"jf": [], "sf": [], "cf": [], "h": {"mode": "early", "n": 1, "mark": 1}, "trig": {"kind": "none", "at": "pre"}}]}]}
            f.write(json.dumps(sc, separators=(",", ":")) + "\n")
            n += 1
    return n, stats


def _sess(mode="drain", n=1, mark=1, trig=("none", "pre"), jf=(), sf=(), cf=(), df=-1):
    return {"jf": list(jf), "sf": list(sf), "cf": list(cf), "df": df, "h": {"mode": mode, "n": n, "mark": mark},
            "trig": {"kind": trig[0], "at": trig[1]}}


def _client(c, sess, start="pre", pre="none", lf="ok", nsess=None):
    return {"c": c, "start": start, "pre": pre, "nsess": len(sess) if nsess is None else nsess, "sess": sess, "lf": lf}


def _scen(sid, clients, np=2, committed=None, **kw):
    sc = {"id": sid, "fam": "shutdown", "np": np, "loglen": 2, "logstart": 0, "initial": -2, "auto": "slow", "strategy": "range",
          "committed": committed or [-1] * np, "growat": "", "nonet": True, "clients": clients}
    sc.update(kw)
    return sc


def shutdown_scenarios():
    """deterministic corpus: Close (without cancelling the context) and cancel at every life-cycle point, a member with an
    empty assignment, Close during a rebalance, unreachable coordinator, double Close, RefreshFrequency=0. In all of them a
    Close-triggered call is never ended by the harness: Consume and Close have to return by themselves."""
    out = []
    for at, mode in [("join", "drain"), ("sync", "drain"), ("setup", "drain"), ("claim", "drain"), ("claim", "ctxwait"), ("cleanup", "early")]:
        out.append(_scen("sd-close-%s-%s" % (at, mode), [_client("c1", [_sess(mode, 1, 1, ("close", at))])]))
    out.append(_scen("sd-close-pre", [_client("c1", [_sess()], pre="close")]))
    out.append(_scen("sd-close-idle", [_client("c1", [_sess("early", 1, 1)])]))
    for at in ("join", "setup", "claim"):
        out.append(_scen("sd-cancel-%s" % at, [_client("c1", [_sess("ctxwait", 1, 1, ("cancel", at))])]))
    # empty assignment: two members, one partition; the member without a claim is closed while blocked in Consume
    out.append(_scen("sd-empty-close", [_client("c1", [_sess("drain", 1, 1), _sess("drain", 1, 1, ("close", "claim"))]),
                                        _client("c2", [_sess("drain", 0, 0, ("close", "claim"))])], np=1))
    out.append(_scen("sd-empty-close-late", [_client("c1", [_sess("drain", 1, 1, ("close", "claim"))]),
                                             _client("c2", [_sess("drain", 0, 0, ("close", "claim"))], start="setup")], np=1))
    out.append(_scen("sd-empty-cancel", [_client("c1", [_sess("drain", 1, 1), _sess("drain", 1, 1, ("close", "claim"))]),
                                         _client("c2", [_sess("drain", 0, 0, ("cancel", "claim"))])], np=1))
    # Close during a rebalance: c2 joins while c1 runs; c1 is closed while it rejoins
    out.append(_scen("sd-close-in-rebalance", [_client("c1", [_sess("drain", 1, 1), _sess("drain", 1, 1, ("close", "join"))]),
                                               _client("c2", [_sess("drain", 1, 1, ("close", "claim"))], start="setup")]))
    out.append(_scen("sd-close-both", [_client("c1", [_sess("drain", 1, 1, ("close", "claim"))]),
                                       _client("c2", [_sess("ctxwait", 1, 1, ("close", "claim"))])]))
    # the coordinator becomes unreachable, then Close
    out.append(_scen("sd-coord-down", [_client("c1", [_sess("drain", 1, 1, ("coord_down_close", "claim"))])]))
    # LeaveGroup fails at close time for a member that had joined: transport error, error codes, coordinator lookup failing.
    # Close returns the error - and the Errors() channel still has to be closed (channels_closed_after_close)
    for k, lf in enumerate(["conn", "notcoord", "illegal", "rebalance", "unknown"]):
        out.append(_scen("sd-leave-%s" % lf, [_client("c1", [_sess("drain", 1, 1, ("close", "claim"))], lf=lf)], returnerrors=(k % 2 == 0)))
    out.append(_scen("sd-leave-notcoord-idle", [_client("c1", [_sess("early", 1, 1)], lf="notcoord")], returnerrors=True))
    out.append(_scen("sd-coord-down-lookup", [_client("c1", [_sess("drain", 1, 1, ("coord_down_close", "claim"))])], lookupfail=True))
    out.append(_scen("sd-coord-down-lookup-errs", [_client("c1", [_sess("drain", 1, 1, ("coord_down_close", "claim"))])], lookupfail=True,
                     returnerrors=True, auto="fast"))
    # session set-up fails after join and sync succeeded (initial OffsetFetch refused for good / dropped, or Setup returns an error):
    # Consume returns the error, the next call works, Close returns - also when Close races with the failing set-up
    ok = _sess("early", 1, 1)
    for kind, at in [("ofetch_fail", "sync"), ("ofetch_fail_conn", "sync"), ("ofetch_fail_load", "sync"), ("setup_error", "setup")]:
        out.append(_scen("sd-%s" % kind, [_client("c1", [_sess("drain", 1, 1, (kind, at)), ok])]))
        out.append(_scen("sd-%s-then-close" % kind, [_client("c1", [_sess("drain", 1, 1, (kind, at))])]))
    for kind, at in [("ofetch_fail_close", "sync"), ("ofetch_fail_load_close", "sync"), ("setup_error_close", "setup")]:
        out.append(_scen("sd-%s" % kind, [_client("c1", [_sess("drain", 1, 1, (kind, at))])]))
    out.append(_scen("sd-setup_error-two", [_client("c1", [_sess("drain", 1, 1, ("setup_error", "setup")), _sess("drain", 1, 1, ("close", "claim"))]),
                                            _client("c2", [_sess("drain", 1, 1), _sess("drain", 1, 1, ("close", "claim"))])]))
    # Close lands while a JoinGroup that carries an EMPTY member id is in flight (the very first join; the rejoin after a fence):
    # the coordinator holds its answer until Close had its chance to run - Close has to wait for Consume and then leave with
    # the id that answer issues
    ok1 = _sess("early", 1, 1)
    out.append(_scen("sd-close-hold-first-join", [_client("c1", [_sess("drain", 1, 1, ("close", "join"))])]))
    out.append(_scen("sd-close-hold-rejoin-syncfence", [_client("c1", [_sess("drain", 1, 1, ("close", "rejoin"), sf=["unknown"])])]))
    out.append(_scen("sd-close-hold-rejoin-joinfence", [_client("c1", [ok1, _sess("drain", 1, 1, ("close", "rejoin"), jf=["unknown"])])]))
    out.append(_scen("sd-close-hold-rejoin-hbfence", [_client("c1", [_sess("drain", 1, 1, ("hb_unknown", "claim")),
                                                                    _sess("drain", 1, 1, ("close", "rejoin"))])]))
    out.append(_scen("sd-close-hold-first-join-two", [_client("c1", [_sess("drain", 1, 1, ("close", "join"))]),
                                                      _client("c2", [_sess("drain", 1, 1, ("close", "claim"))])]))
    # a rebalance that does not settle: EVERY SyncGroup (or JoinGroup) of the call is answered REBALANCE_IN_PROGRESS. Without Close
    # Consume returns the error after Rebalance.Retry.Max + 1 rounds and the next call works; with a big budget and Close at the
    # third refusal the back-off loop has to notice the closed group
    for what in ("sync", "join"):
        for rr in (0, 2):
            out.append(_scen("sd-%s-rebalance-forever-rr%d" % (what, rr),
                             [_client("c1", [_sess("drain", 1, 1, ("%s_rebalance_forever" % what, "join")), ok1])], rretry=rr))
        out.append(_scen("sd-%s-rebalance-forever-close" % what,
                         [_client("c1", [_sess("drain", 1, 1, ("%s_rebalance_forever_close" % what, "join"))])], rretry=20))
    # the coordinator cannot be found (from the start / after a NOT_COORDINATOR answer to JoinGroup): Consume keeps looking it
    # up; Close during that retry loop has to end it
    out.append(_scen("sd-nocoord-close", [_client("c1", [_sess("drain", 1, 1, ("nocoord_close", "join"))])]))
    out.append(_scen("sd-nocoord-close-rr1", [_client("c1", [_sess("drain", 1, 1, ("nocoord_close", "join"))])], rretry=1))
    out.append(_scen("sd-nocoord-late-close", [_client("c1", [_sess("drain", 1, 1, ("nocoord_late_close", "join"), jf=["notcoord"])])]))
    out.append(_scen("sd-nocoord-late-close-2nd", [_client("c1", [_sess("early", 1, 1), _sess("drain", 1, 1, ("nocoord_late_close", "join"), jf=["notcoord"])])]))
    # double Close of the group
    out.append(_scen("sd-double-close", [_client("c1", [_sess("drain", 1, 1, ("close", "claim"))])], dclose=True))
    out.append(_scen("sd-double-close-idle", [_client("c1", [_sess("early", 1, 1)])], dclose=True))
    # background metadata refresh disabled
    out.append(_scen("sd-refresh0-close", [_client("c1", [_sess("drain", 1, 1, ("close", "claim"))])], refresh0=True))
    out.append(_scen("sd-refresh0-empty-close", [_client("c1", [_sess("drain", 1, 1), _sess("drain", 1, 1, ("close", "claim"))]),
                                                 _client("c2", [_sess("drain", 0, 0, ("close", "claim"))])], np=1, refresh0=True))
    return out


def retry_scenarios():
    """configuration family: Consumer.Group.Rebalance.Retry.Max in {0,1,2} with retriable join / sync answers consuming exactly the
    budget before a fence (UNKNOWN_MEMBER_ID on sync, on join, or on a heartbeat followed by the refused rejoin), and
    Consumer.Offsets.Retry.Max in {0,1,3} with 0..N (and N+1 for N<=1) retriable failures of the final commit."""
    out = []
    kinds = ["rebalance", "notcoord"]
    ok = _sess("early", 1, 1)
    for rr in (0, 1, 2):
        burn = [kinds[(rr + i) % 2] for i in range(rr)]
        fam = [("syncfence-s", [_sess("early", 1, 1, sf=burn + ["unknown"]), ok, ok]),
               ("syncfence-j", [_sess("early", 1, 1, jf=burn + ["ok"], sf=["unknown"]), ok, ok]),
               ("joinfence", [ok, _sess("early", 1, 1, jf=burn + ["unknown"]), ok]),
               ("hbfence", [_sess("drain", 1, 1, ("hb_unknown", "claim")), _sess("early", 1, 1, jf=burn), ok])]
        for name, sess in fam:
            sc = _scen("retry-rr%d-%s" % (rr, name), [_client("c1", sess)], np=1, rretry=rr, nonet=False)
            sc["fam"] = "retry"
            out.append(sc)
    for orr in (0, 1, 3):
        for fails in range(0, orr + 2 if orr <= 1 else orr + 1):
            cf = [kinds[(orr + i) % 2] for i in range(fails)]
            sc = _scen("retry-or%d-fail%d" % (orr, fails), [_client("c1", [_sess("early", 2, 2, cf=cf), _sess("early", 1, 1)])], np=1,
                       loglen=3, oretry=orr, nonet=False)
            sc["fam"] = "retry"
            out.append(sc)
    return out


def hbkeep_scenarios():
    """release order: heartbeats stop only after Cleanup and the final commit. The simulated coordinator ENFORCES a short session
    timeout (400 ms, heartbeat interval 50 ms); Cleanup is long, measured in the member's own heartbeats (it returns after three
    more of them reached the coordinator, or when a load-aware bound of 3x the session timeout expires); sessions end by the
    handler, a cancel or Close - never by a heartbeat answer; some final commits need retries."""
    def slow(s):
        s["h"]["slow"] = True
        return s
    out = []
    ok = _sess("early", 1, 1)
    first = [("early", slow(_sess("early", 1, 1)), {}),
             ("cancel", slow(_sess("drain", 1, 1, ("cancel", "claim"))), {}),
             ("close", slow(_sess("drain", 1, 1, ("close", "claim"))), {}),
             ("retries", slow(_sess("early", 2, 2, cf=["rebalance", "rebalance"])), {"oretry": 3}),
             ("fast", slow(_sess("early", 2, 2)), {"auto": "fast"})]
    for name, s1, kw in first:
        sc = _scen("hbkeep-%s" % name, [_client("c1", [s1, slow(dict(ok, h=dict(ok["h"]))), ok])], np=2, loglen=3, sessto=400, nonet=False, **kw)
        sc["fam"] = "hbkeep"
        out.append(sc)
    return out


def move_scenarios():
    """the group's coordinator migrates to the other broker (group state incl. committed offsets moves along) while a session runs
    with marks pending; the session ends by the NOT_COORDINATOR heartbeat or by an application cancel right after the move"""
    out = []
    ok = _sess("early", 1, 1)
    one = [("claim-slow", _sess("drain", 1, 1, ("coord_move", "claim")), {}),
           ("claim-fast", _sess("drain", 2, 2, ("coord_move", "claim")), {"auto": "fast"}),
           ("claim-cancel", _sess("drain", 1, 1, ("coord_move_cancel", "claim")), {}),
           ("claim-ctxwait", _sess("ctxwait", 1, 1, ("coord_move", "claim")), {}),
           ("setup", _sess("early", 1, 1, ("coord_move", "setup")), {}),
           ("claim-or1", _sess("drain", 1, 1, ("coord_move", "claim")), {"oretry": 1}),
           ("claim-or0", _sess("drain", 1, 1, ("coord_move_cancel", "claim")), {"oretry": 0}),
           ("claim-rr1", _sess("early", 1, 0, ("coord_move", "claim")), {"rretry": 1})]
    for name, first, kw in one:
        sc = _scen("move-%s" % name, [_client("c1", [first, ok, ok])], np=2, loglen=3, nonet=False, **kw)
        sc["fam"] = "move"
        out.append(sc)
    sc = _scen("move-two", [_client("c1", [_sess("drain", 1, 1, ("coord_move", "claim")), ok]),
                            _client("c2", [_sess("drain", 1, 1), ok])], np=2, loglen=3, nonet=False)
    sc["fam"] = "move"
    out.append(sc)
    return out


def npchange_scenarios():
    """the partition count of the subscribed topic changes between two generations (expanded 3 -> 5; re-created 3 -> 2) right
    after c1's first Consume call returned: the leader's next plan must be complete w.r.t. the metadata the cluster serves
    at the time of the join (no background refresh: Metadata.RefreshFrequency stays at 10 minutes)"""
    out = []
    for members in (1, 2):
        for strat in STRATEGIES:
            for name, npthen in (("grow", 5), ("shrink", 2)):
                clients = [_client("c%d" % (i + 1), [_sess("early", 1, 1), _sess("early", 1, 1)]) for i in range(members)]
                sc = _scen("npchange-%s-%d-%s" % (name, members, strat), clients, np=3, strategy=strat, npthen=npthen, nonet=False)
                sc["fam"] = "npchange"
                out.append(sc)
    return out


def leaderless_scenarios():
    out = []
    k = 0
    for members in (1, 2, 3):
        for strat in STRATEGIES:
            lp = (members + k) % 3
            clients = [_client("c%d" % (i + 1), [_sess("drain", 1, 1), _sess("drain", 1, 1)]) for i in range(members)]
            sc = _scen("leaderless-%d-%s-p%d" % (members, strat, lp), clients, np=3, strategy=strat, leaderless=lp, nonet=False)
            sc["fam"] = "leaderless"
            out.append(sc)
            k += 1
    return out


def collect(ctx, rs, trace, ncases):
    """STATS / VIOL of all shards + cause-level features of every violation"""
    allv = []
    stats = {}
    for r in rs:
        ctx.need(r, "trace validation")
        st = r.printed("STATS")
        if len(st) != 1 or len(r.printed("VIOL")) != 1:
            raise vlib.Inconclusive("trace validation did not reach the end of a shard (no STATS/VIOL line)")
        for k, v in st[0].items():
            stats[k] = stats.get(k, 0) + v
        allv += vlib.trace_viols(r)
    if stats.get("traces", 0) != ncases:
        raise vlib.Inconclusive("trace validation evaluated %d executions, harness recorded %d" % (stats.get("traces", 0), ncases))
    # a client left in a healthy session is collateral of another client's hang; alone it means the script stalled
    hung = {v["trace"] for v in allv if v["clause"] in ("consume_hang", "close_hang", "channels_closed_after_close")}
    flagged = {v["trace"] for v in allv if v["clause"] != "scenario_stalled"}   # a stall explained by another violation
    stalled = [v for v in allv if v["clause"] == "scenario_stalled" and v["trace"] not in hung and v["trace"] not in flagged]
    if stalled:
        raise vlib.Inconclusive("scenario stalled without a hang of the code under test (script / harness problem): %s" % stalled[:3])
    allv = [v for v in allv if v["clause"] != "scenario_stalled"]
    unknown = [v for v in allv if v["clause"] not in CLAUSES]
    if unknown:
        raise vlib.Inconclusive("observer reported an unknown clause: %s" % unknown[:3])
    viols = []
    if allv:
        events = {}
        want = {v["trace"] for v in allv}
        for e in vlib.read_ndjson(trace):
            if e["t"] in want:
                events.setdefault(e["t"], []).append(e)
        for v in allv:
            evs = events.get(v["trace"], [])
            head = evs[0] if evs else {}
            e = next((x for x in evs if x["i"] == v["index"]), {})
            before = [x for x in evs if x["i"] <= v["index"]]
            c = e.get("c")
            mine = [x for x in before if x.get("c") == c]
            cause = None
            if v["clause"] == "final_commit_after_cleanup":
                cause = final_commit_cause(head, mine)
            setups = [x for x in mine if x.get("ev") == "setup"]
            v["features"] = {
                "cause": cause,
                "refresh0": bool(head.get("refresh0")),
                "close_called": any(x.get("ev") == "close_call" for x in mine),
                "cancelled": any(x.get("ev") == "cancel" for x in mine),
                "claim_failed": any(x.get("ev") == "claim_fail" for x in mine),
                "claims_empty": bool(setups) and setups[-1].get("claims") == [],
                "scenario": head.get("id"), "family": head.get("fam"), "members": head.get("members"), "auto": head.get("auto"),
                "strategy": head.get("strategy"), "initial": head.get("initial"),
                "reported_for": "C08" if v["clause"] == "sync_plan_complete" else "C07",
                "plan": e.get("plan"), "parts": e.get("parts"), "plan_strategy": e.get("strategy"), "leaderless": head.get("leaderless"),
                "event": e.get("ev"), "client": c, "err": e.get("err"), "what": e.get("what"), "site": e.get("site"),
                "last_answer_errors": [x.get("err") for x in mine if x.get("ev") in ("join_resp", "sync_resp", "hb", "commit", "leave") and x.get("err") != "ok"][-3:],
                "history": [{k: x[k] for k in x if k != "t"} for x in before if x.get("ev") != "hb" or x.get("err") != "ok"][-14:],
            }
            viols.append(v)
    return viols, stats


def replay(ctx, cases, ncases, nproc, timeout, name):
    rc, out, trace, sums = ctx.go_test_parallel("^TestVerifGroup$", cases, nproc=nproc, timeout=timeout, name=name, only=ONLY)
    ctx.need_go(rc, out, "consumer group replay")
    if not trace or not os.path.exists(trace):
        raise vlib.Inconclusive("harness produced no trace")
    fails = [h for s in sums for h in (s.get("setup_failures") or [])]
    simerrs = [h for s in sums for h in (s.get("sim_errors") or [])]
    if fails:
        raise vlib.Inconclusive("scenario setup failed: %s" % fails[:2])
    if simerrs:
        raise vlib.Inconclusive("simulated cluster reported an internal error: %s" % simerrs[:2])
    executed = {}
    for s in sums:
        for k, v in (s.get("cases") or {}).items():
            executed[k] = executed.get(k, 0) + v
    if sum(executed.values()) != ncases:
        raise vlib.Inconclusive("harness executed %d of %d scenarios" % (sum(executed.values()), ncases))
    return trace, sums, executed


def shutdown_family(ctx):
    """for C12 (shutdown always completes): only the close / cancel-at-every-point corpus of shutdown_scenarios() on the real
    consumer group, judged by spec/GroupTrace.tla. Returns (violations restricted to the hang / panic clauses with their
    features, stats dict, trace path)."""
    cases = os.path.join(ctx.scratch, "c07_shutdown_cases.ndjson")
    scs = shutdown_scenarios()
    with open(cases, "w") as f:
        for sc in scs:
            f.write(json.dumps(sc, separators=(",", ":")) + "\n")
    trace, sums, executed = replay(ctx, cases, len(scs), 8, 400, "grpsd")
    rs = ctx.tlc_trace("GroupTrace", "GroupTrace.cfg", trace, shards=2, timeout=600, name="grpsdtrace")
    viols, stats = collect(ctx, rs, trace, len(scs))
    viols = [v for v in viols if v["clause"] in SHUTDOWN_CLAUSES]
    evs = vlib.read_ndjson(trace)
    stats = dict(stats)
    stats.update({"scenarios": len(scs), "close_calls": sum(1 for e in evs if e["ev"] == "close_call"),
                  "close_returns": sum(1 for e in evs if e["ev"] == "close_ret"),
                  "consume_returns": sum(1 for e in evs if e["ev"] == "consume_ret"),
                  "cancels": sum(1 for e in evs if e["ev"] == "cancel"),
                  "errors_channels_closed": sum(1 for e in evs if e["ev"] == "errors_closed"),
                  "close_returned_error": sum(1 for e in evs if e["ev"] == "close_ret" and e.get("err")),
                  "scenario_ids": [sc["id"] for sc in scs]})
    return viols, stats, trace


def plan_family(ctx):
    """for C08 (every plan handed out through SyncGroup is valid and complete): the leaderless corpus and the partition-count
    change corpus on the real consumer group - the partition list the group leader feeds the strategy must contain every
    partition the cluster's metadata lists at the time of the join, also the ones without a leader, and no other. Returns (violations of sync_plan_complete, stats dict, trace path)."""
    cases = os.path.join(ctx.scratch, "c07_plan_cases.ndjson")
    scs = leaderless_scenarios() + npchange_scenarios()
    with open(cases, "w") as f:
        for sc in scs:
            f.write(json.dumps(sc, separators=(",", ":")) + "\n")
    trace, sums, executed = replay(ctx, cases, len(scs), 8, 400, "grpplan")
    rs = ctx.tlc_trace("GroupTrace", "GroupTrace.cfg", trace, shards=2, timeout=600, name="grpplantrace")
    viols, stats = collect(ctx, rs, trace, len(scs))
    viols = [v for v in viols if v["clause"] == "sync_plan_complete"]
    evs = vlib.read_ndjson(trace)
    stats = {"scenarios": len(scs), "sync_plans_checked": sum(1 for e in evs if e["ev"] == "sync_plan"),
             "scenario_ids": [sc["id"] for sc in scs]}
    return viols, stats, trace


def final_commit_cause(head, mine):
    """why the highest mark of a partition was not carried by a commit: names the known cause when, for EVERY partition
    whose highest mark stayed uncommitted, the committed offset fetched for this session was out of range and no mark
    exceeded it (MarkOffset ignores offsets that are not above the offset manager's current one)"""
    k = max([i for i, x in enumerate(mine) if x["ev"] == "consume_call"] or [0])
    call = mine[k:]
    fetched, marks, carried, cleanup = {}, {}, {}, False
    for x in call:
        if x["ev"] == "ofetch":
            fetched[x["p"]] = x["off"]
        elif x["ev"] == "mark":
            marks.setdefault(x["p"], []).append(x["off"])
        elif x["ev"] == "cleanup":
            cleanup = True
        elif x["ev"] == "commit" and x.get("applied"):
            for p, off in x["blocks"]:
                carried.setdefault(p, set()).add(off)
    missing = [p for p, ms in marks.items() if max(ms) not in carried.get(p, set())]
    if not missing:
        return "none"
    lo, hi = head.get("logstart", 0), head.get("loglen", 0)
    for p in missing:
        f = fetched.get(p)
        if f is None or f < 0 or lo <= f <= hi or max(marks[p]) > f:
            return "other"
    return "marks_not_above_stale_out_of_range_commit"


def refresh0_family(ctx, trace, started=None):
    """configuration family Metadata.RefreshFrequency=0 in a process of its own (the code may crash the process from a
    goroutine without recover). The harness writes its events unbuffered; when the process died, the `panic` event is
    added here from the process output. The scenario is appended to the merged trace as one more execution."""
    # (started: the go test run launched at the very beginning of the check - it also warms the build cache for the main replay)
    rc, out, outdir = started.result() if started else ctx.go_test("^TestVerifGroupRefresh0$", timeout=180, name="r0", only=ONLY)
    if "[build failed]" in out or "[setup failed]" in out:
        ctx.need_go(rc, out, "refresh0 family")
    p = os.path.join(outdir, "trace_r0.ndjson")
    evs = vlib.read_ndjson(p) if os.path.exists(p) else []
    if not evs or evs[0].get("ev") != "reset":
        raise vlib.Inconclusive("refresh0 family: the scenario did not start (rc=%d)\n%s" % (rc, "\n".join(out.splitlines()[-20:])))
    crashed = None
    if rc != 0:
        m = re.search(r"^(panic: .*|fatal error: .*)$", out, re.M)
        if not m or evs[-1].get("ev") == "done":
            raise vlib.Inconclusive("refresh0 family: harness failed without a crash of the code under test (rc=%d)\n%s"
                                    % (rc, "\n".join(out.splitlines()[-20:])))
        fr = re.search(r"^github\.com/Shopify/sarama\.(\S+?)\(", out[m.end():], re.M)
        crashed = {"what": m.group(1)[:160], "site": fr.group(1) if fr else "?"}
        evs.append({"t": 1, "i": evs[-1]["i"] + 1, "ev": "panic", "c": "c1", "what": crashed["what"], "site": crashed["site"]})
    with open(trace) as f:
        lines = [l for l in f if l.strip()]
    end = json.loads(lines[-1])
    if end.get("ev") != "end":
        raise vlib.Inconclusive("merged trace has no end event")
    t = end["t"]
    with open(trace, "w") as f:
        f.writelines(lines[:-1])
        for e in evs:
            e = dict(e)
            e["t"] = t
            head = {"t": t, "i": e.pop("i"), "ev": e.pop("ev")}
            e.pop("t")
            head.update(e)
            f.write(json.dumps(head, separators=(",", ":")) + "\n")
        f.write('{"t":%d,"i":1,"ev":"end"}\n' % (t + 1))
    return crashed


def run(ctx):
    thorough = ctx.tier == "thorough"
    with concurrent.futures.ThreadPoolExecutor(max_workers=2) as ex:
        r0f = ex.submit(ctx.go_test, "^TestVerifGroupRefresh0$", ".", None, 180, "r0", False, ONLY)
        mcf = ex.submit(model_check, ctx)
        cases = os.path.join(ctx.scratch, "cases.ndjson")
        t0 = time.time()
        ncases, gstats = gen_cases(ctx, cases)
        t1 = time.time()
        trace, sums, executed = replay(ctx, cases, ncases, 10 if thorough else 8, 2400 if thorough else 400, "grp")
        t2 = time.time()
        nevents = sum(s.get("events", 0) for s in sums)
        r0 = refresh0_family(ctx, trace, r0f)
        ncases += 1
        executed["refresh0"] = 1
        rs = ctx.tlc_trace("GroupTrace", "GroupTrace.cfg", trace, shards=10 if thorough else 4, timeout=1500)
        t3 = time.time()
        mcs, bgs = mcf.result()
        ctx.say("C07 phases: generation %.1fs (%d scenarios), replay on real code %.1fs, trace validation %.1fs, model checking %s "
                "(ran concurrently)" % (t1 - t0, ncases, t2 - t1, t3 - t2,
                                        ", ".join("%s %d states %.0fs" % (c, r.distinct, r.wall) for c, r in mcs)))
    viols, stats = collect(ctx, rs, trace, ncases)
    samples = []
    for s in sums:
        samples += s.get("samples") or []
    cov = {
        "states": sum(r.distinct for _, r in mcs) + sum(r.distinct for _, r in bgs) + sum(g["states"] for g in gstats),
        "transitions": sum(r.generated for _, r in mcs) + sum(r.generated for _, r in bgs) + sum(g["generated"] for g in gstats),
        "traces_validated_against_impl": stats["traces"],
        "samples": samples[:3],
        "model_runs": [{"cfg": c, "states": r.distinct, "transitions": r.generated, "depth": r.depth} for c, r in mcs],
        "nonvacuity_selftest": {b: "violates %s after %d states" % (r.violated, r.distinct) for b, r in bgs},
        "scenario_families": gstats,
        "executions_by_family": executed,
        "events_recorded": nevents,
        "observer_stats": stats,
        "clauses": sorted(CLAUSES),
        "exhaustive": True,
        "explanation": "exhaustive TLC runs of the group model composed with the observer (NoViolation + pc invariants); every scenario "
                       "of the small families is enumerated by TLC and a stratified seeded sample (every trigger kind x steering point, "
                       "every answer class per request type, every handler behaviour at least once) plus seeded simulations of the big "
                       "configuration are executed on real consumer groups; TLC evaluated the clauses on %d executions: %d Consume calls, "
                       "%d sessions, %d ConsumeClaim calls (%d with a committed start offset), %d partitions that took the quick exit, "
                       "%d records, %d group requests (%d answered with an error or dropped), %d commit requests after Cleanup, "
                       "%d rejoins after UNKNOWN_MEMBER_ID"
                       % (stats["traces"], stats["consume_calls"], stats["sessions"], stats["claims"], stats["start_checks_committed"],
                          stats["quick_exits"], stats["msgs"], stats["requests"], stats["faulty_answers"], stats["commits_after_cleanup"],
                          stats["fenced_rejoins"]),
    }
    return vlib.finish(ctx, "model_checking", cov, viols,
                       ["data plane healthy (metadata, ListOffsets, Fetch, OffsetFetch always answered correctly; static log per partition)",
                        "a partition without a ConsumeClaim call is accepted when a session-ending trigger (context cancel, Close, a non-OK "
                        "heartbeat answer or more lost heartbeats than the retry budget, a claim return, a partition-count change) was logged "
                        "before Cleanup",
                        "final commit: the highest mark of each claimed partition must be carried by a commit request after Cleanup unless "
                        "the coordinator had already stored it; the request only has to be SENT (the coordinator may reject or drop it)",
                        "sync / heartbeat / commit requests must carry the identity of the client's latest successful JoinGroup answer",
                        "fenced_member_rejoins_fresh is evaluated after UNKNOWN_MEMBER_ID answers to JoinGroup / SyncGroup (after a fenced "
                        "heartbeat the code rejoins with the stale id once, is refused, and then rejoins fresh - accepted)",
                        "join rounds of the simulated coordinator complete when all known members have joined; ids a client abandoned "
                        "expire at its next fresh join and when the client is gone (emulates the session timeout)",
                        "data-plane fault family: ListOffsets for one assigned partition fails (NOT_LEADER / connection loss) for a whole "
                        "Consume call: the claim cannot start, which is logged (claim_fail) and accepted as a session-ending trigger; the "
                        "call must end by itself (no safety-net cancel in this family nor after Close was called)",
                        "sync_plan_complete (property C08, reported here): every accepted SyncGroup request of the group leader is compared with "
                        "the partitions the simulated cluster's metadata lists for the subscribed topic (leaderless ones included)",
                        "identity_kept_unless_fenced / leave_on_close: an UNKNOWN_MEMBER_ID or ILLEGAL_GENERATION answer to any request since "
                        "the last successful join (the code drops the id on both for join / sync) lifts the requirement; leave_on_close "
                        "needs a reachable coordinator",
                        "coordinator migration: the old broker answers NOT_COORDINATOR to every group request, the group state moves along; "
                        "with Offsets.Retry.Max >= 1 a final-commit attempt refused by the old broker must be followed by one to the new one",
                        "heartbeats_until_final_commit: timing-free - a long Cleanup waits for three heartbeats of its own member; the clause "
                        "fails only when its load-aware bound (3x the session timeout, expiring only if the process had the CPU) ran out "
                        "without a single heartbeat although no heartbeat answer had ended the loop; the enforced session timeout of the "
                        "simulated coordinator (eviction -> UNKNOWN_MEMBER_ID) is environment behaviour, never a verdict by itself",
                        "hangs are reported by a quiescence-aware watchdog (vAwait): only when the process is fully blocked",
                        "Consumer.Return.Errors=false",
                        "model bounds: <=2 members, 2 partitions (3 in simulation), log of 2-3 records, <=3 Consume calls, fault/trigger budgets <=2"],
                       save={"trace.ndjson": trace, "cases.ndjson": cases})
