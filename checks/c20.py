"""C20: the sarama mocks replay scripted expectations faithfully and report deviations.

spec/Mocks.tla (producer mocks) and spec/MocksCons.tla (consumer mock) are model-checked exhaustively
by TLC with the property's clauses as invariants; the same runs emit every behaviour (producer: every
operation sequence, consumer: every transition of the state graph / every path) as a case; the Go
harness (harness/mocks/mocks_test.go) replays each case on the REAL mocks; spec/MocksTrace.tla
evaluates the clauses on what the real code did."""
import concurrent.futures
import json
import os
import vlib

META = dict(
    level="model_checking",
    engine="Mocks",
    technique="TLA+ state machines of the producer mocks (expectation FIFO, offset counter, partitioners over TopicConfig, "
              "ErrorReporter; spec/Mocks.tla) and of the consumer mock (spec/MocksCons.tla) model-checked by TLC with the C20 "
              "clauses as invariants; every behaviour TLC enumerates is replayed on the real mocks and the recorded outcomes, "
              "partitions, offsets, high-water marks and ErrorReporter calls are validated by TLC (spec/MocksTrace.tla)",
    text="TLC enumerates every expectation script of length <=4 over {succeed, fail, passing/failing checker x succeed/fail} "
         "with 0..5 submitted messages for the async and the sync producer mock, every interleaving of Expect/Send/SendMessages/"
         "Close for scripts <=3, every manual/hash/round-robin partitioner configuration over 1..3 configured partitions and two "
         "topics, Return.Successes off, concurrent senders (i-th received message takes the i-th expectation), and for the consumer "
         "mock every transition of its state graph to depth 6 (two partitions + an unexpected one, yields of messages/errors, "
         "drain expectations, every close order, high-water marks) plus all paths to depth 3, two topics x two partitions with "
         "the complete Consumer.HighWaterMarks() map compared after every step, SetTopicMetadata/Topics/Partitions sequences, and "
         "messages whose partitioning fails (SendMessage, SendMessages, async input: the message still uses up its expectation). "
         "The AsyncClose-then-drain shutdown of the async mock is an op of its own (every report due must have been made when "
         "Successes()/Errors() are observed closed; the reporter is slowed so the order is observable), and the consumer mock is "
         "also fed from a goroutine through 0/1/2 buffer slots with the high-water marks read while the feeder is blocked. Each behaviour is executed on the "
         "real mocks with a recording ErrorReporter; TLC checks per message: outcome of the i-th expectation, exactly one outcome, "
         "increasing offsets, partition choice, and at every step of the scripted run the exact number of ErrorReporter calls "
         "the situation calls for (with their structured arguments).",
    note="bounded enumeration (thorough: scripts <=5 / 0..6 messages, interleavings with 6 kinds / 4 messages / batches of 2-3, all "
         "partition-count combinations with Return.Successes on/off, consumer graph to depth 8 with 3 messages + 2 errors per "
         "partition and all paths to depth 4); reporter calls judged by when (which step) and how often the mock "
         "called Errorf and by the argument values passed, never by the wording; returned errors by identity; producer offsets only required to increase; "
         "harness + TLC trusted. Two defects of the pinned mocks are listed in known_findings.json.",
    design_ref="6/C20",
)

QUICK = dict(
    prod=[("Mocks.fifo.cfg", "fifo"), ("Mocks.inter.cfg", "interleaved"), ("Mocks.part.cfg", "partitioner"), ("Mocks.topics.cfg", "topic_config"), ("Mocks.perr.cfg", "partitioner_error"), ("Mocks.aclose.cfg", "async_close_drain"), ("Mocks.rets.cfg", "return_successes_off")],
    cons=[("MocksCons.edges.cfg", "consumer_edges", 1), ("MocksCons.paths.cfg", "consumer_paths", 4),
          ("MocksCons.topics.cfg", "consumer_topics", 1), ("MocksCons.meta.cfg", "consumer_metadata", 2),
          ("MocksCons.feed.cfg", "consumer_feeder", 1)],
)
THOROUGH = dict(
    prod=[("Mocks.fifobig.cfg", "fifo"), ("Mocks.interbig.cfg", "interleaved"), ("Mocks.partbig.cfg", "partitioner"), ("Mocks.topicsbig.cfg", "topic_config"), ("Mocks.perr.cfg", "partitioner_error"), ("Mocks.aclose.cfg", "async_close_drain"), ("Mocks.rets.cfg", "return_successes_off")],
    cons=[("MocksCons.edgesbig.cfg", "consumer_edges", 1), ("MocksCons.pathsbig.cfg", "consumer_paths", 4),
          ("MocksCons.topicsbig.cfg", "consumer_topics", 1), ("MocksCons.metabig.cfg", "consumer_metadata", 2),
          ("MocksCons.feed.cfg", "consumer_feeder", 1)],
)

CLAUSES = {"fifo_outcome", "exactly_one_outcome", "unexpected_input_outcome", "offsets_increasing", "partition_choice",
           "sync_return_partition", "checker_called", "deviation_not_reported", "unexpected_report", "report_arguments", "report_after_completion", "consume_result", "metadata_result",
           "yield_order", "consecutive_offsets", "message_partition", "error_order", "high_water_mark", "no_hang_or_panic"}


def generate(ctx):
    """roles 1+2: exhaustive TLC runs (clauses as invariants) that also print every case"""
    plan = THOROUGH if ctx.tier == "thorough" else QUICK
    jobs = []
    big = ctx.tier == "thorough"
    for cfg, fam in plan["prod"]:
        jobs.append(("Mocks", cfg, fam, 8 if big else 4))
    for cfg, fam, w in plan["cons"]:
        jobs.append(("MocksCons", cfg, fam, w))

    def one(job):
        mod, cfg, fam, w = job
        r = ctx.tlc(mod, cfg, workers=w, timeout=1500 if big else 300, name="gen-" + fam, extra=["-noGenerateSpecTE"],
                    heap="6g" if big else None)
        return job, r
    res = {}
    with concurrent.futures.ThreadPoolExecutor(max_workers=3 if big else 6) as ex:
        for job, r in ex.map(one, jobs):
            ctx.need(r, "model checking / case generation " + job[1])
            if not r.finished:
                raise vlib.Inconclusive("TLC did not finish " + job[1])
            seen, cases = set(), []
            for raw in r.printed_raw("CASE"):
                if raw not in seen:      # a random partition choice branches the model, not the case
                    seen.add(raw)
                    cases.append(vlib.tla_unquote(raw))
            if not cases:
                raise vlib.Inconclusive("no cases generated by " + job[1])
            res[job[2]] = dict(cfg=job[1], cases=cases, states=r.distinct, generated=r.generated, depth=r.depth, wall=round(r.wall, 1))
    return res


def quirk_runs(ctx):
    """role 1 on the model of the pinned code as it is: TLC must find both documented counterexamples"""
    out = {}
    for cfg, inv in (("Mocks.quirkasync.cfg", "ExactlyOneOutcome"), ("Mocks.quirksync.cfg", "OutcomeCarriesPartition")):
        r = ctx.tlc("Mocks", cfg, workers=1, timeout=120, name="quirk", extra=["-noGenerateSpecTE"])
        ctx.need(r, "pinned-code model " + cfg, allow_violation=True)
        out[cfg] = dict(violated=r.violated, states=r.distinct, generated=r.generated)
        if r.violated != inv:
            raise vlib.Inconclusive("%s: expected TLC to find a violation of %s in the as-is model, got %s" % (cfg, inv, r.violated))
    return out


def conc_selection(ctx, fifo_cases):
    """concurrent-sender family: fifo cases (expectations first) with >= 2 messages"""
    sel = []
    for line in fifo_cases:
        c = json.loads(line)
        ne = sum(1 for o in c["ops"] if o["op"] == "expect")
        ns = sum(1 for o in c["ops"] if o["op"] == "send")
        if ns < 2 or ne < 1:
            continue
        if ctx.tier != "thorough" and (ne > 3 or ns > 4):
            continue
        if ctx.tier == "thorough" and ne > 4:
            continue
        sel.append(line)
    return sel


def err_class(e):
    if e.startswith("c") and e[1:].isdigit():
        return "checker"
    if e.startswith("e") and e[1:].isdigit():
        return "scripted"
    return e


def features(trace_events, v):
    """cause-level features of a violation, read off the recorded trace (never a seed or a case number)"""
    evs = trace_events
    reset = evs[0]
    ev = next((e for e in evs if e["i"] == v["index"]), {})
    f = {"component": "consumer" if reset.get("what") == "cons" else "producer", "event": ev.get("ev")}
    if f["component"] == "consumer":
        f.update({k: ev.get(k) for k in ("op", "p", "off", "ret", "val", "errs", "hwm", "rep", "reptxt", "err") if k in ev})
        f["ops"] = ["%s(%s)" % (e.get("op"), e.get("p")) for e in evs if e.get("ev") == "cop"][:12]
        f["reports"] = [r for e in evs for r in e.get("rep", [])]
        return f
    f.update(mode=reset.get("mode"), partitioner=reset.get("pk"), concurrent=reset.get("conc"), return_successes=reset.get("rets"))
    kinds = list(reset.get("script", [])) + [e["kind"] for e in evs if e.get("ev") == "expect"]
    f["script"] = kinds
    if ev.get("ev") == "send":
        mid = ev["mid"]
        # which expectation did this message take (features only; the verdict is TLC's)
        pending, took = [(k + 1, kind) for k, kind in enumerate(reset.get("script", []))], None
        n = len(pending)
        for e in evs:
            if e["i"] > ev["i"]:
                break
            if e["ev"] == "expect":
                n += 1
                pending.append((n, e["kind"]))
            elif e["ev"] == "send":
                took = pending.pop(0) if pending else None
            elif e["ev"] == "batch" and len(pending) >= e["n"]:
                del pending[:e["n"]]
        outs = [o for e in evs if e.get("ev") in ("send", "close") for o in e.get("outs", []) if o[0] == mid]
        f["exp_kind"] = took[1] if took else "-"
        f["outcomes"] = sorted(o[1] + (":" + err_class(o[2]) if o[1] == "err" else "") for o in outs)
        f["msg_partition"] = ev.get("mp")
        f["partitioner_said"] = ev.get("pcall", [-1, -1])[1]
        f["msg"] = {k: ev.get(k) for k in ("topic", "key", "mpart")}
        if took and reset.get("mode") == "async" and took[1] in ("XS", "XF"):
            want = sorted(["err:checker", "succ" if took[1] == "XS" else "err:scripted"])
            ids_ok = all(o[1] == "succ" or o[2] in ("c%d" % took[0], "e%d" % took[0]) for o in outs)
            if f["outcomes"] == want and ids_ok:
                f["cause"] = "scripted_result_after_checker_error"
        if reset.get("mode") == "sync" and outs:
            f["returned_partition"] = outs[0][4]
            f["msg_partition_is_partitioners_choice"] = ev.get("mp") == ev.get("pcall", [-1, -1])[1]
    elif ev.get("ev") == "csend":
        f["order"] = ev.get("order")
        f["outs"] = ev.get("outs")
        f["rep"] = ev.get("rep")
    else:
        f.update({k: ev.get(k) for k in ("ret", "after", "rep", "reptxt", "late", "how", "err", "outs", "n") if k in ev})
        f["reports"] = [r for e in evs for r in e.get("rep", [])]
        f["ops"] = [e["ev"] for e in evs[1:]]
    return f


def conc_features(evs, v, f):
    """exactly_one / sync_return violations of a concurrent case are flagged at the csend event"""
    ev = next((e for e in evs if e["i"] == v["index"]), {})
    if ev.get("ev") != "csend":
        return f
    reset = evs[0]
    kinds = list(reset.get("script", [])) + [e["kind"] for e in evs if e.get("ev") == "expect"]
    order = [o[0] for o in ev["order"]]
    if v["clause"] == "exactly_one_outcome" and reset.get("mode") == "async":
        ok = True
        hit = False
        for j, mid in enumerate(order):
            if j >= len(kinds):
                break
            outs = sorted(o[1] + (":" + err_class(o[2]) if o[1] == "err" else "") for o in ev["outs"] if o[0] == mid)
            k = kinds[j]
            if len(outs) == 1:
                continue
            if k in ("XS", "XF") and outs == sorted(["err:checker", "succ" if k == "XS" else "err:scripted"]):
                hit = True
            else:
                ok = False
        if ok and hit:
            f["cause"] = "scripted_result_after_checker_error"
    if v["clause"] == "sync_return_partition" and reset.get("mode") == "sync":
        chosen = {o[0]: o[1] for o in ev["order"]}
        mps = {m[0]: m[1] for m in ev["mps"]}
        bad = [o for o in ev["outs"] if o[1] == "succ" and o[4] != chosen.get(o[0])]
        if bad and all(o[4] == 0 for o in bad):
            f["returned_partition"] = 0
            f["msg_partition_is_partitioners_choice"] = all(mps.get(o[0]) == chosen.get(o[0]) for o in bad)
    return f


def run(ctx):
    quirks = quirk_runs(ctx)
    gen = generate(ctx)
    cases = os.path.join(ctx.scratch, "cases.ndjson")
    conc = os.path.join(ctx.scratch, "cases_conc.ndjson")
    ncases = 0
    with open(cases, "w") as f:
        for fam in sorted(gen):
            for line in gen[fam]["cases"]:
                f.write(line + "\n")
                ncases += 1
    csel = conc_selection(ctx, gen["fifo"]["cases"])
    with open(conc, "w") as f:
        for line in csel:
            f.write(line + "\n")
    rc, out, outdir = ctx.go_test("^TestVerifMocks$", pkg="mocks", env={"VERIF_CASES": cases, "VERIF_CASES_CONC": conc},
                                  timeout=1200 if ctx.tier == "thorough" else 300, only=["mocks_test.go"])
    ctx.need_go(rc, out, "mocks replay")
    trace = os.path.join(outdir, "trace.ndjson")
    summary = json.load(open(os.path.join(outdir, "summary.json")))
    if sum(summary["cases"].values()) != ncases + len(csel):
        raise vlib.Inconclusive("harness replayed %d cases, %d were generated" % (sum(summary["cases"].values()), ncases + len(csel)))

    rs = ctx.tlc_trace("MocksTrace", "MocksTrace.cfg", trace, shards=14, timeout=1500)
    allv = []
    stats = {}
    for r in rs:
        ctx.need(r, "trace validation")
        allv += vlib.trace_viols(r)
        st = r.printed("STATS")
        if not st:
            raise vlib.Inconclusive("trace validation did not reach the end of a shard")
        for k, n in st[0].items():
            stats[k] = stats.get(k, 0) + n
    # everything recorded must have been evaluated
    recorded = {}
    by_trace = None
    with open(trace) as f:
        for line in f:
            e = json.loads(line)
            recorded[e["ev"]] = recorded.get(e["ev"], 0) + 1
    for ev, key in (("reset", "cases"), ("send", "sends"), ("batch", "batches"), ("csend", "csends"), ("cop", "cops"), ("close", "closes")):
        if recorded.get(ev, 0) != stats.get(key, 0):
            raise vlib.Inconclusive("trace validation evaluated %d %s events, harness recorded %d" % (stats.get(key, 0), ev, recorded.get(ev, 0)))
    if stats.get("cases", 0) == 0:
        raise vlib.Inconclusive("no case validated")

    viols = []
    if allv:
        by_trace = {}
        for e in vlib.read_ndjson(trace):
            by_trace.setdefault(e["t"], []).append(e)
    for v in allv:
        if v["clause"] not in CLAUSES:
            raise vlib.Inconclusive("unknown clause %r from the trace spec" % v["clause"])
        evs = by_trace.get(v["trace"], [{}])
        v["features"] = conc_features(evs, v, features(evs, v))
        viols.append(v)

    byclause = {}
    for v in viols:
        byclause[v["clause"]] = byclause.get(v["clause"], 0) + 1
    cov = {
        "states": sum(g["states"] for g in gen.values()) + sum(q["states"] for q in quirks.values()),
        "transitions": sum(g["generated"] for g in gen.values()) + sum(q["generated"] for q in quirks.values()),
        "traces_validated_against_impl": stats["cases"],
        "samples": summary.get("samples", [])[:2] + [json.loads(gen["consumer_edges"]["cases"][-1])],
        "exhaustive": True,
        "families": {fam: {k: (len(v) if k == "cases" else v) for k, v in g.items()} for fam, g in gen.items()},
        "concurrent_sender_cases": len(csel),
        "cases_by_mock": summary["cases"],
        "events_recorded": summary["events"],
        "validated": stats,
        "clause_violations_seen": byclause,
        "pinned_code_model_counterexamples": quirks,
        "clauses": sorted(CLAUSES),
        "explanation": "every case is a behaviour of the TLA+ model found by TLC's exhaustive search (producer: every operation "
                       "sequence within the bounds; consumer: one case per transition of the state graph plus all short paths); "
                       "each is executed step by step on the real mocks; TLC re-runs the oracle step functions next to the recorded "
                       "observations and evaluates the clauses. states/transitions are TLC's numbers for the exhaustive passes, in "
                       "which the same clauses are invariants of the model.",
    }
    return vlib.finish(ctx, "model_checking", cov, viols,
                       ["the mocks are used inside their documented domain: nothing is sent after Close, YieldMessage is not called "
                        "on a closed partition consumer, a partition is re-registered only with the same offset",
                        "a failing partitioner is modelled as the unchanged mocks handle it: the message uses up its expectation, gets the partitioner's error as its one outcome and is reported once",
                        "ErrorReporter calls are attributed to the step of the scripted run during which the mock made them (async mock: until it "
                        "released its mutex for that message); their number per step must be the number of deviations of that step, their "
                        "argument values (topic/partition/offsets/counts/checker error) are compared as a bag when the count of values is the "
                        "pinned one; the format string is recorded for information only",
                        "producer offsets are only required to increase strictly; the first consumer offset of a partition is free, the "
                        "following ones must be consecutive and the high-water mark is the last offset + 1",
                        "async mock: a message is complete once the mock released its mutex after asking the partitioner / reporting",
                        "TLC's bounded enumeration (see families)"],
                       save={"trace.ndjson": trace, "cases.ndjson": cases, "cases_conc.ndjson": conc})
