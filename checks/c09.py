"""C09: wire encoding round-trips (restricted form, DESIGN.md 6/C09).

Part 1 (TLC owns it): spec/Codec.tla is the state machine of sarama's primitive codec - a program
(tape of packetEncoder calls) is built op by op while the sizing pass (prepEncoder) runs along,
then the writing pass (realEncoder, with lengthField / varintLengthField / crc32Field) and the
reading pass (realDecoder) run over it; the step functions and the prescribed wire formats live in
spec/CodecWire.tla. TLC explores every program up to the bound and checks the clauses as
invariants; every program is emitted, executed on the REAL encode()/decode() by
harness/inpkg/codec_prog_test.go and the recorded run is judged by TLC (spec/CodecTrace.tla).

Part 2 (exploration): every protocol body x version, record batches and legacy message sets under
every codec, filled by a seeded structural filler, with tape wrappers around packetEncoder /
packetDecoder (harness/inpkg/codec_body_test.go); TLC evaluates the body clauses of CodecTrace."""
import concurrent.futures
import hashlib
import json
import os
import re
import time
import vlib

META = dict(
    level="exploration",
    engine="Codec",
    technique="TLA+ state machine of the primitive codec (spec/Codec.tla over spec/CodecWire.tla: two-pass encoder with "
              "push/pop fields incl. the varint length adjustment, decoder cursor, wire formats as TLA+ functions on 64-bit "
              "limbs) model-checked exhaustively by TLC with the clauses as invariants; every program TLC explores is emitted "
              "and executed on the real prepEncoder/realEncoder/realDecoder through encode()/decode(), the recorded steps are "
              "validated by TLC against the same functions (spec/CodecTrace.tla). Per protocol body x version x codec: seeded "
              "structural filler + in-package tape wrappers, recorded tapes judged by TLC.",
    text="(1) TLC explores ALL programs of packetEncoder calls up to length 3 (quick) / 4 (thorough) over every primitive "
         "(int8..int64, varint, uvarint, array / compact array length, bool, bytes, varint bytes, compact bytes, raw, string, "
         "nullable / compact / compact nullable string, string / int32 / int64 / compact int32 arrays, tagged fields) with "
         "boundary values (nil vs empty, -1, 0, min, max, 63/64 zig-zag and 127/128, 16383/16384 uvarint boundaries), nested "
         "lengthField / varintLengthField (fresh and with a stale length of an earlier encode) / crc32Field (IEEE, Castagnoli) "
         "pushes, plus deeper nestings (depth 3, up to 6-7 calls); invariants: sizing pass = writing pass at the end, whenever no "
         "push is open and on the extent of every popped field, written bytes = the denotational prescription Ref (big-endian "
         "two's complement, zig-zag LEB128, length prefixes, CRC extent), Decode(Encode(tape)) = tape consuming exactly the "
         "buffer. Each program is run on the real code; per call the sizing length, writing offset and written bytes, then the "
         "decoded values and cursor are compared by TLC with the spec (CRC: independent hash/crc32 over the prescribed extent). "
         "(2) all 84 request/response bodies of allocateBody x every version they implement (156 body-versions), requests also "
         "framed in request{} behind the length prefix, RecordBatch x {none,gzip(default,1,9),snappy,lz4,zstd}, MessageSet x "
         "{none,gzip,snappy,lz4} x magic {0,1}, nested in produce/fetch bodies. Collection lengths are derived from the "
         "structure of the value (a nested collection never has the length of the collection around it, sibling collections of "
         "one struct have pairwise different lengths; every body x version with nested collections is encoded with outer 1 / "
         "inner 2+, outer 2+ / inner 1, outer 2+ / inner of another length and an empty inner collection - measured, else "
         "inconclusive), so a length prefix taken from the wrong collection shows on the wire. Checked: sizing and writing pass make the same calls and "
         "reach the same total and per-push extents, every push field is the prescribed function of the bytes it covers, decode "
         "consumes exactly the buffer, the decoded value reports its version, decode tape = encode tape as multisets of (kind, "
         "width, wire bytes), every scalar field the encoder carries in that version (measured: changing it alone changes the bytes) "
         "comes back from decode with its value (so a field written from a sibling member shows), a valid value of every codec "
         "round-trips on cold decompressor pools right after an undecodable payload, re-encode has equal length / cells / (no Go map iterated) bytes, second decode equals the first.",
    note="restricted form: TLA+ owns the codec machine, not the ~90 message layouts; the spec does not know the Kafka schema of "
         "a body, so a field decoded into the wrong member AND re-encoded from it is invisible. Program alphabets are finite "
         "(95 values over 23 primitives; length-4 exhaustive only over 25 of them). Values on which the first (sizing) pass "
         "fails are skipped; enum-like ints are kept in int8 range, negative replica ids, two undelimited legacy message sets "
         "in one fetch block, both JoinGroup protocol lists at once and empty record batches inside fetch responses are outside "
         "the generated domain; encoder-only parameters that are not on the wire (CompressionLevel, SCRAM Password) and a version "
         "the decoder failed to record are carried over before re-encoding (the latter is its own clause). Equality of values "
         "is judged on the wire cells, not with reflect.DeepEqual. Records inside a compressed batch / wrapper message are "
         "opaque bytes to the outer tape (recordsArray and message sets are also recorded on their own). harness + TLC trusted.",
    design_ref="6/C09",
)

PROG_CLAUSES = ["encode_outcome", "sizing_pass_length", "writing_pass_offset", "passes_agree", "prescribed_bytes",
                "length_field", "crc_field", "encoded_bytes", "decode_roundtrip", "decode_cursor"]
BODY_CLAUSES = ["body_passes_agree", "body_push_fields", "body_decode_consumes", "body_version_recorded", "body_fields_preserved", "body_decode_tape",
                "body_reencode_length", "body_reencode_tape", "body_reencode_bytes", "body_second_decode"]

INVARIANTS = ["TypeOK", "PrepStackOK", "RealInBuffer", "DecInBuffer", "AgreeAtEnd", "AgreeAtDepth0", "AgreeAtPop",
              "Prescribed", "RoundTrip", "EncErrOnlyNil"]


def model_runs(ctx):
    """(cfg, emits) - all exhaustive"""
    if ctx.tier == "thorough":
        return [("Codec.core3a.cfg", True), ("Codec.mini4.cfg", True), ("Codec.wide4.cfg", True), ("Codec.nest7.cfg", True),
                ("Codec.wide3s.cfg", False), ("Codec.nest6.cfg", False)]
    return [("Codec.core3a.cfg", True), ("Codec.wide3.cfg", True), ("Codec.nest6.cfg", True)]


def run_models(ctx, cases_path):
    runs = model_runs(ctx)
    big = {"Codec.core3a.cfg": 8, "Codec.mini4.cfg": 8, "Codec.wide4.cfg": 8}

    def one(run):
        cfg, _ = run
        return ctx.tlc("Codec", cfg, workers=big.get(cfg, 3), timeout=2400 if ctx.tier == "thorough" else 400,
                       name=cfg.replace("Codec.", "").replace(".cfg", ""), heap="6g")

    with concurrent.futures.ThreadPoolExecutor(max_workers=len(runs)) as ex:
        results = list(ex.map(one, runs))
    stats = []
    seen = set()
    n = nontrivial = 0
    samples = []
    with open(cases_path, "w") as f:
        for (cfg, emits), r in zip(runs, results):
            ctx.need(r, "model " + cfg)
            k = 0
            if emits:
                for raw in r.printed_raw("CASE"):
                    line = vlib.tla_unquote(raw)
                    h = hashlib.blake2b(line.encode(), digest_size=10).digest()
                    if h in seen:
                        continue
                    seen.add(h)
                    f.write(line + "\n")
                    k += 1
                    if line.count('"k":') >= 2:
                        nontrivial += 1
                    if k in (7, 4001) and len(samples) < 4:
                        samples.append(json.loads(line))
                if k == 0:
                    raise vlib.Inconclusive("no programs emitted by " + cfg)
            n += k
            stats.append({"cfg": cfg, "programs_emitted": k, "states": r.distinct, "generated": r.generated, "depth": r.depth,
                          "exhaustive": True, "wall_s": round(r.wall, 1)})
    return n, nontrivial, stats, samples


def load_events(path, keys):
    """events of the trace file at the given (t, i) positions, without parsing the rest"""
    want = {'{"t":%d,"i":%d,' % k for k in keys}
    out = {}
    pat = re.compile(r'^\{"t":\d+,"i":\d+,')
    with open(path) as f:
        for line in f:
            m = pat.match(line)
            if m and m.group(0) in want:
                e = json.loads(line)
                out[(e["t"], e["i"])] = e
    return out


def show_ops(ops):
    def one(o):
        if o["v"]:
            return "%s(%s)" % (o["k"], ",".join("%04x%04x%04x%04x" % tuple(v) for v in o["v"]))
        return "%s(%d)" % (o["k"], o["n"])
    return " ".join(one(o) for o in ops)


def validate(ctx, trace, shards, name):
    rs = ctx.tlc_trace("CodecTrace", "CodecTrace.cfg", trace, shards=shards, name=name, timeout=2400)
    allv, st = [], {"progs": 0, "bodies": 0}
    for r in rs:
        ctx.need(r, "trace validation (%s)" % name)
        allv += vlib.trace_viols(r)
        p = r.printed("STATS")
        if not p:
            raise vlib.Inconclusive("trace validation (%s) did not reach the end of a shard" % name)
        for k, v in p[0].items():
            st[k] = st.get(k, 0) + v
    return allv, st


def run(ctx):
    t0 = time.time()
    thorough = ctx.tier == "thorough"
    only = ["codec_*"]
    cases = os.path.join(ctx.scratch, "cases.ndjson")

    # role 1 + 2 (TLC) and the body harness (Go) side by side
    with concurrent.futures.ThreadPoolExecutor(max_workers=2) as ex:
        fm = ex.submit(run_models, ctx, cases)
        fb = ex.submit(ctx.go_test, "^TestVerifCodecBody$", ".", None, 1500, "body", False, only)
        nprog, nontrivial_prog, mstats, psamples = fm.result()
        rc, out, bodydir = fb.result()
    ctx.need_go(rc, out, "body round trips")
    ctx.say("C09: %d model states, %d programs emitted; body harness done (%.1fs)" % (
        sum(s["states"] for s in mstats), nprog, time.time() - t0))
    t1 = time.time()

    rc, out, ptrace, sums = ctx.go_test_parallel("^TestVerifCodecProg$", cases, nproc=12 if thorough else 6, timeout=1500,
                                                 name="prog", only=only)
    ctx.need_go(rc, out, "program replay")
    replayed = sum(s["programs"] for s in sums)
    if replayed != nprog:
        raise vlib.Inconclusive("harness replayed %d of %d programs" % (replayed, nprog))
    ctx.say("C09: programs replayed on the real codec (%.1fs)" % (time.time() - t1))
    t1 = time.time()

    btrace = os.path.join(bodydir, "trace.ndjson")
    bsum = json.load(open(os.path.join(bodydir, "summary.json")))
    # ~16 single-worker JVMs side by side: keep each one's GC / JIT thread pools small
    old_jto = os.environ.get("JAVA_TOOL_OPTIONS")
    os.environ["JAVA_TOOL_OPTIONS"] = ((old_jto + " ") if old_jto else "") + "-XX:ParallelGCThreads=2 -XX:CICompilerCount=2"
    try:
        with concurrent.futures.ThreadPoolExecutor(max_workers=2) as ex:
            fp = ex.submit(validate, ctx, ptrace, 13 if thorough else 12, "vprog")
            fbv = ex.submit(validate, ctx, btrace, 3, "vbody")
            pv, pst = fp.result()
            bv, bst = fbv.result()
    finally:
        if old_jto is None:
            os.environ.pop("JAVA_TOOL_OPTIONS", None)
        else:
            os.environ["JAVA_TOOL_OPTIONS"] = old_jto
    ctx.say("C09: traces validated by TLC (%.1fs)" % (time.time() - t1))
    if pst["progs"] != nprog or pst["bodies"] != 0:
        raise vlib.Inconclusive("trace validation evaluated %d programs, %d were recorded" % (pst["progs"], nprog))
    if bst["bodies"] != bsum["bodies"] or bsum["bodies"] == 0:
        raise vlib.Inconclusive("trace validation evaluated %d body runs, harness recorded %d" % (bst["bodies"], bsum["bodies"]))
    if bsum.get("never_encoded"):
        raise vlib.Inconclusive("no value of %s passed the first encode: the filler does not cover these bodies" % bsum["never_encoded"])

    if bsum.get("nested_shapes_missing_by_type"):
        raise vlib.Inconclusive("bodies with a collection inside a collection were not encoded in every nested shape "
                                "(outer 1 / inner 2+, outer 2+ / inner 1, outer 2+ / inner of another length, empty inner): %s"
                                % bsum["nested_shapes_missing_by_type"])

    viols = []
    if pv:
        ev = load_events(ptrace, {(v["trace"], v["index"]) for v in pv})
        for v in pv:
            e = ev.get((v["trace"], v["index"]), {})
            v["features"] = {"part": "prog", "ops": show_ops(e.get("ops", [])), "kinds": sorted({o["k"] for o in e.get("ops", [])}),
                             "eerr": e.get("eerr"), "derr": e.get("derr"), "prep": e.get("prep"), "real": e.get("real")}
            viols.append(v)
    if bv:
        ev = load_events(btrace, {(v["trace"], v["index"]) for v in bv})
        for v in bv:
            e = ev.get((v["trace"], v["index"]), {})
            v["features"] = {k: e.get(k) for k in ("name", "kind", "ver", "fill", "shape", "reshape", "hasmap", "eerr", "derr", "rerr", "d2err",
                                                   "eerrk", "derrk", "rerrk", "d2errk", "fdiff",
                                                   "decver", "decdiff", "rediff", "buflen", "relen", "dend", "preplen", "reallen")}
            v["features"]["part"] = "body"
            viols.append(v)

    states = sum(s["states"] for s in mstats)
    cov = {
        "evaluations": nprog + bsum["bodies"],
        "distinct_nontrivial": nontrivial_prog + bsum["distinct_nontrivial"],
        "rule": "programs: every sealed state of the exhaustive TLC runs of spec/Codec.tla is one program, distinct by construction "
                "(deduplicated across runs by hash), non-trivial = at least 2 calls; bodies: one run per body x version x fill "
                "(fill 0 empty, 1-5 structural collection shapes, then seeded random; requests additionally framed), distinct by "
                "(name, version, kind, encoded bytes), non-trivial = at least 3 primitive cells on the wire",
        "samples": psamples[:2] + bsum.get("samples", [])[:3],
        "states": states,
        "transitions": sum(s["generated"] for s in mstats),
        "traces_validated_against_impl": pst["progs"] + bst["bodies"],
        "exhaustive": True,
        "programs_replayed": nprog,
        "program_encode_errors_as_modelled": sum(s["encode_errors"] for s in sums),
        "body_runs": bsum["bodies"],
        "body_versions_covered": len(bsum["runs"]),
        "bodies_with_nested_collections": bsum["bodies_with_nested_collections"],
        "fields_examined": bsum.get("fields_examined", 0),
        "fields_carried_and_compared": bsum.get("fields_carried_and_compared", 0),
        "nested_collection_shapes_encoded": bsum["nested_shapes"],
        "bodies_skipped_first_encode_failed": sum(bsum["skipped_first_encode_failed"].values()),
        "model_runs": mstats,
        "model_invariants": INVARIANTS,
        "clauses": PROG_CLAUSES + BODY_CLAUSES,
        "explanation": "part 1 is exhaustive over the stated program space (every program TLC explored was executed on the real "
                       "prepEncoder/realEncoder/realDecoder and judged by TLC step by step); part 2 is seeded exploration over "
                       "generated values of every body x version x codec (level claimed: exploration)",
    }
    return vlib.finish(ctx, "exploration", cov, viols,
                       ["programs follow the packetEncoder API (a pop matches a push; getRawBytes is told its length); an ARRAY / "
                        "COMPACT_ARRAY count larger than the bytes that follow is outside the domain of getArrayLength / "
                        "getCompactArrayLength (every element takes at least one byte) and must fail with insufficient data "
                        "(checked as such; RoundTrip is required of every program whose declared counts fit)",
                        "part 2 judges equality of values on the primitive cells on the wire (kind, width, bytes), as multisets where "
                        "Go map iteration may reorder entries; byte equality only where no Go map is iterated",
                        "values refused by the sizing pass are outside the domain; generated domain restrictions are listed in META.note",
                        "CRC values are computed by Go's hash/crc32 over the extent the spec prescribes; TLC compares",
                        "harness (tape wrappers delegate and log only), go toolchain and TLC trusted"],
                       save={"prog.trace.ndjson": ptrace, "body.trace.ndjson": btrace, "cases.ndjson": cases})
