"""Registry of claimed checks: the single source MANIFEST.json is generated from (bin/gen-manifest)."""

ASSUME_TLC = "TLC (tla2tools 1.8.0) and the CommunityModules Json module are trusted"

CHECKS = {
    "C08": dict(
        level="model_checking",
        engine="Balance",
        technique="TLA+ chain machine (spec/Balance.tla) model-checked by TLC for oracle satisfiability; TLC-generated "
                  "rebalance chains replayed on the real strategies; TLC evaluates ValidPlan on every real plan (spec/BalanceTrace.tla)",
        text="TLC enumerates every group shape with <=3 members, 2 topics, <=3 partitions and every 2-step rebalance chain "
             "(join/leave/subscription change/partition-count change/topic deletion, leavers rejoining with stale user data) and "
             "simulates longer chains over 4 members x 3 topics x <=5 partitions; each chain is executed on the real range, "
             "round-robin and sticky Plan with the real AssignmentData user data fed back; TLC then evaluates the validity "
             "clauses on every plan the code returned. The oracle is itself model-checked to be satisfiable on the enumerated space.",
        note="bounded enumeration; inputs respect what consumerGroup.balance supplies (topics = existing subscribed topics, "
             "sorted partition lists, non-empty topic map); harness + TLC trusted",
        design_ref="6/C08",
    ),
    "C13": dict(
        level="model_checking",
        engine="Balance",
        technique="same machinery as C08 with the balance/stickiness predicates of spec/BalanceOracle.tla; satisfiability of "
                  "balance+stickiness model-checked by TLC (Balance.stickysat.cfg)",
        text="Same chains as C08; TLC evaluates RangeShape, RoundRobinFair, StickyBalanced, FixedPoint, KeepOnLeave, "
             "NoShuffleOnJoin and NoPairwiseSwap on the plans of the real strategies, each only under its stated premise. "
             "TLC also checks, for every balanced previous plan of the small space, that a next plan satisfying balance and the "
             "stickiness clause exists, so a reported violation can never be an over-constrained oracle.",
        note="bounded enumeration as C08; stickiness premises: identical subscriptions where the statement says so, previous "
             "plan produced by the strategy itself and fed back with an increasing generation",
        design_ref="6/C13",
    ),
}

NOT_YET = "check not built yet (work in progress in this session); see DESIGN.md section 6 for the planned machinery"

ALL = ["C%02d" % i for i in range(1, 21)]
