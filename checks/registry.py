"""Registry of claimed checks: every checks/cNN.py that defines META is a claimed check;
MANIFEST.json is generated from these (bin/gen-manifest)."""
import importlib
import os

ALL = ["C%02d" % i for i in range(1, 21)]
NOT_YET = "check not built yet (work in progress); see DESIGN.md section 6 for the planned machinery"
# properties deliberately not claimed, with the reason
NA = {}

# checks still being built (their files may already be in the tree): not claimed yet
WIP = set()

CHECKS = {}
for _p in ALL:
    if _p in WIP:
        continue
    if os.path.exists(os.path.join(os.path.dirname(os.path.abspath(__file__)), _p.lower() + ".py")):
        _m = importlib.import_module(_p.lower())
        if hasattr(_m, "META"):
            CHECKS[_p] = _m.META
