import balance_common

META = dict(
    level="model_checking",
    engine="Balance",
    technique="TLA+ chain machine (spec/Balance.tla) model-checked by TLC for oracle satisfiability; TLC-generated "
              "rebalance chains replayed on the real strategies; TLC evaluates ValidPlan on every real plan (spec/BalanceTrace.tla)",
    text="TLC enumerates every group shape with <=3 members, 2 topics, <=3 partitions and every 2-step rebalance chain "
         "(join/leave/subscription change/partition-count change/topic deletion, leavers rejoining with stale user data) and "
         "simulates longer chains over 4 members x 3 topics x <=5 partitions; each chain is executed on the real range, "
         "round-robin and sticky Plan with the real AssignmentData user data fed back; TLC then evaluates the validity "
         "clauses on every plan the code returned. The oracle is itself model-checked to be satisfiable on the enumerated space.",
    note="bounded enumeration; inputs respect what consumerGroup.balance supplies (topics = existing subscribed topics, "
         "sorted partition lists, non-empty topic map); harness + TLC trusted",
    design_ref="6/C08",
)


def run(ctx):
    return balance_common.run(ctx, "C08", balance_common.C08)
