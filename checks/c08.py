import balance_common

META = dict(
    level="model_checking",
    engine="Balance",
    technique="TLA+ chain machine (spec/Balance.tla) model-checked by TLC for oracle satisfiability; TLC-generated "
              "rebalance chains replayed on the real strategies; TLC evaluates ValidPlan on every real plan (spec/BalanceTrace.tla); "
              "plans as handed out by the real group leader through SyncGroup validated by spec/GroupTrace.tla (sync_plan_complete)",
    text="TLC enumerates every group shape with <=3 members, 2 topics, <=3 partitions and every 2-step rebalance chain "
         "(join/leave/subscription change/partition-count change/topic deletion, leavers rejoining with stale user data) and "
         "simulates longer chains over 4 members x 3 topics x <=5 partitions; each chain is executed on the real range, "
         "round-robin and sticky Plan with the real AssignmentData user data fed back; TLC then evaluates the validity "
         "clauses on every plan the code returned. The oracle is itself model-checked to be satisfiable on the enumerated space. "
         "At the group level the real consumerGroup leader (all three strategies, 1-3 members, two generations) computes plans "
         "against a simulated coordinator whose metadata lists one leaderless partition; every SyncGroup plan must cover every "
         "listed partition exactly once, with subscribed known members only.",
    note="bounded enumeration; inputs respect what consumerGroup.balance supplies (topics = existing subscribed topics, "
         "sorted partition lists, non-empty topic map); harness + TLC trusted",
    design_ref="6/C08",
)


def run(ctx):
    return balance_common.run(ctx, "C08", balance_common.C08)
