import balance_common


def run(ctx):
    return balance_common.run(ctx, "C08", balance_common.C08)
