"""C14: each broker call gets its own response or an error (broker.go send / responseReceiver / Close).

spec/BrokerConn.tla is model-checked exhaustively (safety invariants, the expected failure of
the property's own in-flight bound, liveness under weak fairness); TLC emits behaviours of the
same model (all conductor-reproducible schedules of a small configuration + seeded simulation of
the unrestricted model on larger ones); harness/inpkg/brokerconn_test.go replays them on a real
*Broker against a raw frame server; spec/BrokerConnTrace.tla judges what the code did."""
import json
import os
import re
import threading

import vlib

META = dict(
    level="model_checking",
    engine="BrokerConn",
    technique="TLA+ model of Broker.send/responseReceiver/Close with N concurrent callers and a scripted peer "
              "(spec/BrokerConn.tla) model-checked by TLC (safety + liveness); TLC-generated behaviours replayed by a "
              "conductor on a real *Broker against a raw TCP frame server; TLC evaluates the property's clauses on "
              "the recorded client/server events (spec/BrokerConnTrace.tla)",
    text="TLC explores every interleaving of up to 4 concurrent callers with Net.MaxOpenRequests in {1,2} (thorough: 3 callers "
         "x 2 calls, {1,2,3}), one faulty server answer (wrong correlation id, wrong id with a nested frame, out-of-order "
         "answer, body stalled after an intact header with the peer answering on later, runt length <= 4, oversized length, "
         "abrupt close, well-framed but undecodable body), the read timeout firing at any time and Close racing, and checks "
         "OwnResponseOrError, MismatchNeverDelivered, AfterFaultAllFail, the in-flight "
         "bound the code really guarantees (Max+1; the property's bound Max is shown to fail on the model) and that every "
         "started call and Close return. Every conductor-reproducible behaviour of 3 callers x Max in {1,2} with one fault, "
         "of 2 callers with a fault and a read timeout (thorough: also 4 callers x Max in {2,3}), impatient re-runs of the "
         "late-answer behaviours, and seeded random behaviours of 6 callers x 2 calls x Max in {1,2,5} are replayed on the "
         "real Broker over loopback TCP; "
         "a write-deadline family (server silent for the first call while no-response acks=0 produce requests keep being "
         "written every 50 ms, or a second call follows with WriteTimeout 30 s >> ReadTimeout 400 ms) checks that the silent "
         "call is back within a load-aware 2.5 s bound (read_timeout_honoured); "
         "each request (GetMetadata, Produce with RequiredAcks 1/-1/2/3, Fetch, CommitOffset in rotation, or "
         "ListPartitionReassignments for the flexible v1 response header) carries a "
         "unique topic name that the server echoes, so responses are attributable; runt / short frames use every length "
         "in {0,1,3,4,5,7,8} with both header versions, v1 headers also get a non-empty tagged-field section (hdrtags); panics recovered by PanicHandler are attributed to their connection; the "
         "in-flight count is computed by the trace spec from server-side events only.",
    note="bounded model; real executions cover the schedules the conductor can force from outside (start of calls, "
         "Close, server answers, silence) - interleavings inside Broker.send are exercised by real goroutine races "
         "but not steered; inflight_bound is only evaluated over requests whose calls later succeeded; harness + TLC trusted",
    design_ref="6/C14",
)

CLAUSES = ["own_response", "mismatch_is_fault", "fail_after_fault", "no_hang", "no_panic", "read_timeout_honoured",
           "inflight_bound"]
GATES = ("write", "ret", "closed", "fired")


def wt_variant(case):
    """write-deadline family (selected from the behaviours of BrokerConn.genw.cfg): the server never sends
    anything, the read timeout fires for the first call while (a) no-response sends or (b) a second call
    have been written after it. Returns "a", "b" or None."""
    acts = [x["a"] for x in case["steps"]]
    if "timeout" not in acts or "srv" in acts:
        return None
    pre = acts[:acts.index("timeout")]
    if "write" not in pre:
        return None
    w1 = pre.index("write")
    if "fire" in pre[w1:]:
        return "a"
    if pre.count("write") >= 2 and "fire" not in pre:
        return "b"
    return None


def printed(r, tag):
    """values of PrintT(<<tag, "json">>); TLC wraps medium-sized tuples over several lines"""
    pat = re.compile(r'<<\s*"%s",\s*("(?:[^"\\]|\\.)*")\s*>>' % re.escape(tag), re.S)
    return [json.loads(vlib.tla_unquote(m.group(1))) for m in pat.finditer(r.out)]


def canon(case):
    """canonical key of a case: callers are interchangeable, consecutive gates are a set"""
    out, run = [], []
    for s in case["steps"]:
        a = s["a"]
        if a in GATES:
            run.append(a + (":" + s["kind"] if a == "ret" else ""))
        else:
            if run:
                out.append(tuple(sorted(run)))
                run = []
            out.append(a + (":" + s["kind"] if a == "srv" else ""))
    if run:
        out.append(tuple(sorted(run)))
    return (case["max"], tuple(out))


def gen_cases(ctx, out):
    runs = [("BrokerConn.gen.cfg", None, "gen"), ("BrokerConn.gen2.cfg", None, "gen2"), ("BrokerConn.genw.cfg", None, "genw")]
    if ctx.tier == "thorough":
        runs.append(("BrokerConn.gen4.cfg", None, "gen4"))
        runs.append(("BrokerConn.sim.cfg", "num=3000", "sim"))
    else:
        runs.append(("BrokerConn.sim.cfg", "num=400", "sim"))
    seen = set()
    cases = []
    stats = []
    results = {}

    def one(cfg, sim, src):
        if sim:
            results[src] = ctx.tlc("BrokerConn", cfg, workers=1, timeout=900, simulate=sim, depth=400, seed=ctx.seed, name="sim")
        else:
            results[src] = ctx.tlc("BrokerConn", cfg, workers=2 if src in ("gen2", "genw") else 8, timeout=1500, name=src)
    ths = [threading.Thread(target=one, args=x) for x in runs]
    for t in ths:
        t.start()
    for t in ths:
        t.join()
    for cfg, sim, src in runs:
        r = results.get(src)
        if r is None:
            raise vlib.Inconclusive("behaviour generation %s did not run" % cfg)
        if sim:
            if r.timed_out or (r.error and "CASE" not in r.out):
                ctx.need(r, "behaviour simulation " + cfg)
        else:
            ctx.need(r, "behaviour generation " + cfg)
        k = 0
        emitted = 0
        for c in printed(r, "CASE"):
            emitted += 1
            key = canon(c)
            if key in seen:
                continue
            seen.add(key)
            if src == "genw":
                v = wt_variant(c)
                if v:
                    # Net.ReadTimeout 400 ms; (a) WriteTimeout = ReadTimeout, sends without response go on every
                    # 50 ms until the verdict; (b) WriteTimeout 30 s, second call 100 ms after the first.
                    # The silent call must be back within 2.5 s (load-aware).
                    c.update(timed=True, rtms=400, wtms=400 if v == "a" else 30000, boundms=2500)
                    c["src"] = "wt-" + v
                elif ctx.tier != "thorough":
                    continue        # the other behaviours with no-response sends: thorough only
                else:
                    c["src"] = src
            else:
                c["src"] = src
            c["id"] = len(cases) + 1
            cases.append(c)
            k += 1
        stats.append({"cfg": cfg, "behaviours_emitted": emitted, "distinct_cases": k,
                      "states": r.distinct, "generated": r.generated, "exhaustive": sim is None})
    # impatient re-runs: a behaviour in which the server still sends something after the read timeout is
    # replayed a second time with the conductor waiting only for the FIRST of the returns the model expects
    # before it goes on (also a behaviour of the unrestricted model: the peer may act at any time) - a
    # late / out-of-order answer then meets a client that is still failing its outstanding promises
    extra = []
    for c in cases:
        if c["src"] not in ("gen", "gen2"):
            continue
        acts = [(x["a"], x["kind"]) for x in c["steps"]]
        late = ("timeout", "-") in acts and any(a == "srv" for a, _ in acts[acts.index(("timeout", "-")):])
        # ... or pipelines frames behind a runt frame (the client may still be waiting for header bytes)
        runt = any(acts[k] == ("srv", "runt") and acts[k + 1][0] == "srv" for k in range(len(acts) - 1))
        if late or runt:
            d = dict(c, src=c["src"] + "-impatient", impatient=True)
            extra.append(d)
    for d in extra:
        d["id"] = len(cases) + 1
        cases.append(d)
    stats.append({"cfg": "impatient re-runs of late-answer behaviours", "behaviours_emitted": len(extra),
                  "distinct_cases": len(extra), "states": 0, "generated": 0, "exhaustive": False})
    # wire-level dimensions the model abstracts from: the response header version (0: MetadataRequest,
    # 1: flexible header, ListPartitionReassignmentsRequest with Version 2.4) and the length field of
    # runt (0,1,3,4) / shortbody (5,7,8) frames. Behaviours of the 2-caller configuration are run with
    # every combination, the others rotate through them.
    # The model's kind "runt" is the class "response header that fails to decode, peer goes on": besides the
    # runt lengths, a flexible (v1) header with a non-empty tagged-field section (len -1: one small tagged
    # field, -2: multi-byte varint field count, -3: tag bytes crafted to look like the start of a body).
    # Request kind: in header-v0 cases the calls rotate through GetMetadata, Produce with RequiredAcks 1, -1, 2, 3,
    # Fetch and CommitOffset ("mix"; not where a shortbody frame is scripted: 4 zero bytes decode as an empty
    # produce / fetch / commit response); header-v1 cases use ListPartitionReassignments.
    RUNT = [(4, 1), (-3, 1), (4, 0), (-1, 1), (0, 1), (0, 0), (-2, 1), (1, 1), (1, 0), (3, 1), (3, 0)]
    SHORT = [(ln, hv) for ln in (5, 7, 8) for hv in (0, 1)]
    expanded = []
    rot = {"runt": 0, "shortbody": 0, "": 0}
    for c in cases:
        kinds = {x["kind"] for x in c["steps"] if x["a"] == "srv"}
        k = "runt" if "runt" in kinds else "shortbody" if "shortbody" in kinds else ""
        combos = RUNT if k == "runt" else SHORT if k == "shortbody" else [(0, 0), (0, 1)]
        if c["src"] == "gen2" and k == "runt" and not c.get("impatient"):
            for ln, hv in combos:
                expanded.append(dict(c, len=ln, hv=hv, mix=(hv == 0 and k != "shortbody")))
        else:
            ln, hv = combos[rot[k] % len(combos)]
            rot[k] += 1
            expanded.append(dict(c, len=ln, hv=hv, mix=(hv == 0 and k != "shortbody")))
    cases = expanded
    for i, c in enumerate(cases):
        c["id"] = i + 1
    if not cases:
        raise vlib.Inconclusive("no behaviours generated")
    with open(out, "w") as f:
        for c in cases:
            f.write(json.dumps(c, separators=(",", ":")) + "\n")
    return cases, stats


def model_runs(ctx, res, which):
    """role 1; runs in threads next to generation / trace validation (not next to the replay:
    the real executions are timing sensitive, a saturated machine only causes conductor drift)"""
    try:
        if which == "light":
            res["bound"] = ctx.tlc("BrokerConn", "BrokerConn.bound.cfg", workers=2, timeout=300, name="bound")
            res["live"] = ctx.tlc("BrokerConn", "BrokerConn.live.cfg", workers=4, timeout=900, name="live")
            res["wt"] = ctx.tlc("BrokerConn", "BrokerConn.wt.cfg", workers=4, timeout=900, name="wt")
        else:
            safety_cfg = "BrokerConn.safety.cfg" if ctx.tier == "thorough" else "BrokerConn.safetyq.cfg"
            res["safety"] = ctx.tlc("BrokerConn", safety_cfg, workers=6 if ctx.tier == "quick" else 12, timeout=1500, name="safety")
    except Exception as e:  # noqa: BLE001
        res["exc"] = e


def run(ctx):
    mres = {}
    th1 = threading.Thread(target=model_runs, args=(ctx, mres, "light"))
    th1.start()
    th2 = threading.Thread(target=model_runs, args=(ctx, mres, "safety"))
    if ctx.tier == "quick":
        th2.start()     # quick: 1.5 M states, next to everything else (may cost some conductor drift, which is soft)
    # compile the harness while TLC generates the behaviours
    warm = threading.Thread(target=lambda: ctx.go_test("^TestVerifNothing$", timeout=600, name="go-warm"))
    warm.start()
    try:
        casefile = os.path.join(ctx.scratch, "cases.ndjson")
        cases, gstats = gen_cases(ctx, casefile)
        warm.join()
        th1.join()
        rc, out, outdir = ctx.go_test("^TestVerifBrokerConn$", env={"VERIF_CASES": casefile}, timeout=1200)
        if th2.ident is None:
            th2.start()
        if rc != 0 and ("panic: " in out or "fatal error: " in out):
            # the harness process died from a panic: inside sarama code it is a violation of no_panic
            crash = vlib.crash_violations(out)
            if crash:
                th2.join()
                return vlib.finish(ctx, "model_checking",
                                   {"evaluations": len(cases), "distinct_nontrivial": len(cases),
                                    "rule": "behaviours of spec/BrokerConn.tla replayed on a real Broker; the replay process crashed",
                                    "samples": cases[:2], "explanation": "harness process crashed by a panic in sarama code"},
                                   crash, ["see checks/c14.py"], save={"cases.ndjson": casefile, "go.out": os.path.join(outdir, "go.out")})
        ctx.need_go(rc, out, "broker connection replay")
        trace = os.path.join(outdir, "trace.ndjson")
        summary = json.load(open(os.path.join(outdir, "summary.json")))
        rs = ctx.tlc_trace("BrokerConnTrace", "BrokerConnTrace.cfg", trace, shards=8)
    finally:
        warm.join()
        th1.join()
        if th2.ident is not None:
            th2.join()
    if "exc" in mres:
        raise mres["exc"]
    safety = ctx.need(mres["safety"], "model safety")
    live = ctx.need(mres["live"], "model liveness")
    wtm = ctx.need(mres["wt"], "model with no-response sends (safety + liveness)")
    bound = ctx.need(mres["bound"], "model in-flight bound (expected to fail)", allow_violation=True)
    if not safety.finished or not live.finished or not wtm.finished:
        raise vlib.Inconclusive("exhaustive model run did not complete")

    allv, feats = [], {}
    tstats = {}
    for r in rs:
        ctx.need(r, "trace validation")
        st, vl, fl = printed(r, "STATS"), printed(r, "VIOL"), printed(r, "FEAT")
        if len(st) != 1 or len(vl) != 1 or len(fl) != 1:
            raise vlib.Inconclusive("trace validation did not reach the end of a shard (or its output could not be parsed)")
        for k, v in st[0].items():
            tstats[k] = max(tstats.get(k, 0), v) if k == "max_excess" else tstats.get(k, 0) + v
        allv += [{"trace": t, "index": i, "clause": c} for t, i, c in vl[0]]
        for t, i, ex in fl[0]:
            feats[(t, i)] = ex
    extra_traces = 1 if summary.get("unattributed_panics") else 0
    if tstats.get("traces", 0) != summary["cases"] + extra_traces or summary["cases"] == 0:
        raise vlib.Inconclusive("trace validation evaluated %s traces, harness recorded %s" % (tstats.get("traces"), summary["cases"]))
    if tstats["calls"] != summary["calls"]:
        raise vlib.Inconclusive("trace validation saw %d calls, harness started %d" % (tstats["calls"], summary["calls"]))
    if summary["cases"] + summary["skipped_after_many_hangs"] != len(cases):
        raise vlib.Inconclusive("harness ran %d of %d cases" % (summary["cases"], len(cases)))

    viols = []
    if allv:
        bytrace = {}
        for e in vlib.read_ndjson(trace):
            bytrace.setdefault(e["t"], []).append(e)
        for v in allv:
            evs = bytrace.get(v["trace"], [])
            reset = evs[0] if evs else {}
            ev = next((e for e in evs if e["i"] == v["index"]), {})
            fault = next((e["kind"] for e in evs if e["ev"] == "srv_send" and e["kind"] != "ok"), "none")
            f = {"max": reset.get("n"), "case": reset.get("tag"), "src": reset.get("kind"), "first_fault": fault,
                 "event": {k: ev.get(k) for k in ("ev", "c", "tag", "corr", "kind", "res", "err")}}
            if v["clause"] == "inflight_bound":
                f["excess"] = feats.get((v["trace"], v["index"]))
                f["cause"] = "more requests received and unanswered at the server than Net.MaxOpenRequests"
            v["features"] = f
            viols.append(v)

    per_clause = {c: 0 for c in CLAUSES}
    for v in viols:
        per_clause[v["clause"]] = per_clause.get(v["clause"], 0) + 1
    cov = {
        "states": safety.distinct + live.distinct + wtm.distinct + bound.distinct + sum(g["states"] for g in gstats if g["exhaustive"]),
        "transitions": safety.generated + live.generated + wtm.generated + bound.generated + sum(g["generated"] for g in gstats if g["exhaustive"]),
        "traces_validated_against_impl": tstats["traces"],
        "samples": summary.get("samples", [])[:2],
        "exhaustive": True,
        "model": {
            "safety": {"cfg": "thorough: 3 callers x 2 calls" if ctx.tier == "thorough" else "quick: 4 callers x 1 call",
                       "distinct_states": safety.distinct, "depth": safety.depth,
                       "invariants": ["TypeOK", "OwnResponseOrError", "MismatchNeverDelivered", "AfterFaultAllFail",
                                      "InFlightPlus1", "ServerCountSound", "DeadIsSticky"]},
            "liveness": {"distinct_states": live.distinct, "properties": ["EveryCallReturns", "CloseReturns"]},
            "no_response_sends": {"distinct_states": wtm.distinct,
                                  "properties": ["safety invariants", "EveryCallReturns", "CloseReturns", "FireReturns"]},
            "property_bound_InFlight<=Max_on_model": "violated as expected (write precedes promise enqueue)"
            if bound.violated == "InFlightBound" else "holds on the model",
        },
        "generation": gstats,
        "behaviours_replayed": summary["cases"],
        "cases_by_source": summary["cases_by_source"],
        "server_answers_by_kind": summary["server_answers_by_kind"],
        "real_calls": summary["calls"], "real_calls_ok": summary["ok_calls"], "real_calls_err": summary["err_calls"],
        "events_validated": summary["events"],
        "conductor_divergences": summary["diverged"],
        "observer": tstats,
        "clause_hits_including_known_findings": per_clause,
        "clauses": CLAUSES,
        "explanation": "exhaustive: TLC's runs on the bounded model are complete and every conductor-reproducible behaviour of the "
                       "generation configurations is replayed; the simulated behaviours (source sim) are an additional seeded sample. "
                       "states/transitions are TLC's numbers for the exhaustive runs of spec/BrokerConn.tla in this run (safety, "
                       "liveness, bound, exhaustive behaviour generation); every emitted behaviour (after merging behaviours "
                       "that differ only in caller names / order of simultaneous observations) is executed once on a real "
                       "Broker over loopback TCP and the recorded events are evaluated by TLC (spec/BrokerConnTrace.tla)",
    }
    extra = []
    if summary["diverged"]:
        extra.append("DRIFT: %d of %d replays left the conducted schedule (gates timed out; soft, verdict unaffected)"
                     % (summary["diverged"], summary["cases"]))
    if bound.violated != "InFlightBound":
        extra.append("DRIFT: the model no longer violates InFlight <= Max (soft)")
    return vlib.finish(ctx, "model_checking", cov, viols,
                       ["the raw frame server and the recorder are trusted; events are totally ordered by one mutex per connection, "
                        "srv_send is recorded before the bytes are written, srv_recv / call_ret after the fact",
                        "inflight_bound counts, at the arrival of a request, the requests received and not yet answered whose calls "
                        "later returned their response (a lower bound of the true number on the wire)",
                        "read_timeout_honoured: the 2.5 s bound (ReadTimeout 400 ms) expires only when wall clock AND the test process's own "
                        "5 ms heartbeat (>= 60 % of nominal) agree; a starved process yields no verdict for that behaviour; the premise "
                        "(request received, nothing sent by the server, call not returned) is evaluated by the trace spec",
                        "one connection per behaviour, no re-Open after Close, every request expects a response, SASL/TLS off",
                        "bounded model: <=4 callers, <=2 calls each, Max<=3 exhaustively; 6 callers x 2 calls x Max in {1,2,5} by seeded simulation",
                        "watchdog %s ms per behaviour for no_hang (Net.ReadTimeout 60 ms where silence is scripted)" % os.environ.get("VERIF_BC_HANG_MS", "4000")],
                       save={"trace.ndjson": trace, "cases.ndjson": casefile}, extra_lines=extra)
