import balance_common

META = dict(
    level="model_checking",
    engine="Balance",
    technique="same machinery as C08 with the balance/stickiness predicates of spec/BalanceOracle.tla; satisfiability of "
              "balance+stickiness model-checked by TLC (Balance.stickysat.cfg)",
    text="Same chains as C08; TLC evaluates RangeShape, RoundRobinFair, StickyBalanced, FixedPoint, KeepOnLeave, "
         "NoShuffleOnJoin and NoPairwiseSwap on the plans of the real strategies, each only under its stated premise. "
         "TLC also checks, for every balanced previous plan of the small space, that a next plan satisfying balance and the "
         "stickiness clause exists, so a reported violation can never be an over-constrained oracle.",
    note="bounded enumeration as C08; stickiness premises: identical subscriptions where the statement says so, previous "
         "plan produced by the strategy itself and fed back with an increasing generation",
    design_ref="6/C13",
)


def run(ctx):
    return balance_common.run(ctx, "C13", balance_common.C13)
