import balance_common


def run(ctx):
    return balance_common.run(ctx, "C13", balance_common.C13)
