import random
import consumer_common as cc

META = dict(
    level="model_checking",
    engine="Consumer",
    technique="TLC enumerates every transactional log layout within bounds (spec/ConsumerLog.tla, oracle sanity checked as an invariant); "
              "the logs are served with a faithful aborted-transaction index by the simulated broker to a real PartitionConsumer under both "
              "isolation levels; TLC validates deliveries against Visible(log, S, isolation) (spec/ConsumerObsTrace.tla)",
    text="Every log of <= 7 offsets in <= 5 record batches with transactions of two producer ids (committed, aborted, left open, back-to-back "
         "reuse of an id after an abort, non-transactional data in between, control batches) is consumed under ReadCommitted and "
         "ReadUncommitted from every start offset (including inside a transaction), with fetch sizes placing fetch boundaries at every "
         "batch, the aborted index in either order, plus per-fetch faults. TLC checks: no record of an aborted transaction and no control "
         "record is ever delivered, nothing beyond the last stable offset under read-committed, every committed and non-transactional "
         "record is delivered (consumer advances past markers), and read-uncommitted delivers all data records.",
    note="bounded enumeration (quick samples it, thorough runs all); the simulated broker computes the aborted index and the last stable "
         "offset from the stored log",
    design_ref="6/C11",
)


def run(ctx):
    rnd = random.Random(ctx.seed)
    txn, r2 = cc.gen_logs(ctx, "ConsumerLog.txn.cfg")
    gen = [{"cfg": "ConsumerLog.txn.cfg", "logs": len(txn), "states": r2.distinct, "generated": r2.generated}]
    rnd.shuffle(txn)
    quick = ctx.tier == "quick"
    scs = cc.layout_scenarios(txn[:1200] if quick else txn, rnd, 2 if quick else 2, "txn", ["rc", "rc", "ru"])
    # responses that START at a transaction marker whose producer id is used again afterwards (the
    # aborted index entry of the finished transaction is still in the response): chosen from ALL
    # enumerated logs, not from the quick sample
    reuse = []
    for l in txn:
        for j, b in enumerate(l):
            if b["ctl"] and any((not c["ctl"]) and c["txn"] and c["pid"] == b["pid"] for c in l[j + 1:]):
                reuse.append((l, b["offs"][0]))
    rnd.shuffle(reuse)
    for k, (l, off) in enumerate(reuse[:160] if quick else reuse[:3000]):
        lg = cc.add_codec(l, rnd)
        for iso in ("rc", "ru"):
            cfg = dict(version=rnd.choice(cc.V2_VERSIONS), iso=iso, fetchDefault=rnd.choice([130, 1 << 20, 1 << 20]),
                       chanBuf=rnd.choice([0, 256]), leaders=[1], nbrokers=1, abortedReverse=rnd.random() < 0.5)
            scs.append({"name": "txn-markerstart-%d-%s" % (k, iso), "family": "txn-markerstart", "cfg": cfg, "logs": {"0": lg},
                        "consume": [{"part": 0, "start": off}], "expectAll": {"0": True}, "steps": []})
    # coordinator-side aborts (marker epoch = data epoch + 1) followed by a COMMITTED transaction of the same producer id, all in
    # one response: the marker must end the aborted state whatever epoch it carries
    ca = [l for (l, off) in reuse if any(b["ctl"] == "abort" and b["offs"][0] == off for b in l)
          and any(b["ctl"] == "commit" and b["offs"][0] > off for b in l)]
    for k, l in enumerate(ca[:100] if quick else ca[:1500]):
        lg = cc.add_codec(l, rnd, coord=True)
        cfg = dict(version=rnd.choice(cc.V2_VERSIONS), iso="rc", fetchDefault=1 << 20, chanBuf=rnd.choice([0, 256]), leaders=[1], nbrokers=1,
                   abortedReverse=rnd.random() < 0.5)
        scs.append({"name": "txn-coordabort-%d" % k, "family": "txn-coordabort", "cfg": cfg, "logs": {"0": lg},
                    "consume": [{"part": 0, "start": rnd.choice([0, 0, -2])}], "expectAll": {"0": True}, "steps": []})
    # the log start offset (DeleteRecords / retention) lies INSIDE an aborted transaction: the broker still lists the
    # transaction with its original first offset (below the log start); its remaining records must stay invisible
    inside = []
    for l in txn:
        opened = {}
        for b in l:
            if b["ctl"]:
                f = opened.pop(b["pid"], None)
                if b["ctl"] == "abort" and f is not None and b["offs"][0] - f >= 2:
                    inside.append((l, f, b["offs"][0]))
            elif b["txn"]:
                opened.setdefault(b["pid"], b["offs"][0])
    rnd.shuffle(inside)
    for k, (l, first, marker) in enumerate(inside[:120] if quick else inside[:2500]):
        lg = cc.add_codec(l, rnd)
        ls = rnd.randrange(first + 1, marker + 1)
        for iso in ("rc", "ru"):
            cfg = dict(version=rnd.choice(["0.11.0.0", "1.0.0", "1.1.0", "2.1.0", "2.3.0", "2.6.0"]), iso=iso,
                       fetchDefault=rnd.choice([130, 1 << 20]), chanBuf=rnd.choice([0, 256]), leaders=[1], nbrokers=1,
                       abortedReverse=rnd.random() < 0.5)
            scs.append({"name": "txn-logstart-%d-%s" % (k, iso), "family": "txn-logstart", "cfg": cfg, "logs": {"0": lg}, "logStart": {"0": ls},
                        "consume": [{"part": 0, "start": rnd.choice([-2, ls])}], "expectAll": {"0": True}, "steps": []})
    withtx = [l for l in txn if any(b["ctl"] == "abort" for b in l)]
    scs += cc.fault_scenarios(withtx, rnd, 4 if quick else 30, family="txn-faults")
    for s in scs:
        if s["family"] == "txn-faults":
            s["cfg"]["iso"] = "rc"
            s["cfg"]["version"] = rnd.choice(cc.V2_VERSIONS)
    scs += cc.slow_reader_scenarios(withtx, rnd, 3 if quick else 20, family="txn-slow")
    mc = [("Consumer", "Consumer.quick.cfg")]
    return cc.check(ctx, "C11", cc.CLAUSES["C11"], scs, mc, gen)
