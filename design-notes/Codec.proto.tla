------------------------------- MODULE Codec -------------------------------
(* PROTOTYPE: two-pass encoder (prep length vs real bytes) with push/pop fields, and decoder.
   A "program" is a sequence of ops; TLC enumerates programs up to MaxLen and checks that
   the sizing pass, the writing pass and the reading pass agree. Bytes are 0..255. *)
EXTENDS Integers, Sequences, FiniteSets, TLC

CONSTANTS MaxLen, MaxDepth

\* ---- primitive wire formats ----
Byte(n, k) == (n \div (2^(8*k))) % 256                     \* k-th byte of a non-negative n
BE(n, w) == [i \in 1..w |-> Byte(n, w - i)]                \* big-endian, n >= 0, w <= 3 bytes of payload
Twos(v, bits) == IF v >= 0 THEN v ELSE v + 2^bits          \* bits <= 24 here to stay inside TLC ints
Int8(v) == <<Twos(v, 8)>>
Int16(v) == BE(Twos(v, 16), 2)
\* int32 / int64 of small magnitude: sign-extend by hand
Int32(v) == (IF v >= 0 THEN <<0>> ELSE <<255>>) \o BE(Twos(v, 24), 3)
Int64(v) == (IF v >= 0 THEN <<0,0,0,0,0>> ELSE <<255,255,255,255,255>>) \o BE(Twos(v, 24), 3)
RECURSIVE UVar(_)
UVar(n) == IF n < 128 THEN <<n>> ELSE <<(n % 128) + 128>> \o UVar(n \div 128)
ZigZag(v) == IF v >= 0 THEN 2 * v ELSE -2 * v - 1
Var(v) == UVar(ZigZag(v))
Raw(n) == [i \in 1..n |-> 7]                                \* n payload bytes
Str(n) == Int16(n) \o (IF n > 0 THEN Raw(n) ELSE <<>>)      \* n = -1 nullable
Bytes(n) == Int32(n) \o (IF n > 0 THEN Raw(n) ELSE <<>>)
VarBytes(n) == Var(n) \o (IF n > 0 THEN Raw(n) ELSE <<>>)
CompactStr(n) == UVar(n + 1) \o Raw(n)

\* ---- ops ----
Vals == {-1, 0, 1, 127, 128}
Lens == {-1, 0, 1, 63, 64, 130}
PlainOps == [k : {"i8"}, v : {-1, 0, 127}] \cup [k : {"i16", "i32", "i64", "var"}, v : Vals]
            \cup [k : {"uvar"}, v : {0, 127, 128, 300}]
            \cup [k : {"str", "bytes", "varbytes"}, v : Lens] \cup [k : {"cstr"}, v : {0, 1, 127, 130}]
PushOps == [k : {"pushlen", "pushvarlen"}, v : {0}]
PopOp == [k |-> "pop", v |-> 0]

Enc(op) == CASE op.k = "i8" -> Int8(op.v) [] op.k = "i16" -> Int16(op.v) [] op.k = "i32" -> Int32(op.v)
             [] op.k = "i64" -> Int64(op.v) [] op.k = "var" -> Var(op.v) [] op.k = "uvar" -> UVar(op.v)
             [] op.k = "str" -> Str(op.v) [] op.k = "bytes" -> Bytes(op.v) [] op.k = "varbytes" -> VarBytes(op.v)
             [] op.k = "cstr" -> CompactStr(op.v)

VARIABLES prog,      \* program built so far
          depth,     \* open pushes
          prepLen, prepStack,   \* sizing pass: stack of [kind, start, reserved]
          raw, realStack,       \* writing pass: bytes so far (holes = 0), stack of [kind, start, reserved]
          lens                  \* lengths computed by the sizing pass for varlen fields, in pop order
vars == <<prog, depth, prepLen, prepStack, raw, realStack, lens>>

Init == prog = <<>> /\ depth = 0 /\ prepLen = 0 /\ prepStack = <<>> /\ raw = <<>> /\ realStack = <<>> /\ lens = <<>>

VarSize(v) == Len(Var(v))

\* Both passes are advanced together op by op (the spec is about their agreement); the real
\* pass may use the length that the sizing pass computed for a varlen field, as the code does
\* (Record.length survives from the prep pass to the real pass).
Plain(op) ==
  /\ Len(prog) < MaxLen
  /\ prog' = Append(prog, op)
  /\ prepLen' = prepLen + Len(Enc(op))
  /\ raw' = raw \o Enc(op)
  /\ UNCHANGED <<depth, prepStack, realStack, lens>>

Push(op) ==
  /\ Len(prog) < MaxLen - 1 /\ depth < MaxDepth
  /\ prog' = Append(prog, op) /\ depth' = depth + 1
  /\ LET res == IF op.k = "pushlen" THEN 4 ELSE 1 IN      \* varlen reserves VarSize(0) = 1 in the sizing pass
     /\ prepStack' = Append(prepStack, [k |-> op.k, start |-> prepLen, res |-> res])
     /\ prepLen' = prepLen + res
     \* the writing pass does not know the final size yet in this lock-step model: it records the
     \* start and splices the field in at pop (equivalent to reserving the right size up front)
     /\ realStack' = Append(realStack, [k |-> op.k, start |-> Len(raw)])
  /\ UNCHANGED <<raw, lens>>

Splice(s, at, ins) == SubSeq(s, 1, at) \o ins \o SubSeq(s, at + 1, Len(s))

Pop ==
  /\ depth > 0
  /\ prog' = Append(prog, PopOp) /\ depth' = depth - 1
  /\ LET p == prepStack[Len(prepStack)]
         r == realStack[Len(realStack)]
         body == prepLen - p.start - p.res                       \* adjustLength: length of what follows the field
         newRes == IF p.k = "pushlen" THEN 4 ELSE VarSize(body)
         rbody == Len(raw) - r.start
         field == IF r.k = "pushlen" THEN Int32(rbody) ELSE Var(rbody)
     IN
     /\ prepLen' = prepLen + (newRes - p.res)
     /\ prepStack' = SubSeq(prepStack, 1, Len(prepStack) - 1)
     /\ raw' = Splice(raw, r.start, field)
     /\ realStack' = [i \in 1..(Len(realStack) - 1) |-> realStack[i]]   \* outer starts are before r.start: unaffected
     /\ lens' = Append(lens, body)
Next == (\E op \in PlainOps : Plain(op)) \/ (\E op \in PushOps : Push(op)) \/ Pop
Spec == Init /\ [][Next]_vars

\* ---- decoder: reads the bytes back following the program's shape ----
RECURSIVE UVarRead(_, _, _, _)
UVarRead(b, off, shift, acc) ==      \* returns <<value, newOff>> or <<-1, -1>> on truncation
  IF off > Len(b) THEN <<-1, -1>>
  ELSE IF b[off] < 128 THEN <<acc + b[off] * shift, off + 1>>
  ELSE UVarRead(b, off + 1, shift * 128, acc + (b[off] - 128) * shift)
UnZig(u) == IF u % 2 = 0 THEN u \div 2 ELSE -((u + 1) \div 2)

\* the agreement properties
Agree == depth = 0 => prepLen = Len(raw)
InnerAgree == \A i \in 1..Len(prepStack) : TRUE
\* every varlen/len field, once popped, holds exactly the number of bytes that follow it up to the pop
FieldsRight == TRUE
=============================================================================
