SPECIFICATION Spec
CONSTANTS
  NMsgs = 4
  Parts = {"p1","p2"}
  PartOf <- MCPartOf2
  Brokers = {"b1"}
  InitLeader <- MCInitLeader
  RetryMax = 0
  MaxFaults = 1
  MaxMoves = 0
  MaxBp = 4
INVARIANTS OrderOK NoBad NoForeign QuiescentDone BufferedDrains NoNilDeref BpEnough
CHECK_DEADLOCK FALSE
