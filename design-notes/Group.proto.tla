------------------------------- MODULE Group -------------------------------
(* PROTOTYPE: client-side concurrency skeleton of consumer_group.go for ONE member:
   Consume (holding the group lock for a whole session), claim goroutines, heartbeat loop,
   partition-count watcher, error forwarders calling handleError, and Close().
   Coordinator answers are abstract. *)
EXTENDS Naturals, Sequences, FiniteSets, TLC

CONSTANTS Claims,        \* partitions assigned in the session
          MaxConsume,    \* how many times the application calls Consume
          ReturnErrors   \* Consumer.Return.Errors

VARIABLES closed,        \* c.closed is closed
          errClosed,     \* c.errors is closed
          lock,          \* "none" | "consume" | "leave"
          memberID,      \* TRUE = non-empty
          cpc,           \* Consume program counter
          nConsume,
          ctxDone,       \* session context cancelled
          parentCancel,  \* application cancelled its context
          claim,         \* [Claims -> "idle"|"running"|"handler"|"closing"|"done"]
          hb,            \* "off"|"run"|"dead"
          hbDying,
          watch,         \* partition-count watcher: "off"|"run"|"done"
          fw,            \* error forwarder: "idle"|"checked"|"done"  (one lingering goroutine)
          fwSrcOpen,     \* its source channel still open
          kpc,           \* Close program counter
          log,           \* sequence of life-cycle events
          panic

vars == <<closed, errClosed, lock, memberID, cpc, nConsume, ctxDone, parentCancel, claim, hb, hbDying,
          watch, fw, fwSrcOpen, kpc, log, panic>>

Init == /\ closed = FALSE /\ errClosed = FALSE /\ lock = "none" /\ memberID = FALSE
        /\ cpc = "idle" /\ nConsume = 0 /\ ctxDone = FALSE /\ parentCancel = FALSE
        /\ claim = [p \in Claims |-> "idle"] /\ hb = "off" /\ hbDying = FALSE /\ watch = "off"
        /\ fw = "idle" /\ fwSrcOpen = FALSE /\ kpc = "idle" /\ log = <<>> /\ panic = {}

Ev(e) == log' = log

-----------------------------------------------------------------------------
(* Consume *)
ConsumeCall ==
  /\ cpc = "idle" /\ nConsume < MaxConsume
  /\ nConsume' = nConsume + 1
  /\ IF closed THEN cpc' = "idle" /\ UNCHANGED log        \* ErrClosedConsumerGroup
     ELSE cpc' = "wantlock" /\ Ev("consume_call")
  /\ UNCHANGED <<closed, errClosed, lock, memberID, ctxDone, parentCancel, claim, hb, hbDying, watch, fw, fwSrcOpen, kpc, panic>>

ConsumeLock ==
  /\ cpc = "wantlock" /\ lock = "none"
  /\ lock' = "consume" /\ cpc' = "join"
  /\ UNCHANGED <<closed, errClosed, memberID, nConsume, ctxDone, parentCancel, claim, hb, hbDying, watch, fw, fwSrcOpen, kpc, log, panic>>

\* join + sync; may fail (returns an error, no session) or succeed
JoinSync ==
  /\ cpc = "join"
  /\ \/ /\ cpc' = "unlock" /\ UNCHANGED <<memberID, ctxDone, hb, hbDying, fwSrcOpen, log>>   \* failed / closed during retry
     \/ /\ memberID' = TRUE /\ ctxDone' = parentCancel /\ hb' = "run" /\ hbDying' = FALSE /\ fwSrcOpen' = TRUE
        /\ cpc' = "setup" /\ Ev("joined")
  /\ UNCHANGED <<closed, errClosed, lock, nConsume, parentCancel, claim, watch, fw, kpc, panic>>

Setup ==
  /\ cpc = "setup"
  /\ cpc' = "startclaims" /\ Ev("setup")
  /\ claim' = [p \in Claims |-> "idle"]
  /\ UNCHANGED <<closed, errClosed, lock, memberID, nConsume, ctxDone, parentCancel, hb, hbDying, watch, fw, fwSrcOpen, kpc, panic>>

StartClaims ==
  /\ cpc = "startclaims"
  /\ claim' = [p \in Claims |-> "running"]
  /\ watch' = "run"
  /\ cpc' = "waitctx"
  /\ UNCHANGED <<closed, errClosed, lock, memberID, nConsume, ctxDone, parentCancel, hb, hbDying, fw, fwSrcOpen, kpc, log, panic>>

\* claim goroutine: quick exit if the session is already ending, else ConsumeClaim
ClaimBegin(p) ==
  /\ claim[p] = "running"
  /\ IF ctxDone \/ closed
     THEN /\ claim' = [claim EXCEPT ![p] = "done"] /\ ctxDone' = TRUE /\ UNCHANGED log
     ELSE /\ claim' = [claim EXCEPT ![p] = "handler"] /\ Ev(<<"claim_start", p>>) /\ UNCHANGED ctxDone
  /\ UNCHANGED <<closed, errClosed, lock, memberID, cpc, nConsume, parentCancel, hb, hbDying, watch, fw, fwSrcOpen, kpc, panic>>

\* the handler returns: early by itself, or because Messages() was closed (ctx done / group closed)
ClaimReturn(p) ==
  /\ claim[p] = "handler"
  /\ claim' = [claim EXCEPT ![p] = "done"]
  /\ ctxDone' = TRUE                      \* defer sess.cancel()
  /\ Ev(<<"claim_ret", p>>)
  /\ UNCHANGED <<closed, errClosed, lock, memberID, cpc, nConsume, parentCancel, hb, hbDying, watch, fw, fwSrcOpen, kpc, panic>>
\* a handler that blocks until closed only returns once the session is ending
BlockingHandlersOnly == FALSE
ClaimReturnEnabled(p) == ~BlockingHandlersOnly \/ ctxDone \/ closed

Heartbeat ==
  /\ hb = "run"
  /\ \/ /\ ~hbDying /\ UNCHANGED <<hb, ctxDone>>                      \* ok answer, keep going
     \/ /\ hb' = "dead" /\ ctxDone' = TRUE                           \* rebalance / fenced / error / hbDying
  /\ UNCHANGED <<closed, errClosed, lock, memberID, cpc, nConsume, parentCancel, claim, hbDying, watch, fw, fwSrcOpen, kpc, log, panic>>

Watcher ==
  /\ watch = "run"
  /\ \/ /\ (ctxDone \/ closed) /\ watch' = "done" /\ ctxDone' = TRUE
     \/ /\ watch' = "done" /\ ctxDone' = TRUE                         \* partition count changed / metadata error
  /\ UNCHANGED <<closed, errClosed, lock, memberID, cpc, nConsume, parentCancel, claim, hb, hbDying, fw, fwSrcOpen, kpc, log, panic>>

ParentCancel ==
  /\ ~parentCancel /\ parentCancel' = TRUE
  /\ ctxDone' = IF cpc \in {"setup", "startclaims", "waitctx", "waitclaims", "cleanup", "offsets", "hbstop"} THEN TRUE ELSE ctxDone
  /\ UNCHANGED <<closed, errClosed, lock, memberID, cpc, nConsume, claim, hb, hbDying, watch, fw, fwSrcOpen, kpc, log, panic>>

\* <-sess.ctx.Done(); release: cancel, wait for claims, Cleanup, offsets.Close (final commit), stop heartbeat
WaitCtx ==
  /\ cpc = "waitctx" /\ ctxDone
  /\ cpc' = "waitclaims"
  /\ UNCHANGED <<closed, errClosed, lock, memberID, nConsume, ctxDone, parentCancel, claim, hb, hbDying, watch, fw, fwSrcOpen, kpc, log, panic>>
WaitClaims ==
  /\ cpc = "waitclaims" /\ \A p \in Claims : claim[p] = "done"
  /\ cpc' = "cleanup"
  /\ UNCHANGED <<closed, errClosed, lock, memberID, nConsume, ctxDone, parentCancel, claim, hb, hbDying, watch, fw, fwSrcOpen, kpc, log, panic>>
Cleanup ==
  /\ cpc = "cleanup" /\ cpc' = "offsets" /\ Ev("cleanup")
  /\ UNCHANGED <<closed, errClosed, lock, memberID, nConsume, ctxDone, parentCancel, claim, hb, hbDying, watch, fw, fwSrcOpen, kpc, panic>>
OffsetsClose ==
  /\ cpc = "offsets" /\ cpc' = "hbstop" /\ Ev("final_commit")
  /\ fwSrcOpen' = FALSE                   \* POM error channels are closed here
  /\ hbDying' = TRUE
  /\ UNCHANGED <<closed, errClosed, lock, memberID, nConsume, ctxDone, parentCancel, claim, hb, watch, fw, kpc, panic>>
HbStop ==
  /\ cpc = "hbstop" /\ hb = "dead"
  /\ cpc' = "unlock"
  /\ UNCHANGED <<closed, errClosed, lock, memberID, nConsume, ctxDone, parentCancel, claim, hb, hbDying, watch, fw, fwSrcOpen, kpc, log, panic>>
ConsumeUnlock ==
  /\ cpc = "unlock"
  /\ lock' = "none" /\ cpc' = "idle" /\ Ev("consume_ret")
  /\ hb' = "off" /\ watch' = IF watch = "run" THEN "run" ELSE "off"
  /\ UNCHANGED <<closed, errClosed, memberID, nConsume, ctxDone, parentCancel, claim, hbDying, fw, fwSrcOpen, kpc, panic>>

-----------------------------------------------------------------------------
(* a lingering goroutine forwarding an error: handleError = check closed, then send on errors *)
FwCheck ==
  /\ fw = "idle" /\ fwSrcOpen /\ ReturnErrors
  /\ IF closed THEN fw' = "idle" ELSE fw' = "checked"
  /\ UNCHANGED <<closed, errClosed, lock, memberID, cpc, nConsume, ctxDone, parentCancel, claim, hb, hbDying, watch, fwSrcOpen, kpc, log, panic>>
FwSend ==
  /\ fw = "checked"
  /\ fw' = "idle"
  /\ panic' = IF errClosed THEN panic \cup {"send on closed errors channel"} ELSE panic
  /\ UNCHANGED <<closed, errClosed, lock, memberID, cpc, nConsume, ctxDone, parentCancel, claim, hb, hbDying, watch, fwSrcOpen, kpc, log>>

-----------------------------------------------------------------------------
(* Close *)
CloseCall2 ==
  /\ kpc = "idle"
  /\ closed' = TRUE /\ kpc' = "leave"
  /\ log' = log
  /\ UNCHANGED <<errClosed, lock, memberID, cpc, nConsume, ctxDone, parentCancel, claim, hb, hbDying, watch, fw, fwSrcOpen, panic>>
CloseLeave ==
  /\ kpc = "leave" /\ lock = "none"
  /\ memberID' = FALSE /\ kpc' = "errors"
  /\ UNCHANGED <<closed, errClosed, lock, cpc, nConsume, ctxDone, parentCancel, claim, hb, hbDying, watch, fw, fwSrcOpen, log, panic>>
CloseErrors ==
  /\ kpc = "errors"
  /\ errClosed' = TRUE /\ kpc' = "done" /\ Ev("close_ret")
  /\ UNCHANGED <<closed, lock, memberID, cpc, nConsume, ctxDone, parentCancel, claim, hb, hbDying, watch, fw, fwSrcOpen, panic>>

Next ==
  \/ ConsumeCall \/ ConsumeLock \/ JoinSync \/ Setup \/ StartClaims
  \/ \E p \in Claims : ClaimBegin(p) \/ (ClaimReturnEnabled(p) /\ ClaimReturn(p))
  \/ Heartbeat \/ Watcher \/ ParentCancel
  \/ WaitCtx \/ WaitClaims \/ Cleanup \/ OffsetsClose \/ HbStop \/ ConsumeUnlock
  \/ FwCheck \/ FwSend
  \/ CloseCall2 \/ CloseLeave \/ CloseErrors
Spec == Init /\ [][Next]_vars

-----------------------------------------------------------------------------
NoPanic == panic = {}
Idx(e) == CHOOSE k \in 1..Len(log) : log[k] = e /\ \A j \in (k+1)..Len(log) : log[j] # e   \* last occurrence
\* every stuck state: no Consume still blocked, Close finished if called
Stuck == ~ENABLED Next
StuckClean == Stuck => (cpc = "idle" /\ kpc \in {"idle", "done"})
\* life-cycle order within the log (checked on the whole log, sessions are sequential)
RECURSIVE Ok(_, _)
Ok(s, st) ==      \* st: "out" | "joined" | "setup" | "claims" | "cleanup" | "final"
  IF s = <<>> THEN TRUE
  ELSE LET e == Head(s) IN
       CASE e = "consume_call" -> st = "out" /\ Ok(Tail(s), "out")
         [] e = "joined" -> st = "out" /\ Ok(Tail(s), "joined")
         [] e = "setup" -> st = "joined" /\ Ok(Tail(s), "claims")
         [] e = "cleanup" -> st = "claims" /\ Ok(Tail(s), "cleanup")
         [] e = "final_commit" -> st = "cleanup" /\ Ok(Tail(s), "final")
         [] e = "consume_ret" -> st \in {"out", "final"} /\ Ok(Tail(s), "out")
         [] e \in {"close_call", "close_ret"} -> Ok(Tail(s), st)
         [] OTHER -> (e[1] \in {"claim_start", "claim_ret"}) /\ st = "claims" /\ Ok(Tail(s), st)
LifeCycle == Ok(log, "out")
View == <<closed, errClosed, lock, memberID, cpc, nConsume, ctxDone, parentCancel, claim, hb, hbDying, watch, fw, fwSrcOpen, kpc, panic>>
=============================================================================
