---- MODULE ProducerObsTrace ----
(* PROTOTYPE: total (never-blocking) observer for C01/C02/C04 clauses over a recorded trace *)
EXTENDS Naturals, Sequences, FiniteSets, TLC, Json
Trace == ndJsonDeserialize("trace.ndjson")
VARIABLES l, submitted, outcome, log, closed, viol, lastSub
vars == <<l, submitted, outcome, log, closed, viol, lastSub>>

Fresh == /\ submitted = {} /\ outcome = <<>> /\ log = <<>> /\ closed = FALSE /\ viol = {} /\ lastSub = <<>>
Init == l = 1 /\ Fresh

E == Trace[l]
V(c) == {<<E.t, E.i, c>>}
Get(f, k, d) == IF k \in DOMAIN f THEN f[k] ELSE d
Put(f, k, v) == [x \in DOMAIN f \cup {k} |-> IF x = k THEN v ELSE f[x]]

RECURSIVE FirstCopies(_, _)
FirstCopies(s, seen) ==
  IF s = <<>> THEN <<>>
  ELSE IF Head(s) \in seen THEN FirstCopies(Tail(s), seen)
       ELSE <<Head(s)>> \o FirstCopies(Tail(s), seen \cup {Head(s)})
Increasing(s) == \A a \in 1..(Len(s) - 1) : s[a] < s[a + 1]

TReset ==
  /\ E.ev = "reset"
  /\ IF viol # {} THEN PrintT(<<"VIOL", ToJson(viol)>>) ELSE TRUE
  /\ submitted' = {} /\ outcome' = <<>> /\ log' = <<>> /\ closed' = FALSE /\ viol' = {} /\ lastSub' = <<>>

TSubmit ==
  /\ E.ev = "submit"
  /\ submitted' = submitted \cup {E.id}
  /\ outcome' = Put(outcome, E.id, "none")
  /\ viol' = viol \cup (IF closed THEN V("submit_after_close") ELSE {})
  /\ UNCHANGED <<log, closed, lastSub>>

TAppend ==
  /\ E.ev = "append"
  /\ LET old == Get(log, E.part, <<>>)
         new == old \o E.ids
         foreign == \E k \in 1..Len(E.ids) : E.ids[k] \notin submitted
     IN
     /\ log' = Put(log, E.part, new)
     /\ viol' = viol \cup (IF E.base # Len(old) THEN V("append_base") ELSE {})
                     \cup (IF foreign THEN V("nothing_foreign_appended") ELSE {})
                     \cup (IF ~Increasing(FirstCopies(new, {})) THEN V("log_order") ELSE {})
  /\ UNCHANGED <<submitted, outcome, closed, lastSub>>

TSuccess ==
  /\ E.ev = "success"
  /\ LET known == E.id \in submitted
         lg == Get(log, E.part, <<>>)
     IN
     /\ outcome' = IF known THEN Put(outcome, E.id, "ok") ELSE outcome
     /\ viol' = viol \cup (IF ~known THEN V("outcome_for_unknown") ELSE {})
                     \cup (IF known /\ outcome[E.id] # "none" THEN V("outcome_twice") ELSE {})
                     \cup (IF ~(E.off + 1 \in 1..Len(lg) /\ lg[E.off + 1] = E.id) THEN V("success_offset_holds_message") ELSE {})
                     \cup (IF closed THEN V("event_after_close") ELSE {})
  /\ UNCHANGED <<submitted, log, closed, lastSub>>

TError ==
  /\ E.ev = "error"
  /\ LET known == E.id \in submitted IN
     /\ outcome' = IF known THEN Put(outcome, E.id, "err") ELSE outcome
     /\ viol' = viol \cup (IF ~known THEN V("outcome_for_unknown") ELSE {})
                     \cup (IF known /\ outcome[E.id] # "none" THEN V("outcome_twice") ELSE {})
                     \cup (IF closed THEN V("event_after_close") ELSE {})
  /\ UNCHANGED <<submitted, log, closed, lastSub>>

TClosed ==
  /\ E.ev = "closed"
  /\ closed' = TRUE
  /\ viol' = viol \cup (IF \E m \in submitted : outcome[m] = "none" THEN V("outcome_missing_at_close") ELSE {})
  /\ UNCHANGED <<submitted, outcome, log, lastSub>>

Next == /\ l <= Len(Trace)
        /\ l' = l + 1
        /\ (TReset \/ TSubmit \/ TAppend \/ TSuccess \/ TError \/ TClosed)
Spec == Init /\ [][Next]_vars
Accepted == /\ TLCGet("stats").diameter - 1 = Len(Trace)
====
