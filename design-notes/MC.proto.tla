---- MODULE MC ----
EXTENDS Producer
MCPartOf == [m \in 1..NMsgs |-> IF m % 2 = 1 THEN "p1" ELSE "p1"]
MCPartOf2 == [m \in 1..NMsgs |-> IF m % 2 = 1 THEN "p1" ELSE "p2"]
MCInitLeader == [p \in Parts |-> "b1"]
====
