SPECIFICATION Spec
CONSTANTS
  NMsgs = 3
  Parts = {"p1","p2"}
  PartOf <- MCPartOf2
  Brokers = {"b1"}
  InitLeader <- MCInitLeader
  RetryMax = 1
  MaxFaults = 2
  MaxMoves = 0
  MaxBp = 4
  Idem = TRUE
  FixFlushSeq = TRUE
  FixRbAll = TRUE
INVARIANTS X
CHECK_DEADLOCK FALSE
