SPECIFICATION Spec
CONSTANTS Parts = {p1, p2}
  MaxOff = 2
  Metas = {"a", "b"}
  MaxOps = 3
  MaxCommits = 2
  RetryMax = 1
  MaxFaults = 2
INVARIANTS CommittedWasMarked RequestIsSnapshot CleanMeansStored ClosedAcceptedClean
CHECK_DEADLOCK FALSE
