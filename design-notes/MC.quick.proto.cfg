SPECIFICATION Spec
CONSTANTS
  NMsgs = 3
  Parts = {"p1"}
  PartOf <- MCPartOf
  Brokers = {"b1"}
  InitLeader <- MCInitLeader
  RetryMax = 2
  MaxFaults = 2
  MaxMoves = 0
  MaxBp = 4
INVARIANTS OrderOK NoBad NoForeign QuiescentDone BufferedDrains NoNilDeref BpEnough
CHECK_DEADLOCK FALSE
