---- MODULE OffsetManager ----
(* PROTOTYPE: offset_manager.go — marks/resets vs commit snapshot/response, Close with final attempts *)
EXTENDS Integers, Sequences, FiniteSets, TLC
CONSTANTS Parts, MaxOff, Metas, MaxOps, MaxCommits, RetryMax, MaxFaults
VARIABLES pom, store, pc, todo, req, resp, ops, commits, faults, marks, touched,
          closeSt, attempt, lastAllOk
vars == <<pom, store, pc, todo, req, resp, ops, commits, faults, marks, touched, closeSt, attempt, lastAllOk>>

Pos(o, m) == [off |-> o, meta |-> m]
NoPos == Pos(-1, "")
Init == /\ pom = [p \in Parts |-> [off |-> -1, meta |-> "", dirty |-> FALSE, done |-> FALSE]]
        /\ store = [p \in Parts |-> NoPos]
        /\ pc = "idle" /\ todo = {} /\ req = <<>> /\ resp = <<>>
        /\ ops = 0 /\ commits = 0 /\ faults = 0
        /\ marks = [p \in Parts |-> {NoPos}] /\ touched = [p \in Parts |-> FALSE]
        /\ closeSt = "open" /\ attempt = 0 /\ lastAllOk = TRUE

Cur(p) == Pos(pom[p].off, pom[p].meta)
Put(f, k, v) == [x \in DOMAIN f \cup {k} |-> IF x = k THEN v ELSE f[x]]

Mark(p, o, m) ==
  /\ closeSt = "open" /\ ops < MaxOps
  /\ ops' = ops + 1
  /\ IF o > pom[p].off
     THEN /\ pom' = [pom EXCEPT ![p].off = o, ![p].meta = m, ![p].dirty = TRUE]
          /\ marks' = [marks EXCEPT ![p] = @ \cup {Pos(o, m)}]
          /\ touched' = [touched EXCEPT ![p] = TRUE]
     ELSE UNCHANGED <<pom, marks, touched>>
  /\ UNCHANGED <<store, pc, todo, req, resp, commits, faults, closeSt, attempt, lastAllOk>>

Reset(p, o, m) ==
  /\ closeSt = "open" /\ ops < MaxOps
  /\ ops' = ops + 1
  /\ IF o <= pom[p].off
     THEN /\ pom' = [pom EXCEPT ![p].off = o, ![p].meta = m, ![p].dirty = TRUE]
          /\ marks' = [marks EXCEPT ![p] = @ \cup {Pos(o, m)}]
          /\ touched' = [touched EXCEPT ![p] = TRUE]
     ELSE UNCHANGED <<pom, marks, touched>>
  /\ UNCHANGED <<store, pc, todo, req, resp, commits, faults, closeSt, attempt, lastAllOk>>

\* flushToBroker: constructRequest visits the partitions one by one under each partition's lock
BuildStart ==
  /\ pc = "idle"
  /\ \/ closeSt = "open" /\ commits < MaxCommits /\ commits' = commits + 1 /\ UNCHANGED attempt
     \/ closeSt = "final" /\ attempt <= RetryMax /\ UNCHANGED commits /\ attempt' = attempt + 1
  /\ pc' = "building" /\ todo' = Parts /\ req' = <<>>
  /\ UNCHANGED <<pom, store, resp, ops, faults, marks, touched, closeSt, lastAllOk>>

BuildOne(p) ==
  /\ pc = "building" /\ p \in todo
  /\ todo' = todo \ {p}
  /\ req' = IF pom[p].dirty THEN Put(req, p, Cur(p)) ELSE req
  /\ UNCHANGED <<pom, store, pc, resp, ops, commits, faults, marks, touched, closeSt, attempt, lastAllOk>>

BuildEnd ==
  /\ pc = "building" /\ todo = {}
  /\ pc' = IF DOMAIN req = {} THEN "after" ELSE "sent"
  /\ lastAllOk' = IF DOMAIN req = {} THEN TRUE ELSE lastAllOk
  /\ UNCHANGED <<pom, store, todo, req, resp, ops, commits, faults, marks, touched, closeSt, attempt>>

Kinds == {"ok", "redispatch", "report", "load", "missing"}
Coord ==
  /\ pc = "sent"
  /\ \/ \E ks \in [DOMAIN req -> Kinds] :
          LET nf == Cardinality({p \in DOMAIN req : ks[p] # "ok"}) IN
          /\ faults + nf <= MaxFaults /\ faults' = faults + nf
          /\ store' = [p \in Parts |-> IF p \in DOMAIN req /\ ks[p] = "ok" THEN req[p] ELSE store[p]]
          /\ resp' = ks /\ pc' = "resp" /\ todo' = DOMAIN req
          /\ lastAllOk' = (nf = 0)
     \/ \E applied \in BOOLEAN :
          /\ faults < MaxFaults /\ faults' = faults + 1
          /\ store' = [p \in Parts |-> IF applied /\ p \in DOMAIN req THEN req[p] ELSE store[p]]
          /\ resp' = <<>> /\ pc' = "after" /\ UNCHANGED todo
          /\ lastAllOk' = FALSE
  /\ UNCHANGED <<pom, req, ops, commits, marks, touched, closeSt, attempt>>

\* handleResponse: updateCommitted per partition, dirty cleared only if position unchanged
HandleOne(p) ==
  /\ pc = "resp" /\ p \in todo
  /\ todo' = todo \ {p}
  /\ pom' = IF resp[p] = "ok" /\ Cur(p) = req[p] THEN [pom EXCEPT ![p].dirty = FALSE] ELSE pom
  /\ UNCHANGED <<store, pc, req, resp, ops, commits, faults, marks, touched, closeSt, attempt, lastAllOk>>
HandleEnd ==
  /\ pc = "resp" /\ todo = {}
  /\ pc' = "after"
  /\ UNCHANGED <<pom, store, todo, req, resp, ops, commits, faults, marks, touched, closeSt, attempt, lastAllOk>>

\* after a flush: Commit() -> releasePOMs(false); in the final loop decide whether to go on
After ==
  /\ pc = "after"
  /\ pc' = "idle"
  /\ closeSt' = IF closeSt = "final" /\ ((\A p \in Parts : ~pom[p].dirty) \/ attempt > RetryMax) THEN "closed" ELSE closeSt
  /\ UNCHANGED <<pom, store, todo, req, resp, ops, commits, faults, marks, touched, attempt, lastAllOk>>

CloseBegin ==   \* close(closing); wait for mainLoop; asyncClosePOMs
  /\ closeSt = "open" /\ pc = "idle"
  /\ closeSt' = "final" /\ attempt' = 0
  /\ pom' = [p \in Parts |-> [pom[p] EXCEPT !.done = TRUE]]
  /\ UNCHANGED <<store, pc, todo, req, resp, ops, commits, faults, marks, touched, lastAllOk>>

Next == \/ \E p \in Parts, o \in 0..MaxOff, m \in Metas : Mark(p, o, m) \/ Reset(p, o, m)
        \/ BuildStart \/ BuildEnd \/ Coord \/ HandleEnd \/ After \/ CloseBegin
        \/ \E p \in Parts : BuildOne(p) \/ HandleOne(p)
Spec == Init /\ [][Next]_vars

CommittedWasMarked == \A p \in Parts : store[p] \in marks[p]
RequestIsSnapshot == \A p \in DOMAIN req : req[p] \in marks[p]
CleanMeansStored == \A p \in Parts : (touched[p] /\ ~pom[p].dirty) => store[p] = Cur(p)
ClosedAcceptedClean == (closeSt = "closed" /\ lastAllOk) => \A p \in Parts : touched[p] => store[p] = Cur(p)
====
