---- MODULE BrokerConn ----
(* PROTOTYPE: broker.go send / responseReceiver, one connection, N concurrent callers *)
EXTENDS Naturals, Sequences, FiniteSets, TLC
CONSTANTS Callers, Max, MaxFaults
VARIABLES pc, lock, corr, myCorr, wire, respQ, recv, srvOut, dead, result, faults, silent
vars == <<pc, lock, corr, myCorr, wire, respQ, recv, srvOut, dead, result, faults, silent>>
None == "none"

Init == /\ pc = [c \in Callers |-> "idle"] /\ lock = None /\ corr = 0
        /\ myCorr = [c \in Callers |-> 0]
        /\ wire = <<>> /\ respQ = <<>> /\ recv = <<>> /\ srvOut = <<>>
        /\ dead = FALSE /\ result = [c \in Callers |-> "none"] /\ faults = 0 /\ silent = FALSE

Lock(c) == /\ pc[c] = "idle" /\ lock = None
           /\ lock' = c /\ pc' = [pc EXCEPT ![c] = "locked"]
           /\ UNCHANGED <<corr, myCorr, wire, respQ, recv, srvOut, dead, result, faults, silent>>

\* encode + write: from here the request is on the wire
Write(c) == /\ pc[c] = "locked"
            /\ wire' = Append(wire, [corr |-> corr, c |-> c])
            /\ myCorr' = [myCorr EXCEPT ![c] = corr]
            /\ corr' = corr + 1
            /\ pc' = [pc EXCEPT ![c] = "wrote"]
            /\ UNCHANGED <<lock, respQ, recv, srvOut, dead, result, faults, silent>>

\* b.responses <- promise  (buffered channel of capacity Max-1, receiver may be parked on it)
Enqueue(c) == /\ pc[c] = "wrote"
              /\ \/ /\ Len(respQ) < Max - 1
                    /\ respQ' = Append(respQ, [corr |-> myCorr[c], c |-> c]) /\ UNCHANGED recv
                 \/ /\ respQ = <<>> /\ recv = <<>>          \* direct hand-off to the waiting receiver
                    /\ recv' = <<[corr |-> myCorr[c], c |-> c]>> /\ UNCHANGED respQ
              /\ pc' = [pc EXCEPT ![c] = "waiting"]
              /\ lock' = None
              /\ UNCHANGED <<corr, myCorr, wire, srvOut, dead, result, faults, silent>>

RecvTake == /\ recv = <<>> /\ respQ # <<>>
            /\ recv' = <<Head(respQ)>> /\ respQ' = Tail(respQ)
            /\ UNCHANGED <<pc, lock, corr, myCorr, wire, srvOut, dead, result, faults, silent>>

Server(kind) == /\ wire # <<>> /\ ~silent
                /\ kind # "ok" => faults < MaxFaults
                /\ faults' = IF kind = "ok" THEN faults ELSE faults + 1
                /\ wire' = Tail(wire)
                /\ CASE kind = "ok" -> srvOut' = Append(srvOut, Head(wire).corr) /\ UNCHANGED silent
                     [] kind = "wrongid" -> srvOut' = Append(srvOut, Head(wire).corr + 100) /\ UNCHANGED silent
                     [] kind = "eof" -> srvOut' = Append(srvOut, 9999) /\ UNCHANGED silent
                     [] kind = "silent" -> silent' = TRUE /\ UNCHANGED srvOut
                /\ UNCHANGED <<pc, lock, corr, myCorr, respQ, recv, dead, result>>

Finish(c, r) == /\ result' = [result EXCEPT ![c] = r]
                /\ pc' = [pc EXCEPT ![c] = "done"]

RecvRead == /\ recv # <<>> /\ ~dead /\ srvOut # <<>>
            /\ LET p == recv[1] r == Head(srvOut) IN
               /\ srvOut' = Tail(srvOut)
               /\ IF r = p.corr THEN Finish(p.c, "own") /\ UNCHANGED dead
                  ELSE Finish(p.c, "err") /\ dead' = TRUE
            /\ recv' = <<>>
            /\ UNCHANGED <<lock, corr, myCorr, wire, respQ, faults, silent>>

RecvTimeout == /\ recv # <<>> /\ ~dead /\ srvOut = <<>> /\ silent
               /\ Finish(recv[1].c, "err") /\ dead' = TRUE /\ recv' = <<>>
               /\ UNCHANGED <<lock, corr, myCorr, wire, respQ, srvOut, faults, silent>>

RecvDead == /\ recv # <<>> /\ dead
            /\ Finish(recv[1].c, "err") /\ recv' = <<>>
            /\ UNCHANGED <<lock, corr, myCorr, wire, respQ, srvOut, dead, faults, silent>>

Next == \/ \E c \in Callers : Lock(c) \/ Write(c) \/ Enqueue(c)
        \/ RecvTake \/ RecvRead \/ RecvTimeout \/ RecvDead
        \/ \E k \in {"ok", "wrongid", "eof", "silent"} : Server(k)
Fair == WF_vars(RecvTake) /\ WF_vars(RecvRead) /\ WF_vars(RecvTimeout) /\ WF_vars(RecvDead)
        /\ \A c \in Callers : WF_vars(Write(c)) /\ WF_vars(Enqueue(c)) /\ WF_vars(Lock(c))
        /\ WF_vars(\E k \in {"ok", "wrongid", "eof", "silent"} : Server(k))
Spec == Init /\ [][Next]_vars /\ Fair

OnWire == Cardinality({c \in Callers : pc[c] \in {"wrote", "waiting"}})
InFlightBound == OnWire <= Max
InFlightBoundPlus1 == OnWire <= Max + 1
OwnOrError == \A c \in Callers : pc[c] = "done" => result[c] \in {"own", "err"}
AfterFaultAllFail == dead => \A c \in Callers : (pc[c] = "done" /\ result[c] = "own") => TRUE
AllReturn == <>(\A c \in Callers : pc[c] = "done")
====
