------------------------------ MODULE Producer ------------------------------
(* PROTOTYPE (sizing only): implementation-shaped model of async_producer.go,
   non-idempotent path, immediate flush, one topic. *)
EXTENDS Naturals, Sequences, FiniteSets, TLC

CONSTANTS NMsgs,        \* messages 1..NMsgs, submitted in id order by one goroutine
          Parts,        \* set of partitions
          PartOf,       \* [1..NMsgs -> Parts]
          Brokers,      \* set of brokers
          InitLeader,   \* [Parts -> Brokers]
          RetryMax,
          MaxFaults,
          MaxMoves,
          MaxBp         \* broker-worker instances

Msgs == 1..NMsgs
BpIds == 1..MaxBp
Levels == 0..RetryMax

VARIABLES nextSub,   \* next message id to submit
          inSlot,    \* p.input rendezvous: <<>> or <<msg>>
          retryQ,    \* retryHandler buffer
          ppQ,       \* [Parts -> Seq(msg)]  (dispatcher -> topic -> partition, FIFO)
          pp,        \* [Parts -> record]
          bps,       \* [BpIds -> record]
          nBp,       \* instances allocated so far
          reg,       \* [Brokers -> 0..MaxBp]  p.brokers registry
          leader, view,
          log,       \* [Parts -> Seq(id)]
          outcome,   \* [Msgs -> {"none","ok","err"}]
          bad,       \* set of strings: "dup", "marker", "foreign"
          inFlight,
          faults, moves

vars == <<nextSub, inSlot, retryQ, ppQ, pp, bps, nBp, reg, leader, view, log, outcome, bad, inFlight, faults, moves>>

Msg(id, p, r, f) == [id |-> id, part |-> p, retries |-> r, flag |-> f]

EmptyBuf == [p \in Parts |-> <<>>]
NoOut == [busy |-> FALSE, set |-> EmptyBuf, res |-> "none", kinds |-> [p \in Parts |-> "none"]]

FreshBp(b) == [used |-> TRUE, broker |-> b, in |-> <<>>, buffer |-> EmptyBuf, out |-> NoOut,
               closing |-> FALSE, cur |-> [p \in Parts |-> FALSE], refs |-> 0,
               abandoned |-> FALSE, inputClosed |-> FALSE]
UnusedBp == [used |-> FALSE, broker |-> CHOOSE b \in Brokers : TRUE, in |-> <<>>, buffer |-> EmptyBuf, out |-> NoOut,
               closing |-> FALSE, cur |-> [p \in Parts |-> FALSE], refs |-> 0,
               abandoned |-> FALSE, inputClosed |-> FALSE]

Init ==
  /\ nextSub = 1
  /\ inSlot = <<>>
  /\ retryQ = <<>>
  /\ ppQ = [p \in Parts |-> <<>>]
  /\ pp = [p \in Parts |-> [hwm |-> 0, buf |-> [l \in Levels |-> <<>>], chaser |-> [l \in Levels |-> FALSE],
                            bp |-> 0, started |-> FALSE, todo |-> <<>>]]
  /\ bps = [i \in BpIds |-> UnusedBp]
  /\ nBp = 0
  /\ reg = [b \in Brokers |-> 0]
  /\ leader = InitLeader /\ view = InitLeader
  /\ log = [p \in Parts |-> <<>>]
  /\ outcome = [m \in Msgs |-> "none"]
  /\ bad = {}
  /\ inFlight = 0
  /\ faults = 0 /\ moves = 0

-----------------------------------------------------------------------------
(* outcome bookkeeping: applied to a sequence of messages *)
RECURSIVE ApplyOutcome(_, _, _, _)
ApplyOutcome(oc, bd, ms, kind) ==
  IF ms = <<>> THEN <<oc, bd>>
  ELSE LET m == Head(ms) IN
       IF m.id = 0 THEN ApplyOutcome(oc, bd \cup {"marker"}, Tail(ms), kind)
       ELSE IF oc[m.id] # "none" THEN ApplyOutcome(oc, bd \cup {"dup"}, Tail(ms), kind)
       ELSE ApplyOutcome([oc EXCEPT ![m.id] = kind], bd, Tail(ms), kind)

(* retryMessages: split into those re-queued (retries+1) and those failed *)
Requeue(ms) == SelectSeq(ms, LAMBDA m : m.retries < RetryMax)
Exhausted(ms) == SelectSeq(ms, LAMBDA m : m.retries >= RetryMax)
Bump(ms) == [k \in 1..Len(ms) |-> [ms[k] EXCEPT !.retries = @ + 1]]

RECURSIVE Flatten(_, _)
Flatten(f, ps) == IF ps = <<>> THEN <<>> ELSE f[Head(ps)] \o Flatten(f, Tail(ps))

RECURSIVE SetToSeqs(_)
SetToSeqs(S) == IF S = {} THEN {<<>>}
                ELSE UNION { {<<x>> \o s : s \in SetToSeqs(S \ {x})} : x \in S }
PartOrders == SetToSeqs(Parts)

-----------------------------------------------------------------------------
Submit ==
  /\ nextSub <= NMsgs
  /\ inSlot = <<>>
  /\ inSlot' = <<Msg(nextSub, PartOf[nextSub], 0, "none")>>
  /\ nextSub' = nextSub + 1
  /\ UNCHANGED <<retryQ, ppQ, pp, bps, nBp, reg, leader, view, log, outcome, bad, inFlight, faults, moves>>

RhDeq ==
  /\ retryQ # <<>>
  /\ inSlot = <<>>
  /\ inSlot' = <<Head(retryQ)>>
  /\ retryQ' = Tail(retryQ)
  /\ UNCHANGED <<nextSub, ppQ, pp, bps, nBp, reg, leader, view, log, outcome, bad, inFlight, faults, moves>>

DispRecv ==
  /\ inSlot # <<>>
  /\ LET m == inSlot[1] IN
     /\ ppQ' = [ppQ EXCEPT ![m.part] = Append(@, m)]
     /\ inFlight' = IF m.retries = 0 THEN inFlight + 1 ELSE inFlight
  /\ inSlot' = <<>>
  /\ UNCHANGED <<nextSub, retryQ, pp, bps, nBp, reg, leader, view, log, outcome, bad, faults, moves>>

-----------------------------------------------------------------------------
(* partition worker.  todo = sequence of micro-ops executed in order:
   <<"send", bp, msg>>, <<"unref", bp>>, <<"fwd", msg>>, <<"flush">>, <<"done">> *)

\* getBrokerProducer(b): returns <<bpsNew, nBpNew, regNew, id>>
GetBp(b, bpsv, nbp, regv) ==
  IF regv[b] # 0
  THEN <<[bpsv EXCEPT ![regv[b]].refs = @ + 1], nbp, regv, regv[b]>>
  ELSE LET id == nbp + 1 IN
       <<[bpsv EXCEPT ![id] = [FreshBp(b) EXCEPT !.refs = 1]], id, [regv EXCEPT ![b] = id], id>>

Unref(i, bpsv, regv) ==
  LET r == bpsv[i].refs - 1 IN
  IF r = 0
  THEN <<[bpsv EXCEPT ![i].refs = 0, ![i].inputClosed = TRUE],
         IF regv[bpsv[i].broker] = i THEN [regv EXCEPT ![bpsv[i].broker] = 0] ELSE regv>>
  ELSE <<[bpsv EXCEPT ![i].refs = r], regv>>

PpRecv(p) ==
  /\ pp[p].started
  /\ pp[p].todo = <<>>
  /\ ppQ[p] # <<>>
  /\ LET m == Head(ppQ[p])
         s0 == pp[p]
         \* abandoned check (Retry.Max = 0 only)
         ab == s0.bp # 0 /\ RetryMax = 0 /\ bps[s0.bp].abandoned
         pre == IF ab THEN <<<<"unref", s0.bp>>>> ELSE <<>>
         s == IF ab THEN [s0 EXCEPT !.bp = 0] ELSE s0
     IN
     /\ ppQ' = [ppQ EXCEPT ![p] = Tail(@)]
     /\ IF m.retries > s.hwm /\ s.bp = 0
        THEN \* code dereferences a nil pp.brokerProducer in newHighWatermark
             /\ pp' = [pp EXCEPT ![p] = [s EXCEPT !.todo = <<<<"nilderef">>>>]]
             /\ UNCHANGED inFlight
        ELSE IF m.retries > s.hwm
        THEN \* new high watermark: fin to current worker, unref, then forward
             /\ pp' = [pp EXCEPT ![p] = [s EXCEPT !.hwm = m.retries,
                                          !.chaser[m.retries] = TRUE,
                                          !.bp = 0,
                                          !.todo = pre \o <<<<"send", s.bp, Msg(0, p, m.retries - 1, "fin")>>,
                                                             <<"unref", s.bp>>, <<"fwd", m>>>>]]
             /\ inFlight' = inFlight + 1
        ELSE IF s.hwm > 0 /\ m.retries < s.hwm
        THEN IF m.flag = "fin"
             THEN /\ pp' = [pp EXCEPT ![p] = [s EXCEPT !.chaser[m.retries] = FALSE, !.todo = pre]]
                  /\ inFlight' = inFlight - 1
             ELSE /\ pp' = [pp EXCEPT ![p] = [s EXCEPT !.buf[m.retries] = Append(@, m), !.todo = pre]]
                  /\ UNCHANGED inFlight
        ELSE IF s.hwm > 0 /\ m.flag = "fin"
        THEN /\ pp' = [pp EXCEPT ![p] = [s EXCEPT !.chaser[s.hwm] = FALSE, !.todo = pre \o <<<<"flush">>>>]]
             /\ UNCHANGED inFlight
        ELSE /\ pp' = [pp EXCEPT ![p] = [s EXCEPT !.todo = pre \o <<<<"fwd", m>>>>]]
             /\ UNCHANGED inFlight
  /\ UNCHANGED <<nextSub, inSlot, retryQ, bps, nBp, reg, leader, view, log, outcome, bad, faults, moves>>

PpStep(p) ==
  /\ pp[p].todo # <<>>
  /\ LET op == Head(pp[p].todo)
         rest == Tail(pp[p].todo)
     IN
     CASE op[1] = "send" ->
            /\ bps[op[2]].in = <<>>
            /\ bps' = [bps EXCEPT ![op[2]].in = <<op[3]>>]
            /\ pp' = [pp EXCEPT ![p].todo = rest]
            /\ UNCHANGED <<nBp, reg, view, inFlight, outcome, bad>>
       [] op[1] = "unref" ->
            /\ LET u == Unref(op[2], bps, reg) IN bps' = u[1] /\ reg' = u[2]
            /\ pp' = [pp EXCEPT ![p].todo = rest]
            /\ UNCHANGED <<nBp, view, inFlight, outcome, bad>>
       [] op[1] = "fwd" ->
            IF pp[p].bp = 0
            THEN \* updateLeader: refresh metadata, pick leader, get worker, syn
                 LET g == GetBp(leader[p], bps, nBp, reg) IN
                 /\ nBp < MaxBp \/ reg[leader[p]] # 0
                 /\ view' = leader
                 /\ bps' = g[1] /\ nBp' = g[2] /\ reg' = g[3]
                 /\ pp' = [pp EXCEPT ![p].bp = g[4],
                                     ![p].todo = <<<<"send", g[4], Msg(0, p, 0, "syn")>>, <<"send", g[4], op[2]>>>> \o rest]
                 /\ inFlight' = inFlight + 1
                 /\ UNCHANGED <<outcome, bad>>
            ELSE /\ pp' = [pp EXCEPT ![p].todo = <<<<"send", pp[p].bp, op[2]>>>> \o rest]
                 /\ UNCHANGED <<bps, nBp, reg, view, inFlight, outcome, bad>>
       [] op[1] = "flush" ->
            \* one level of flushRetryBuffers
            LET h == pp[p].hwm - 1 IN
            IF pp[p].bp = 0
            THEN LET g == GetBp(leader[p], bps, nBp, reg) IN
                 /\ nBp < MaxBp \/ reg[leader[p]] # 0
                 /\ view' = leader
                 /\ bps' = g[1] /\ nBp' = g[2] /\ reg' = g[3]
                 /\ pp' = [pp EXCEPT ![p].bp = g[4],
                                     ![p].todo = <<<<"send", g[4], Msg(0, p, 0, "syn")>>>> \o pp[p].todo]
                 /\ inFlight' = inFlight + 1
                 /\ UNCHANGED <<outcome, bad>>
            ELSE LET sends == [k \in 1..Len(pp[p].buf[h]) |-> <<"send", pp[p].bp, pp[p].buf[h][k]>>]
                     more == IF pp[p].chaser[h] \/ h = 0 THEN <<<<"done">>>> ELSE <<<<"flush">>>>
                 IN
                 /\ pp' = [pp EXCEPT ![p].hwm = h, ![p].buf[h] = <<>>, ![p].todo = sends \o more \o rest]
                 /\ UNCHANGED <<bps, nBp, reg, view, inFlight, outcome, bad>>
       [] op[1] = "done" ->
            /\ inFlight' = inFlight - 1
            /\ pp' = [pp EXCEPT ![p].todo = rest]
            /\ UNCHANGED <<bps, nBp, reg, view, outcome, bad>>
  /\ UNCHANGED <<nextSub, inSlot, retryQ, ppQ, leader, log, faults, moves>>

\* partition worker start: prefetch leader, syn
PpStart(p) ==
  /\ ~pp[p].started
  /\ pp[p].todo = <<>>
  /\ ppQ[p] # <<>>
  /\ LET g == GetBp(view[p], bps, nBp, reg) IN
     /\ bps' = g[1] /\ nBp' = g[2] /\ reg' = g[3]
     /\ pp' = [pp EXCEPT ![p].started = TRUE, ![p].bp = g[4],
                         ![p].todo = <<<<"send", g[4], Msg(0, p, 0, "syn")>>>>]
  /\ inFlight' = inFlight + 1
  /\ UNCHANGED <<nextSub, inSlot, retryQ, ppQ, leader, view, log, outcome, bad, faults, moves>>

-----------------------------------------------------------------------------
(* broker worker *)
BufEmpty(b) == \A p \in Parts : b[p] = <<>>

BpRecv(i) ==
  /\ bps[i].used /\ bps[i].in # <<>>
  /\ LET m == bps[i].in[1]
         B == bps[i]
     IN
     IF m.flag = "syn"
     THEN /\ bps' = [bps EXCEPT ![i].in = <<>>, ![i].cur[m.part] = FALSE]
          /\ inFlight' = inFlight - 1
          /\ UNCHANGED <<retryQ, outcome, bad>>
     ELSE IF B.closing \/ B.cur[m.part]
     THEN \* bounce
          /\ IF m.retries >= RetryMax
             THEN LET r == ApplyOutcome(outcome, bad, <<m>>, "err") IN
                  /\ outcome' = r[1] /\ bad' = r[2]
                  /\ inFlight' = inFlight - 1
                  /\ UNCHANGED retryQ
             ELSE /\ retryQ' = Append(retryQ, [m EXCEPT !.retries = @ + 1])
                  /\ UNCHANGED <<outcome, bad, inFlight>>
          /\ bps' = [bps EXCEPT ![i].in = <<>>,
                                ![i].cur[m.part] = IF ~B.closing /\ m.flag = "fin" THEN FALSE ELSE @]
     ELSE \* add to buffer (a fin that is not bounced becomes a record: quirk)
          /\ bps' = [bps EXCEPT ![i].in = <<>>, ![i].buffer[m.part] = Append(@, m)]
          /\ UNCHANGED <<retryQ, outcome, bad, inFlight>>
  /\ UNCHANGED <<nextSub, inSlot, ppQ, pp, nBp, reg, leader, view, log, faults, moves>>

BpSend(i) ==
  /\ bps[i].used /\ ~BufEmpty(bps[i].buffer) /\ ~bps[i].out.busy
  /\ bps' = [bps EXCEPT ![i].out = [busy |-> TRUE, set |-> bps[i].buffer, res |-> "pending",
                                     kinds |-> [p \in Parts |-> "none"]],
                        ![i].buffer = EmptyBuf]
  /\ UNCHANGED <<nextSub, inSlot, retryQ, ppQ, pp, nBp, reg, leader, view, log, outcome, bad, inFlight, faults, moves>>

\* the broker answers the in-flight request of worker i
Kinds == {"ok", "retry", "retryapp", "fatal"}
BrokerHandle(i) ==
  /\ bps[i].used /\ bps[i].out.busy /\ bps[i].out.res = "pending"
  /\ \/ \* per-partition answers
        \E ks \in [Parts -> Kinds] :
          LET set == bps[i].out.set
              nf == Cardinality({p \in Parts : set[p] # <<>> /\ ks[p] # "ok" /\ leader[p] = bps[i].broker})
              ids(p) == [k \in 1..Len(set[p]) |-> set[p][k].id]
              app(p) == set[p] # <<>> /\ leader[p] = bps[i].broker /\ ks[p] \in {"ok", "retryapp"}
          IN
          /\ \A p \in Parts : set[p] = <<>> => ks[p] = "ok"
          /\ \A p \in Parts : (set[p] # <<>> /\ leader[p] # bps[i].broker) => ks[p] = "retry"  \* NOT_LEADER
          /\ faults + nf <= MaxFaults
          /\ faults' = faults + nf
          /\ log' = [p \in Parts |-> IF app(p) THEN log[p] \o ids(p) ELSE log[p]]
          /\ bps' = [bps EXCEPT ![i].out.res = "answered", ![i].out.kinds = ks]
     \/ \* connection error, before or after the append
        \E appended \in BOOLEAN :
          LET set == bps[i].out.set
              ids(p) == [k \in 1..Len(set[p]) |-> set[p][k].id]
          IN
          /\ faults < MaxFaults
          /\ faults' = faults + 1
          /\ log' = [p \in Parts |-> IF appended /\ leader[p] = bps[i].broker THEN log[p] \o ids(p) ELSE log[p]]
          /\ bps' = [bps EXCEPT ![i].out.res = "connerr"]
  /\ UNCHANGED <<nextSub, inSlot, retryQ, ppQ, pp, nBp, reg, leader, view, outcome, bad, inFlight, moves>>

Abandon(b, bpsv, regv) ==
  IF regv[b] # 0
  THEN <<[bpsv EXCEPT ![regv[b]].abandoned = (RetryMax = 0)], [regv EXCEPT ![b] = 0]>>
  ELSE <<bpsv, regv>>

BpResp(i) ==
  /\ bps[i].used /\ bps[i].out.busy /\ bps[i].out.res \in {"answered", "connerr"}
  /\ LET B == bps[i]
         set == B.out.set
     IN
     IF B.out.res = "connerr"
     THEN \E ord \in PartOrders :
          LET a == Abandon(B.broker, bps, reg)
              all == Flatten(set, ord) \o Flatten(B.buffer, ord)
              r == ApplyOutcome(outcome, bad, Exhausted(all), "err")
          IN
          /\ reg' = a[2]
          /\ bps' = [a[1] EXCEPT ![i].closing = TRUE, ![i].buffer = EmptyBuf, ![i].out = NoOut]
          /\ retryQ' = retryQ \o Bump(Requeue(all))
          /\ outcome' = r[1] /\ bad' = r[2]
          /\ inFlight' = inFlight - Len(Exhausted(all))
     ELSE \E ord \in PartOrders :
          LET ks == B.out.kinds
              okMs == Flatten([p \in Parts |-> IF ks[p] = "ok" THEN set[p] ELSE <<>>], ord)
              retryP == {p \in Parts : set[p] # <<>> /\ ks[p] \in {"retry", "retryapp"}}
              fatalP == {p \in Parts : set[p] # <<>> /\ ks[p] = "fatal"}
              errNow == Flatten([p \in Parts |-> IF p \in fatalP \/ (p \in retryP /\ RetryMax = 0) THEN set[p] ELSE <<>>], ord)
              doAbandon == RetryMax = 0 /\ (retryP # {} \/ fatalP # {})
              a == IF doAbandon THEN Abandon(B.broker, bps, reg) ELSE <<bps, reg>>
              rs == IF RetryMax = 0 THEN <<>>
                    ELSE Flatten([p \in Parts |-> IF p \in retryP THEN set[p] \o B.buffer[p] ELSE <<>>], ord)
              r1 == ApplyOutcome(outcome, bad, okMs, "ok")
              r2 == ApplyOutcome(r1[1], r1[2], errNow \o Exhausted(rs), "err")
          IN
          /\ reg' = a[2]
          /\ bps' = [a[1] EXCEPT ![i].out = NoOut,
                                 ![i].cur = [p \in Parts |-> IF RetryMax > 0 /\ p \in retryP THEN TRUE ELSE B.cur[p]],
                                 ![i].buffer = [p \in Parts |-> IF RetryMax > 0 /\ p \in retryP THEN <<>> ELSE B.buffer[p]]]
          /\ retryQ' = retryQ \o Bump(Requeue(rs))
          /\ outcome' = r2[1] /\ bad' = r2[2]
          /\ inFlight' = inFlight - Len(okMs) - Len(errNow) - Len(Exhausted(rs))
  /\ UNCHANGED <<nextSub, inSlot, ppQ, pp, nBp, leader, view, log, faults, moves>>

LeaderMove ==
  /\ moves < MaxMoves
  /\ \E p \in Parts, b \in Brokers :
       /\ b # leader[p]
       /\ leader' = [leader EXCEPT ![p] = b]
  /\ moves' = moves + 1
  /\ UNCHANGED <<nextSub, inSlot, retryQ, ppQ, pp, bps, nBp, reg, view, log, outcome, bad, inFlight, faults>>

Next ==
  \/ Submit \/ RhDeq \/ DispRecv
  \/ \E p \in Parts : PpStart(p) \/ PpRecv(p) \/ PpStep(p)
  \/ \E i \in BpIds : BpRecv(i) \/ BpSend(i) \/ BrokerHandle(i) \/ BpResp(i)
  \/ LeaderMove

Spec == Init /\ [][Next]_vars

-----------------------------------------------------------------------------
(* properties *)
RECURSIVE FirstCopies(_, _)
FirstCopies(s, seen) ==
  IF s = <<>> THEN <<>>
  ELSE IF Head(s) \in seen THEN FirstCopies(Tail(s), seen)
       ELSE <<Head(s)>> \o FirstCopies(Tail(s), seen \cup {Head(s)})

Increasing(s) == \A a, b \in 1..Len(s) : a < b => s[a] < s[b]

OrderOK == \A p \in Parts : Increasing(FirstCopies(log[p], {}))
NoBad == bad = {}
NoNilDeref == \A p \in Parts : pp[p].todo = <<>> \/ Head(pp[p].todo)[1] # "nilderef"
BpEnough == \A p \in Parts : ~(pp[p].todo # <<>> /\ Head(pp[p].todo)[1] \in {"fwd","flush"} /\ pp[p].bp = 0 /\ nBp = MaxBp /\ reg[leader[p]] = 0)
NoForeign == \A p \in Parts : \A k \in 1..Len(log[p]) : log[p][k] # 0

Quiescent ==
  /\ nextSub > NMsgs /\ inSlot = <<>> /\ retryQ = <<>>
  /\ \A p \in Parts : ppQ[p] = <<>> /\ pp[p].todo = <<>>
  /\ \A i \in BpIds : bps[i].used => (bps[i].in = <<>> /\ BufEmpty(bps[i].buffer) /\ ~bps[i].out.busy)

QuiescentDone == Quiescent => ((\A m \in Msgs : outcome[m] # "none") /\ inFlight = 0)

BufferedDrains ==  \* parked messages must not be stranded at quiescence
  Quiescent => \A p \in Parts : \A l \in Levels : pp[p].buf[l] = <<>>

View == <<nextSub, inSlot, retryQ, ppQ, pp, bps, nBp, reg, leader, view, log, outcome, bad, inFlight, faults, moves>>
=============================================================================
