SPECIFICATION Spec
CONSTANTS Children = {c1, c2}
  LogEnd = 3
  FetchMax = 2
  MsgCap = 0
  MaxFaults = 1
  MaxBc = 3
  MaxStalls = 2
INVARIANTS NoPanic InOrderOnce AcksSane ClosedWhenStuck
CHECK_DEADLOCK FALSE
