---------------------------- MODULE PartitionerPair ----------------------------
(* Two partitioners handed out by ONE PartitionerConstructor value (C17, first family):
   what a producer holds for two topics, each driven by its own topicProducer goroutine.

   NewCustomHashPartitioner(f) / NewCustomPartitioner(WithCustomHashFunction(f), ...) call the
   factory f once per constructed partitioner, so that every instance owns its hash.Hash32.
   hashPartitioner.Partition is not atomic: it does  hasher.Reset(); hasher.Write(key)  and later
   hasher.Sum32().  The machine splits a call accordingly:

     Begin(i, key, n)   instance i resets its hasher and writes the key      (hbuf[Owner(i)] = <<h>>)
     End(i)             instance i reads Sum32 and computes the partition    (from hbuf[Owner(i)])

   and explores every interleaving of the calls of the two instances.  With own hashers
   (Shared = FALSE, the code as it is) the result of a call depends on its own key only; the
   clauses are invariants.  Shared = TRUE models a constructor whose instances share one hasher
   (factory invoked once): TLC is then EXPECTED to find the clauses violated - that is why the
   schedules emitted here are replayed on real instances with a hash.Hash32 that can be held
   inside Write (harness/inpkg/partitioner_test.go); spec/PartitionerTrace.tla judges the results. *)
EXTENDS PartitionerOps, TLC, Json

CONSTANTS
  Ns,         \* partition counts
  MaxCalls,   \* calls per schedule (both instances together)
  Shared,     \* TRUE: both instances use ONE hasher (a constructor that invokes the factory once)
  EmitCases

ASSUME Ns \subseteq 1..16

VARIABLES cfg, hbuf, pend, steps, done
vars == <<cfg, hbuf, pend, steps, done>>

Insts == {0, 1}
Flags(c, a, fb) == [ctor |-> c, abs |-> a, hashfn |-> TRUE, fb |-> fb]
\* every constructor / option set that takes a hash function
Configs == {Flags("customhash", FALSE, FALSE)} \cup {Flags("custom", a, fb) : a \in BOOLEAN, fb \in BOOLEAN}

Key(k, h) == [k |-> k, h |-> h, name |-> ""]
Keys(n) == {Key(e, FakeEmpty) : e \in EmptyKinds} \cup {Key("h", h) : h \in HSmall(n)}
Bytes(key) == IF key.k \in EmptyKinds THEN "none" ELSE ToString(key.h)
Owner(i) == IF Shared THEN 0 ELSE i          \* which hasher instance i uses
None == [busy |-> FALSE, key |-> Key("h", 0), n |-> 1]

Init ==
  /\ cfg \in Configs
  /\ hbuf = [i \in Insts |-> <<>>]
  /\ pend = [i \in Insts |-> None]
  /\ steps = <<>>
  /\ done = <<>>

Started == Cardinality({k \in DOMAIN steps : steps[k].ph = "begin"})

Begin(i, key, n) ==
  /\ ~pend[i].busy
  /\ Started < MaxCalls
  \* the harness holds a call inside Write by its key bytes: overlapping calls carry different keys
  /\ \A j \in Insts : pend[j].busy => Bytes(pend[j].key) # Bytes(key)
  /\ pend' = [pend EXCEPT ![i] = [busy |-> TRUE, key |-> key, n |-> n]]
  /\ hbuf' = [hbuf EXCEPT ![Owner(i)] = <<key.h>>]                  \* Reset(); Write(key)
  /\ steps' = Append(steps, [ph |-> "begin", inst |-> i, key |-> key, n |-> n])
  /\ UNCHANGED <<cfg, done>>

HashRes(h, n) == IF cfg.abs THEN Ref(h, n) ELSE Legacy(h, n)

End(i) ==
  /\ pend[i].busy
  /\ LET sum == hbuf[Owner(i)][1]                                    \* Sum32()
         r == HashRes(sum, pend[i].n)
     IN done' = Append(done, [inst |-> i, key |-> pend[i].key, n |-> pend[i].n, ret |-> r])
  /\ pend' = [pend EXCEPT ![i] = None]
  /\ steps' = Append(steps, [ph |-> "end", inst |-> i, key |-> pend[i].key, n |-> pend[i].n])
  /\ UNCHANGED <<cfg, hbuf>>

Next ==
  \/ \E i \in Insts, n \in Ns : \E key \in Keys(n) : Begin(i, key, n)
  \/ \E i \in Insts : End(i)

Spec == Init /\ [][Next]_vars

(* ---------- clauses ---------- *)
InRange == \A k \in DOMAIN done : done[k].ret \in 0 .. (done[k].n - 1)
\* equal keys => equal partitions, whichever of the two instances is asked and whatever the other does meanwhile
EqualKeys ==
  \A a, b \in DOMAIN done : (done[a].key = done[b].key /\ done[a].n = done[b].n) => done[a].ret = done[b].ret
\* the result is the documented function of the call's OWN key
OwnKeyDecides ==
  \A k \in DOMAIN done : LET e == done[k] IN
     e.ret = IF cfg.abs THEN JavaPartition(e.key.h, e.n) ELSE AbsMod(e.key.h, e.n)
TypeOK == \A i \in Insts : Len(hbuf[i]) <= 1

(* ---------- role 2: every complete schedule as one case ---------- *)
StepJson(s) == [ph |-> s.ph, inst |-> s.inst, key |-> s.key, n |-> s.n,
                xv |-> (IF cfg.abs THEN Ref(s.key.h, s.n) ELSE Legacy(s.key.h, s.n))]
Complete == Started = MaxCalls /\ \A i \in Insts : ~pend[i].busy
Emit ==
  (EmitCases /\ Complete) =>
     PrintT(<<"CASE", ToJson([fam |-> "pair", cfg |-> cfg, steps |-> [k \in 1 .. Len(steps) |-> StepJson(steps[k])]])>>)
=============================================================================
