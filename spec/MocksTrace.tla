----------------------------- MODULE MocksTrace -----------------------------
(* Role 3: total observer for property C20.  Reads what the REAL sarama mocks did
   (harness/mocks/mocks_test.go replaying the cases generated from spec/Mocks.tla and
   spec/MocksCons.tla), drives the MocksOracle step functions (Quirks = FALSE: the mock the property
   describes) with the same operations and adds <<trace, index, clause>> to viol whenever a clause
   of the property is false on the recorded behaviour (printed at the end of each case).  Never blocks.

   Producer clauses
     fifo_outcome              the message did not receive the outcome of the expectation it took
                               (i-th received message / i-th expectation; scripted error identity)
     exactly_one_outcome       a message that took an expectation has not exactly one outcome
     unexpected_input_outcome  a message without expectation was reported as produced
     offsets_increasing        success offsets do not increase
     partition_choice          partition not the configured partitioner's choice over the configured count
     sync_return_partition     SendMessage returned another partition than the one chosen
     checker_called            the checker of the taken expectation was not run exactly once on the message
     deviation_not_reported / unexpected_report / report_arguments   ErrorReporter calls (see below)
     report_after_completion   a report was made only after the completion signal of the shutdown was observable
                               (AsyncClose: Successes() and Errors() closed)
   Consumer clauses
     consume_result (unexpected / already consumed partition), metadata_result (Topics / Partitions
     answer from the metadata set last), consecutive_offsets, message_partition
     (yielded message stamped with the partition consumer's topic/partition), yield_order, error_order,
     high_water_mark,
     deviation_not_reported / unexpected_report / report_arguments
   no_hang_or_panic          the mock hung or panicked

   ErrorReporter calls are judged structurally, never by their wording: E.rep holds, for the step
   E of the scripted run, one tuple per Errorf call the mock made DURING that step (= the values of
   the call's arguments).  The oracle knows from the situation (what was scripted vs what was
   called) how many reports the step must produce and which deviation each is:
     deviation_not_reported   fewer calls than deviations in this step
     unexpected_report        more calls than deviations in this step
     report_arguments         as many calls as deviations and as many argument values as the
                              situation has (topic / partition / offsets / counts / checker error),
                              but other values                                                    *)
EXTENDS MocksOracle, Json

Trace == ndJsonDeserialize("trace.ndjson")

VARIABLES l, viol, cf, ps, pm, obs, lastOff, cs, cb, md, st
vars == <<l, viol, cf, ps, pm, obs, lastOff, cs, cb, md, st>>

E == Trace[l]
V(i, c) == {<<E.t, i, c>>}
When(cond, i, c) == IF cond THEN V(i, c) ELSE {}

Cf0 == [mode |-> "-", pk |-> "rr", np |-> [ta |-> 1, tb |-> 1], rets |-> TRUE, quirks |-> FALSE]
Cb0 == [p \in CParts |-> 0]     \* offset before the first message yielded on p, as observed
St0 == [cases |-> 0, sends |-> 0, batches |-> 0, csends |-> 0, cops |-> 0, closes |-> 0, outcomes |-> 0, reports |-> 0]
Init == /\ l = 1 /\ viol = {} /\ cf = Cf0 /\ ps = PInit0(0) /\ pm = <<>> /\ obs = <<>>
        /\ lastOff = 0 /\ cs = CInit /\ cb = Cb0 /\ md = 0 /\ st = St0

Get(f, k, d) == IF k \in DOMAIN f THEN f[k] ELSE d
Put(f, k, v) == (k :> v) @@ f
\* observed outcome tuple <<mid, kind, err, off, part>>
OMid(o) == o[1]
OKind(o) == o[2]
OErr(o) == o[3]
OOff(o) == o[4]
OPart(o) == o[5]
RECURSIVE AddObs(_, _)
AddObs(f, outs) == IF outs = <<>> THEN f
                   ELSE AddObs(Put(f, OMid(Head(outs)), Append(Get(f, OMid(Head(outs)), <<>>), Head(outs))), Tail(outs))

\* reporter calls of one step: want = the argument tuples of the deviations the oracle expects in
\* this step (one per deviation), got = the argument tuples of the calls the mock made (E.rep)
RECURSIVE FlatArgs(_)
FlatArgs(ss) == IF ss = <<>> THEN <<>> ELSE Head(ss) \o FlatArgs(Tail(ss))
RepClauses(i, want, got) ==
  When(Len(got) < Len(want), i, "deviation_not_reported")
  \cup When(Len(got) > Len(want), i, "unexpected_report")
  \cup When(Len(got) = Len(want) /\ Len(FlatArgs(got)) = Len(FlatArgs(want)) /\ BagOf(FlatArgs(got)) # BagOf(FlatArgs(want)),
            i, "report_arguments")

\* success offsets of a list of observed outcomes must continue to increase after `from`
RECURSIVE OffViol(_, _, _)
OffViol(outs, from, i) ==
  IF outs = <<>> THEN {}
  ELSE IF OKind(Head(outs)) = "succ"
       THEN When(OOff(Head(outs)) <= from, i, "offsets_increasing") \cup OffViol(Tail(outs), OOff(Head(outs)), i)
       ELSE OffViol(Tail(outs), from, i)
RECURSIVE LastSucc(_, _)
LastSucc(outs, from) ==
  IF outs = <<>> THEN from
  ELSE LastSucc(Tail(outs), IF OKind(Head(outs)) = "succ" THEN OOff(Head(outs)) ELSE from)

-----------------------------------------------------------------------------
(* one message m handed to the producer mock; pobs = partition the real partitioner returned for it
   (-1: it was not asked), mp = msg.Partition afterwards, chk = checker invocations (expectation ids) *)
StepSend(acc, m, pobs, mp, chk, i) ==
  LET al == AllowedParts(cf, acc.ps, m)
      p == IF m.bad = 1 THEN NoPart
           ELSE IF pobs \in al THEN pobs ELSE IF mp \in al THEN mp ELSE CHOOSE q \in al : TRUE
      r == PSend(cf, acc.ps, m, p)
      wantchk == IF r.took # 0 /\ m.bad = 0 /\ HasChecker(r.ekind) THEN <<r.took>> ELSE <<>>
  IN [ps |-> r.ps,
      pm |-> Put(acc.pm, m.mid, [i |-> i, took |-> r.took, ekind |-> r.ekind, exp |-> r.outs, p |-> p]),
      \* a report in this situation is "no expectation" (no arguments), the failing checker (its error)
      \* or the failing partitioner (its error)
      repE |-> acc.repE \o [k \in DOMAIN r.rep |-> IF r.rep[k] = "checker" THEN <<ErrId("c", r.took)>>
                                                    ELSE IF r.rep[k] = "partitioner" THEN <<ErrId("p", m.mid)>> ELSE <<>>],
      v |-> acc.v \cup When(r.took # 0 /\ m.bad = 0 /\ (mp \notin al \/ (pobs # -1 /\ pobs \notin al)), i, "partition_choice")
                 \cup When(chk # wantchk, i, "checker_called")]

\* clauses about the outcomes of message mid, evaluated when the case is complete (o = all its outcomes)
MsgClauses(allobs, mid) ==
  LET x == pm[mid]
      o == Get(allobs, mid, <<>>)
      matches(a) == OKind(a) = x.exp[1].kind /\ OErr(a) = x.exp[1].err
  IN
  IF x.took = 0 THEN When(\E k \in DOMAIN o : OKind(o[k]) = "succ", x.i, "unexpected_input_outcome")
  ELSE When(Len(o) # Len(x.exp), x.i, "exactly_one_outcome")
       \cup When(Len(x.exp) = 1 /\ Len(o) >= 1 /\ ~\E k \in DOMAIN o : matches(o[k]), x.i, "fifo_outcome")
       \cup When(cf.mode = "sync" /\ \E k \in DOMAIN o : OKind(o[k]) = "succ" /\ OPart(o[k]) # x.p, x.i, "sync_return_partition")
       \cup When(cf.mode = "async" /\ x.p # NoPart /\ \E k \in DOMAIN o : OPart(o[k]) # x.p, x.i, "partition_choice")

Bad == When(E.err # "", E.i, "no_hang_or_panic")

\* E.script: the expectations a case sets before its first message
RECURSIVE ExpectAll(_, _)
ExpectAll(s, kinds) == IF kinds = <<>> THEN s ELSE ExpectAll(PExpect(s, Head(kinds)), Tail(kinds))
TReset ==
  /\ E.ev = "reset"
  /\ cf' = [mode |-> E.mode, pk |-> E.pk, np |-> [ta |-> E.npa, tb |-> E.npd], rets |-> E.rets, quirks |-> FALSE]
  /\ ps' = ExpectAll(PInit0(E.npa), E.script) /\ pm' = <<>> /\ obs' = <<>> /\ lastOff' = 0 /\ cs' = CInit /\ cb' = Cb0 /\ md' = 0
  /\ st' = [st EXCEPT !.cases = @ + 1]
  \* the violations of the previous case are printed and dropped (keeps the observer's state small)
  /\ (viol # {}) => PrintT(<<"VIOL", ToJson(viol)>>)
  /\ viol' = {}

TExpect ==
  /\ E.ev = "expect"
  /\ ps' = PExpect(ps, E.kind)
  /\ UNCHANGED <<viol, cf, pm, obs, lastOff, cs, cb, md, st>>

\* TopicConfig.SetPartitions(map[string]int32{E.topic: E.n}) on the mock
TSetParts ==
  /\ E.ev = "setparts"
  /\ ps' = PSetParts(ps, E.topic, E.n)
  /\ UNCHANGED <<viol, cf, pm, obs, lastOff, cs, cb, md, st>>

TSend ==
  /\ E.ev = "send"
  /\ LET m == [mid |-> E.mid, topic |-> E.topic, key |-> E.key, mpart |-> E.mpart, bad |-> E.bad]
         a == StepSend([ps |-> ps, pm |-> pm, repE |-> <<>>, v |-> {}], m, E.pcall[2], E.mp, E.chk, E.i)
     IN /\ ps' = a.ps /\ pm' = a.pm
        /\ viol' = viol \cup a.v \cup OffViol(E.outs, lastOff, E.i) \cup Bad \cup RepClauses(E.i, a.repE, E.rep)
  /\ obs' = AddObs(obs, E.outs)
  /\ lastOff' = LastSucc(E.outs, lastOff)
  /\ st' = [st EXCEPT !.sends = @ + 1, !.outcomes = @ + Len(E.outs), !.reports = @ + Len(E.rep)]
  /\ UNCHANGED <<cf, cs, cb, md>>

\* SyncProducer.SendMessages: E.msgs = <<<<mid, topic, key, mpart, bad>>…>>, E.after = <<<<mid, msg.Partition, msg.Offset>>…>>
TBatch ==
  /\ E.ev = "batch"
  /\ LET ms == [k \in DOMAIN E.msgs |-> [mid |-> E.msgs[k][1], topic |-> E.msgs[k][2], key |-> E.msgs[k][3], mpart |-> E.msgs[k][4], bad |-> E.msgs[k][5]]]
         r == PBatch(cf, ps, ms, [k \in DOMAIN E.after |-> E.after[k][2]])
         succs == [k \in DOMAIN r.offs |-> <<E.after[k][1], IF r.offs[k] > 0 THEN "succ" ELSE "err", "-", E.after[k][3], E.after[k][2]>>]
         \* "insufficient expectations" carries no argument, a failing checker / partitioner its error (= the returned one)
         want == [k \in DOMAIN r.rep |-> IF r.rep[k] \in {"checker", "partitioner"} THEN <<r.err>> ELSE <<>>]
     IN /\ ps' = r.ps
        /\ viol' = viol \cup When(E.ret # r.err, E.i, "fifo_outcome") \cup RepClauses(E.i, want, E.rep)
                        \cup When(\E k \in DOMAIN r.parts : r.parts[k] # NoPart /\ r.parts[k] # E.after[k][2], E.i, "partition_choice")
                        \cup OffViol(succs, lastOff, E.i) \cup Bad
        /\ lastOff' = LastSucc(succs, lastOff)
  /\ st' = [st EXCEPT !.batches = @ + 1, !.reports = @ + Len(E.rep)]
  /\ UNCHANGED <<cf, pm, obs, cs, cb, md>>

(* concurrent senders: E.order = <<<<mid, partition>>…>> is the order in which the mock asked the
   partitioner (= the order in which it received the messages that found an expectation); the j-th
   received message must get the j-th expectation.  Messages the partitioner never saw found the
   expectation FIFO empty.                                                                        *)
MsgOf(mid) == LET k == CHOOSE k \in DOMAIN E.msgs : E.msgs[k][1] = mid
              IN [mid |-> mid, topic |-> E.msgs[k][2], key |-> E.msgs[k][3], mpart |-> E.msgs[k][4], bad |-> E.msgs[k][5]]
MpOf(mid) == (CHOOSE k \in DOMAIN E.mps : E.mps[k][1] = mid)
RECURSIVE FoldOrder(_, _)
FoldOrder(acc, order) ==
  IF order = <<>> THEN acc
  ELSE LET mid == Head(order)[1]
       IN FoldOrder(StepSend(acc, MsgOf(mid), Head(order)[2], E.mps[MpOf(mid)][2], E.mps[MpOf(mid)][3], E.i), Tail(order))
RECURSIVE FoldRest(_, _)
FoldRest(acc, mids) ==
  IF mids = <<>> THEN acc
  ELSE FoldRest(StepSend(acc, MsgOf(Head(mids)), -1, E.mps[MpOf(Head(mids))][2], E.mps[MpOf(Head(mids))][3], E.i), Tail(mids))
TCSend ==
  /\ E.ev = "csend"
  /\ LET inorder == {E.order[k][1] : k \in DOMAIN E.order}
         rest == SelectSeq([k \in DOMAIN E.msgs |-> E.msgs[k][1]], LAMBDA x : x \notin inorder)
         a == FoldRest(FoldOrder([ps |-> ps, pm |-> pm, repE |-> <<>>, v |-> {}], E.order), rest)
         ordered == [k \in DOMAIN E.order |-> LET c == SelectSeq(E.outs, LAMBDA o : OMid(o) = E.order[k][1] /\ OKind(o) = "succ")
                                               IN IF c = <<>> THEN <<0, "none", "-", 0, 0>> ELSE c[1]]
     IN /\ ps' = a.ps /\ pm' = a.pm
        /\ viol' = viol \cup a.v \cup OffViol(ordered, lastOff, E.i) \cup Bad \cup RepClauses(E.i, a.repE, E.rep)
                        \cup When(Len(E.order) # Cardinality(inorder), E.i, "fifo_outcome")
        /\ lastOff' = LastSucc(ordered, lastOff)
  /\ obs' = AddObs(obs, E.outs)
  /\ st' = [st EXCEPT !.csends = @ + 1, !.outcomes = @ + Len(E.outs), !.reports = @ + Len(E.rep)]
  /\ UNCHANGED <<cf, cs, cb, md>>

TClose ==
  /\ E.ev = "close"
  /\ LET r == PClose(ps)
         allobs == AddObs(obs, E.outs)
         \* leftover expectations are reported once, with their number
         want == IF r.rep = <<>> THEN <<>> ELSE <<<<ToString(Len(ps.exps))>>>>
         \* E.rep: reports made until the step's completion signal was observable (Close returned / after
         \* AsyncClose both output channels were closed); E.late: reports made after that
     IN /\ ps' = r.ps
        /\ obs' = allobs
        /\ viol' = viol \cup Bad \cup OffViol(E.outs, lastOff, E.i)
                        \cup RepClauses(E.i, want, E.rep \o E.late)
                        \cup When(E.late # <<>>, E.i, "report_after_completion")
                        \cup UNION {MsgClauses(allobs, mid) : mid \in DOMAIN pm}
                        \cup When(\E mid \in DOMAIN allobs : mid \notin DOMAIN pm, E.i, "exactly_one_outcome")
  /\ lastOff' = LastSucc(E.outs, lastOff)
  /\ st' = [st EXCEPT !.closes = @ + 1, !.outcomes = @ + Len(E.outs), !.reports = @ + Len(E.rep)]
  /\ UNCHANGED <<cf, pm, cs, cb, md>>

-----------------------------------------------------------------------------
(* consumer mock: every operation is applied to the oracle state and the observation compared.
   E.p is a slot of MocksOracle (topic CTopicOf, partition CPartOf).  E.hwm[s+1] is
   PartitionConsumer.HighWaterMarkOffset() of slot s (-1: not registered), E.hwms[s+1] the entry of
   Consumer.HighWaterMarks()[topic][partition] (-1: no such entry).                              *)
IsMeta == E.op \in {"setmeta", "topics", "partitions"}
COp ==
  CASE E.op = "expect" -> CExpect(cs, E.p, E.off)
    [] E.op = "yieldmsg" -> CYieldMsg(cs, E.p, E.id)
    [] E.op = "yielderr" -> CYieldErr(cs, E.p, E.id)
    [] E.op = "drain" -> CDrain(cs, E.p, E.w)
    [] E.op = "consume" -> CConsume(cs, E.p, E.off)
    [] E.op = "feed" -> CFeed(cs, E.p, E.id, E.off)      \* E.id messages through E.off buffer slots; observed with the feeder at rest
    [] E.op = "readmsg" -> CReadMsg(cs, E.p)
    [] E.op = "readerr" -> CReadErr(cs, E.p)
    [] E.op = "asyncclose" -> CAsyncClose(cs, E.p)
    [] E.op = "closepc" -> CClosePC(cs, E.p)
    [] E.op = "closeall" -> CCloseAll(cs)
    [] IsMeta -> CRes(cs, "ok", <<>>)
\* the argument values of the consumer mock's deviations, from the situation before the step
PStr(q) == ToString(CPartOf(q))
CloseArgs(pc, q) ==
  IF ~pc.consumed THEN <<<<CTopicOf(q), PStr(q)>>>>                                        \* expected but never consumed
  ELSE (IF pc.de /\ pc.eq # <<>> THEN <<<<CTopicOf(q), PStr(q), ToString(Len(pc.eq))>>>> ELSE <<>>)     \* errors left
       \o (IF pc.dm /\ pc.mq # <<>> THEN <<<<CTopicOf(q), PStr(q), ToString(Len(pc.mq))>>>> ELSE <<>>)  \* messages left
RECURSIVE CloseAllArgs(_)
CloseAllArgs(q) == IF q \notin CParts THEN <<>> ELSE (IF cs[q].reg THEN CloseArgs(cs[q], q) ELSE <<>>) \o CloseAllArgs(q + 1)
CWant(r) ==
  CASE E.op = "consume" /\ r.rep = <<"unexpected_partition">> -> <<<<CTopicOf(E.p), PStr(E.p)>>>>
    [] E.op = "consume" /\ r.rep = <<"unexpected_offset">> -> <<<<CTopicOf(E.p), PStr(E.p), ToString(cs[E.p].eoff), ToString(E.off)>>>>
    [] E.op = "closepc" -> CloseArgs(cs[E.p], E.p)
    [] E.op = "closeall" -> CloseAllArgs(0)
    [] OTHER -> <<>>
\* topic metadata
MetaClauses ==
  CASE E.op = "topics" ->
         LET r == CTopics(md) IN
         When(E.ret # r.ret \/ (r.ret = "ok" /\ (ToSet(E.strs) # r.tset \/ Len(E.strs) # Cardinality(r.tset))), E.i, "metadata_result")
         \cup RepClauses(E.i, [k \in DOMAIN r.rep |-> <<>>], E.rep)
    [] E.op = "partitions" ->
         LET r == CPartitions(md, E.w) IN
         When(E.ret # r.ret \/ (r.ret = "ok" /\ E.errs # r.parts), E.i, "metadata_result")
         \cup RepClauses(E.i, [k \in DOMAIN r.rep |-> <<>>], E.rep)
    [] OTHER -> RepClauses(E.i, <<>>, E.rep)
TCop ==
  /\ E.ev = "cop"
  /\ LET r == COp
         p == E.p
         first == E.op = "yieldmsg" /\ cs[p].yields = 0
         base == IF first THEN E.val[2] - 1 ELSE IF p \in CParts THEN cb[p] ELSE 0
         \* "consecutive offsets": the first message of a partition may start anywhere, the k-th follows the (k-1)-th
         want == IF r.val = <<>> THEN <<>> ELSE <<r.val[1], base + r.val[2], CPartOf(r.val[3]), CTopicOf(r.val[3])>>
         hw(q) == (IF q = p THEN base ELSE cb[q]) + CHwm(r.cs[q])
         hwbad(q) ==
           IF ~r.cs[q].reg THEN E.hwms[q + 1] # -1                       \* HighWaterMarks() lists a partition nobody registered
           ELSE \/ E.hwms[q + 1] = -1                                    \* … or misses a registered one
                \/ r.cs[q].yields > 0 /\ (E.hwm[q + 1] # hw(q) \/ E.hwms[q + 1] # hw(q))
     IN /\ cs' = r.cs
        /\ cb' = IF first THEN [cb EXCEPT ![p] = base] ELSE cb
        /\ md' = IF E.op = "setmeta" THEN E.id ELSE md
        /\ viol' = viol \cup Bad
             \cup (IF IsMeta THEN MetaClauses ELSE RepClauses(E.i, CWant(r), E.rep))
             \cup When(E.op = "consume" /\ E.ret # r.ret, E.i, "consume_result")
             \cup When(E.op = "yieldmsg" /\ E.val[2] # want[2], E.i, "consecutive_offsets")
             \cup When(E.op = "yieldmsg" /\ <<E.val[3], E.val[4]>> # <<want[3], want[4]>>, E.i, "message_partition")
             \cup When(E.op = "readmsg" /\ E.val # want, E.i, "yield_order")
             \cup When(E.op \in {"readerr", "closepc"} /\ E.errs # r.errs, E.i, "error_order")
             \cup When(\E q \in CParts : hwbad(q), E.i, "high_water_mark")
  /\ st' = [st EXCEPT !.cops = @ + 1, !.reports = @ + Len(E.rep)]
  /\ UNCHANGED <<cf, ps, pm, obs, lastOff>>

TCend ==
  /\ E.ev = "cend"
  /\ UNCHANGED <<viol, cf, ps, pm, obs, lastOff, cs, cb, md, st>>

TEnd == /\ E.ev = "end"
        /\ PrintT(<<"VIOL", ToJson(viol)>>)
        /\ PrintT(<<"STATS", ToJson(st)>>)
        /\ UNCHANGED <<viol, cf, ps, pm, obs, lastOff, cs, cb, md, st>>

Next == /\ l <= Len(Trace)
        /\ l' = l + 1
        /\ (TReset \/ TExpect \/ TSetParts \/ TSend \/ TBatch \/ TCSend \/ TClose \/ TCop \/ TCend \/ TEnd)
Spec == Init /\ [][Next]_vars
Accepted == TLCGet("stats").diameter - 1 = Len(Trace)
=============================================================================
