------------------------------ MODULE BrokerConn ------------------------------
(* One Broker connection of sarama (broker.go: send 747-789, sendAndReceive 791-812,
   responseReceiver 875-928, Close 227-256) used by several goroutines at once,
   against a server that may answer in order, late, with a wrong correlation id, out of
   order, with garbage, close the connection, or stay silent until the read timeout.

   The code is modelled AS IT IS: Broker.send writes the request (Write) BEFORE it
   enqueues the promise (Enqueue) on b.responses, a channel of capacity
   Net.MaxOpenRequests-1, while holding b.lock. The receiver holds one more promise, so
   max+1 requests can be on the wire (InFlightBound fails, InFlightPlus1 holds).

   Code -> action map (DESIGN.md A.5):
     Start(c)      a goroutine calls a Broker request method (sendAndReceive)
     Lock(c)       b.lock.Lock() in send
     NotConn(c)    b.conn == nil  -> ErrNotConnected
     Write(c)      encode + b.write(buf) + b.correlationID++      (request on the wire)
     WriteFail(c)  b.write returns an error (peer closed the connection)
     Enqueue(c)    b.responses <- promise ; unlock ; caller waits on promise channels
     RecvTake      `for response := range b.responses`
     RecvRead      readFull(header) / decode header / correlation check / readFull(body)
                   -> response.packets <- buf   or   dead = err; response.errors <- err
     RecvTimeout   readFull(header) fails with the per-read deadline (Net.ReadTimeout)
     RecvStall     readFull(body) fails with the deadline (header and correlation id were fine)
     RecvDead      `if dead != nil { response.errors <- dead }`
     RecvExit      b.responses closed and drained -> close(b.done)
     CloseStart/CloseLock/CloseFinish   Broker.Close: lock, close(b.responses), <-b.done,
                   conn.Close, b.conn = nil
     Server(kind)  the peer answers the oldest (kind "ooo": the second oldest)
                   unanswered request                                                   *)
EXTENDS Naturals, Sequences, FiniteSets, TLC, Json

CONSTANTS NCallers,    \* callers are 1..NCallers
          Calls,       \* at most this many consecutive calls per caller
          MaxSet,      \* values of Net.MaxOpenRequests
          MaxFaults,   \* >= 1: one faulty server answer may occur; the read timeout is not budgeted, except
                       \* in role 2 where (faulty answer, read timeout) together are at most MaxFaults
          WithClose,   \* Broker.Close may race with the calls
          NoResp,      \* number of requests without response (acks=0 produce) a further goroutine may send
          EmitCases,   \* role 2: record the projection of the behaviour replayed by the harness; the
                       \* read timeout may then fire only after `timeoutAt` server answers (scripted)
          Conducted    \* role 2: environment steps (start a call, Close, a server answer, the read
                       \* timeout) happen only when the client is quiescent, except that calls may be
                       \* started in bursts - the schedules a conductor can reproduce exactly

Callers == 1..NCallers
None == 0                 \* b.lock is free
CloserId == NCallers + 1  \* b.lock held by Broker.Close
FirerId == NCallers + 2   \* b.lock held by the goroutine that sends requests without response
\* wrongid/nested/ooo: well-framed frames with a correlation id that is not the oldest outstanding one;
\* bodystall: intact header, fewer body bytes than announced, connection stays open and the peer goes on
\* answering after the client's read timeout; runt: a header that fails to decode while the peer goes on: length field <= 4 (no room for
\* a body; shorter than a header) - on the wire also a flexible v1 header with a NON-EMPTY tagged-field
\* section (kind hdrtags in the traces); oversize: length > MaxResponseSize; close: abrupt close;
\* shortbody: well-framed frame whose body cannot be decoded - only that call fails, NOT a connection fault
FaultKinds == {"wrongid", "nested", "ooo", "bodystall", "runt", "oversize", "close", "shortbody"}
Kinds == {"ok"} \cup FaultKinds

VARIABLES max,        \* Net.MaxOpenRequests of this connection
          quota,      \* number of calls each caller will make
          willClose,  \* whether Close is called in this behaviour
          pc, ncall,  \* per caller: idle / want / locked / wrote / waiting ; calls started
          lock,       \* b.lock: None, a caller, or CloserId
          corr,       \* b.correlationID
          req,        \* correlation id of each caller's current request
          unans,      \* server side: requests received and not yet answered (arrival order)
          respQ,      \* b.responses (capacity max-1)
          recv,       \* the promise the receiver goroutine holds (<<>> or <<p>>)
          srvOut,     \* bytes from the server not yet read: sequence of frames
          dead,       \* responseReceiver's sticky `dead`
          chClosed, rdone, connOpen, closer,   \* Close protocol
          srvEnded, srvClosed, srvFaulted,  \* server state
          faultAt, timeoutAt, nans,                 \* server script: which answer is faulty, number of answers so far
          pcf, nnr,   \* the goroutine sending no-response requests: idle / want / locked ; requests sent so far
          burst,      \* Conducted: "spawn" / "srv" while a burst of call starts / of server frames is going on
          sent,       \* history: frames the server sent
          done,       \* history: finished calls
          errSeen,    \* some call has returned an error
          hist        \* role 2 projection

vars == <<max, quota, willClose, pc, ncall, lock, corr, req, unans, respQ, recv, srvOut, dead,
          chClosed, rdone, connOpen, closer, srvEnded, srvClosed, srvFaulted,
          faultAt, timeoutAt, nans, pcf, nnr, burst, sent, done, errSeen, hist>>

Tag(c) == <<c, ncall[c]>>
NonIncreasing(q) == \A k \in 1..(NCallers - 1) : q[k] >= q[k + 1]

Init ==
  /\ max \in MaxSet
  /\ quota \in [Callers -> 0..Calls]
  /\ NonIncreasing(quota) /\ quota[1] > 0      \* callers are interchangeable
  /\ willClose \in (IF WithClose THEN BOOLEAN ELSE {FALSE})
  /\ pc = [c \in Callers |-> "idle"] /\ ncall = [c \in Callers |-> 0]
  /\ lock = None /\ corr = 0 /\ req = [c \in Callers |-> 0]
  /\ unans = <<>> /\ respQ = <<>> /\ recv = <<>> /\ srvOut = <<>>
  /\ dead = FALSE /\ chClosed = FALSE /\ rdone = FALSE /\ connOpen = TRUE /\ closer = "idle"
  /\ faultAt \in (IF MaxFaults = 0 THEN {0} ELSE 0..(NCallers * Calls))   \* 0: no faulty answer
  /\ timeoutAt \in (IF EmitCases THEN 0..(NCallers * Calls + 1) ELSE {0})    \* scripted: N+1 = never
  /\ EmitCases => (IF faultAt # 0 THEN 1 ELSE 0) + (IF timeoutAt # NCallers * Calls + 1 THEN 1 ELSE 0) <= MaxFaults
  /\ nans = 0 /\ burst = "none" /\ pcf = "idle" /\ nnr = 0
  /\ srvEnded = FALSE /\ srvClosed = FALSE /\ srvFaulted = FALSE
  /\ sent = {} /\ done = {} /\ errSeen = FALSE
  /\ hist = <<>>

H(a, c, kind) == hist' = IF EmitCases THEN Append(hist, [a |-> a, c |-> c, kind |-> kind]) ELSE hist
NoH == UNCHANGED hist

HE(a, c, kind) == [a |-> a, c |-> c, kind |-> kind]
\* a call of caller c returns: ok with a response content (the tag of the request the frame
\* answered), or an error (content is then meaningless)
FinishP(c, ok, content, pre) ==
  /\ pc' = [pc EXCEPT ![c] = "idle"]
  /\ done' = done \cup {[tag |-> Tag(c), ok |-> ok, res |-> content, deadAtReturn |-> dead]}
  /\ errSeen' = (errSeen \/ ~ok)
  /\ hist' = IF EmitCases THEN hist \o pre \o <<HE("ret", c, IF ok THEN "ok" ELSE "err")>> ELSE hist
Finish(c, ok, content) == FinishP(c, ok, content, <<>>)
Fail(c) == Finish(c, FALSE, Tag(c))

-----------------------------------------------------------------------------
(* callers: Broker.sendAndReceive / Broker.send *)
Start(c) ==
  /\ pc[c] = "idle" /\ ncall[c] < quota[c]
  /\ pc' = [pc EXCEPT ![c] = "want"] /\ ncall' = [ncall EXCEPT ![c] = @ + 1]
  /\ H("start", c, IF errSeen THEN "aftererr" ELSE "-")
  /\ UNCHANGED <<max, quota, willClose, lock, corr, req, unans, respQ, recv, srvOut, dead, chClosed,
                 rdone, connOpen, closer, srvEnded, srvClosed, srvFaulted, sent, done, errSeen>>

Lock(c) ==
  /\ pc[c] = "want" /\ lock = None
  /\ lock' = c /\ pc' = [pc EXCEPT ![c] = "locked"]
  /\ NoH
  /\ UNCHANGED <<max, quota, willClose, ncall, corr, req, unans, respQ, recv, srvOut, dead, chClosed,
                 rdone, connOpen, closer, srvEnded, srvClosed, srvFaulted, sent, done, errSeen>>

NotConn(c) ==
  /\ pc[c] = "locked" /\ ~connOpen
  /\ Fail(c) /\ lock' = None
  /\ UNCHANGED <<max, quota, willClose, ncall, corr, req, unans, respQ, recv, srvOut, dead, chClosed,
                 rdone, connOpen, closer, srvEnded, srvClosed, srvFaulted, sent>>

\* encode + write + correlationID++ : from here the request is on the wire
Write(c) ==
  /\ pc[c] = "locked" /\ connOpen
  /\ req' = [req EXCEPT ![c] = corr] /\ corr' = corr + 1
  /\ pc' = [pc EXCEPT ![c] = "wrote"]
  /\ IF srvClosed THEN UNCHANGED unans /\ NoH      \* written into a connection the peer has closed
     ELSE unans' = Append(unans, [corr |-> corr, tag |-> Tag(c)]) /\ H("write", c, "-")
  /\ UNCHANGED <<max, quota, willClose, ncall, lock, respQ, recv, srvOut, dead, chClosed, rdone, connOpen,
                 closer, srvEnded, srvClosed, srvFaulted, sent, done, errSeen>>

WriteFail(c) ==
  /\ pc[c] = "locked" /\ connOpen /\ srvClosed
  /\ Fail(c) /\ lock' = None
  /\ UNCHANGED <<max, quota, willClose, ncall, corr, req, unans, respQ, recv, srvOut, dead, chClosed,
                 rdone, connOpen, closer, srvEnded, srvClosed, srvFaulted, sent>>

\* b.responses <- promise: buffered channel of capacity max-1, or direct hand-off to the
\* receiver parked in `range b.responses`; then the deferred unlock
Enqueue(c) ==
  /\ pc[c] = "wrote"
  /\ \/ /\ Len(respQ) < max - 1
        /\ respQ' = Append(respQ, [corr |-> req[c], c |-> c]) /\ UNCHANGED recv
     \/ /\ respQ = <<>> /\ recv = <<>> /\ ~rdone
        /\ recv' = <<[corr |-> req[c], c |-> c]>> /\ UNCHANGED respQ
  /\ pc' = [pc EXCEPT ![c] = "waiting"] /\ lock' = None
  /\ NoH
  /\ UNCHANGED <<max, quota, willClose, ncall, corr, req, unans, srvOut, dead, chClosed, rdone, connOpen,
                 closer, srvEnded, srvClosed, srvFaulted, sent, done, errSeen>>

-----------------------------------------------------------------------------
(* responseReceiver *)
RecvTake ==
  /\ recv = <<>> /\ respQ # <<>>
  /\ recv' = <<Head(respQ)>> /\ respQ' = Tail(respQ)
  /\ NoH
  /\ UNCHANGED <<max, quota, willClose, pc, ncall, lock, corr, req, unans, srvOut, dead, chClosed, rdone,
                 connOpen, closer, srvEnded, srvClosed, srvFaulted, sent, done, errSeen>>

\* header read + decode + correlation check + body read, then the rendezvous with the caller
RecvRead ==
  /\ recv # <<>> /\ ~dead /\ srvOut # <<>> /\ ~Head(srvOut).stall
  /\ LET p == recv[1]  f == Head(srvOut) IN
       /\ srvOut' = Tail(srvOut)
       /\ IF f.ok /\ f.hdr = p.corr
            THEN /\ UNCHANGED dead
                 /\ IF f.short THEN Fail(p.c)      \* versionedDecode fails in sendAndReceive: this call only
                               ELSE Finish(p.c, TRUE, f.content)
            ELSE Fail(p.c) /\ dead' = TRUE
  /\ recv' = <<>>
  /\ UNCHANGED <<max, quota, willClose, ncall, lock, corr, req, unans, respQ, chClosed, rdone, connOpen,
                 closer, srvEnded, srvClosed, srvFaulted, sent>>

\* nothing to read until the deadline set by readFull expires
RecvTimeout ==
  /\ recv # <<>> /\ ~dead /\ srvOut = <<>>
  /\ EmitCases => nans = timeoutAt
  /\ FinishP(recv[1].c, FALSE, Tag(recv[1].c), <<HE("timeout", recv[1].c, "-")>>)
  /\ dead' = TRUE /\ recv' = <<>>
  /\ UNCHANGED <<max, quota, willClose, ncall, lock, corr, req, unans, respQ, srvOut, chClosed, rdone,
                 connOpen, closer, srvEnded, srvClosed, srvFaulted, sent>>

\* header and correlation id fine, the body read runs into the deadline
RecvStall ==
  /\ recv # <<>> /\ ~dead /\ srvOut # <<>> /\ Head(srvOut).stall
  /\ FinishP(recv[1].c, FALSE, Tag(recv[1].c), <<HE("timeout", recv[1].c, "-")>>)
  /\ dead' = TRUE /\ recv' = <<>> /\ srvOut' = Tail(srvOut)
  /\ UNCHANGED <<max, quota, willClose, ncall, lock, corr, req, unans, respQ, chClosed, rdone,
                 connOpen, closer, srvEnded, srvClosed, srvFaulted, sent>>

RecvDead ==
  /\ recv # <<>> /\ dead
  /\ Fail(recv[1].c) /\ recv' = <<>>
  /\ UNCHANGED <<max, quota, willClose, ncall, lock, corr, req, unans, respQ, srvOut, dead, chClosed, rdone,
                 connOpen, closer, srvEnded, srvClosed, srvFaulted, sent>>

RecvExit ==
  /\ chClosed /\ ~rdone /\ respQ = <<>> /\ recv = <<>>
  /\ rdone' = TRUE
  /\ NoH
  /\ UNCHANGED <<max, quota, willClose, pc, ncall, lock, corr, req, unans, respQ, recv, srvOut, dead,
                 chClosed, connOpen, closer, srvEnded, srvClosed, srvFaulted, sent, done, errSeen>>

-----------------------------------------------------------------------------
(* Broker.Close *)
CloseStart ==
  /\ willClose /\ closer = "idle"
  /\ closer' = "want"
  /\ H("close", 0, "-")
  /\ UNCHANGED <<max, quota, willClose, pc, ncall, lock, corr, req, unans, respQ, recv, srvOut, dead,
                 chClosed, rdone, connOpen, srvEnded, srvClosed, srvFaulted, sent, done, errSeen>>

CloseLock ==
  /\ closer = "want" /\ lock = None
  /\ lock' = CloserId /\ closer' = "waiting" /\ chClosed' = TRUE
  /\ NoH
  /\ UNCHANGED <<max, quota, willClose, pc, ncall, corr, req, unans, respQ, recv, srvOut, dead,
                 rdone, connOpen, srvEnded, srvClosed, srvFaulted, sent, done, errSeen>>

CloseFinish ==
  /\ closer = "waiting" /\ rdone
  /\ connOpen' = FALSE /\ lock' = None /\ closer' = "done"
  /\ H("closed", 0, "-")
  /\ UNCHANGED <<max, quota, willClose, pc, ncall, corr, req, unans, respQ, recv, srvOut, dead,
                 chClosed, rdone, srvEnded, srvClosed, srvFaulted, sent, done, errSeen>>

-----------------------------------------------------------------------------
(* the peer *)
Frame(ok, hdr, content, short, stall) == [ok |-> ok, hdr |-> hdr, content |-> content, short |-> short, stall |-> stall]
Server(kind) ==
  /\ unans # <<>> /\ connOpen /\ ~srvEnded /\ ~srvClosed
  /\ (kind # "ok") <=> (nans + 1 = faultAt)
  /\ kind = "ooo" => Len(unans) >= 2
  \* after a stalled body the peer sends nothing until the client has given up on it (else the bytes
  \* would be taken for the missing body - undetectable by any client)
  /\ dead \/ \A k \in DOMAIN srvOut : ~srvOut[k].stall
  /\ LET r == IF kind = "ooo" THEN unans[2] ELSE Head(unans)
         hdr == IF kind \in {"wrongid", "nested"} THEN r.corr + 100 ELSE r.corr
         wellFormed == kind \in {"ok", "wrongid", "nested", "ooo", "shortbody"}
         match == kind = "ok" /\ ~srvFaulted
     IN /\ srvOut' = Append(srvOut, Frame(wellFormed, hdr, r.tag, kind = "shortbody", kind = "bodystall"))
        /\ sent' = sent \cup {[tag |-> r.tag, hdr |-> hdr, ok |-> wellFormed,
                               match |-> match, oldest |-> Head(unans).corr]}
        /\ unans' = IF kind = "ooo" THEN <<Head(unans)>> \o Tail(Tail(unans)) ELSE Tail(unans)
  /\ srvFaulted' = (srvFaulted \/ kind \notin {"ok", "shortbody"})
  /\ srvEnded' = (srvEnded \/ kind \in {"oversize", "close"})
  /\ srvClosed' = (srvClosed \/ kind = "close")
  /\ H("srv", 0, kind)
  /\ UNCHANGED <<max, quota, willClose, pc, ncall, lock, corr, req, respQ, recv, dead, chClosed, rdone,
                 connOpen, closer, done, errSeen>>

-----------------------------------------------------------------------------
(* Broker.send with promiseResponse = false (e.g. Produce with RequiredAcks = NoResponse): lock, write,
   correlationID++, return - no promise, not bounded by MaxOpenRequests. Broker.write arms only the
   WRITE deadline of the connection: these writes do not touch the receiver's pending read, whose
   deadline (RecvTimeout / RecvStall) stays armed - the trace clause read_timeout_honoured measures that. *)
FireStart ==
  /\ pcf = "idle" /\ nnr < NoResp
  /\ pcf' = "want" /\ nnr' = nnr + 1
  /\ H("fire", 0, "-")
  /\ UNCHANGED <<max, quota, willClose, pc, ncall, lock, corr, req, unans, respQ, recv, srvOut, dead, chClosed,
                 rdone, connOpen, closer, srvEnded, srvClosed, srvFaulted, sent, done, errSeen>>
FireLock ==
  /\ pcf = "want" /\ lock = None
  /\ pcf' = "locked" /\ lock' = FirerId
  /\ NoH
  /\ UNCHANGED <<max, quota, willClose, pc, ncall, corr, req, unans, respQ, recv, srvOut, dead, chClosed,
                 rdone, connOpen, closer, srvEnded, srvClosed, srvFaulted, sent, done, errSeen, nnr>>
\* ErrNotConnected, a write error or nil: the call returns in every case
FireWrite ==
  /\ pcf = "locked"
  /\ pcf' = "idle" /\ lock' = None
  /\ corr' = IF connOpen THEN corr + 1 ELSE corr
  /\ H("fired", 0, "-")
  /\ UNCHANGED <<max, quota, willClose, pc, ncall, req, unans, respQ, recv, srvOut, dead, chClosed,
                 rdone, connOpen, closer, srvEnded, srvClosed, srvFaulted, sent, done, errSeen, nnr>>

-----------------------------------------------------------------------------
\* some step of the client's own goroutines is enabled (the guards of the actions above)
ClientStepEnabled ==
  \/ \E c \in Callers : \/ (pc[c] = "want" /\ lock = None)
                         \/ pc[c] = "locked"
                         \/ (pc[c] = "wrote" /\ (Len(respQ) < max - 1 \/ (respQ = <<>> /\ recv = <<>> /\ ~rdone)))
  \/ (recv = <<>> /\ respQ # <<>>)
  \/ (recv # <<>> /\ (dead \/ (srvOut # <<>> /\ ~Head(srvOut).stall)))
  \/ (chClosed /\ ~rdone /\ respQ = <<>> /\ recv = <<>>)
  \/ (closer = "want" /\ lock = None)
  \/ (closer = "waiting" /\ rdone)
  \/ (pcf = "want" /\ lock = None) \/ pcf = "locked"
EnvOK(b) == ~Conducted \/ ~ClientStepEnabled \/ (b # "none" /\ burst = b)
Burst(b) == burst' = IF Conducted THEN b ELSE "none"
LowestStartable(c) == \A d \in Callers : (pc[d] = "idle" /\ ncall[d] < quota[d]) => c <= d
Script == UNCHANGED <<faultAt, timeoutAt>>
NoFire == UNCHANGED <<pcf, nnr>>

Int(A) == A /\ burst' = "none" /\ Script /\ NoFire /\ UNCHANGED nans      \* a step of the client's own goroutines
EStart(c) == /\ Start(c) /\ (Conducted => LowestStartable(c))
             /\ EnvOK("spawn") /\ Burst("spawn") /\ Script /\ NoFire /\ UNCHANGED nans
\* (conducted: Close is started at quiescent points only - against outstanding and blocked calls; a
\* spawn burst mixing Close and calls is a race no conductor can steer, simulation covers those)
ECloseStart == CloseStart /\ EnvOK("none") /\ burst' = "none" /\ Script /\ NoFire /\ UNCHANGED nans
\* (the peer may pipeline several frames before the client reacts)
EServer(k) == Server(k) /\ EnvOK("srv") /\ Burst("srv") /\ Script /\ NoFire /\ nans' = nans + 1
ETimeout == RecvTimeout /\ EnvOK("none") /\ burst' = "none" /\ Script /\ NoFire /\ UNCHANGED nans
EStall == RecvStall /\ EnvOK("none") /\ burst' = "none" /\ Script /\ NoFire /\ UNCHANGED nans

EFireStart == FireStart /\ EnvOK("none") /\ burst' = "none" /\ Script /\ UNCHANGED nans
IFire(A) == A /\ burst' = "none" /\ Script /\ UNCHANGED nans

Next ==
  \/ \E c \in Callers : EStart(c)
  \/ ECloseStart
  \/ \E k \in Kinds : EServer(k)
  \/ ETimeout \/ EStall
  \/ \E c \in Callers : Int(Lock(c)) \/ Int(NotConn(c)) \/ Int(Write(c)) \/ Int(WriteFail(c)) \/ Int(Enqueue(c))
  \/ Int(RecvTake) \/ Int(RecvRead) \/ Int(RecvDead) \/ Int(RecvExit)
  \/ Int(CloseLock) \/ Int(CloseFinish)
  \/ EFireStart \/ IFire(FireLock) \/ IFire(FireWrite)

Spec == Init /\ [][Next]_vars

\* the client's own steps are weakly fair; nothing is assumed about the peer (a silent peer
\* is answered by RecvTimeout) nor about whether callers start calls
Fair ==
  /\ \A c \in Callers : /\ WF_vars(Int(Lock(c)))
                         /\ WF_vars(Int(NotConn(c)) \/ Int(Write(c)) \/ Int(WriteFail(c)))
                         /\ WF_vars(Int(Enqueue(c)))
  /\ WF_vars(Int(RecvTake)) /\ WF_vars(Int(RecvRead) \/ ETimeout \/ EStall) /\ WF_vars(Int(RecvDead)) /\ WF_vars(Int(RecvExit))
  /\ WF_vars(Int(CloseLock)) /\ WF_vars(Int(CloseFinish))
  /\ WF_vars(IFire(FireLock)) /\ WF_vars(IFire(FireWrite))
FairSpec == Spec /\ Fair

-----------------------------------------------------------------------------
(* properties *)
TypeOK ==
  /\ max \in MaxSet /\ lock \in Callers \cup {None, CloserId, FirerId}
  /\ pcf \in {"idle", "want", "locked"} /\ nnr <= NoResp
  /\ \A c \in Callers : pc[c] \in {"idle", "want", "locked", "wrote", "waiting"} /\ ncall[c] <= quota[c]
  /\ Len(respQ) <= max - 1 /\ Len(recv) <= 1
  /\ closer \in {"idle", "want", "waiting", "done"}

\* requests written whose call has not returned yet
OnWire == {c \in Callers : pc[c] \in {"wrote", "waiting"}}
InFlightBound == Cardinality(OnWire) <= max          \* the property's clause: FAILS on this model
InFlightPlus1 == Cardinality(OnWire) <= max + 1      \* what the code guarantees
\* the server-side count used by the observer never exceeds the true number on the wire
\* as long as the connection is healthy
ServerCountSound == (~dead /\ ~srvFaulted) => Len(unans) <= Cardinality(OnWire)

Succ(d) == d.ok
\* a call returns the response sent for that very request, or an error
OwnResponseOrError ==
  \A d \in done : Succ(d) => /\ d.res = d.tag
                             /\ \E s \in sent : s.tag = d.tag /\ s.ok /\ s.hdr = s.oldest
\* a frame whose correlation id is not the oldest outstanding request's is never delivered
MismatchNeverDelivered ==
  \A d \in done : Succ(d) => ~ \E s \in sent : s.tag = d.res /\ (~s.ok \/ s.hdr # s.oldest)
\* after the first fault (server side: first faulty frame; client side: dead) nothing succeeds
AfterFaultAllFail ==
  \A d \in done : Succ(d) => /\ ~d.deadAtReturn
                             /\ \E s \in sent : s.tag = d.tag /\ s.match
\* once the receiver is dead every promise it holds or will hold is failed
DeadIsSticky == [][dead => dead']_vars

Busy(c) == pc[c] # "idle"
EveryCallReturns == \A c \in Callers : Busy(c) ~> ~Busy(c)
CloseReturns == (closer = "want") ~> (closer = "done")
FireReturns == (pcf = "want") ~> (pcf = "idle")

-----------------------------------------------------------------------------
(* role 2: emit the projection of every complete behaviour as one JSON case *)
Complete == /\ \A c \in Callers : pc[c] = "idle" /\ ncall[c] = quota[c]
            /\ willClose => closer = "done"
            /\ pcf = "idle"
Emit == (EmitCases /\ Complete) =>
          PrintT(<<"CASE", ToJson([max |-> max, steps |-> hist])>>)
=============================================================================
