------------------------------ MODULE BrokerConn ------------------------------
(* One Broker connection of sarama (broker.go: send 747-789, sendAndReceive 791-812,
   responseReceiver 875-928, Close 227-256) used by several goroutines at once,
   against a server that may answer in order, late, with a wrong correlation id, out of
   order, with garbage, close the connection, or stay silent until the read timeout.

   The code is modelled AS IT IS: Broker.send writes the request (Write) BEFORE it
   enqueues the promise (Enqueue) on b.responses, a channel of capacity
   Net.MaxOpenRequests-1, while holding b.lock. The receiver holds one more promise, so
   max+1 requests can be on the wire (InFlightBound fails, InFlightPlus1 holds).

   Code -> action map (DESIGN.md A.5):
     Start(c)      a goroutine calls a Broker request method (sendAndReceive)
     Lock(c)       b.lock.Lock() in send
     NotConn(c)    b.conn == nil  -> ErrNotConnected
     Write(c)      encode + b.write(buf) + b.correlationID++      (request on the wire)
     WriteFail(c)  b.write returns an error (peer closed the connection)
     Enqueue(c)    b.responses <- promise ; unlock ; caller waits on promise channels
     RecvTake      `for response := range b.responses`
     RecvRead      readFull(header) / decode header / correlation check / readFull(body)
                   -> response.packets <- buf   or   dead = err; response.errors <- err
     RecvTimeout   readFull fails with the per-read deadline (Net.ReadTimeout)
     RecvDead      `if dead != nil { response.errors <- dead }`
     RecvExit      b.responses closed and drained -> close(b.done)
     CloseStart/CloseLock/CloseFinish   Broker.Close: lock, close(b.responses), <-b.done,
                   conn.Close, b.conn = nil
     Server(kind)  the peer answers the oldest (kind "ooo": the second oldest)
                   unanswered request                                                   *)
EXTENDS Naturals, Sequences, FiniteSets, TLC, Json

CONSTANTS CallerSeq,   \* sequence of caller names, e.g. <<"c1","c2","c3">>
          Calls,       \* at most this many consecutive calls per caller
          MaxSet,      \* values of Net.MaxOpenRequests
          MaxFaults,   \* number of faulty server answers (the read timeout is not budgeted)
          WithClose,   \* Broker.Close may race with the calls
          EmitCases    \* role 2: record the projection of the behaviour replayed by the harness

Callers == {CallerSeq[k] : k \in DOMAIN CallerSeq}
None == "none"
FaultKinds == {"wrongid", "nested", "ooo", "trunc", "oversize", "close"}
Kinds == {"ok"} \cup FaultKinds

VARIABLES max,        \* Net.MaxOpenRequests of this connection
          quota,      \* number of calls each caller will make
          willClose,  \* whether Close is called in this behaviour
          pc, ncall,  \* per caller: idle / want / locked / wrote / waiting ; calls started
          lock,       \* b.lock: "none", a caller, or "closer"
          corr,       \* b.correlationID
          req,        \* correlation id of each caller's current request
          unans,      \* server side: requests received and not yet answered (arrival order)
          respQ,      \* b.responses (capacity max-1)
          recv,       \* the promise the receiver goroutine holds (<<>> or <<p>>)
          srvOut,     \* bytes from the server not yet read: sequence of frames
          dead,       \* responseReceiver's sticky `dead`
          chClosed, rdone, connOpen, closer,   \* Close protocol
          faults, srvEnded, srvClosed, srvFaulted,  \* server script state
          sent,       \* history: frames the server sent
          done,       \* history: finished calls
          errSeen,    \* some call has returned an error
          hist        \* role 2 projection

vars == <<max, quota, willClose, pc, ncall, lock, corr, req, unans, respQ, recv, srvOut, dead,
          chClosed, rdone, connOpen, closer, faults, srvEnded, srvClosed, srvFaulted,
          sent, done, errSeen, hist>>

Tag(c) == <<c, ncall[c]>>
NonIncreasing(q) == \A k \in 1..(Len(CallerSeq) - 1) : q[CallerSeq[k]] >= q[CallerSeq[k + 1]]

Init ==
  /\ max \in MaxSet
  /\ quota \in [Callers -> 0..Calls]
  /\ NonIncreasing(quota) /\ quota[CallerSeq[1]] > 0      \* callers are interchangeable
  /\ willClose \in (IF WithClose THEN BOOLEAN ELSE {FALSE})
  /\ pc = [c \in Callers |-> "idle"] /\ ncall = [c \in Callers |-> 0]
  /\ lock = None /\ corr = 0 /\ req = [c \in Callers |-> 0]
  /\ unans = <<>> /\ respQ = <<>> /\ recv = <<>> /\ srvOut = <<>>
  /\ dead = FALSE /\ chClosed = FALSE /\ rdone = FALSE /\ connOpen = TRUE /\ closer = "idle"
  /\ faults = 0 /\ srvEnded = FALSE /\ srvClosed = FALSE /\ srvFaulted = FALSE
  /\ sent = {} /\ done = {} /\ errSeen = FALSE
  /\ hist = <<>>

H(a, c, kind) == hist' = IF EmitCases THEN Append(hist, [a |-> a, c |-> c, kind |-> kind]) ELSE hist
NoH == UNCHANGED hist

\* a call of caller c returns r (a response content = tag of the answered request, or "err")
Finish(c, r) ==
  /\ pc' = [pc EXCEPT ![c] = "idle"]
  /\ done' = done \cup {[tag |-> Tag(c), res |-> r, deadAtReturn |-> dead]}
  /\ errSeen' = (errSeen \/ r = "err")
  /\ H("ret", c, IF r = "err" THEN "err" ELSE "ok")

-----------------------------------------------------------------------------
(* callers: Broker.sendAndReceive / Broker.send *)
Start(c) ==
  /\ pc[c] = "idle" /\ ncall[c] < quota[c]
  /\ pc' = [pc EXCEPT ![c] = "want"] /\ ncall' = [ncall EXCEPT ![c] = @ + 1]
  /\ H("start", c, IF errSeen THEN "aftererr" ELSE "-")
  /\ UNCHANGED <<max, quota, willClose, lock, corr, req, unans, respQ, recv, srvOut, dead, chClosed,
                 rdone, connOpen, closer, faults, srvEnded, srvClosed, srvFaulted, sent, done, errSeen>>

Lock(c) ==
  /\ pc[c] = "want" /\ lock = None
  /\ lock' = c /\ pc' = [pc EXCEPT ![c] = "locked"]
  /\ NoH
  /\ UNCHANGED <<max, quota, willClose, ncall, corr, req, unans, respQ, recv, srvOut, dead, chClosed,
                 rdone, connOpen, closer, faults, srvEnded, srvClosed, srvFaulted, sent, done, errSeen>>

NotConn(c) ==
  /\ pc[c] = "locked" /\ ~connOpen
  /\ Finish(c, "err") /\ lock' = None
  /\ UNCHANGED <<max, quota, willClose, ncall, corr, req, unans, respQ, recv, srvOut, dead, chClosed,
                 rdone, connOpen, closer, faults, srvEnded, srvClosed, srvFaulted, sent>>

\* encode + write + correlationID++ : from here the request is on the wire
Write(c) ==
  /\ pc[c] = "locked" /\ connOpen
  /\ req' = [req EXCEPT ![c] = corr] /\ corr' = corr + 1
  /\ pc' = [pc EXCEPT ![c] = "wrote"]
  /\ IF srvClosed THEN UNCHANGED unans /\ NoH      \* written into a connection the peer has closed
     ELSE unans' = Append(unans, [corr |-> corr, tag |-> Tag(c)]) /\ H("write", c, "-")
  /\ UNCHANGED <<max, quota, willClose, ncall, lock, respQ, recv, srvOut, dead, chClosed, rdone, connOpen,
                 closer, faults, srvEnded, srvClosed, srvFaulted, sent, done, errSeen>>

WriteFail(c) ==
  /\ pc[c] = "locked" /\ connOpen /\ srvClosed
  /\ Finish(c, "err") /\ lock' = None
  /\ UNCHANGED <<max, quota, willClose, ncall, corr, req, unans, respQ, recv, srvOut, dead, chClosed,
                 rdone, connOpen, closer, faults, srvEnded, srvClosed, srvFaulted, sent>>

\* b.responses <- promise: buffered channel of capacity max-1, or direct hand-off to the
\* receiver parked in `range b.responses`; then the deferred unlock
Enqueue(c) ==
  /\ pc[c] = "wrote"
  /\ \/ /\ Len(respQ) < max - 1
        /\ respQ' = Append(respQ, [corr |-> req[c], c |-> c]) /\ UNCHANGED recv
     \/ /\ respQ = <<>> /\ recv = <<>> /\ ~rdone
        /\ recv' = <<[corr |-> req[c], c |-> c]>> /\ UNCHANGED respQ
  /\ pc' = [pc EXCEPT ![c] = "waiting"] /\ lock' = None
  /\ NoH
  /\ UNCHANGED <<max, quota, willClose, ncall, corr, req, unans, srvOut, dead, chClosed, rdone, connOpen,
                 closer, faults, srvEnded, srvClosed, srvFaulted, sent, done, errSeen>>

-----------------------------------------------------------------------------
(* responseReceiver *)
RecvTake ==
  /\ recv = <<>> /\ respQ # <<>>
  /\ recv' = <<Head(respQ)>> /\ respQ' = Tail(respQ)
  /\ NoH
  /\ UNCHANGED <<max, quota, willClose, pc, ncall, lock, corr, req, unans, srvOut, dead, chClosed, rdone,
                 connOpen, closer, faults, srvEnded, srvClosed, srvFaulted, sent, done, errSeen>>

\* header read + decode + correlation check + body read, then the rendezvous with the caller
RecvRead ==
  /\ recv # <<>> /\ ~dead /\ srvOut # <<>>
  /\ LET p == recv[1]  f == Head(srvOut) IN
       /\ srvOut' = Tail(srvOut)
       /\ IF f.ok /\ f.hdr = p.corr
            THEN Finish(p.c, f.content) /\ UNCHANGED dead
            ELSE Finish(p.c, "err") /\ dead' = TRUE
  /\ recv' = <<>>
  /\ UNCHANGED <<max, quota, willClose, ncall, lock, corr, req, unans, respQ, chClosed, rdone, connOpen,
                 closer, faults, srvEnded, srvClosed, srvFaulted, sent>>

\* nothing to read until the deadline set by readFull expires
RecvTimeout ==
  /\ recv # <<>> /\ ~dead /\ srvOut = <<>>
  /\ H("timeout", recv[1].c, "-") /\ FALSE = FALSE
  /\ pc' = [pc EXCEPT ![recv[1].c] = "idle"]
  /\ done' = done \cup {[tag |-> Tag(recv[1].c), res |-> "err", deadAtReturn |-> dead]}
  /\ errSeen' = TRUE
  /\ dead' = TRUE /\ recv' = <<>>
  /\ UNCHANGED <<max, quota, willClose, ncall, lock, corr, req, unans, respQ, srvOut, chClosed, rdone,
                 connOpen, closer, faults, srvEnded, srvClosed, srvFaulted, sent>>

RecvDead ==
  /\ recv # <<>> /\ dead
  /\ Finish(recv[1].c, "err") /\ recv' = <<>>
  /\ UNCHANGED <<max, quota, willClose, ncall, lock, corr, req, unans, respQ, srvOut, dead, chClosed, rdone,
                 connOpen, closer, faults, srvEnded, srvClosed, srvFaulted, sent>>

RecvExit ==
  /\ chClosed /\ ~rdone /\ respQ = <<>> /\ recv = <<>>
  /\ rdone' = TRUE
  /\ NoH
  /\ UNCHANGED <<max, quota, willClose, pc, ncall, lock, corr, req, unans, respQ, recv, srvOut, dead,
                 chClosed, connOpen, closer, faults, srvEnded, srvClosed, srvFaulted, sent, done, errSeen>>

-----------------------------------------------------------------------------
(* Broker.Close *)
CloseStart ==
  /\ willClose /\ closer = "idle"
  /\ closer' = "want"
  /\ H("close", "-", "-")
  /\ UNCHANGED <<max, quota, willClose, pc, ncall, lock, corr, req, unans, respQ, recv, srvOut, dead,
                 chClosed, rdone, connOpen, faults, srvEnded, srvClosed, srvFaulted, sent, done, errSeen>>

CloseLock ==
  /\ closer = "want" /\ lock = None
  /\ lock' = "closer" /\ closer' = "waiting" /\ chClosed' = TRUE
  /\ NoH
  /\ UNCHANGED <<max, quota, willClose, pc, ncall, corr, req, unans, respQ, recv, srvOut, dead,
                 rdone, connOpen, faults, srvEnded, srvClosed, srvFaulted, sent, done, errSeen>>

CloseFinish ==
  /\ closer = "waiting" /\ rdone
  /\ connOpen' = FALSE /\ lock' = None /\ closer' = "done"
  /\ H("closed", "-", "-")
  /\ UNCHANGED <<max, quota, willClose, pc, ncall, corr, req, unans, respQ, recv, srvOut, dead,
                 chClosed, rdone, faults, srvEnded, srvClosed, srvFaulted, sent, done, errSeen>>

-----------------------------------------------------------------------------
(* the peer *)
Frame(ok, hdr, content) == [ok |-> ok, hdr |-> hdr, content |-> content]
Server(kind) ==
  /\ unans # <<>> /\ connOpen /\ ~srvEnded /\ ~srvClosed
  /\ kind # "ok" => faults < MaxFaults
  /\ kind = "ooo" => Len(unans) >= 2
  /\ faults' = IF kind = "ok" THEN faults ELSE faults + 1
  /\ LET r == IF kind = "ooo" THEN unans[2] ELSE Head(unans)
         hdr == IF kind \in {"wrongid", "nested"} THEN r.corr + 100 ELSE r.corr
         wellFormed == kind \in {"ok", "wrongid", "nested", "ooo"}
         match == kind = "ok" /\ ~srvFaulted
     IN /\ srvOut' = Append(srvOut, Frame(wellFormed, hdr, r.tag))
        /\ sent' = sent \cup {[tag |-> r.tag, hdr |-> hdr, ok |-> wellFormed,
                               match |-> match, oldest |-> Head(unans).corr]}
        /\ unans' = IF kind = "ooo" THEN <<Head(unans)>> \o Tail(Tail(unans)) ELSE Tail(unans)
  /\ srvFaulted' = (srvFaulted \/ kind # "ok")
  /\ srvEnded' = (srvEnded \/ kind \in {"trunc", "oversize", "close"})
  /\ srvClosed' = (srvClosed \/ kind = "close")
  /\ H("srv", "-", kind)
  /\ UNCHANGED <<max, quota, willClose, pc, ncall, lock, corr, req, respQ, recv, dead, chClosed, rdone,
                 connOpen, closer, done, errSeen>>

-----------------------------------------------------------------------------
Next ==
  \/ \E c \in Callers : Start(c) \/ Lock(c) \/ NotConn(c) \/ Write(c) \/ WriteFail(c) \/ Enqueue(c)
  \/ RecvTake \/ RecvRead \/ RecvTimeout \/ RecvDead \/ RecvExit
  \/ CloseStart \/ CloseLock \/ CloseFinish
  \/ \E k \in Kinds : Server(k)

Spec == Init /\ [][Next]_vars

\* the client's own steps are weakly fair; nothing is assumed about the peer (a silent peer
\* is answered by RecvTimeout) nor about whether callers start calls
Fair ==
  /\ \A c \in Callers : WF_vars(Lock(c)) /\ WF_vars(NotConn(c) \/ Write(c) \/ WriteFail(c)) /\ WF_vars(Enqueue(c))
  /\ WF_vars(RecvTake) /\ WF_vars(RecvRead \/ RecvTimeout) /\ WF_vars(RecvDead) /\ WF_vars(RecvExit)
  /\ WF_vars(CloseLock) /\ WF_vars(CloseFinish)
FairSpec == Spec /\ Fair

-----------------------------------------------------------------------------
(* properties *)
TypeOK ==
  /\ max \in MaxSet /\ lock \in Callers \cup {None, "closer"}
  /\ \A c \in Callers : pc[c] \in {"idle", "want", "locked", "wrote", "waiting"} /\ ncall[c] <= quota[c]
  /\ Len(respQ) <= max - 1 /\ Len(recv) <= 1
  /\ closer \in {"idle", "want", "waiting", "done"}

\* requests written whose call has not returned yet
OnWire == {c \in Callers : pc[c] \in {"wrote", "waiting"}}
InFlightBound == Cardinality(OnWire) <= max          \* the property's clause: FAILS on this model
InFlightPlus1 == Cardinality(OnWire) <= max + 1      \* what the code guarantees
\* the server-side count used by the observer never exceeds the true number on the wire
\* as long as the connection is healthy
ServerCountSound == (~dead /\ ~srvFaulted) => Len(unans) <= Cardinality(OnWire)

Succ(d) == d.res # "err"
\* a call returns the response sent for that very request, or an error
OwnResponseOrError ==
  \A d \in done : Succ(d) => /\ d.res = d.tag
                             /\ \E s \in sent : s.tag = d.tag /\ s.ok /\ s.hdr = s.oldest
\* a frame whose correlation id is not the oldest outstanding request's is never delivered
MismatchNeverDelivered ==
  \A d \in done : Succ(d) => ~ \E s \in sent : s.tag = d.res /\ (~s.ok \/ s.hdr # s.oldest)
\* after the first fault (server side: first faulty frame; client side: dead) nothing succeeds
AfterFaultAllFail ==
  \A d \in done : Succ(d) => /\ ~d.deadAtReturn
                             /\ \E s \in sent : s.tag = d.tag /\ s.match
\* once the receiver is dead every promise it holds or will hold is failed
DeadIsSticky == [][dead => dead']_vars

Busy(c) == pc[c] # "idle"
EveryCallReturns == \A c \in Callers : Busy(c) ~> ~Busy(c)
CloseReturns == (closer = "want") ~> (closer = "done")

-----------------------------------------------------------------------------
(* role 2: emit the projection of every complete behaviour as one JSON case *)
Complete == /\ \A c \in Callers : pc[c] = "idle" /\ ncall[c] = quota[c]
            /\ willClose => closer = "done"
Emit == (EmitCases /\ Complete) =>
          PrintT(<<"CASE", ToJson([max |-> max, steps |-> hist])>>)
=============================================================================
