---------------------------- MODULE AdminOracle ----------------------------
(* C19 - the clauses of "admin operations reach the right broker and report its
   verdict" as pure operators over what can be observed of ONE admin operation:

     the case   what the environment was scripted to do (TLC-generated),
     att/reqs   the admin requests the brokers received, in order, each with the
                receiving broker, the true controller/owner at that moment and the
                answer the broker gave,
     res        what the ClusterAdmin call returned.

   The same operators are (a) invariants of the implementation-shaped models
   spec/Admin.tla and spec/AdminSpread.tla (history variables att/reqs/res) and
   (b) evaluated by spec/AdminTrace.tla on executions of the REAL admin.go.

   Every operator returns the SET of names of violated clauses (empty = fine).    *)
EXTENDS Integers, Sequences, FiniteSets

-----------------------------------------------------------------------------
(* Kafka releases by index: 0 "0.10.1.0", 1 "0.10.2.0", 2 "0.11.0.0", 3 "1.0.0.0",
   4 "2.0.0.0", 5 "2.4.0.0", 6 "0.10.2.1" (appended; Rank orders them).  MaxVer[api][kv+1] = highest request version a broker of
   that release understands (Kafka protocol guide; generous where releases in between
   are not in the index), -1 = the API does not exist there.                        *)
MaxVer ==
  [ CreateTopicsRequest                |-> << 0,  1,  2,  2,  3,  5,  1>>,
    DeleteTopicsRequest                |-> << 0,  0,  1,  2,  3,  4,  0>>,
    CreatePartitionsRequest            |-> <<-1, -1, -1,  0,  1,  2, -1>>,
    AlterPartitionReassignmentsRequest |-> <<-1, -1, -1, -1, -1,  0, -1>>,
    DeleteRecordsRequest               |-> <<-1, -1,  0,  0,  1,  1, -1>>,
    OffsetFetchRequest                 |-> << 1,  2,  3,  3,  4,  6,  2>>,
    DescribeGroupsRequest              |-> << 0,  0,  1,  1,  2,  4,  0>>,
    DeleteGroupsRequest                |-> <<-1, -1, -1, -1,  1,  2, -1>>,
    DescribeLogDirsRequest             |-> <<-1, -1, -1,  0,  1,  1, -1>> ]

\* position of release index kv in release order
Rank == <<1, 2, 4, 5, 6, 7, 3>>
AtLeast(kv, j) == Rank[kv + 1] >= Rank[j + 1]

(* The request version admin.go in /repo selects per configured release. Soft reference only
   (drift): the property does not prescribe exact versions, newer supported versions are as good;
   what a too old / too new version breaks is caught by the functional clauses.              *)
ExpectedVer(op, kv) ==
  CASE op = "CreateTopic" -> (IF AtLeast(kv, 3) THEN 2 ELSE IF AtLeast(kv, 2) THEN 1 ELSE 0)
    [] op = "DeleteTopic" -> (IF AtLeast(kv, 2) THEN 1 ELSE 0)
    [] op = "ListConsumerGroupOffsets" -> (IF AtLeast(kv, 1) THEN 2 ELSE 1)
    [] OTHER -> 0

ApiOf ==
  [ CreateTopic                 |-> "CreateTopicsRequest",
    DeleteTopic                 |-> "DeleteTopicsRequest",
    CreatePartitions            |-> "CreatePartitionsRequest",
    AlterPartitionReassignments |-> "AlterPartitionReassignmentsRequest",
    DeleteRecords               |-> "DeleteRecordsRequest",
    ListConsumerGroupOffsets    |-> "OffsetFetchRequest",
    DescribeConsumerGroups      |-> "DescribeGroupsRequest",
    DeleteConsumerGroup         |-> "DeleteGroupsRequest",
    DescribeLogDirs             |-> "DescribeLogDirsRequest" ]

CtlOps == {"CreateTopic", "DeleteTopic", "CreatePartitions", "AlterPartitionReassignments"}
SpreadOps == {"DeleteRecords", "ListConsumerGroupOffsets", "DescribeConsumerGroups", "DeleteConsumerGroup", "DescribeLogDirs"}
\* operations whose result is keyed by the broker that answered
FiledOps == {"DescribeLogDirs"}
\* operations whose error value is a typed error carrying the broker's code
TypedOps == {"CreateTopic", "DeleteTopic", "CreatePartitions", "DeleteConsumerGroup"}
TypedCls == {"kerr", "topicerr", "tperr"}
NotController == 41
NoCtl == -1            \* "no controller": what a metadata answer says during an election

When(cond, c) == IF cond THEN {c} ELSE {}

VersionClauses(op, kv, api, v) ==
     When(api # ApiOf[op], "request_matches_operation")
  \cup When(api \in DOMAIN MaxVer /\ v > MaxVer[api][kv + 1], "request_version_supported")

-----------------------------------------------------------------------------
(* ---------- controller-bound operations ----------
   case = [op, kv, max, init, pre, script]; script[j] = <<answer, move target / code, placement,
   k>> (k: after this step-down the next k metadata answers name no controller); pre = what the
   client knows at the start ("cached" / "empty" / "none": see Admin.tla); att = sequence of
   [b, ctl, after, api, v, ans, code]:  b the broker that received the k-th request of the
   operation, ctl the true controller when it arrived, after the true controller when the
   answer left (a NOT_CONTROLLER answer may come with a move), ans in
   {"ack","nc","err","inc","conn"}.  res = [cls, code], cls = "nil" for success.
   tail = the controller named (NoCtl: nobody) by each metadata answer the client got after
   the last request (after the start when there was no request).                          *)

\* clauses decided when the k-th request (the last element of att) arrives
CtlReqViol(case, att) ==
  LET k == Len(att)
      a == att[k]
  IN
     \* the first request goes to the controller named by the metadata the client holds
     When(k = 1 /\ a.b # case.init, "first_attempt_to_known_controller")
     \* "a NOT_CONTROLLER answer makes the admin refresh the controller and retry there"
     \cup When(k > 1 /\ att[k - 1].ans = "nc" /\ a.b # att[k - 1].after, "retry_goes_to_current_controller")
     \* "any other error is returned ... without retry" (and nothing follows an acknowledgement)
     \cup When(k > 1 /\ att[k - 1].ans \in {"err", "inc", "ack"}, "no_retry_after_other_error")
     \cup VersionClauses(case.op, case.kv, a.api, a.v)

\* index of the first scripted answer that is not NOT_CONTROLLER (0: none)
FirstDecisive(script) ==
  IF \E j \in 1..Len(script) : script[j][1] # "nc"
  THEN CHOOSE j \in 1..Len(script) : script[j][1] # "nc" /\ \A i \in 1..(j - 1) : script[i][1] = "nc"
  ELSE 0

(* A retry is a new attempt, and an attempt starts by finding the controller. After a
   NOT_CONTROLLER answer the admin refreshes (first metadata answer) and, if that named nobody,
   the new attempt looks the controller up itself (second metadata answer). An operation that
   ends with budget left is excused only if that look-up of the NEW attempt found no controller
   either - not if it never started the new attempt.                                        *)
NewAttemptFoundNobody(n, tail) ==
  Len(tail) >= (IF n = 0 THEN 1 ELSE 2) /\ tail[Len(tail)] = NoCtl

\* the j-th scripted answer can be reached: the client can find a controller for every attempt up to j
Reachable(case, j) ==
  /\ case.pre # "none"
  /\ \A i \in 1..(j - 1) : case.script[i][4] <= 1

\* clauses decided when the call returns
CtlRetViol(case, att, res, tail) ==
  LET n == Len(att)
      last == att[n]
      j == FirstDecisive(case.script)
  IN
     When(res.cls \in {"hang", "panic"}, "completes")
     \* "succeed whenever some attempt within Admin.Retry.Max is acknowledged by the
     \*  then-current controller" - declaratively, from the script: every attempt before the
     \*  j-th is answered NOT_CONTROLLER (with the move the script names; an election of at most
     \*  one metadata answer is ridden out by the refresh), the j-th one is acknowledged, and j
     \*  is within the budget
     \cup When(j >= 1 /\ j <= case.max /\ case.script[j][1] = "ack" /\ Reachable(case, j) /\ res.cls # "nil",
               "succeeds_when_acked_within_budget")
     \* a NOT_CONTROLLER answer is retried while the budget lasts
     \cup When(n >= 1 /\ last.ans = "nc" /\ n < case.max /\ ~NewAttemptFoundNobody(n, tail), "not_controller_is_retried")
     \* "success is reported only if the broker reported none": success needs a request that
     \* the controller acknowledged, and it is the last thing that happened
     \cup When(res.cls = "nil" /\ (n = 0 \/ (n >= 1 /\ last.ans # "ack")), "success_only_if_acked")
     \cup When(n >= 1 /\ last.ans = "ack" /\ last.b = last.ctl /\ res.cls \notin {"nil", "hang", "panic"},
               "acknowledged_reported_as_success")
     \* "returned to the caller unchanged": typed errors carry the broker's code (aggregate
     \* error types only have to be errors - that is success_only_if_acked)
     \cup When(n >= 1 /\ last.ans = "err" /\ case.op \in TypedOps /\ res.cls \notin {"nil", "hang", "panic"}
               /\ ~(res.cls \in TypedCls /\ res.code = last.code),
               "other_error_returned_unchanged")
     \* an operation may end with the local "no controller" error only if its last look-up
     \* really found nobody: it reports what a broker answered, or that nobody could be asked
     \cup When(res.cls = "nocontroller" /\ ~(Len(tail) >= 1 /\ tail[Len(tail)] = NoCtl), "no_controller_only_if_none_named")

-----------------------------------------------------------------------------
(* ---------- leader- / coordinator-bound operations ----------
   case = [op, kv, own, itemv, bfault, all, gerr]: own[i] the broker that leads partition i /
   coordinates group i, itemv[i] the error code the owner reports for item i (0 = none),
   bfault[b] in {"none","conn","inc"} (whole request fails: connection dropped / answer
   without the topic or group); ListConsumerGroupOffsets only: all = the caller passed a nil
   partition map ("every partition the group has offsets for", expressible from request v2 =
   release 0.10.2 on), gerr = a group-level error code the coordinator has for the whole group
   (0 = none; a version-faithful coordinator puts it at the top level from v2 on and on every
   LISTED partition before).  reqs = sequence of [b, api, v, items, ans] with ans in
   {"items","conn","inc"}.  res = [cls, code, reported, filed]: reported = items whose error
   code is visible in the value handed to the caller (DescribeConsumerGroups,
   ListConsumerGroupOffsets and DescribeLogDirs return the per-item codes inside their
   result); filed = pairs <<key, origin>>: the result holds, under broker id `key`, an answer
   that broker `origin` gave (DescribeLogDirs; the brokers' answers are distinguishable).   *)

SpreadReqViol(case, reqs) ==
  LET q == reqs[Len(reqs)]
  IN
     \* "are sent to that broker, split per broker when they span several"
     When(\E i \in q.items : i \notin DOMAIN case.own \/ case.own[i] # q.b, "sent_to_owner")
     \cup VersionClauses(case.op, case.kv, q.api, q.v)

SentItems(reqs) == UNION {reqs[k].items : k \in 1..Len(reqs)}

SpreadRetViol(case, reqs, res) ==
  LET failedWhole == \E k \in 1..Len(reqs) : reqs[k].ans \in {"conn", "inc"}
      badItems == {i \in DOMAIN case.itemv :
                     case.itemv[i] # 0 /\ \E k \in 1..Len(reqs) : reqs[k].ans = "items" /\ i \in reqs[k].items}
      allOk == /\ \A i \in DOMAIN case.itemv : case.itemv[i] = 0
               /\ \A b \in DOMAIN case.bfault : case.bfault[b] = "none"
               /\ case.gerr = 0
  IN
     When(res.cls \in {"hang", "panic"}, "completes")
     \* a call that reports complete success has sent every item (to its owner: sent_to_owner)
     \cup When(res.cls = "nil" /\ res.reported = {} /\ SentItems(reqs) # DOMAIN case.own, "every_item_sent")
     \* "an error reported by any broker or for any item makes the operation report an error"
     \cup When(failedWhole /\ res.cls = "nil", "broker_error_reported")
     \cup When(res.cls = "nil" /\ \E i \in badItems : i \notin res.reported, "item_error_reported")
     \* the coordinator's verdict on the whole group reaches the caller (as err or inside the value)
     \cup When(case.gerr # 0 /\ (\E k \in 1..Len(reqs) : reqs[k].ans = "items") /\ res.cls = "nil" /\ res.reported = {},
               "group_error_reported")
     \* "report its verdict": what a broker answered is handed to the caller as THAT broker's answer
     \cup When(\E p \in res.filed : p[1] # p[2], "answer_filed_under_its_broker")
     \cup When(case.op \in FiledOps /\ res.cls = "nil"
               /\ \E k \in 1..Len(reqs) : reqs[k].ans = "items" /\ \E i \in reqs[k].items : <<i, i>> \notin res.filed,
               "answer_filed_under_its_broker")
     \* ... and it reports the brokers' verdict: all brokers content => success
     \cup When(allOk /\ ~(res.cls = "nil" /\ res.reported = {}) /\ res.cls \notin {"hang", "panic"},
               "all_ok_reported_as_success")
     \cup When(case.op \in TypedOps /\ Len(reqs) >= 1 /\ reqs[Len(reqs)].ans = "items" /\ badItems # {}
               /\ res.cls \notin {"nil", "hang", "panic"}
               /\ ~(res.cls \in TypedCls /\ \E i \in badItems : res.code = case.itemv[i]),
               "other_error_returned_unchanged")
=============================================================================
